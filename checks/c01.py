#!/usr/bin/env python3
"""C01 — every launched packet terminates exactly once; nothing is left behind.

Runs the real `CMacIonize --task-based` binary (hooks build) over a generated
configuration matrix with the event trace and schedule jitter switched on and
checks every iteration offline (oracle/c01_check.py); then a smaller matrix on
the clang TSan build, whose reports are classified by oracle/tsan_classify.py.
"""
import concurrent.futures as cf
import json
import os
import sys

HERE = os.path.dirname(os.path.abspath(__file__))
sys.path.insert(0, os.path.join(HERE, "..", "lib"))
sys.path.insert(0, os.path.join(HERE, "..", "oracle"))
import binrun
import common
import params
import cmitrace
import c01_check
import tsan_classify

PKT_COUNTS = [1, 199, 200, 201, 399, 1001, 2000, 4001, 12345]


def gen_config(rng, i, quick):
    nsub = [rng.choice([1, 1, 2, 2, 3, 4]) for _ in range(3)]
    if i % 7 == 0:
        nsub = [1, 1, 1]
    cps = rng.choice([2, 3, 4])          # cells per subgrid per axis
    ncell = [n * cps for n in nsub]
    periodic = [rng.chance(0.35) for _ in range(3)]
    anyp = periodic[0] or periodic[1] or periodic[2]
    cont = rng.choice([None, None, "Isotropic", "Planar", "DistantStar"])
    nsrc = rng.choice([1, 1, 2, 3]) if (cont is None or rng.chance(0.6)) else 0
    diffuse = rng.choice([None, None, "FixedValue", "Physical"])
    # physical scales: box side L, hydrogen cross section sigma (fixed table) or Verner (6.3e-22 m^2 at threshold);
    # the density is chosen so that the optical depth of the box is tau_box.  A periodic box must absorb
    # (a packet in an optically thin periodic box legitimately never ends), and the source is kept so weak
    # there that the gas stays neutral over the iterations.
    L = 10.0 ** rng.uniform(15, 17)
    thick = True if anyp else rng.chance(0.5)
    tau_box = rng.uniform(4, 30) if thick else 10.0 ** rng.uniform(-3, -0.3)
    sigma = 6.3e-22
    density = tau_box / (sigma * L)
    weak = True if anyp else rng.chance(0.5)
    luminosity = 1e-30 if weak else 1e49
    box = ([-0.5 * L] * 3, [L] * 3)
    srcs = [(rng.uniform(-0.45, 0.45) * L, rng.uniform(-0.45, 0.45) * L, rng.uniform(-0.45, 0.45) * L) for _ in range(nsrc)]
    nsubtot = nsub[0] * nsub[1] * nsub[2]
    copy_level = rng.choice([0, 0, 1, 2, 3]) if nsrc > 0 else 0
    cfg = dict(ncell=ncell, nsub=nsub, periodic=periodic, copy_level=copy_level,
               nphoton=rng.choice(PKT_COUNTS if not quick else PKT_COUNTS[:8]), niter=rng.choice([2, 3]),
               seed=rng.randint(1, 10 ** 6), box=box, density=density, sigma_H=sigma, luminosity=luminosity,
               cont_flux=luminosity / (6 * L * L) * rng.uniform(0.3, 3),
               sources=srcs, continuous=cont, diffuse=diffuse,
               nbuffers=27 * nsubtot * (1 + 2 ** copy_level) + 600, queue=30000, shared_queue=30000, ntasks=60000,
               cross="FixedValue" if diffuse != "Physical" else "Verner", temperature=False)
    threads = rng.choice([1, 2, 2, 3, 4, 4, 8, 16])
    jitter = None if rng.chance(0.25) else "%d:%d:%d" % (rng.randint(1, 10 ** 6), rng.choice([5, 30, 200]), rng.choice([50, 2000]))
    return cfg, threads, jitter


def gen_single_entry_config(rng, j):
    """external source whose packets all enter through ONE subgrid (subgrids stacked along the line of sight), a packet
    count that is not a multiple of the batch size and several threads: after every full batch all staging blocks are
    empty again, so the left-over packets sit in exactly one block -- the corner in which 'which block still holds
    packets' decisions and the per-block locks matter"""
    cfg, th, jit = gen_config(rng, j, True)
    k = rng.choice([1, 2, 3, 4])
    cont = rng.choice(["Planar", "DistantStar"])
    nsub = [1, 1, k] if cont == "Planar" else [k, 1, 1]
    cps = rng.choice([2, 3])
    nsubtot = k
    cfg.update(nsub=nsub, ncell=[n * cps for n in nsub], continuous=cont, sources=[], copy_level=0,
               nphoton=rng.choice([1, 199, 201, 399, 1001, 1799, 4001]), niter=3,
               nbuffers=27 * nsubtot * 2 + 600)
    return cfg, rng.choice([2, 3, 4, 8, 16]), jit


def gen_rhd_config(rng, i):
    """radiation hydrodynamics: the same photon loop inside --task-based-rhd (2 steps, radiation every step)"""
    import hydrorun
    nsub = [rng.choice([1, 2, 2, 3]) for _ in range(3)]
    cps = rng.choice([2, 4])
    ncell = [n * cps for n in nsub]
    L = 3e16
    box = ([0., 0., 0.], [L, L, L])
    blocks, kind = hydrorun.gen_state(rng, ncell, box, kind="boxes")
    for b in blocks:
        b["density"] = 10 ** rng.uniform(7.5, 9)
    cfg = dict(ncell=ncell, nsub=nsub, periodic=[False] * 3, box=box, blocks=blocks, gamma=5. / 3., cfl=0.2, total_time=1e10, radiation=True,
               nphoton=rng.choice([199, 1001, 2000]), niter=rng.choice([1, 2]), copy_level=rng.choice([0, 1, 2]),
               nbuffers=27 * nsub[0] * nsub[1] * nsub[2] * 5 + 600, diffuse=rng.choice([None, "FixedValue"]), luminosity=1e47,
               writer="Gadget", seed=rng.randint(1, 10 ** 6), rhd=True)
    threads = rng.choice([1, 2, 4, 8])
    jitter = None if rng.chance(0.25) else "%d:%d:%d" % (rng.randint(1, 10 ** 6), rng.choice([5, 30, 200]), rng.choice([50, 2000]))
    return cfg, threads, jitter


def one_run(job):
    i, cfg, threads, jitter, exe, root, tsan = job
    rhd = bool(cfg.get("rhd"))
    rd = os.path.join(root, ("tsan%03d" if tsan else ("rhd%03d" if rhd else "run%03d")) % i)
    os.makedirs(rd, exist_ok=True)
    pf = params.rhd_params(cfg, rd) if rhd else params.photo_params(cfg, rd)
    mode_args = ["--task-based-rhd", "--number-of-steps", "2"] if rhd else ["--task-based"]
    env = {}
    if jitter:
        env["CMI_VERIF_JITTER"] = jitter
    if tsan:
        env["TSAN_OPTIONS"] = "halt_on_error=0:ignore_noninstrumented_modules=1:report_signal_unsafe=0:log_path=%s/tsan.log:second_deadlock_stack=1" % rd
    else:
        env["CMI_VERIF_TRACE"] = os.path.join(rd, "trace.bin")
        if os.path.exists(env["CMI_VERIF_TRACE"]):
            os.remove(env["CMI_VERIF_TRACE"])
        env["CMI_VERIF_TRACE_LEVEL"] = "2"
    timeout = 600 if tsan else 150
    r = binrun.run_cmi(exe, rd, ["--params", pf] + mode_args, env=env, timeout=timeout, threads=threads)
    if r.timed_out:
        if not tsan and os.path.exists(env["CMI_VERIF_TRACE"]):
            os.remove(env["CMI_VERIF_TRACE"])
        r = binrun.run_cmi(exe, rd, ["--params", pf] + mode_args, env=env, timeout=timeout, threads=threads)
    res = dict(i=i, rd=rd, rc=r.rc, timed_out=r.timed_out, threads=threads, jitter=jitter, cfg=cfg, tsan=tsan,
               stderr_tail=(r.err or "")[-600:], viol=[], stats={}, wall=r.wall)
    if tsan:
        res["tsan_reports"] = tsan_classify.classify_dir(rd, common.REPO)
        return res
    tp = os.path.join(rd, "trace.bin")
    if r.rc == 0 and os.path.exists(tp):
        ev = cmitrace.read(tp)
        V, st = c01_check.check(ev, level2=True)
        res["viol"] = V
        res["stats"] = {k: v for k, v in st.items()}
        res["nevents"] = len(ev)
    return res


def main():
    chk = common.Check("C01")
    quick = chk.tier == "quick"
    try:
        exe = binrun.binary("hooks")
        exe_tsan = binrun.binary("tsan")
    except common.BuildError as e:
        chk.inconclusive_because(str(e)); chk.finish()
    root = chk.rundir()
    replay = None
    if "--replay" in sys.argv:
        replay = json.load(open(sys.argv[sys.argv.index("--replay") + 1]))["replay"]
    rng = common.SplitMix64(chk.seed * 7919 + 1)
    nruns, ntsan = (40, 6) if quick else (600, 60)
    jobs = []
    if replay:
        jobs.append((0, replay["cfg"], replay["threads"], replay["jitter"], exe_tsan if replay.get("tsan") else exe, root, bool(replay.get("tsan"))))
    else:
        for i in range(nruns):
            cfg, th, jit = gen_config(rng.fork("c%d" % i), i, quick)
            jobs.append((i, cfg, th, jit, exe, root, False))
        # pinned inputs of repaired findings are replayed in every run (several jitter seeds each)
        pdir = os.path.join(HERE, "..", "pinned", "C01")
        k = 0
        for fn in sorted(os.listdir(pdir)) if os.path.isdir(pdir) else []:
            rp = json.load(open(os.path.join(pdir, fn)))
            for rep in range(4 if quick else 40):
                jobs.append((900 + k, rp["cfg"], rp["threads"], "%d:200:2000" % rng.randint(1, 10 ** 6), exe, root, False))
                k += 1
        for i in range(8 if quick else 120):
            cfg, th, jit = gen_single_entry_config(rng.fork("s%d" % i), i)
            jobs.append((700 + i, cfg, th, jit, exe, root, False))
        for i in range(6 if quick else 60):
            cfg, th, jit = gen_rhd_config(rng.fork("r%d" % i), i)
            jobs.append((i, cfg, th, jit, exe, root, False))
        for i in range(ntsan):
            cfg, th, jit = gen_config(rng.fork("t%d" % i), i + 1, True)
            cfg["nphoton"] = min(cfg["nphoton"], 2000)
            th = max(2, min(th, 8))
            jobs.append((i, cfg, th, jit, exe_tsan, root, True))
    tot = {}
    sched = set()
    ok_runs = 0
    distinct_cfg = set()
    tsan_counts = {"runs": 0, "reports": 0, "benign": 0, "violations": 0}
    with cf.ThreadPoolExecutor(max_workers=6) as ex:
        for res in ex.map(one_run, jobs):
            rp = dict(cfg=res["cfg"], threads=res["threads"], jitter=res["jitter"], tsan=res["tsan"])
            label = "%s threads=%d jitter=%s nsub=%s periodic=%s N=%d cont=%s diffuse=%s copy=%d" % (
                "tsan" if res["tsan"] else ("rhd" if res["cfg"].get("rhd") else "run"), res["threads"], res["jitter"], res["cfg"]["nsub"], res["cfg"]["periodic"],
                res["cfg"]["nphoton"], res["cfg"].get("continuous"), res["cfg"]["diffuse"], res["cfg"]["copy_level"])
            if res["wall"] > 30:
                print("[c01] slow run %.0f s: %s" % (res["wall"], label), flush=True)
            if res["timed_out"]:
                chk.inconclusive_because("watchdog fired twice: " + label)
                continue
            if res["rc"] != 0:
                err = res["stderr_tail"]
                if res["rc"] == 97:
                    chk.violation("termination/no-progress", "the iteration does not end: no task running, none obtainable in 2e5 consecutive polls, packets still "
                                  "unaccounted for | %s | %s" % (label, err[-200:].replace("\n", " ")), rp)
                    continue
                if "No more free elements" in err or "Too many tasks in queue" in err:
                    chk.inconclusive_because("capacity exhausted (proviso of the property): " + label)
                elif res["rc"] == 66 or "ThreadSanitizer" in err and res["tsan"]:
                    pass  # tsan exit code with reports; classified below
                else:
                    chk.violation("run/abnormal-exit", "exit status %s: %s | %s" % (res["rc"], label, err[-300:].replace("\n", " ")), rp)
                    continue
            if res["tsan"]:
                tsan_counts["runs"] += 1
                for rep in res["tsan_reports"]:
                    tsan_counts["reports"] += 1
                    if rep["benign"]:
                        tsan_counts["benign"] += 1
                        tot["tsan_benign_" + rep["benign"]] = tot.get("tsan_benign_" + rep["benign"], 0) + 1
                    else:
                        tsan_counts["violations"] += 1
                        chk.violation("tsan/" + rep["key"], "%s | %s" % (rep["summary"], label), dict(rp, report=rep["text"][:4000]))
                continue
            ok_runs += 1
            for key, text in res["viol"]:
                chk.violation(key, text + " | " + label, rp)
            for k, v in res["stats"].items():
                if k.startswith("_sched_"):
                    sched.add(k)
                else:
                    tot[k] = tot.get(k, 0) + v
            if res["stats"].get("packets_launched", 0) > 0:
                distinct_cfg.add(json.dumps(res["cfg"], sort_keys=True) + str(res["threads"]) + str(res["jitter"]))
            if len(chk.coverage["samples"]) < 4:
                chk.add_sample(dict(threads=res["threads"], jitter=res["jitter"], nsub=res["cfg"]["nsub"], periodic=res["cfg"]["periodic"],
                                    nphoton=res["cfg"]["nphoton"], niter=res["cfg"]["niter"], continuous=res["cfg"].get("continuous"),
                                    diffuse=res["cfg"]["diffuse"], copy_level=res["cfg"]["copy_level"], events=res.get("nevents"),
                                    stats={k: v for k, v in res["stats"].items() if not k.startswith("_")}))
    cov = chk.coverage
    cov["evaluations"] = len(jobs)
    cov["distinct_nontrivial"] = len(distinct_cfg)
    cov["rule"] = ("one evaluation = one complete run of the real binary on a generated configuration (layout 1..4 per axis, periodic flags, "
                   "copy level 0..3, discrete/continuous/both sources, diffuse off/FixedValue/Physical, packet counts incl. 1/199/200/201, "
                   "threads 1..16, seeded jitter); non-trivial = distinct (configuration, threads, jitter) whose trace contained launched "
                   "packets and was checked completely")
    cov["monitor_counters"] = tot
    cov["distinct_task_start_orders"] = len(sched)
    cov["traced_runs_checked"] = ok_runs
    cov["tsan"] = tsan_counts
    chk.assumptions += ["capacities (buffers/tasks/queues) are generous; a run that exhausts one is inconclusive, not a violation",
                        "TSan runs are made without the event trace (the trace's global sequence counter would synchronise the threads)",
                        "benign TSan reports: lock-free reads of TaskQueue::size / largest-buffer hint / owning thread and the monotone global_run_flag (DESIGN 1.6)"]
    if not replay:
        chk.require_nonzero(traced_runs=ok_runs, packets=tot.get("packets_launched"), premature=tot.get("premature_launches"),
                            reemit=tot.get("tasks_photon_reemit"), continuous=tot.get("launch_continuous"),
                            handovers=tot.get("handover_enters"), tsan_runs=tsan_counts["runs"], rhd_traces=tot.get("rhd_traces"))
    chk.finish()


main()
