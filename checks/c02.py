#!/usr/bin/env python3
"""C02 — a packet crossing a subgrid deposits exactly its geometric path.

The real DensitySubGrid::interact (and propagate / compute_optical_depth) is called
packet by packet on small blocks; every cell's estimator increase is turned back into
a path length (for every ion independently) and compared with the brute-force slab
intersection of the straight segment with that cell's box (harness/c02_interact.cpp).
"""
import os, sys
sys.path.insert(0, os.path.join(os.path.dirname(os.path.abspath(__file__)), "..", "lib"))
import common, hcheck

CLASSES = (["INSIDE"] + ["CORNER_" + a + b + c for a in "PN" for b in "PN" for c in "PN"]
           + ["EDGE_%s_%s%s" % (x, a, b) for x in "XYZ" for a in "PN" for b in "PN"]
           + ["FACE_%s_%s" % (x, a) for x in "XYZ" for a in "PN"])

chk = common.Check("C02")
quick = chk.tier == "quick"
try:
    exe = common.build_harness("c02_interact", "hooks")
    exe_asan = None if quick else common.build_harness("c02_interact", "asan")
except common.BuildError as e:
    chk.inconclusive_because(str(e)); chk.finish()

# pinned input of the finding illcond/runaway-step, replayed first in every run
pin_stats, _ = hcheck.run_shards(chk, exe, ["--pinned"], 1, timeout=120, abort_key="abort", hang_key="interact/no-termination")

shards = 8 if quick else 16
packets = 125000 if quick else 3200000          # per shard: 1e6 quick, ~5e7 thorough
# a crash / abort inside the traversal of an in-domain packet is itself a violation
stats, statd = hcheck.run_shards(chk, exe, ["--packets", str(packets)], shards,
                                 timeout=400 if quick else 7200, abort_key="abort", hang_key="interact/no-termination")
if exe_asan:
    env = {"ASAN_OPTIONS": "abort_on_error=1:detect_leaks=0", "UBSAN_OPTIONS": "print_stacktrace=1"}
    s2, _ = hcheck.run_shards(chk, exe_asan, ["--packets", "65000"], 16, timeout=7200, env=env,
                              abort_key="abort/sanitizer")
    stats["asan_packets"] = s2.get("packets", 0)

cov = chk.coverage
cov["evaluations"] = stats.get("packets", 0)
cov["distinct_nontrivial"] = stats.get("nontrivial_multi_cell_cases", 0)
cov["rule"] = ("one evaluation = one packet through one block (1..8 cells per axis, anisotropic, exact-lattice or generic "
               "coordinates, box away from the origin; each packet from its own PRNG stream) with all cells compared; "
               "non-trivial = well-conditioned packets that deposited more than 2*delta in at least two cells")
cov["entry_classes"] = {c: stats.get("entry_" + c, 0) for c in CLASSES}
cov["exit_classes"] = {c: stats.get("exit_" + c, 0) for c in CLASSES}
cov["monitor_counters"] = {k: v for k, v in sorted(stats.items()) if not k.startswith(("entry_", "exit_"))}
cov["pinned_witnesses_replayed"] = pin_stats.get("pinned_cases", 0)
cov["max_deposit_error_over_2delta"] = statd.get("max_deposit_error_over_2delta")
chk.assumptions += [
    "tolerances: delta = 16 eps (L+|p|)/min|dir_d| per wall crossing, chords/deposits compared within 2 delta, optical depths within "
    "2 delta*sum(kappa of cells the ray passes within 2 delta) + (8+2 Npath) eps tau_target (DESIGN.md C02, measured model)",
    "a direction component <= 1e-12 is left out of min|dir_d| only when the ray provably cannot meet a second wall of that axis "
    "inside the block; otherwise the packet is 'ill-conditioned' and only conditioning-free rules are applied to it (finite outputs, "
    "no deposit below -1 smallest cell or above a cell diagonal, end position inside the block): key illcond/runaway-step",
    "a ray lying exactly in a cell-wall plane (zero component, coordinate on the wall) may be credited to either adjacent column",
    "a coordinate on the UPPER block boundary that the entry class does not declare belongs to the neighbouring block (half-open "
    "cells): handing the packet on at once with zero path is accepted there (counter start_on_undeclared_upper_boundary_...); "
    "C03 checks that such a packet still ends up depositing the right path in the assembled grid",
    "propagate / compute_optical_depth do not move the start onto the declared boundary themselves; they are given the moved start",
    "exit class on an exact tie: in general a face is accepted when the line passes an edge within 2 delta (rounding decides); only for "
    "inputs that are bitwise symmetric under the exchange of two/three axes (same anchor, side, cell count, start coordinate, direction "
    "component, homogeneous contents) the class must name all symmetric axes, because the line crosses their edge/corner exactly",
]
need = {}
for c in CLASSES:
    need["entry_" + c] = stats.get("entry_" + c)
    need["exit_" + c] = stats.get("exit_" + c)
for k in ["absorbed", "escaped", "start_inside_on_cellface", "start_inside_on_celledge", "start_inside_on_cellcorner",
          "start_boundary_plus_1_cellface", "dir_axis_aligned_exact", "dir_one_zero_component", "dir_with_tiny_component",
          "target_tiny", "target_beyond", "target_exactly-total", "target_huge", "blocks_exact_lattice", "blocks_generic",
          "regime_accumulate_on_nonzero_estimators", "propagate_calls", "compute_optical_depth_calls",
          "nontrivial_multi_cell_cases", "symmetric_lines_through_a_block_edge", "symmetric_lines_through_a_block_corner",
          "symmetric_exits_confirmed"]:
    need[k.replace("-", "_")] = stats.get(k)
need["pinned_cases"] = pin_stats.get("pinned_cases")
chk.require_nonzero(**need)
chk.finish()
