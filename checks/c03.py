#!/usr/bin/env python3
"""C03 — ray-tracing results do not depend on how the grid is split into subgrids.

Layers (DESIGN.md, C03):
  1. harness/c03_tables.cpp    exhaustive audit of the 27-direction tables, the entry tables and
                               the neighbour wiring for every layout 1..4 per axis x 8 periodicity flags
  2. harness/c03_handover.cpp  real creator + buffers + task queues + PhotonTraversalTaskContext in a
                               single-threaded copy of the worker loop; hand-over monitor; whole-box
                               brute-force geometry; the same packets through the undivided layout
  3. harness/c03_copies.cpp    copy-level assignments: wiring of duplicates, folding, pushing state
  4. end-to-end binary comparison across layouts: added by the coordinator (see EXTENSION POINT)
"""
import os, sys
sys.path.insert(0, os.path.join(os.path.dirname(os.path.abspath(__file__)), "..", "lib"))
import common, hcheck

CLASSES = (["CORNER_" + a + b + c for a in "PN" for b in "PN" for c in "PN"]
           + ["EDGE_%s_%s%s" % (x, a, b) for x in "XYZ" for a in "PN" for b in "PN"]
           + ["FACE_%s_%s" % (x, a) for x in "XYZ" for a in "PN"])

chk = common.Check("C03")
quick = chk.tier == "quick"
try:
    exe_tab = common.build_harness("c03_tables", "hooks")
    exe_hand = common.build_harness("c03_handover", "hooks")
    exe_cop = common.build_harness("c03_copies", "hooks")
    asan = {} if quick else {n: common.build_harness(n, "asan") for n in ("c03_tables", "c03_handover", "c03_copies")}
except common.BuildError as e:
    chk.inconclusive_because(str(e)); chk.finish()

cov = chk.coverage
env1 = {"OMP_NUM_THREADS": "1"}

# ---- layer 1: finite, enumerated completely (no seed involved)
t_stats, _ = hcheck.run_shards(chk, exe_tab, [], 1, timeout=600, abort_key="tables/abort")
cov["tables"] = {"exhaustive": True, "counters": t_stats,
                 "what": "27 opposite entries, 64 exit masks, 27x216 compatibility entries (both tables), 27 entry classes x every "
                         "cell of 5 block shapes, neighbour tables of all 512 (layout 1..4 per axis x periodicity) configurations"}

# ---- layer 2: hand-over
# pinned input of the finding handover/no-termination, replayed first in every run
pin_stats, _ = hcheck.run_shards(chk, exe_hand, ["--pinned"], 1, timeout=200, env=env1, abort_key="handover/abort", hang_key="handover/no-termination")
cov["pinned_witnesses_replayed"] = pin_stats.get("pinned_cases", 0)
shards = 8 if quick else 16
cases = 250 if quick else 5000
packets = 2000
h_stats, h_statd = hcheck.run_shards(chk, exe_hand, ["--cases", str(cases), "--packets", str(packets)], shards,
                                     timeout=600 if quick else 14400, env=env1, abort_key="handover/abort", hang_key="handover/no-termination")
cov["handover"] = {"counters": {k: v for k, v in sorted(h_stats.items()) if not k.startswith("handover_entry_")},
                   "entry_classes_at_handover": {c: h_stats.get("handover_entry_" + c, 0) for c in CLASSES},
                   "max_error_over_tolerance": h_statd}

# ---- layer 3: copies
c_shards = 8
c_cases = 25 if quick else 1250
c_stats, _ = hcheck.run_shards(chk, exe_cop, ["--cases", str(c_cases), "--threads", "2"], c_shards, timeout=900 if quick else 7200,
                               abort_key="copies/abort")
cov["copies"] = {"counters": c_stats}

# ---- thorough: the same harnesses under ASan+UBSan (smaller counts)
if asan:
    env = {"ASAN_OPTIONS": "abort_on_error=1:detect_leaks=0", "UBSAN_OPTIONS": "print_stacktrace=1", "OMP_NUM_THREADS": "1"}
    hcheck.run_shards(chk, asan["c03_tables"], [], 1, timeout=1800, env=env, abort_key="tables/abort-sanitizer")
    a_stats, _ = hcheck.run_shards(chk, asan["c03_handover"], ["--cases", "60", "--packets", "1000"], 16, timeout=14400, env=env,
                                   abort_key="handover/abort-sanitizer")
    hcheck.run_shards(chk, asan["c03_copies"], ["--cases", "60", "--threads", "1"], 8, timeout=7200, env=env, abort_key="copies/abort-sanitizer")
    cov["asan_layout_cases"] = a_stats.get("layout_cases", 0)

# ---- layer 4: EXTENSION POINT (coordinator) -------------------------------------------------------
# End-to-end differential of the real binary: one thread, no diffuse field, copy level 0, one source
# => identical packet set for every layout; compare the H-photo-state dump (CMI_VERIF_STATE_DUMP) of the
# mean intensities after one iteration across layouts {1x1x1, 2x2x2, 4x2x1, ...}.
# Add the runs here, report mismatches with chk.violation("end-to-end/<clause>", text, replay) and put the
# counters into cov["end_to_end"]; nothing above depends on it.
def layer4_end_to_end(chk, cov):
    return None


layer4_end_to_end(chk, cov)
# ---------------------------------------------------------------------------------------------------

cov["evaluations"] = (h_stats.get("packets", 0) + h_stats.get("edge_start_packets", 0)) * 2 + c_stats.get("assignments", 0) \
    + c_stats.get("reassignments", 0) + sum(t_stats.values())
cov["distinct_nontrivial"] = h_stats.get("layout_cases", 0) + c_stats.get("assignments_with_copies", 0)
cov["rule"] = ("evaluations = packets traced through the real hand-over machinery (each list once split, once undivided) + copy-level "
               "assignments + table entries; non-trivial = distinct (box, cell counts, layout, periodicity, opacity field, copy levels) "
               "worlds traced with 2000 packets each + copy-level assignments that created at least one copy")
chk.assumptions += [
    "hand-over harness: one thread, re-emission switched on only to route absorbed packets into the 'inside' buffers where the harness "
    "harvests them (no re-emission happens); premature launch and scheduling use the repo's own classes",
    "per-packet tolerances: crossing uncertainty delta = (16 + 2 K) eps (S+|p|)/min|dir_d| for K wall crossings; absorption point "
    "uncertainty (2 delta sum kappa + (8+2K) eps tau)/kappa_min; a cell's tolerance is the sum over the packets that pass it or one "
    "of its 26 neighbours (same model as C02, accumulated)",
    "opacity strictly positive with contrast <= 1000 (zero-density cells are covered by C02); no direction component with "
    "0 < |dir_d| < 1e-12 (that regime is C02's illcond/runaway-step finding); rays lying exactly in a wall plane are kept off the walls",
    "a packet list whose run does not end within 300000 tasks (20000 for the 128-packet edge-start list; a normal run needs a few "
    "hundred) is reported as handover/no-termination and its estimators are not compared",
]
need = {"pinned_cases": pin_stats.get("pinned_cases"), "tables_neighbour_entries": t_stats.get("neighbour_entries_checked"), "tables_wrapped": t_stats.get("neighbour_entries_wrapped"),
        "tables_self_by_wrap": t_stats.get("neighbour_entries_self_by_wrap"), "tables_masks": t_stats.get("masks_valid_checked"),
        "tables_compat": t_stats.get("compatibility_entries_checked"), "tables_entry": t_stats.get("entry_table_cases_checked"),
        "handovers": h_stats.get("handovers"), "handovers_periodic_wrap": h_stats.get("handovers_periodic_wrap"),
        "handovers_to_itself_by_wrap": h_stats.get("handovers_to_itself_by_wrap"), "handovers_into_copies": h_stats.get("handovers_into_copies"),
        "periodic_axis_with_1_subgrid": h_stats.get("periodic_axis_with_1_subgrid"),
        "periodic_axis_with_2_subgrids": h_stats.get("periodic_axis_with_2_subgrids"),
        "cells_compared": h_stats.get("cells_compared"), "decisions_absorbed": h_stats.get("decisions_compared_absorbed"),
        "decisions_escaped": h_stats.get("decisions_compared_escaped"), "worlds_exact_lattice": h_stats.get("worlds_exact_lattice"),
        "worlds_generic": h_stats.get("worlds_generic"), "source_buffers_into_copies": h_stats.get("source_buffers_into_copies"),
        "copies_gap_face": c_stats.get("copy_neighbours_level_gap_ge2_across_face"),
        "copies_gap_edge": c_stats.get("copy_neighbours_level_gap_ge2_across_edge"),
        "copies_gap_corner": c_stats.get("copy_neighbours_level_gap_ge2_across_corner"),
        "fold_originals": c_stats.get("fold_originals_checked"), "push_copies": c_stats.get("push_copies_checked"),
        "reassignments": c_stats.get("reassignments")}
for p in range(8):
    need["periodicity_%d%d%d" % (p & 1, (p >> 1) & 1, (p >> 2) & 1)] = h_stats.get("periodicity_%d%d%d" % (p & 1, (p >> 1) & 1, (p >> 2) & 1))
for n in range(1, 5):
    need["subgrids_per_axis_%d" % n] = h_stats.get("subgrids_per_axis_%d" % n)
for c in CLASSES:
    need["handover_entry_" + c] = h_stats.get("handover_entry_" + c)
chk.require_nonzero(**need)
chk.finish()
