#!/usr/bin/env python3
"""C03 — ray-tracing results do not depend on how the grid is split into subgrids.

Layers (DESIGN.md, C03):
  1. harness/c03_tables.cpp    exhaustive audit of the 27-direction tables, the entry tables and
                               the neighbour wiring for every layout 1..4 per axis x 8 periodicity flags
  2. harness/c03_handover.cpp  real creator + buffers + task queues + PhotonTraversalTaskContext in a
                               single-threaded copy of the worker loop; hand-over monitor; whole-box
                               brute-force geometry; the same packets through the undivided layout
  3. harness/c03_copies.cpp    copy-level assignments: wiring of duplicates, folding, pushing state
  4. end-to-end binary comparison across layouts: added by the coordinator (see EXTENSION POINT)
"""
import os, sys
sys.path.insert(0, os.path.join(os.path.dirname(os.path.abspath(__file__)), "..", "lib"))
import common, hcheck

CLASSES = (["CORNER_" + a + b + c for a in "PN" for b in "PN" for c in "PN"]
           + ["EDGE_%s_%s%s" % (x, a, b) for x in "XYZ" for a in "PN" for b in "PN"]
           + ["FACE_%s_%s" % (x, a) for x in "XYZ" for a in "PN"])

chk = common.Check("C03")
quick = chk.tier == "quick"
try:
    exe_tab = common.build_harness("c03_tables", "hooks")
    exe_hand = common.build_harness("c03_handover", "hooks")
    exe_cop = common.build_harness("c03_copies", "hooks")
    asan = {} if quick else {n: common.build_harness(n, "asan") for n in ("c03_tables", "c03_handover", "c03_copies")}
except common.BuildError as e:
    chk.inconclusive_because(str(e)); chk.finish()

cov = chk.coverage
env1 = {"OMP_NUM_THREADS": "1"}

# ---- layer 1: finite, enumerated completely (no seed involved)
t_stats, _ = hcheck.run_shards(chk, exe_tab, [], 1, timeout=600, abort_key="tables/abort")
cov["tables"] = {"exhaustive": True, "counters": t_stats,
                 "what": "27 opposite entries, 64 exit masks, 27x216 compatibility entries (both tables), 27 entry classes x every "
                         "cell of 5 block shapes, neighbour tables of all 512 (layout 1..4 per axis x periodicity) configurations"}

# ---- layer 2: hand-over
# pinned input of the finding handover/no-termination, replayed first in every run
pin_stats, _ = hcheck.run_shards(chk, exe_hand, ["--pinned"], 1, timeout=200, env=env1, abort_key="handover/abort", hang_key="handover/no-termination")
cov["pinned_witnesses_replayed"] = pin_stats.get("pinned_cases", 0)
shards = 8 if quick else 16
cases = 250 if quick else 5000
packets = 2000
h_stats, h_statd = hcheck.run_shards(chk, exe_hand, ["--cases", str(cases), "--packets", str(packets)], shards,
                                     timeout=600 if quick else 14400, env=env1, abort_key="handover/abort", hang_key="handover/no-termination")
cov["handover"] = {"counters": {k: v for k, v in sorted(h_stats.items()) if not k.startswith("handover_entry_")},
                   "entry_classes_at_handover": {c: h_stats.get("handover_entry_" + c, 0) for c in CLASSES},
                   "max_error_over_tolerance": h_statd}

# ---- layer 3: copies
c_shards = 8
c_cases = 25 if quick else 1250
c_stats, _ = hcheck.run_shards(chk, exe_cop, ["--cases", str(c_cases), "--threads", "2"], c_shards, timeout=900 if quick else 7200,
                               abort_key="copies/abort")
cov["copies"] = {"counters": c_stats}

# ---- thorough: the same harnesses under ASan+UBSan (smaller counts)
if asan:
    env = {"ASAN_OPTIONS": "abort_on_error=1:detect_leaks=0", "UBSAN_OPTIONS": "print_stacktrace=1", "OMP_NUM_THREADS": "1"}
    hcheck.run_shards(chk, asan["c03_tables"], [], 1, timeout=1800, env=env, abort_key="tables/abort-sanitizer")
    a_stats, _ = hcheck.run_shards(chk, asan["c03_handover"], ["--cases", "60", "--packets", "1000"], 16, timeout=14400, env=env,
                                   abort_key="handover/abort-sanitizer")
    hcheck.run_shards(chk, asan["c03_copies"], ["--cases", "60", "--threads", "1"], 8, timeout=7200, env=env, abort_key="copies/abort-sanitizer")
    cov["asan_layout_cases"] = a_stats.get("layout_cases", 0)

# ---- layer 4: EXTENSION POINT (coordinator) -------------------------------------------------------
# End-to-end differential of the real binary: one thread, no diffuse field, copy level 0, one source
# => identical packet set for every layout; compare the H-photo-state dump (CMI_VERIF_STATE_DUMP) of the
# mean intensities after one iteration across layouts {1x1x1, 2x2x2, 4x2x1, ...}.
# Add the runs here, report mismatches with chk.violation("end-to-end/<clause>", text, replay) and put the
# counters into cov["end_to_end"]; nothing above depends on it.
def layer4_end_to_end(chk, cov):
    """The real binary, one thread, one source, no diffuse field, copy level 0: random numbers are only consumed by the
    source tasks, so the packet set is the same for every layout; the H-photo-state dump of the per-cell estimators
    after one iteration (copies folded) must agree across layouts up to summation round-off."""
    import struct
    import binrun, params as P
    exe = binrun.binary("hooks")
    root = chk.rundir()
    rng = common.SplitMix64(chk.seed * 6700417 + 3)
    quick_ = chk.tier == "quick"
    ncfg = 3 if quick_ else 12
    st = dict(configs=0, runs=0, cells_compared=0, max_rel_diff=0.)
    for c in range(ncfg):
        r = rng.fork("e%d" % c)
        L = 10.0 ** r.uniform(15, 17)
        periodic = [False] * 3 if c % 3 != 2 else [r.chance(0.5), True, r.chance(0.5)]
        tau = r.uniform(3, 12) if any(periodic) or r.chance(0.5) else r.uniform(0.05, 1.)
        base = dict(ncell=[12, 12, 12], periodic=periodic, copy_level=0, nphoton=r.choice([2000, 5001]), niter=1, seed=r.randint(1, 10 ** 6),
                    box=([-0.5 * L] * 3, [L] * 3), density=tau / (6.3e-22 * L), sigma_H=6.3e-22, luminosity=1e-30,
                    sources=[tuple(r.uniform(-0.4, 0.4) * L for _ in range(3))], continuous=None, diffuse=None, nbuffers=4000,
                    queue=30000, shared_queue=30000, ntasks=60000, cross="FixedValue", temperature=False)
        layouts = [[1, 1, 1], [2, 2, 2], [4, 2, 1], [3, 1, 2], [1, 4, 3], [4, 4, 4]]
        if quick_:
            layouts = layouts[:1] + [layouts[1 + (c + k) % 5] for k in range(3)]
        dumps = {}
        for l in layouts:
            rd = os.path.join(root, "e2e_%d_%s" % (c, "x".join(map(str, l))))
            os.makedirs(rd, exist_ok=True)
            pf = P.photo_params(dict(base, nsub=l), rd)
            rr = binrun.run_cmi(exe, rd, ["--params", pf, "--task-based"], env={"CMI_VERIF_STATE_DUMP": os.path.join(rd, "st_")}, timeout=300, threads=1)
            st["runs"] += 1
            fn = os.path.join(rd, "st_photo_ion_000.bin")
            if rr.rc != 0 or not os.path.exists(fn):
                chk.violation("end-to-end/run-failed", "layout %s: exit status %s, dump %s | %s" % (l, rr.rc, os.path.exists(fn), (rr.err or "")[-300:].replace("\n", " ")),
                              dict(cfg=dict(base, nsub=l)))
                continue
            with open(fn, "rb") as f:
                nx, ny, nz, nv = struct.unpack("<4Q", f.read(32))
                data = struct.unpack("<%dd" % (nx * ny * nz * nv), f.read())
            dumps[tuple(l)] = (nv, data)
        ref = dumps.get((1, 1, 1))
        if not ref:
            continue
        st["configs"] += 1
        nv, a = ref
        ncell = len(a) // nv
        jmean = sum(a[i * nv] for i in range(ncell)) / ncell
        if jmean <= 0:
            chk.inconclusive_because("end-to-end reference run deposited nothing")
            continue
        for l, (nv2, b) in dumps.items():
            if l == (1, 1, 1):
                continue
            worst, where = 0., None
            for i in range(ncell):
                for k in (0, nv - 4):      # hydrogen mean intensity, hydrogen heating term
                    x, y = a[i * nv + k], b[i * nv + k]
                    scale = max(abs(x), 1e-6 * (jmean if k == 0 else abs(x) + abs(y)))
                    if scale > 0:
                        d = abs(x - y) / scale
                        if d > worst:
                            worst, where = d, (i, k, x, y)
            st["cells_compared"] += ncell
            st["max_rel_diff"] = max(st["max_rel_diff"], worst)
            if worst > 1e-9:
                chk.violation("end-to-end/estimators-differ", "layout %s vs undivided grid: cell %d variable %d: %.17g vs %.17g (relative %.3e) periodic=%s N=%d tau_box=%.2f" % (
                    list(l), where[0], where[1], where[3], where[2], worst, periodic, base["nphoton"], tau), dict(cfg=dict(base, nsub=list(l))))
    cov["end_to_end"] = st
    return st


layer4_end_to_end(chk, cov)
# ---------------------------------------------------------------------------------------------------

cov["evaluations"] = (h_stats.get("packets", 0) + h_stats.get("edge_start_packets", 0)) * 2 + c_stats.get("assignments", 0) \
    + c_stats.get("reassignments", 0) + sum(t_stats.values())
cov["distinct_nontrivial"] = h_stats.get("layout_cases", 0) + c_stats.get("assignments_with_copies", 0)
cov["rule"] = ("evaluations = packets traced through the real hand-over machinery (each list once split, once undivided) + copy-level "
               "assignments + table entries; non-trivial = distinct (box, cell counts, layout, periodicity, opacity field, copy levels) "
               "worlds traced with 2000 packets each + copy-level assignments that created at least one copy")
chk.assumptions += [
    "hand-over harness: one thread, re-emission switched on only to route absorbed packets into the 'inside' buffers where the harness "
    "harvests them (no re-emission happens); premature launch and scheduling use the repo's own classes",
    "per-packet tolerances: crossing uncertainty delta = (16 + 2 K) eps (S+|p|)/min|dir_d| for K wall crossings; absorption point "
    "uncertainty (2 delta sum kappa + (8+2K) eps tau)/kappa_min; a cell's tolerance is the sum over the packets that pass it or one "
    "of its 26 neighbours (same model as C02, accumulated)",
    "opacity strictly positive with contrast <= 1000 (zero-density cells are covered by C02); no direction component with "
    "0 < |dir_d| < 1e-12 (that regime is C02's illcond/runaway-step finding); rays lying exactly in a wall plane are kept off the walls",
    "a packet list whose run does not end within 300000 tasks (20000 for the 128-packet edge-start list; a normal run needs a few "
    "hundred) is reported as handover/no-termination and its estimators are not compared",
]
need = {"pinned_cases": pin_stats.get("pinned_cases"), "tables_neighbour_entries": t_stats.get("neighbour_entries_checked"), "tables_wrapped": t_stats.get("neighbour_entries_wrapped"),
        "tables_self_by_wrap": t_stats.get("neighbour_entries_self_by_wrap"), "tables_masks": t_stats.get("masks_valid_checked"),
        "tables_compat": t_stats.get("compatibility_entries_checked"), "tables_entry": t_stats.get("entry_table_cases_checked"),
        "handovers": h_stats.get("handovers"), "handovers_periodic_wrap": h_stats.get("handovers_periodic_wrap"),
        "handovers_to_itself_by_wrap": h_stats.get("handovers_to_itself_by_wrap"), "handovers_into_copies": h_stats.get("handovers_into_copies"),
        "periodic_axis_with_1_subgrid": h_stats.get("periodic_axis_with_1_subgrid"),
        "periodic_axis_with_2_subgrids": h_stats.get("periodic_axis_with_2_subgrids"),
        "cells_compared": h_stats.get("cells_compared"), "decisions_absorbed": h_stats.get("decisions_compared_absorbed"),
        "decisions_escaped": h_stats.get("decisions_compared_escaped"), "worlds_exact_lattice": h_stats.get("worlds_exact_lattice"),
        "worlds_generic": h_stats.get("worlds_generic"), "source_buffers_into_copies": h_stats.get("source_buffers_into_copies"),
        "copies_gap_face": c_stats.get("copy_neighbours_level_gap_ge2_across_face"),
        "copies_gap_edge": c_stats.get("copy_neighbours_level_gap_ge2_across_edge"),
        "copies_gap_corner": c_stats.get("copy_neighbours_level_gap_ge2_across_corner"),
        "fold_originals": c_stats.get("fold_originals_checked"), "push_copies": c_stats.get("push_copies_checked"),
        "reassignments": c_stats.get("reassignments")}
for p in range(8):
    need["periodicity_%d%d%d" % (p & 1, (p >> 1) & 1, (p >> 2) & 1)] = h_stats.get("periodicity_%d%d%d" % (p & 1, (p >> 1) & 1, (p >> 2) & 1))
for n in range(1, 5):
    need["subgrids_per_axis_%d" % n] = h_stats.get("subgrids_per_axis_%d" % n)
for c in CLASSES:
    need["handover_entry_" + c] = h_stats.get("handover_entry_" + c)
chk.require_nonzero(**need)
chk.finish()
