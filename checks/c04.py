#!/usr/bin/env python3
"""C04 — a hydro step conserves mass, momentum and energy and keeps states physical.

Pure-hydro runs of the real binary; after every step the H-hydro-state hook records the totals (long double,
global cell order), the positivity-clamp counter and NaN/negative counts, and dumps the full state.  Conservation
is demanded only for steps in which the clamp counter is zero (the property's proviso) and, with reflecting walls,
only for mass and energy while every wall-adjacent cell moves at less than Mach 1 towards/along the wall normal
(margin to the property's 1.5).  The round-off scale comes from the dumped state: mass sum(m), momentum
sum(m(|v|+a)), energy sum(E+PV) -- the fluxes that cancel in the sums are bounded by these through the CFL condition.
"""
import concurrent.futures as cf
import json
import math
import os
import sys

HERE = os.path.dirname(os.path.abspath(__file__))
sys.path.insert(0, os.path.join(HERE, "..", "lib"))
import binrun
import common
import hydrorun

TOL = 256.


def gen_wall_impact(rng, i):
    """Uniform gas running into a reflecting wall at Mach 1.0..1.48 (the property promises conservation up to 1.5).  In the
    first step the state is uniform, so the reconstructed face states equal the cell states and the gas hits the wall with
    exactly the Mach number of the initial state; only that first step is judged."""
    gamma = rng.choice([1.4, 5. / 3., 2.])
    ax = rng.randint(0, 2)
    nsub = [rng.choice([1, 2]) for _ in range(3)]
    ncell = [n * rng.choice([2, 4]) for n in nsub]
    periodic = [rng.chance(0.5) for _ in range(3)]
    periodic[ax] = False
    T = 10 ** rng.uniform(1.5, 3.5)
    kB, mp = 1.38064852e-23, 1.672621898e-27
    a = (gamma * kB * T / mp) ** 0.5            # neutral hydrogen, mean molecular mass 1
    mach = rng.uniform(1.0, 1.47)
    v = [0., 0., 0.]
    v[ax] = rng.choice([-1., 1.]) * mach * a
    blocks = [dict(origin=[.5, .5, .5], sides=[1.001, 1.001, 1.001], density=10 ** rng.uniform(18, 21), temperature=T, velocity=v)]
    cfg = dict(ncell=ncell, nsub=nsub, periodic=periodic, box=([0., 0., 0.], [1., 1., 1.]), blocks=blocks, gamma=gamma,
               cfl=rng.choice([0.1, 0.2, 0.3]), total_time=1e-3, wall_impact_axis=ax, wall_impact_mach=mach)
    return cfg, "wallimpact", rng.choice([1, 2, 4]), 2


def gen(rng, i, quick):
    if i % 6 == 5:
        return gen_wall_impact(rng, i)
    nsub = [rng.choice([1, 1, 2, 2, 3, 4]) for _ in range(3)]
    while nsub[0] * nsub[1] * nsub[2] > 16:
        nsub[rng.randint(0, 2)] = 1
    cps = rng.choice([2, 3, 4])
    ncell = [n * cps for n in nsub]
    sides = [rng.choice([1., 1.1, 0.7, 2.3, 10.]) for _ in range(3)] if rng.chance(0.6) else [1., 1., 1.]
    anchor = [rng.choice([0., -0.5, 3.3]) * s for s in sides]
    allper = rng.chance(0.6)
    periodic = [True] * 3 if allper else [rng.chance(0.5) for _ in range(3)]
    gamma = rng.choice([1.0001, 1.4, 5. / 3., 2.])
    # every sixth case: pressureless (T = 0 K) gas inside dense warm gas
    blocks, kind = hydrorun.gen_state(rng, ncell, (anchor, sides), gamma=gamma, kind="cold" if i % 6 == 3 else None)
    cfg = dict(ncell=ncell, nsub=nsub, periodic=periodic, box=(anchor, sides), blocks=blocks, gamma=gamma,
               cfl=rng.choice([0.05, 0.1, 0.2, 0.3, 0.4]), total_time=rng.choice([1e-4, 1e-3, 1e-2]))
    return cfg, kind, rng.choice([1, 2, 4, 8]), rng.randint(5, 20 if not quick else 8)


def wall_mach(dims, data, gamma, periodic):
    """largest normal Mach number of a wall-adjacent cell over the non-periodic axes"""
    nx, ny, nz = dims[:3]
    worst = 0.
    for ix in range(nx):
        for iy in range(ny):
            for iz in range(nz):
                onwall = [(not periodic[0]) and ix in (0, nx - 1), (not periodic[1]) and iy in (0, ny - 1), (not periodic[2]) and iz in (0, nz - 1)]
                if not any(onwall):
                    continue
                i = (ix * ny + iy) * nz + iz
                rho, vx, vy, vz, P = data[10 * i + 5:10 * i + 10]
                if rho <= 0 or P <= 0:
                    if (vx or vy or vz):
                        worst = max(worst, 1e9)
                    continue
                a = math.sqrt(gamma * P / rho)
                for d, v in enumerate((vx, vy, vz)):
                    if onwall[d]:
                        worst = max(worst, abs(v) / a)
    return worst


def one(job):
    i, cfg, kind, threads, steps, exe, root = job
    rd = os.path.join(root, "run%04d" % i)
    r, recs = hydrorun.run(exe, rd, cfg, threads=threads, steps=steps, dump=True)
    res = dict(i=i, cfg=cfg, kind=kind, threads=threads, steps=steps, rc=r.rc, timed_out=r.timed_out, err=(r.err or "")[-400:], viol=[], st={})
    st = res["st"]
    V = res["viol"]
    if r.rc != 0 or not recs:
        return res
    anchor, sides = cfg["box"]
    vol = sides[0] * sides[1] * sides[2] / (cfg["ncell"][0] * cfg["ncell"][1] * cfg["ncell"][2])
    prev = None
    prevdump = None
    for rec in recs:
        st["records"] = st.get("records", 0) + 1
        if rec["badindex"]:
            V.append(("hook/bad-cell-index", "step %d: %d cells could not be placed in global order" % (rec["step"], rec["badindex"])))
        if rec["nonfinite"]:
            V.append(("state/non-finite", "step %d: %d non-finite values in the hydro state" % (rec["step"], rec["nonfinite"])))
        if rec["negative"]:
            V.append(("state/negative", "step %d: %d cells with negative mass/energy/density/pressure (min mass %g, min energy %g, min rho %g, min P %g)" % (
                rec["step"], rec["negative"], rec["minmass"], rec["minenergy"], rec["mindensity"], rec["minpressure"])))
        dp = os.path.join(rd, "state_hydro_%06d.bin" % rec["step"])
        dump = hydrorun.read_dump(dp) if os.path.exists(dp) else None
        if prev is not None and rec["step"] == prev["step"] + 1 and prevdump is not None and dump is not None:
            st["steps"] = st.get("steps", 0) + 1
            if rec["clamps"] > 0:
                st["steps_with_clamp"] = st.get("steps_with_clamp", 0) + 1
            else:
                st["steps_clamp_free"] = st.get("steps_clamp_free", 0) + 1
                sm0, sp0, se0 = hydrorun.scales(prevdump[0], prevdump[1], cfg["gamma"], vol)
                sm1, sp1, se1 = hydrorun.scales(dump[0], dump[1], cfg["gamma"], vol)
                S = dict(mass=sum(sm0) + sum(sm1), mom=sum(sp0) + sum(sp1), energy=sum(se0) + sum(se1))
                allper = all(cfg["periodic"])
                wm = 0. if allper else max(wall_mach(prevdump[0], prevdump[1], cfg["gamma"], cfg["periodic"]),
                                           wall_mach(dump[0], dump[1], cfg["gamma"], cfg["periodic"]))
                checks = []
                if allper:
                    checks = [("mass", "mass", S["mass"]), ("px", "px", S["mom"]), ("py", "py", S["mom"]), ("pz", "pz", S["mom"]), ("energy", "energy", S["energy"])]
                    st["steps_periodic_checked"] = st.get("steps_periodic_checked", 0) + 1
                elif res["kind"] == "wallimpact":
                    # judged only in the first step, where the state is uniform and the wall Mach number is exactly that of the
                    # cells (measured from the dump, must stay below the property's 1.5)
                    if rec["step"] == 1 and wm < 1.49 and prev["nonfinite"] == 0:
                        checks = [("mass", "mass", S["mass"]), ("energy", "energy", S["energy"])]
                        st["steps_wall_impact_checked"] = st.get("steps_wall_impact_checked", 0) + 1
                        st["max_wall_mach_checked"] = max(st.get("max_wall_mach_checked", 0.), wm)
                elif wm < 1.0:
                    checks = [("mass", "mass", S["mass"]), ("energy", "energy", S["energy"])]
                    # momentum along fully periodic axes is conserved as well? no: pressure on walls of other axes does not act along them,
                    # but oblique reflections do not exist on a Cartesian grid; we only claim what the property states.
                    st["steps_reflective_checked"] = st.get("steps_reflective_checked", 0) + 1
                else:
                    st["steps_reflective_skipped_supersonic_wall"] = st.get("steps_reflective_skipped_supersonic_wall", 0) + 1
                for name, key, scale in checks:
                    d = abs(rec[key] - prev[key])
                    tol = TOL * hydrorun.EPS * scale
                    rel = d / scale if scale > 0 else 0.
                    st["max_rel_drift"] = max(st.get("max_rel_drift", 0.), rel)
                    if d > tol:
                        V.append(("conservation/%s/%s" % (name, "periodic" if allper else "reflective"),
                                  "step %d: total %s changed by %.3e (%.3e of the round-off scale %.3e; allowed %.1e) with no positivity clamp active" % (
                                      rec["step"], name, rec[key] - prev[key], rel, scale, TOL * hydrorun.EPS)))
                if rec["mindensity"] == 0. or rec["minmass"] == 0.:
                    st["steps_with_vacuum_cells"] = st.get("steps_with_vacuum_cells", 0) + 1
        prev, prevdump = rec, dump
        if dump is not None and prevdump is not None:
            pass
    # remove the dumps of a clean run right away (disk)
    if not V:
        for f in os.listdir(rd):
            if f.endswith(".bin"):
                os.remove(os.path.join(rd, f))
    return res


def main():
    chk = common.Check("C04")
    quick = chk.tier == "quick"
    try:
        exe = binrun.binary("hooks")
    except common.BuildError as e:
        chk.inconclusive_because(str(e)); chk.finish()
    root = chk.rundir()
    rng = common.SplitMix64(chk.seed * 15485863 + 4)
    n = 120 if quick else 1500
    jobs = []
    if "--replay" in sys.argv:
        rp = json.load(open(sys.argv[sys.argv.index("--replay") + 1]))["replay"]
        jobs.append((0, rp["cfg"], rp.get("kind"), rp["threads"], rp["steps"], exe, root))
    else:
        for i in range(n):
            cfg, kind, th, steps = gen(rng.fork("c%d" % i), i, quick)
            jobs.append((i, cfg, kind, th, steps, exe, root))
    tot, kinds, distinct = {}, {}, set()
    with cf.ThreadPoolExecutor(max_workers=8) as ex:
        for res in ex.map(one, jobs):
            cfg = res["cfg"]
            label = "kind=%s nsub=%s ncell=%s periodic=%s gamma=%g cfl=%g threads=%d steps=%d box=%s" % (
                res["kind"], cfg["nsub"], cfg["ncell"], cfg["periodic"], cfg["gamma"], cfg["cfl"], res["threads"], res["steps"], cfg["box"][1])
            rp = dict(cfg=cfg, kind=res["kind"], threads=res["threads"], steps=res["steps"])
            if res["timed_out"]:
                chk.inconclusive_because("watchdog fired twice: " + label); continue
            if res["rc"] != 0:
                chk.violation("run/abnormal-exit", "exit status %s: %s | %s" % (res["rc"], label, res["err"][-250:].replace("\n", " ")), rp); continue
            for key, text in res["viol"]:
                chk.violation(key, text + " | " + label, rp)
            for k, v in res["st"].items():
                tot[k] = max(tot.get(k, 0.), v) if k in ("max_rel_drift", "max_wall_mach_checked") else tot.get(k, 0) + v
            kinds[res["kind"]] = kinds.get(res["kind"], 0) + 1
            if res["st"].get("steps_clamp_free"):
                distinct.add(json.dumps(cfg, sort_keys=True))
            if len(chk.coverage["samples"]) < 3:
                chk.add_sample(dict(kind=res["kind"], nsub=cfg["nsub"], ncell=cfg["ncell"], periodic=cfg["periodic"], gamma=cfg["gamma"], cfl=cfg["cfl"],
                                    threads=res["threads"], steps=res["steps"], box=cfg["box"], nblocks=len(cfg["blocks"]), monitor=res["st"]))
    cov = chk.coverage
    cov["evaluations"] = tot.get("steps", 0)
    cov["distinct_nontrivial"] = len(distinct)
    cov["rule"] = ("one evaluation = one hydro step of the real binary observed by the H-hydro-state hook; non-trivial = distinct generated configurations "
                   "(initial state kind boxes/vacuum/shock/smooth/cold (pressureless gas in warm gas), gamma, CFL, box shape, layout, boundaries, threads) that contributed at least one clamp-free step "
                   "for which conservation was actually decided")
    cov["monitor_counters"] = tot
    cov["state_kinds"] = kinds
    chk.assumptions += ["conservation is only asserted on steps whose positivity-clamp counter is zero (the property's proviso)",
                        "reflective boxes: only mass and energy, and only while wall-adjacent cells have normal Mach < 1 (margin to 1.5); "
                        "wall-impact scenarios (uniform gas at Mach 1.0..1.48 towards a wall) are judged in their first step only, where the face states equal the cell states",
                        "round-off scale: 256 eps x (sum m, sum m(|v|+a), sum (E+PV)) over the states before and after the step"]
    if "--replay" not in sys.argv:
        chk.require_nonzero(steps_clamp_free=tot.get("steps_clamp_free"), periodic=tot.get("steps_periodic_checked"),
                            reflective=tot.get("steps_reflective_checked"), wall_impact=tot.get("steps_wall_impact_checked"),
                            clamp_steps_seen=tot.get("steps_with_clamp", 0) + 1)
    chk.finish()


main()
