#!/usr/bin/env python3
"""C05 — Riemann fluxes respect the symmetries of the Euler equations, vacuum included.

In-process harness on the real HLLCRiemannSolver / ExactRiemannSolver; violation keys are
<clause>/<solver>/<regime> (see harness/c05_riemann_sym.cpp)."""
import json, os, shlex, subprocess, sys
sys.path.insert(0, os.path.join(os.path.dirname(os.path.abspath(__file__)), "..", "lib"))
import common, hcheck

if "--replay" in sys.argv:  # re-run the single case recorded in a violation file
    rec = json.load(open(sys.argv[sys.argv.index("--replay") + 1]))
    exe = common.build_harness("c05_riemann_sym", "hooks", link_libs=False)
    cmd = shlex.split(rec["replay"]["cmd"])
    cmd[0] = exe
    r = subprocess.run(cmd)
    sys.exit(1 if r.returncode == 1 else (0 if r.returncode == 0 else 2))

chk = common.Check("C05")
try:
    exe = common.build_harness("c05_riemann_sym", "hooks", link_libs=False)
except common.BuildError as e:
    chk.inconclusive_because(str(e)); chk.finish()
quick = chk.tier == "quick"
shards = 16
cases = 62500 if quick else 2000000          # 1e6 quick / 3.2e7 thorough
# keep at most 3 written-out violations per key (each with its replay command); full counts are in the evidence
_orig, _seen = chk.violation, {}
def _dedupe(key, what, replay=None):
    _seen[key] = _seen.get(key, 0) + 1
    if _seen[key] <= 3:
        _orig(key, what, replay)
chk.violation = _dedupe
stats, statd = hcheck.run_shards(chk, exe, ["--cases", str(cases), "--exact-every", "5"], shards,
                                 timeout=900 if quick else 4 * 3600)
cov = chk.coverage
cov["evaluations"] = stats.get("solver_calls", 0)
cov["distinct_nontrivial"] = stats.get("cases_with_nonzero_flux", 0)
cov["rule"] = ("case = (gamma in [1.001,2], left/right state with rho,P log-uniform over 24 decades or exactly 0, normal velocities "
               "0..100 a converging/diverging up to and beyond vacuum generation, tangential velocities, axis or random unit normal, "
               "face velocity); regimes non-vacuum / left / right / both vacuum / vacuum generation; each case is judged by the clauses "
               "swap, boost, boost-sample, identical, finite, hllc-exact, vacuum-closed-form, textbook, continuity-{contact,outer,front}, "
               "mirror; non-trivial = cases (distinct PRNG streams) whose HLLC flux is non-zero; evaluations = calls of solve_for_flux")
cov["monitor_counters"] = {k: v for k, v in stats.items() if not k.startswith("viol_")}
cov["violations_by_key"] = {k[5:]: v for k, v in stats.items() if k.startswith("viol_")}
cov["max_error_over_tolerance"] = {k[9:]: v for k, v in statd.items() if k.startswith("maxratio_")}
chk.assumptions += [
    "a state with rho == 0 or P == 0 is vacuum (both solvers treat it so); its velocity is irrelevant",
    "the vacuum-generation threshold 2(aL+aR)/(gamma-1) = vR-vL itself (relative band 1e-9) is excluded: the approximate solver "
    "switches formula there",
    "iterative branch of the exact solver (non-vacuum): tolerance 1e-6 of the flux scale (stated accuracy 1e-8 in p*), and it is "
    "evaluated for one in five non-vacuum cases (its Brent loop is slow; C11 covers it in depth); HLLC and all closed-form "
    "branches: 256 eps times a condition number computed from the inputs",
    "HLLC clauses are skipped when the independently computed wave speed estimates are not ordered S_L < S* < S_R (counted)",
]
need = {}
for k in ("regime_non_vacuum", "regime_left_vacuum", "regime_right_vacuum", "regime_both_vacuum", "regime_vacuum_generation",
          "hllc_branch_outer_left", "hllc_branch_star_left", "hllc_branch_star_right", "hllc_branch_outer_right",
          "vacuum_face_in_vacuum", "vacuum_face_in_state", "vacuum_face_in_fan", "non_vacuum_cases_with_exact_solver",
          "n_front_ulps_scans", "n_pstar_underflow_scans", "sampled_vacuum", "sampled_gas"):
    need[k] = stats.get(k)
for cl in ("swap", "boost", "identical", "continuity-contact", "continuity-outer", "mirror"):
    for s in ("hllc", "exact"):
        need["n_%s_%s" % (cl, s)] = stats.get("n_%s_%s" % (cl, s)) or stats.get("viol_%s/%s/non-vacuum" % (cl, s))
for k in ("n_continuity-front_hllc", "n_continuity-front_exact", "n_hllc-exact_hllc", "n_vacuum-closed-form_hllc",
          "n_vacuum-closed-form_exact", "n_textbook_hllc", "n_boost-sample_exact", "n_finite_flux", "n_finite_sample"):
    need[k] = stats.get(k)
chk.require_nonzero(**{k.replace("-", "_"): v for k, v in need.items()})
chk.finish()
