#!/usr/bin/env python3
"""C06 — ionization and thermal balance always return a physical cell state."""
import os, sys
sys.path.insert(0, os.path.join(os.path.dirname(os.path.abspath(__file__)), "..", "lib"))
import common, hcheck

chk = common.Check("C06")
try:
    exe = common.build_harness("c06_ionization", "hooks")
except common.BuildError as e:
    chk.inconclusive_because(str(e)); chk.finish()
quick = chk.tier == "quick"
shards = 16
cases = 50000 if quick else 1250000           # 8e5 / 2e7 cells in total
batch = 5000 if quick else 25000             # cases per forked child
stats, statd = hcheck.run_shards(chk, exe, ["--cases", str(cases), "--batch", str(batch)],
                                 shards, timeout=600 if quick else 7200)
# pinned witnesses of the findings (fixed inputs given directly to the real routines; same clauses)
pstats, _ = hcheck.run_shards(chk, exe, ["--pinned"], 1, timeout=300)
stats["pinned_cases"] = pstats.get("pinned_cases", 0)
# oracle self-test: the hydrogen-only clauses fed with a plain double evaluation of the cancellation-free closed form
# (instead of the repository's routine) must stay silent -- guards the 4 ulp / 8 ulp allowances against false alarms
r = common.run([exe, "--cases", "60000", "--batch", "60000", "--reference-honly", "--seed", str(chk.seed * 7919 + 1)], timeout=600)
sv, sst, _, _, sdone = hcheck.parse(r.out)
ref_bad = [v for v in sv if v[0].startswith("honly/")]
stats["selftest_reference_honly_cases"] = sst.get("honly_cases", 0)
stats["selftest_reference_honly_violations"] = sum(v for k, v in sst.items() if k.startswith("viol:honly/"))
if not sdone or ref_bad or stats["selftest_reference_honly_violations"] or not sst.get("honly_residual_checked"):
    chk.inconclusive_because("oracle self-test failed: hydrogen-only clauses alarm on (or did not run) the reference implementation: %s"
                             % (ref_bad[:2] or r.err[-300:]))
cov = chk.coverage
cov["evaluations"] = stats.get("state_evals", 0) + stats.get("tbal_evals", 0)
cov["distinct_nontrivial"] = stats.get("distinct_nontrivial", 0)
cov["rule"] = ("one case = (He + 5 metal abundances, <=6 photon frequencies >= nu_H with weights >= 0 pushed through the real Verner "
               "cross sections and accumulated per packet into IonizationVariables, flux factor over 23 decades or 0, jfac = L/(N V), "
               "n in {0} U [1e4,1e12] m^-3, T in [1e2,1e5] K); the real calculate_ionization_state and calculate_temperature run on "
               "it in a forked child; every returned fraction / metal stage sum / temperature is range-checked; for A_He = 0 the "
               "returned x is put into n(1-x)^2 alpha = x J in long double (allowance: 4 ulp of x) and compared with the value at a "
               "larger J and at a different n*alpha (8 ulp slack).  non-trivial = distinct (jH, n, T) with jH > 0 and n > 0, i.e. the "
               "cases in which an ionization balance is actually solved")
cov["monitor_counters"] = stats
cov["monitor_maxima"] = statd
chk.assumptions += [
    "estimators are those of a non-negative mixture of <= 6 monochromatic packets with nu in [3.2885e15 Hz, 30 nu_H]; heating "
    "estimators subtract the thresholds used by DensitySubGrid (3.288e15 / 5.948e15 Hz)",
    "the abundance scaling of the task-based drivers (sigma*A while accumulating, /A before the balance) is reproduced for half of "
    "the cases; the division of the He heating estimator by A_He = 0 done by TaskBasedIonizationSimulation.cpp is NOT fed in",
    "thermal balance is configured with the ParameterFile defaults (epsilon 1e-3, 100 iterations, 4000 K neutral limit); PAH "
    "heating (15%) and cosmic ray heating (15%) are switched on in a minority of cases (counted: tbal_viol_with_pah_or_cr vs tbal_viol_default_config)",
    "10% of the cases are drawn from a sub-population inside the domain (weak field, one helium-ionizing packet of weight 1e-13..1e-5) "
    "so that the rare He0 > 1 finding is hit at every seed",
    "a fraction in [1, 1+1e-12] or [-1e-12, 0] counts as round-off; hydrogen-only monotonicity tolerates 8 ulp",
    "the documented floor (x == 1e-14) exempts a case from the residual clause (counted: honly_floor_active*), not from monotonicity",
]
# thread invariance: the calculator and its rate tables are shared by all worker threads, which work on cells of different
# temperatures at the same moment (harness/c06_threads.cpp: alone vs concurrently, balance residual with the cell's own rate;
# the same harness under ThreadSanitizer)
sys.path.insert(0, os.path.join(os.path.dirname(os.path.abspath(__file__)), "..", "oracle"))
import tsan_classify
try:
    exe_thr = common.build_harness("c06_threads", "hooks")
    exe_thr_tsan = common.build_harness("c06_threads", "tsan")
except common.BuildError as e:
    chk.inconclusive_because(str(e)); chk.finish()
quick_ = chk.tier == "quick"
thr, _ = hcheck.run_shards(chk, exe_thr, ["--cells", str(60000 if quick_ else 1500000), "--threads", "8"], 2 if quick_ else 8, timeout=1200, max_workers=2)
rd_ = chk.rundir()
tenv = {"TSAN_OPTIONS": "halt_on_error=0:report_signal_unsafe=0:log_path=%s/tsan.log:exitcode=0" % rd_}
tthr, _ = hcheck.run_shards(chk, exe_thr_tsan, ["--cells", str(3000 if quick_ else 40000), "--threads", "4"], 2 if quick_ else 6, timeout=1800, env=tenv, max_workers=2)
reports = tsan_classify.classify_dir(rd_)
for rep in reports:
    if not rep["benign"]:
        chk.violation("tsan/" + rep["key"], rep["summary"], {"report": rep["text"][:4000]})
chk.coverage["thread_invariance"] = dict(cells_compared=thr.get("cells_compared", 0), tsan_cells=tthr.get("cells_compared", 0), tsan_reports=len(reports))
chk.require_nonzero(thread_cells=thr.get("cells_compared"), tsan_cells=tthr.get("cells_compared"))
chk.require_nonzero(
    vacuum_cells=stats.get("n_zero"), zero_flux=stats.get("flux_zero"),
    spectra_without_He_photons=stats.get("no_He_ionizing_photons"), spectra_with_He_photons=stats.get("with_He_ionizing_photons"),
    hydrogen_only=stats.get("honly_cases"), helium=stats.get("AHe_positive"), metal_sums=stats.get("metal_sums_checked"),
    negligible_field=stats.get("regime_negligible_field"), neutral_side=stats.get("regime_neutral_side"),
    ionized_side=stats.get("regime_ionized_side"), weak_field=stats.get("weak_field_below_1em8_nalpha"),
    strong_field=stats.get("strong_field_above_1e3_nalpha"), trace_He_field=stats.get("trace_He_field"),
    residuals=stats.get("honly_residual_checked"), floor_active=stats.get("honly_floor_active"),
    mono_J=stats.get("honly_monoJ_strict_decrease"), mono_nalpha=stats.get("honly_monoNA_strict_increase"),
    tbal_interior=stats.get("tbal_T_interior"), tbal_500=stats.get("tbal_T_500"), tbal_30000=stats.get("tbal_T_30000"),
    batches=stats.get("batches"), pinned=stats.get("pinned_cases"))
chk.finish()
