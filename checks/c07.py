#!/usr/bin/env python3
"""C07 — hydro task graph: every task once, in order, conflict-free, always finishes.

Runs pure-hydro `CMacIonize --task-based-rhd` (hooks build) over layouts x periodicities x threads with
the task trace and jitter on, audits the constructed task table against the grid geometry and checks
every step's trace (oracle/c07_check.py).  A smaller matrix runs on the clang TSan build.
"""
import concurrent.futures as cf
import itertools
import json
import os
import sys

HERE = os.path.dirname(os.path.abspath(__file__))
sys.path.insert(0, os.path.join(HERE, "..", "lib"))
sys.path.insert(0, os.path.join(HERE, "..", "oracle"))
import binrun
import common
import params
import cmitrace
import c07_check
import tsan_classify


def hydro_cfg(rng, nsub, periodic, cps=2):
    ncell = [n * cps for n in nsub]
    blocks = [dict(origin=[.5, .5, .5], sides=[1., 1., 1.], density=1e20, temperature=100., velocity=[rng.uniform(-50, 50), rng.uniform(-50, 50), 0.])]
    for _ in range(rng.randint(1, 3)):
        blocks.append(dict(origin=[rng.uniform(.2, .8) for _ in range(3)], sides=[rng.uniform(.2, .6) for _ in range(3)],
                           type=rng.choice(["cube", "sphere"]), density=10 ** rng.uniform(19, 21), temperature=10 ** rng.uniform(1.5, 3),
                           velocity=[rng.uniform(-300, 300) for _ in range(3)]))
    return dict(ncell=ncell, nsub=list(nsub), periodic=list(periodic), box=([0., 0., 0.], [1., 1., 1.]), blocks=blocks,
                gamma=5. / 3., total_time=1e-3, cfl=0.2)


def one_run(job):
    i, cfg, threads, jitter, steps, exe, root, tsan = job
    rd = os.path.join(root, ("tsan%03d" if tsan else "run%03d") % i)
    os.makedirs(rd, exist_ok=True)
    pf = params.rhd_params(cfg, rd)
    env = {"CMI_VERIF_DEADLOCK_POLLS": "300000", "CMI_VERIF_LOCK_SPINS": "1000000000"}
    if jitter:
        env["CMI_VERIF_JITTER"] = jitter
    if tsan:
        env["TSAN_OPTIONS"] = "halt_on_error=0:ignore_noninstrumented_modules=1:report_signal_unsafe=0:log_path=%s/tsan.log" % rd
    else:
        env["CMI_VERIF_TRACE"] = os.path.join(rd, "trace.bin")
    args = ["--params", pf, "--task-based-rhd", "--number-of-steps", str(steps)]
    timeout = 400 if tsan else 150
    r = binrun.run_cmi(exe, rd, args, env=env, timeout=timeout, threads=threads)
    if r.timed_out:
        if not tsan and os.path.exists(env["CMI_VERIF_TRACE"]):
            os.remove(env["CMI_VERIF_TRACE"])   # a second attempt must not append to the trace of the first
        r = binrun.run_cmi(exe, rd, args, env=env, timeout=timeout, threads=threads)
    res = dict(i=i, cfg=cfg, threads=threads, jitter=jitter, steps=steps, tsan=tsan, rc=r.rc, timed_out=r.timed_out,
               stderr_tail=(r.err or "")[-500:], viol=[], stats={}, wall=r.wall, reports=[])
    if tsan:
        res["reports"] = tsan_classify.classify_dir(rd)
        return res
    tp = os.path.join(rd, "trace.bin")
    if os.path.exists(tp):
        ev = cmitrace.read(tp)
        V, st = c07_check.check(ev, cfg["nsub"], cfg["periodic"])
        res["viol"], res["stats"], res["nevents"] = V, dict(st), len(ev)
    return res


def main():
    chk = common.Check("C07")
    quick = chk.tier == "quick"
    try:
        exe = binrun.binary("hooks")
        exe_tsan = binrun.binary("tsan")
    except common.BuildError as e:
        chk.inconclusive_because(str(e)); chk.finish()
    root = chk.rundir()
    rng = common.SplitMix64(chk.seed * 104729 + 7)
    layouts = [l for l in itertools.product([1, 2, 3, 4], repeat=3) if l[0] * l[1] * l[2] <= (16 if quick else 64)]
    pers = list(itertools.product([False, True], repeat=3))
    jobs = []
    if "--replay" in sys.argv:
        rp = json.load(open(sys.argv[sys.argv.index("--replay") + 1]))["replay"]
        jobs.append((0, rp["cfg"], rp["threads"], rp["jitter"], rp["steps"], exe_tsan if rp.get("tsan") else exe, root, bool(rp.get("tsan"))))
    else:
        combos = [(l, p) for l in layouts for p in pers]
        rng.shuffle(combos)
        # make sure the hostile corners are always present: periodic axes with one and two subgrids
        must = [((1, 1, 1), (True, True, True)), ((1, 2, 2), (True, False, False)), ((2, 1, 3), (False, True, True)),
                ((2, 2, 2), (True, True, True)), ((1, 1, 4), (False, False, True)), ((3, 1, 1), (False, True, False))]
        sel = must + [c for c in combos if c not in must]
        n = 70 if quick else len(sel)
        thread_choices = [1, 2, 3, 4, 8, 16]
        reps = 1 if quick else 3
        k = 0
        for (l, p) in sel[:n]:
            for rep in range(reps):
                r = rng.fork("c%d" % k)
                th = thread_choices[k % len(thread_choices)] if quick else r.choice(thread_choices)
                jit = None if r.chance(0.2) else "%d:%d:%d" % (r.randint(1, 10 ** 6), r.choice([10, 100, 300]), r.choice([50, 3000]))
                jobs.append((k, hydro_cfg(r, l, p), th, jit, r.choice([3, 4, 5]), exe, root, False))
                k += 1
        # long runs: many consecutive steps with many threads on layouts with many pair tasks (races whose window is a
        # single instruction, e.g. in the parent counter protocol, need many task completions to show)
        for j in range(6 if quick else 40):
            r = rng.fork("l%d" % j)
            l = r.choice([(3, 3, 3), (2, 3, 4), (4, 2, 2), (3, 2, 2), (4, 4, 1), (2, 2, 2)])
            p = r.choice(pers)
            jit = None if j % 2 == 0 else "%d:%d:%d" % (r.randint(1, 10 ** 6), 5, 50)
            jobs.append((k, hydro_cfg(r, l, p), r.choice([4, 8, 16]), jit, 150 if quick else 400, exe, root, False))
            k += 1
        nts = 8 if quick else 60
        for j in range(nts):
            r = rng.fork("t%d" % j)
            l, p = sel[(j * 7) % len(sel)] if j >= 2 else must[j + 1]
            jit = "%d:%d:%d" % (r.randint(1, 10 ** 6), 100, 500)
            jobs.append((j, hydro_cfg(r, l, p), r.choice([2, 4, 8]), jit, 3, exe_tsan, root, True))
    tot, sched, distinct = {}, set(), set()
    tsan_counts = {"runs": 0, "reports": 0, "benign": 0, "violations": 0}
    traced = 0
    with cf.ThreadPoolExecutor(max_workers=6) as ex:
        for res in ex.map(one_run, jobs):
            cfg = res["cfg"]
            label = "%s nsub=%s periodic=%s threads=%d jitter=%s steps=%d" % ("tsan" if res["tsan"] else "run", cfg["nsub"], cfg["periodic"],
                                                                             res["threads"], res["jitter"], res["steps"])
            rp = dict(cfg=cfg, threads=res["threads"], jitter=res["jitter"], steps=res["steps"], tsan=res["tsan"])
            selfpair = any(cfg["periodic"][a] and cfg["nsub"][a] == 1 for a in range(3))
            if res["wall"] > 60:
                print("[c07] slow run %.0f s: %s" % (res["wall"], label), flush=True)
            if res["tsan"]:
                if res["timed_out"]:
                    # under TSan there is no trace and no logical deadlock detector: a hang is only a witness when the
                    # traced run of the same layout shows the deadlock; here it is inconclusive
                    if selfpair:
                        chk.violation("deadlock/self-pair-task", "TSan run did not finish (watchdog twice): " + label, rp)
                    else:
                        chk.inconclusive_because("TSan run: watchdog fired twice: " + label)
                    continue
                tsan_counts["runs"] += 1
                for rep in res["reports"]:
                    tsan_counts["reports"] += 1
                    if rep["benign"]:
                        tsan_counts["benign"] += 1
                    else:
                        tsan_counts["violations"] += 1
                        chk.violation("tsan/" + rep["key"], rep["summary"] + " | " + label, dict(rp, report=rep["text"][:4000]))
                if res["rc"] == 97:
                    chk.violation("deadlock/self-pair-task" if selfpair else "deadlock/other", "process reported a permanent no-progress state: " + label, rp)
                elif res["rc"] not in (0, 66) and not res["reports"]:
                    chk.violation("run/abnormal-exit", "exit status %s: %s | %s" % (res["rc"], label, res["stderr_tail"][-200:].replace("\n", " ")), rp)
                continue
            for key, text in res["viol"]:
                chk.violation(key, text + " | " + label, rp)
            if res["timed_out"]:
                chk.inconclusive_because("watchdog fired twice without a deadlock witness: " + label)
                continue
            if res["rc"] == 97:
                if not any(k.startswith("deadlock/") for k, _ in res["viol"]):
                    chk.violation("deadlock/self-pair-task" if selfpair else "deadlock/other", "process reported a permanent no-progress state: " + label, rp)
                continue
            if res["rc"] != 0:
                chk.violation("run/abnormal-exit", "exit status %s: %s | %s" % (res["rc"], label, res["stderr_tail"][-200:].replace("\n", " ")), rp)
                continue
            traced += 1
            for k, v in res["stats"].items():
                if k.startswith("_sched_"):
                    sched.add(k)
                elif k == "max_concurrency":
                    tot[k] = max(tot.get(k, 0), v)
                else:
                    tot[k] = tot.get(k, 0) + v
            distinct.add((tuple(cfg["nsub"]), tuple(cfg["periodic"]), res["threads"], res["jitter"]))
            if len(chk.coverage["samples"]) < 4:
                chk.add_sample(dict(nsub=cfg["nsub"], periodic=cfg["periodic"], threads=res["threads"], jitter=res["jitter"], steps=res["steps"],
                                    events=res.get("nevents"), stats={k: v for k, v in res["stats"].items() if not k.startswith("_")}))
    cov = chk.coverage
    cov["evaluations"] = len(jobs)
    cov["distinct_nontrivial"] = len(distinct)
    cov["rule"] = ("one evaluation = one pure-hydro run of the real binary (3-5 steps) on a layout nx x ny x nz (each 1..4), one of the 8 periodicity "
                   "combinations, threads 1..16 and a jitter seed; the task table is audited against the geometry and every step's START/END/ENQUEUE "
                   "trace is checked; non-trivial = distinct (layout, periodicity, threads, jitter) whose run completed and was checked")
    cov["monitor_counters"] = tot
    cov["distinct_task_start_orders"] = len(sched)
    cov["traced_runs_checked"] = traced
    cov["tsan"] = tsan_counts
    chk.assumptions += ["overlap is decided on sequence numbers taken inside the critical section (after the dependency locks were obtained, before they are released)",
                        "termination is restated as bounded progress: a permanent no-progress state (no task running, none obtainable in 3e5 consecutive polls) is the witness"]
    if "--replay" not in sys.argv:
        chk.require_nonzero(traced=traced, executions=tot.get("task_executions"), steals=tot.get("steals"), tsan_runs=tsan_counts["runs"])
    chk.finish()


main()
