#!/usr/bin/env python3
"""C08 — shared scheduler containers never give one slot or task to two owners."""
import os, sys
sys.path.insert(0, os.path.join(os.path.dirname(os.path.abspath(__file__)), "..", "lib"))
sys.path.insert(0, os.path.join(os.path.dirname(os.path.abspath(__file__)), "..", "oracle"))
import common, hcheck
import tsan_classify

chk = common.Check("C08")
quick = chk.tier == "quick"
try:
    exe = common.build_harness("c08_containers", "hooks")
    exe_tsan = common.build_harness("c08_containers", "tsan")
except common.BuildError as e:
    chk.inconclusive_because(str(e)); chk.finish()
tot = {}
shards = 8 if quick else 64
hist = 30 if quick else 500
# every harness process runs up to 16 spinning threads: at most 4 at a time (16 cores), and a generous watchdog
workers = 8 if quick else 4
rng = common.SplitMix64(chk.seed * 2654435761 + 8)
# three jitter regimes: none, light, heavy -- the yield points sit between the individual atomic steps of the containers
for regime, jit in (("nojitter", None), ("light", "%d:20:200"), ("heavy", "%d:300:3000")):
    env = {"CMI_VERIF_JITTER": jit % rng.randint(1, 10 ** 6)} if jit else {}
    # a blocking ThreadLock that cannot be obtained in 2e9 consecutive attempts (tens of seconds of spinning; a holder is
    # never legitimately away that long) was never released: the hook ends the process with status 97
    env["CMI_VERIF_LOCK_SPINS"] = "2000000000"
    st, sd = hcheck.run_shards(chk, exe, ["--histories", str(hist if regime != "heavy" else max(5, hist // 4))], shards, timeout=300 if quick else 1500, env=env, max_workers=workers,
                                deadlock_key="lock/never-released")
    for k, v in st.items():
        tot[k] = tot.get(k, 0) + v
        tot["%s_%s" % (regime, k)] = v
# TSan pass (gcc/clang TSan understands std::thread and std::atomic; the containers' own atomics are visible to it)
rd = chk.rundir()
env = {"TSAN_OPTIONS": "halt_on_error=0:report_signal_unsafe=0:log_path=%s/tsan.log:exitcode=0" % rd, "CMI_VERIF_JITTER": "%d:50:500" % rng.randint(1, 10 ** 6),
       "CMI_VERIF_LOCK_SPINS": "200000000"}   # TSan makes every attempt ~20x slower: same order of wall time as the 2e9 above
st, sd = hcheck.run_shards(chk, exe_tsan, ["--histories", str(10 if quick else 200)], 3 if quick else 16, timeout=600 if quick else 1800, env=env, max_workers=workers,
                            deadlock_key="lock/never-released")
tot["tsan_histories"] = sum(v for k, v in st.items() if k.endswith("_histories"))
reports = tsan_classify.classify_dir(rd)
tot["tsan_reports"] = len(reports)
for rep in reports:
    if not rep["benign"]:
        chk.violation("tsan/" + rep["key"], rep["summary"], {"report": rep["text"][:4000]})
cov = chk.coverage
cov["evaluations"] = sum(v for k, v in tot.items() if k in ("pool_histories", "poolfull_histories", "poolclear_histories", "poolblocking_histories", "countdown_histories", "queue_histories", "lock_histories", "atomic_histories", "memory_histories"))
cov["distinct_nontrivial"] = cov["evaluations"]
cov["rule"] = ("one evaluation = one concurrent history (2..16 threads) on the real ThreadSafeVector / TaskQueue+Task+ThreadLock / ThreadLock / AtomicValue+LockFree / "
               "MemorySpace with generated sizes (pools of 1..64 slots driven to full, tasks declaring 0/1/2 locks incl. the same lock twice), checked against atomic shadow "
               "owners; each history has its own PRNG stream and parameters, so histories are distinct; three jitter regimes + a TSan pass")
cov["monitor_counters"] = tot
chk.assumptions += ["get_free_element() (the variant that spins for ever on a full pool) is only used when threads x max-held <= pool size (the property's capacity proviso)"]
chk.require_nonzero(pool=tot.get("pool_histories"), pool_full=tot.get("poolfull_histories"), pool_clear=tot.get("poolclear_histories"), held_at_clear=tot.get("poolclear_slots_held_at_clear"),
                    pool_blocking=tot.get("poolblocking_requests_served"), countdown=tot.get("countdown_rounds"), refused=tot.get("poolfull_refused_requests"), queue=tot.get("queue_histories"), full=tot.get("pool_full_events"), steals=tot.get("queue_steals"),
                    same_lock_twice=tot.get("queue_tasks_same_lock_twice"), overflows=tot.get("memory_overflows"), yields=tot.get("jitter_yields"),
                    tsan=tot.get("tsan_histories"))
chk.finish()
