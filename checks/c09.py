#!/usr/bin/env python3
"""C09 — a run stopped and restarted continues exactly as if it had never stopped.

(a) binary level: a pure-hydro run of N steps with a restart dump after every step is compared, digest by digest
    (FNV over all conserved+primitive variables in global cell order, H-hydro-state hook), with runs that were stopped
    after k steps and restarted (every k in 1..N-1), and with chains stop->restart->stop->restart.  One thread.
(b) class level: harness/c09_classes.cpp writes, reads back and rewrites every restartable component that can be
    built stand-alone and compares the bytes.
"""
import concurrent.futures as cf
import json
import os
import shutil
import sys

HERE = os.path.dirname(os.path.abspath(__file__))
sys.path.insert(0, os.path.join(HERE, "..", "lib"))
import binrun
import common
import hcheck
import hydrorun

GEOMS = [  # (sides, ncell) incl. cell sizes that are not dyadic rationals
    ([1.1, 1.1, 1.1], [6, 6, 6]), ([1., 1., 1.], [8, 8, 8]), ([0.7, 2.3, 1.1], [6, 10, 6]), ([10., 10., 10.], [6, 6, 6]),
    ([1.3, 0.9, 3.1], [12, 6, 10]), ([1e16, 1e16, 1e16], [6, 6, 6]), ([0.1, 0.1, 0.1], [10, 10, 10]), ([3., 3., 3.], [9, 9, 9]),
    ([1.7, 1.7, 1.7], [14, 14, 14]), ([2.9, 1.9, 0.3], [6, 12, 6]), ([1.1, 1.1, 1.1], [10, 10, 10]), ([7., 5., 3.], [14, 10, 6])]


def digests(recs):
    return {r["step"]: r["digest"] for r in recs}


def scenario(job):
    i, cfg, N, stops, exe, root, extra = job
    """stops: increasing list of step counts at which the run is stopped; after each stop it is restarted."""
    out = dict(i=i, cfg=cfg, N=N, stops=stops, viol=[], st={}, err="")
    ref = extra
    if ref is None:
        out["viol"].append(("run/abnormal-exit", "uninterrupted run failed (see reference run)"))
        return out
    d = os.path.join(root, "g%03d_s%s" % (i, "_".join(map(str, stops))))
    cfg2 = dict(cfg, restart_path=d)
    r, recs = hydrorun.run(exe, d, cfg2, threads=1, steps=stops[0], dump=True)
    if r.rc != 0:
        out["viol"].append(("run/abnormal-exit", "run stopped after %d steps: exit status %s | %s" % (stops[0], r.rc, (r.err or "")[-200:].replace("\n", " "))))
        return out
    got = digests(recs)
    for k, v in got.items():
        if ref.get(k) != v:
            out["viol"].append(("determinism/first-leg", "step %d of the interrupted run differs from the uninterrupted run before any restart (%s vs %s)" % (k, v, ref.get(k))))
            return out
    for leg, upto in enumerate(stops[1:] + [N]):
        log = os.path.join(d, "hydro.log")
        if os.path.exists(log):
            os.remove(log)
        env = {"CMI_VERIF_HYDRO_LOG": log, "CMI_VERIF_STATE_DUMP": os.path.join(d, "state_r%d_" % leg)}
        r = binrun.run_cmi(exe, d, ["--params", os.path.join(d, "run.param"), "--task-based-rhd", "--restart", d, "--number-of-steps", str(upto)],
                           env=env, timeout=300, threads=1)
        recs = hydrorun.parse_log(log)
        if r.rc != 0 or not recs:
            out["viol"].append(("restart/abnormal-exit", "restart after step %d: exit status %s | %s" % (stops[leg], r.rc, (r.err or "")[-300:].replace("\n", " "))))
            return out
        out["st"]["restarts"] = out["st"].get("restarts", 0) + 1
        first = True
        for rec in recs:
            k = rec["step"]
            out["st"]["steps_compared"] = out["st"].get("steps_compared", 0) + 1
            if ref.get(k) != rec["digest"]:
                key = "restart/restored-state" if first else "restart/continuation"
                detail = ""
                # localise with the full dumps of the reference run
                out["viol"].append((key, "geometry sides=%s ncell=%s nsub=%s: state at step %d after restarting from the dump of step %d differs from the uninterrupted run (digest %s vs %s)%s" % (
                    cfg["box"][1], cfg["ncell"], cfg["nsub"], k, stops[leg], rec["digest"], ref.get(k), detail)))
                return out
            first = False
    shutil.rmtree(d, ignore_errors=True)
    return out


def reference(job):
    i, cfg, N, exe, root = job
    if cfg.get("turbulence") and cfg["turbulence"].get("commensurate"):
        # make the driving times of the turbulence forcing coincide with ends of hydro steps: probe the hydro step size
        # without forcing, then use twice that as forcing step (the comparison "driving time < end of step" then sits
        # exactly on the boundary, where a restarted run must still take the same decision as the uninterrupted one)
        pd = os.path.join(root, "g%03d_probe" % i)
        rp, recs = hydrorun.run(exe, pd, dict(cfg, turbulence=None, dump_interval=1e30), threads=1, steps=1, dump=False)
        shutil.rmtree(pd, ignore_errors=True)
        if rp.rc == 0 and len(recs) >= 2 and recs[1]["dt_used"] > 0:
            cfg["turbulence"]["dt"] = cfg["turbulence"]["commensurate"] * recs[1]["dt_used"]
    ref_dir = os.path.join(root, "g%03d_ref" % i)
    r, recs = hydrorun.run(exe, ref_dir, cfg, threads=1, steps=N, dump=False)
    shutil.rmtree(ref_dir, ignore_errors=True)
    if r.rc != 0 or len(recs) != N + 1:
        return i, None, "exit status %s, %d records | %s" % (r.rc, len(recs), (r.err or "")[-300:].replace("\n", " "))
    return i, digests(recs), ""


def main():
    chk = common.Check("C09")
    quick = chk.tier == "quick"
    try:
        exe = binrun.binary("hooks")
    except common.BuildError as e:
        chk.inconclusive_because(str(e)); chk.finish()
    root = chk.rundir()
    rng = common.SplitMix64(chk.seed * 49979687 + 9)
    N = int(os.environ.get("C09_STEPS", "0")) or (24 if quick else 40)
    geoms = list(GEOMS)
    rng.shuffle(geoms)
    if quick and not os.environ.get("C09_ALL_GEOMETRIES"):
        # always the two geometries whose inverse cell size is most often not the rounded inverse of the cell size, plus 4 random ones
        geoms = [GEOMS[4], GEOMS[2]] + [g for g in geoms if g not in (GEOMS[4], GEOMS[2])][:4]
    jobs = []
    i = 0
    for (sides, ncell) in geoms:
        r = rng.fork("g%d" % i)
        nsub = [r.choice([d for d in (1, 2, 3) if n % d == 0]) for n in ncell]
        anchor = [r.choice([0., -0.5, 2.2]) * s for s in sides]
        periodic = [True] * 3 if r.chance(0.5) else [r.chance(0.5) for _ in range(3)]
        scale = sides[0]
        blocks, kind = hydrorun.gen_state(r, ncell, (anchor, sides), kind=r.choice(["boxes", "smooth", "shock"]))
        if scale > 1e3:  # keep time steps sensible for huge boxes: nothing to do, dt follows the cell size
            pass
        cfg = dict(ncell=ncell, nsub=nsub, periodic=periodic, box=(anchor, sides), blocks=blocks, gamma=r.choice([1.4, 5. / 3.]),
                   cfl=0.2, total_time=1e-3 * scale, dump_interval=0., backups=1)
        if sides[0] == sides[1] == sides[2] and (quick or r.chance(0.6)):
            # optional component: turbulence forcing (needs a cubic box); its random stream and amplitudes are part of the dump
            cfg["turbulence"] = dict(dt=1e-6 * scale, power=10 ** r.uniform(5, 9) * scale ** 2 / (1e-3 * scale) ** 3 * 1e-9, seed=r.randint(1, 10 ** 5),
                                     commensurate=[0.25, 0.5, 0.125, 2, None, 0.25][i % 6])
        if i % 3 == 1:
            # optional component: the restartable hydro mask (a sphere in which the initial condition, rescaled, is
            # re-imposed after every step); its stored reference state is part of the dump
            cfg["mask"] = dict(center=[anchor[d] + r.uniform(0.4, 0.6) * sides[d] for d in range(3)], radius=r.uniform(0.2, 0.35) * min(sides),
                               fdens=r.choice([0.5, 1., 2.]), fvel=r.choice([1., 0.5]), fpres=r.choice([0.5, 1.]), delta_t=0.)
        ks = list(range(1, N)) if not quick else sorted(set([1, 2, N - 1] + [r.randint(3, N - 2) for _ in range(4)]))
        for k in ks:
            jobs.append((i, cfg, N, [k], exe, root, None))
        chain = sorted(set([1, r.randint(2, N - 2), N - 1]))
        jobs.append((i, cfg, N, chain, exe, root, None))
        i += 1
    tot = {}
    distinct = set()
    if "--replay" in sys.argv:
        rp = json.load(open(sys.argv[sys.argv.index("--replay") + 1]))["replay"]
        jobs = [(0, rp["cfg"], rp["N"], rp["stops"], exe, root, None)]
    # the uninterrupted reference runs, one per geometry
    refjobs = {}
    for j in jobs:
        refjobs.setdefault(j[0], (j[0], j[1], j[2], exe, root))
    refs = {}
    with cf.ThreadPoolExecutor(max_workers=8) as ex:
        for i, ref, err in ex.map(reference, list(refjobs.values())):
            refs[i] = ref
            tot["uninterrupted_runs"] = tot.get("uninterrupted_runs", 0) + 1
            if ref is None:
                chk.violation("run/abnormal-exit", "uninterrupted run of geometry %d: %s" % (i, err), dict(cfg=refjobs[i][1], N=refjobs[i][2], stops=[1]))
    jobs = [(j[0], j[1], j[2], j[3], j[4], j[5], refs.get(j[0])) for j in jobs if refs.get(j[0]) is not None]
    with cf.ThreadPoolExecutor(max_workers=8) as ex:
        for out in ex.map(scenario, jobs):
            rp = dict(cfg=out["cfg"], N=out["N"], stops=out["stops"])
            for key, text in out["viol"]:
                chk.violation(key, text + " | stops=%s" % out["stops"], rp)
            for k, v in out["st"].items():
                tot[k] = tot.get(k, 0) + v
            if out["st"].get("restarts"):
                distinct.add((out["i"], tuple(out["stops"])))
                if out["cfg"].get("mask"):
                    tot["restarts_with_hydro_mask"] = tot.get("restarts_with_hydro_mask", 0) + out["st"]["restarts"]
                if out["cfg"].get("turbulence"):
                    tot["restarts_with_turbulence_forcing"] = tot.get("restarts_with_turbulence_forcing", 0) + out["st"]["restarts"]
            if len(chk.coverage["samples"]) < 3:
                chk.add_sample(dict(sides=out["cfg"]["box"][1], ncell=out["cfg"]["ncell"], nsub=out["cfg"]["nsub"], periodic=out["cfg"]["periodic"],
                                    turbulence=bool(out["cfg"].get("turbulence")),
                                    N=out["N"], stops=out["stops"], monitor=out["st"]))
    # (b) class level round trips
    try:
        hexe = common.build_harness("c09_classes", "hooks")
        stats, statd = hcheck.run_shards(chk, hexe, ["--cases", "300" if quick else "20000", "--tmp", root], 4 if quick else 16, timeout=1200)
        for k, v in stats.items():
            tot["classes_" + k] = v
    except common.BuildError as e:
        chk.inconclusive_because(str(e))
    except FileNotFoundError:
        tot["classes_harness_missing"] = 1
    cov = chk.coverage
    cov["evaluations"] = tot.get("steps_compared", 0) + tot.get("classes_roundtrips", 0)
    cov["distinct_nontrivial"] = len(distinct) + tot.get("classes_distinct_objects", 0)
    cov["rule"] = ("(a) one evaluation = one step digest of a restarted one-thread pure-hydro run compared with the uninterrupted run; scenarios = geometry "
                   "(incl. non-dyadic cell sizes) x stop step k (all k in thorough) and stop/restart chains; non-trivial = distinct (geometry, stop list) "
                   "with at least one restart compared. (b) write->read->write byte comparison of restartable classes built from generated values")
    cov["monitor_counters"] = tot
    chk.assumptions += ["one thread (the property's bit-identity clause); wall-clock timers and the re-seeded photon stream are not part of the digest"]
    if "--replay" not in sys.argv:
        chk.require_nonzero(restarts=tot.get("restarts"), steps=tot.get("steps_compared"), with_mask=tot.get("restarts_with_hydro_mask"), with_turbulence=tot.get("restarts_with_turbulence_forcing"))
    chk.finish()


main()
