#!/usr/bin/env python3
"""C10 — hydro results do not depend on the subgrid layout or the number of threads.

The same generated initial state is advanced by the real binary for every layout dividing the cell grid (incl. the
undivided 1x1x1 grid run with one thread = plain sequential execution of the sweeps) and several thread counts /
jitter seeds; the post-step state dumps (global cell order) are compared cell by cell.  With one thread two identical
runs must agree bit for bit.
"""
import concurrent.futures as cf
import itertools
import json
import math
import os
import sys

HERE = os.path.dirname(os.path.abspath(__file__))
sys.path.insert(0, os.path.join(HERE, "..", "lib"))
sys.path.insert(0, os.path.join(HERE, "..", "oracle"))
import binrun
import common
import hydrorun

REL = 1e-10


def divisors(n):
    return [d for d in range(1, n + 1) if n % d == 0 and d <= 4]


def neighbourhood_max(arr, dims):
    nx, ny, nz = dims
    out = [0.] * len(arr)
    for ix in range(nx):
        for iy in range(ny):
            for iz in range(nz):
                m = 0.
                for dx in (-1, 0, 1):
                    for dy in (-1, 0, 1):
                        for dz in (-1, 0, 1):
                            j = (((ix + dx) % nx) * ny + (iy + dy) % ny) * nz + (iz + dz) % nz
                            if arr[j] > m:
                                m = arr[j]
                out[(ix * ny + iy) * nz + iz] = m
    return out


def compare(ref, other, gamma, vol, meanmass):
    """Returns (worst ratio to tolerance, description of the worst cell) for conserved variables (and primitives in non-vacuum cells)."""
    dims, a = ref
    _, b = other
    n = dims[0] * dims[1] * dims[2]
    sm, sp, se = hydrorun.scales(dims, a, gamma, vol)
    sm, sp, se = neighbourhood_max(sm, dims[:3]), neighbourhood_max(sp, dims[:3]), neighbourhood_max(se, dims[:3])
    worst, desc = 0., ""
    names = ["mass", "px", "py", "pz", "energy", "rho", "vx", "vy", "vz", "P"]
    for i in range(n):
        sc = [sm[i], sp[i], sp[i], sp[i], se[i]]
        for k in range(5):
            d = abs(a[10 * i + k] - b[10 * i + k])
            if d == 0.:
                continue
            tol = REL * sc[k] + 1e-300
            r = d / tol
            if r > worst:
                worst, desc = r, "cell %d %s: %.17g vs %.17g (diff %.3e, scale %.3e)" % (i, names[k], a[10 * i + k], b[10 * i + k], d, sc[k])
        if a[10 * i] > 1e-6 * meanmass:
            for k in (5, 9):
                d = abs(a[10 * i + k] - b[10 * i + k])
                s = (sm[i] if k == 5 else se[i]) / vol
                if d > 0 and d / (1e-8 * s + 1e-300) > worst:
                    worst, desc = d / (1e-8 * s + 1e-300), "cell %d %s: %.17g vs %.17g" % (i, names[k], a[10 * i + k], b[10 * i + k])
    return worst, desc


def run_one(job):
    tag, cfg, threads, jitter, steps, exe, rd = job
    r, recs = hydrorun.run(exe, rd, cfg, threads=threads, steps=steps, jitter=jitter, dump=True)
    return tag, r, recs, rd


def main():
    chk = common.Check("C10")
    quick = chk.tier == "quick"
    try:
        exe = binrun.binary("hooks")
    except common.BuildError as e:
        chk.inconclusive_because(str(e)); chk.finish()
    root = chk.rundir()
    rng = common.SplitMix64(chk.seed * 32452843 + 10)
    nstates = 14 if quick else 200
    steps = 3
    tot = dict(states=0, runs=0, comparisons=0, cells_compared=0, bitwise_pairs=0, dt_mismatch_skipped=0)
    maxratio = 0.
    later_max = [0.]
    distinct = set()
    for s in range(nstates):
        r = rng.fork("s%d" % s)
        ncell = [r.choice([4, 6, 8, 12]) if not quick else r.choice([4, 6, 8]) for _ in range(3)]
        sides = [r.choice([1., 1.1, 0.7, 2.3]) for _ in range(3)] if r.chance(0.6) else [1., 1., 1.]
        anchor = [r.choice([0., -0.5, 3.3]) * x for x in sides]
        periodic = [True] * 3 if r.chance(0.5) else [r.chance(0.5) for _ in range(3)]
        gamma = r.choice([1.4, 5. / 3., 2.])
        blocks, kind = hydrorun.gen_state(r, ncell, (anchor, sides), gamma=gamma)
        base = dict(ncell=ncell, periodic=periodic, box=(anchor, sides), blocks=blocks, gamma=gamma, cfl=r.choice([0.1, 0.2, 0.3]), total_time=1e-3)
        layouts = list(itertools.product(divisors(ncell[0]), divisors(ncell[1]), divisors(ncell[2])))
        layouts = [l for l in layouts if l != (1, 1, 1) and l[0] * l[1] * l[2] <= 32]
        r.shuffle(layouts)
        chosen = layouts[:4 if quick else 10]
        jobs = [("ref", dict(base, nsub=[1, 1, 1]), 1, None, steps, exe, os.path.join(root, "s%03d_ref" % s)),
                ("ref2", dict(base, nsub=[1, 1, 1]), 1, None, steps, exe, os.path.join(root, "s%03d_ref2" % s))]
        k = 0
        for l in chosen:
            ths = [1, r.choice([2, 3, 4]), r.choice([8, 16])] if k < 2 else [r.choice([1, 2, 4, 8])]
            for th in ths:
                jit = None if th == 1 else "%d:%d:%d" % (r.randint(1, 10 ** 6), r.choice([20, 200]), 500)
                jobs.append(("L%s_t%d" % ("x".join(map(str, l)), th), dict(base, nsub=list(l)), th, jit, steps, exe,
                             os.path.join(root, "s%03d_%s_t%d" % (s, "x".join(map(str, l)), th))))
            if k == 0:
                jobs.append(("L%s_t1_again" % "x".join(map(str, l)), dict(base, nsub=list(l)), 1, None, steps, exe,
                             os.path.join(root, "s%03d_%s_again" % (s, "x".join(map(str, l))))))
            k += 1
        results = {}
        with cf.ThreadPoolExecutor(max_workers=8) as ex:
            for tag, rr, recs, rd in ex.map(run_one, jobs):
                results[tag] = (rr, recs, rd)
        tot["states"] += 1
        vol = sides[0] * sides[1] * sides[2] / (ncell[0] * ncell[1] * ncell[2])
        label0 = "state %d kind=%s ncell=%s periodic=%s gamma=%g box=%s" % (s, kind, ncell, periodic, gamma, sides)
        ok = True
        for tag, (rr, recs, rd) in results.items():
            cfgt = [j for j in jobs if j[0] == tag][0]
            rp = dict(cfg=cfgt[1], threads=cfgt[2], jitter=cfgt[3], steps=steps)
            if rr.timed_out:
                chk.inconclusive_because("watchdog fired twice: %s %s" % (label0, tag)); ok = ok and tag != "ref"
            elif rr.rc != 0 or len(recs) < steps + 1:
                chk.violation("run/abnormal-exit", "exit status %s, %d records: %s %s | %s" % (rr.rc, len(recs), label0, tag, (rr.err or "")[-200:].replace("\n", " ")), rp)
                ok = ok and tag != "ref"
            tot["runs"] += 1
        if not ok or "ref" not in results:
            continue
        refrecs, refrd = results["ref"][1], results["ref"][2]
        meanmass = refrecs[0]["mass"] / refrecs[0]["ncell"]
        refd = {k: hydrorun.read_dump(os.path.join(refrd, "state_hydro_%06d.bin" % k)) for k in range(steps + 1)}
        # bitwise reproducibility, one thread
        for a, b in (("ref", "ref2"),) + tuple((t[:-6], t) for t in results if t.endswith("_again")):
            if a in results and b in results and results[a][0].rc == 0 and results[b][0].rc == 0:
                da = [x["digest"] for x in results[a][1]]
                db = [x["digest"] for x in results[b][1]]
                tot["bitwise_pairs"] += 1
                if da != db:
                    chk.violation("reproducibility/one-thread", "two identical one-thread runs differ bitwise (digests %s vs %s): %s %s" % (da, db, label0, a),
                                  dict(cfg=[j for j in jobs if j[0] == a][0][1], threads=1, jitter=None, steps=steps))
        for tag, (rr, recs, rd) in results.items():
            if tag in ("ref", "ref2") or rr.rc != 0 or len(recs) < steps + 1:
                continue
            cfgt = [j for j in jobs if j[0] == tag][0]
            rp = dict(cfg=cfgt[1], threads=cfgt[2], jitter=cfgt[3], steps=steps, reference=dict(cfgt[1], nsub=[1, 1, 1]))
            for k in range(0, steps + 1):
                if k == 1 and recs[k]["dt_used"] != refrecs[k]["dt_used"]:
                    # the first step size is the minimum over all cells of a function of the (identical) initial state: a
                    # minimum does not depend on the order in which subgrids and threads contribute
                    chk.violation("layout/first-timestep", "first hydro step is %r s on layout %s with %d threads and %r s on the undivided grid with one thread | %s" % (
                        recs[k]["dt_used"], cfgt[1]["nsub"], cfgt[2], refrecs[k]["dt_used"], label0), rp)
                    break
                if k > 0 and recs[k]["dt_used"] != refrecs[k]["dt_used"]:
                    tot["dt_mismatch_skipped"] += 1
                    break
                d = hydrorun.read_dump(os.path.join(rd, "state_hydro_%06d.bin" % k))
                if k >= 2:
                    # the property speaks about ONE step from the SAME state: a later step is judged only if both runs entered it
                    # with bitwise identical states.  Otherwise the round-off difference of the earlier step is an input
                    # difference, which the scheme may amplify (observed on the unchanged tree: 1-ulp differences after step 1
                    # grow to 6e-9 in step 2 next to a 12-orders-of-magnitude density contrast; restarting both step-1 states
                    # shows that the step-2 result is a deterministic function of the step-1 state, not of the schedule)
                    dprev = hydrorun.read_dump(os.path.join(rd, "state_hydro_%06d.bin" % (k - 1)))
                    if dprev[1] != refd[k - 1][1]:
                        w2, _ = compare(refd[k], d, gamma, vol, meanmass)
                        tot["later_steps_not_judged_inputs_differ"] = tot.get("later_steps_not_judged_inputs_differ", 0) + 1
                        later_max[0] = max(later_max[0], w2)
                        continue
                worst, desc = compare(refd[k], d, gamma, vol, meanmass)
                tot["comparisons"] += 1
                tot["cells_compared"] += refrecs[0]["ncell"]
                maxratio = max(maxratio, worst)
                if worst > 1.:
                    what = "initial state" if k == 0 else "state after step %d" % k
                    chk.violation("layout/%s" % ("initial-state" if k == 0 else "step"),
                                  "%s differs between the undivided grid and layout %s (threads %d): %s (%.2e x tolerance) | %s" % (
                                      what, cfgt[1]["nsub"], cfgt[2], desc, worst, label0), rp)
                    break
            distinct.add((s, tag))
        if len(chk.coverage["samples"]) < 3:
            chk.add_sample(dict(state=s, kind=kind, ncell=ncell, periodic=periodic, gamma=gamma, box=(anchor, sides), layouts=[list(l) for l in chosen],
                                runs=sorted(results), digests_ref=[x["digest"] for x in refrecs]))
        if not chk.violations:
            import shutil
            for tag, (rr, recs, rd) in results.items():
                shutil.rmtree(rd, ignore_errors=True)
    # ThreadSanitizer leg: "independent of the number of threads" also means that no two threads update the same datum
    # unsynchronised (e.g. a shared minimum for the time step): a race is reported whether or not the update was lost
    import tsan_classify
    try:
        exe_tsan = binrun.binary("tsan")
    except common.BuildError as e:
        chk.inconclusive_because(str(e)); chk.finish()
    tsan_counts = dict(runs=0, reports=0, benign=0)

    def tsan_run(j):
        r = rng.fork("t%d" % j)
        nsub = [r.choice([2, 2, 3, 4]) for _ in range(3)]
        ncell = [2 * n for n in nsub]
        sides = [1., 1., 1.]
        blocks, kind = hydrorun.gen_state(r, ncell, ([0., 0., 0.], sides), kind=r.choice(["boxes", "shock"]))
        cfg = dict(ncell=ncell, nsub=nsub, periodic=[r.chance(0.5) for _ in range(3)], box=([0., 0., 0.], sides), blocks=blocks, gamma=5. / 3., cfl=0.2, total_time=1e-3)
        rd = os.path.join(root, "tsan%03d" % j)
        os.makedirs(rd, exist_ok=True)
        env = {"TSAN_OPTIONS": "halt_on_error=0:ignore_noninstrumented_modules=1:report_signal_unsafe=0:log_path=%s/tsan.log" % rd}
        th = r.choice([2, 4, 8])
        rr, recs = hydrorun.run(exe_tsan, rd, cfg, threads=th, steps=2, jitter="%d:100:500" % r.randint(1, 10 ** 6), dump=False, extra_env=env, timeout=600)
        return cfg, th, rr, tsan_classify.classify_dir(rd), rd

    with cf.ThreadPoolExecutor(max_workers=4) as ex:
        for cfg, th, rr, reports, rd in ex.map(tsan_run, range(4 if quick else 40)):
            rp = dict(cfg=cfg, threads=th, jitter=None, steps=2, tsan=True)
            if rr.timed_out:
                chk.inconclusive_because("TSan run: watchdog fired twice (nsub=%s threads=%d)" % (cfg["nsub"], th))
                continue
            tsan_counts["runs"] += 1
            for rep in reports:
                tsan_counts["reports"] += 1
                if rep["benign"]:
                    tsan_counts["benign"] += 1
                else:
                    chk.violation("tsan/" + rep["key"], rep["summary"] + " | nsub=%s threads=%d" % (cfg["nsub"], th), dict(rp, report=rep["text"][:4000]))
            if rr.rc not in (0, 66) and not reports:
                chk.violation("run/abnormal-exit", "TSan run exit status %s (nsub=%s threads=%d) | %s" % (rr.rc, cfg["nsub"], th, (rr.err or "")[-200:].replace("\n", " ")), rp)
    tot["tsan_runs"] = tsan_counts["runs"]
    tot["tsan_reports"] = tsan_counts["reports"]
    tot["tsan_benign"] = tsan_counts["benign"]
    cov = chk.coverage
    cov["evaluations"] = tot["comparisons"]
    cov["distinct_nontrivial"] = len(distinct)
    cov["rule"] = ("one evaluation = cell-by-cell comparison of a state dump (initial, after step 1, and after steps 2..3 when the preceding states were bitwise equal) of a (layout, threads, jitter) run with the undivided "
                   "one-thread run of the same generated initial state; tolerance 1e-10 x neighbourhood scale (m, m(|v|+a), E+PV); non-trivial = distinct "
                   "(state, layout, threads) runs that were compared")
    cov["monitor_counters"] = tot
    cov["max_difference_over_tolerance"] = maxratio
    cov["max_difference_over_tolerance_in_later_steps_with_different_inputs_not_judged"] = later_max[0]
    chk.assumptions += ["states after step k are only compared while the step sizes of both runs are bitwise equal (the FIRST step size must be equal: clause layout/first-timestep; "
                        "later ones may legitimately differ when round-off moves the CFL minimum across a power-of-two boundary of the time line: counted, not judged)",
                        "primitive variables are compared only in cells with mass above 1e-6 of the mean"]
    chk.require_nonzero(comparisons=tot["comparisons"], bitwise=tot["bitwise_pairs"], tsan_runs=tot["tsan_runs"])
    chk.finish()


main()
