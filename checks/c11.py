#!/usr/bin/env python3
"""C11 — the exact Riemann solver returns the solution of the Riemann problem.

In-process harness on the real ExactRiemannSolver::solve; violation keys are <clause>/<regime>
(see harness/c11_exact_riemann.cpp)."""
import json, os, shlex, subprocess, sys
sys.path.insert(0, os.path.join(os.path.dirname(os.path.abspath(__file__)), "..", "lib"))
import common, hcheck

if "--replay" in sys.argv:  # re-run the single problem recorded in a violation file
    rec = json.load(open(sys.argv[sys.argv.index("--replay") + 1]))
    exe = common.build_harness("c11_exact_riemann", "hooks", link_libs=False)
    cmd = shlex.split(rec["replay"]["cmd"])
    cmd[0] = exe
    r = subprocess.run(cmd)
    sys.exit(1 if r.returncode == 1 else (0 if r.returncode == 0 else 2))

chk = common.Check("C11")
try:
    exe = common.build_harness("c11_exact_riemann", "hooks", link_libs=False)
except common.BuildError as e:
    chk.inconclusive_because(str(e)); chk.finish()
quick = chk.tier == "quick"
shards = 16
problems = 18750 if quick else 1875000       # 3e5 quick / 3e7 thorough
# keep at most 3 written-out violations per key (each with its replay command); full counts are in the evidence
_orig, _seen = chk.violation, {}
def _dedupe(key, what, replay=None):
    _seen[key] = _seen.get(key, 0) + 1
    if _seen[key] <= 3:
        _orig(key, what, replay)
chk.violation = _dedupe
stats, statd = hcheck.run_shards(chk, exe, ["--problems", str(problems)], shards, timeout=900 if quick else 6 * 3600)
cov = chk.coverage
cov["evaluations"] = stats.get("solve_calls", 0)
cov["distinct_nontrivial"] = sum(stats.get("pattern_" + p, 0) for p in ("SS", "SR", "RS", "RR")) + sum(
    stats.get("regime_" + r, 0) for r in ("left_vacuum", "right_vacuum", "vacuum_generation"))
cov["rule"] = ("problem = (gamma in {5/3, 1.4, 2, 1.1, 1.01, U(1.02,2)}, rho,P log-uniform over 6 decades (or exactly 0 on one/both sides), "
               "velocity difference from strongly colliding through and beyond the vacuum-generation limit, common drift); every problem "
               "is solved by an independent long-double bisection reference and the real solve() is sampled in the star regions, inside "
               "fans, outside the waves, within 1e-9 of every shock / the contact, across every head / tail / vacuum front; "
               "non-trivial = problems with at least one wave (distinct PRNG streams); evaluations = calls of solve()")
cov["monitor_counters"] = {k: v for k, v in stats.items() if not k.startswith("viol_")}
cov["violations_by_key"] = {k[5:]: v for k, v in stats.items() if k.startswith("viol_")}
cov["max_error_over_tolerance"] = {k[9:]: v for k, v in statd.items() if k.startswith("maxratio_")}
cov["max_pstar_relative_error_vs_reference"] = statd.get("max_pstar_relative_error")
chk.assumptions += [
    "a state with rho == 0 or P == 0 is vacuum; the velocity returned inside a vacuum has no meaning and is not judged",
    "the vacuum-generation threshold itself (relative band 1e-9) is excluded",
    "problems whose p* is below 1e-290 of the input pressures ('underflow': gamma close to 1, almost vacuum generation) are only "
    "required to return finite, non-negative values and a numerically empty star region",
    "probes at a wave are skipped when the neighbouring region is thinner than four times the probe offset (counted)",
]
need = {k: stats.get(k) for k in (
    "regime_non_vacuum", "regime_left_vacuum", "regime_right_vacuum", "regime_both_vacuum", "regime_vacuum_generation",
    "regime_underflow", "pattern_SS", "pattern_SR", "pattern_RS", "pattern_RR", "n_pstar-residual", "n_pstar-ref",
    "n_rankine-hugoniot", "n_rarefaction", "n_reference", "n_outer", "n_at_contact", "n_at_shock", "n_continuity_head",
    "n_continuity_tail", "n_continuity_front", "region_1", "region_2", "region_3", "region_4", "region_6", "toro_anchors", "n_finite")}
chk.require_nonzero(**{k.replace("-", "_"): v for k, v in need.items()})
chk.finish()
