#!/usr/bin/env python3
"""C12 — complete runs end normally without touching invalid or uninitialised memory.

Run matrix over the real binary: ASan+UBSan build (fatal reports) for out-of-bounds / use-after-free / invalid free /
undefined behaviour, and valgrind memcheck on the hooks build for decisions on uninitialised memory (MSan is unusable
here: HDF5/libstdc++/libgomp are not instrumented).  A run must exit with status 0 and leave its outputs.
"""
import concurrent.futures as cf
import glob
import json
import os
import re
import sys

HERE = os.path.dirname(os.path.abspath(__file__))
sys.path.insert(0, os.path.join(HERE, "..", "lib"))
import binrun
import common
import hydrorun
import params

ALL_IONS = ["H", "He", "C+", "C++", "N", "N+", "N++", "O", "O+", "Ne", "Ne+", "S+", "S++", "S+++"]


def ion_names():
    """Names used by DensityGridWriterFields for the per-ion NeutralFraction fields (from the source)."""
    src = open(os.path.join(common.REPO, "src", "ElementNames.hpp")).read()
    m = re.findall(r'return "([A-Za-z+]+)";', src)
    return m[:14] if len(m) >= 14 else ALL_IONS


def photo_case(rng, i):
    nsub = [rng.choice([1, 2, 2, 3]) for _ in range(3)]
    cps = [rng.choice([2, 3, 4]) for _ in range(3)]     # subgrids are not cubes in general
    L = 10.0 ** rng.uniform(15, 17)
    periodic = [rng.chance(0.3) for _ in range(3)]
    anyp = any(periodic)
    cont = rng.choice([None, "Isotropic", "Planar", "DistantStar"])
    nsrc = rng.choice([1, 2]) if (cont is None or rng.chance(0.5)) else 0
    tau = rng.uniform(4, 20) if anyp or rng.chance(0.5) else 0.1
    weak = anyp or rng.chance(0.4)
    diffuse = rng.choice([None, "FixedValue", "Physical"])
    lum = 1e-30 if weak else 1e49
    cfg = dict(ncell=[n * c for n, c in zip(nsub, cps)], nsub=nsub, periodic=periodic, copy_level=rng.choice([0, 1, 2]) if nsrc else 0,
               nphoton=rng.choice([100, 999, 2000, 10000]), niter=rng.choice([1, 2, 3]), seed=rng.randint(1, 10 ** 6),
               box=([-0.5 * L] * 3, [L] * 3), density=tau / (6.3e-22 * L), sigma_H=6.3e-22, luminosity=lum,
               cont_flux=lum / (6 * L * L), sources=[tuple(rng.uniform(-0.45, 0.45) * L for _ in range(3)) for _ in range(nsrc)],
               continuous=cont, diffuse=diffuse, nbuffers=27 * nsub[0] * nsub[1] * nsub[2] * 5 + 600, queue=30000, shared_queue=30000, ntasks=60000,
               cross="Verner" if (diffuse == "Physical" or rng.chance(0.3)) else "FixedValue", temperature=rng.chance(0.3),
               writer=rng.choice(["AsciiFile", "Gadget", "Gadget"]))
    toggles = dict(trackers=rng.choice([False, False, False, False, True, True, "stacked"]), task_plot=rng.chance(0.2), field_selection=rng.choice([None, None, "He-only", "sparse"]),
                   dark_discrete_source=bool(cont and nsrc and rng.chance(0.35)))
    if toggles["dark_discrete_source"]:
        # a discrete source distribution whose total luminosity is exactly zero next to a continuous source: the code
        # warns, disables the discrete sources and carries on with the continuous one
        cfg["discrete_luminosity"] = 0.
    return dict(mode="photo", cfg=cfg, toggles=toggles, threads=rng.choice([1, 4]))


def rhd_case(rng, i):
    nsub = [rng.choice([1, 2, 2]) for _ in range(3)]
    cps = [rng.choice([2, 3, 4, 6]) for _ in range(3)]  # subgrids are not cubes in general
    ncell = [n * c for n, c in zip(nsub, cps)]
    periodic = [True] * 3 if rng.chance(0.4) else [rng.chance(0.4) for _ in range(3)]
    radiation = rng.chance(0.5)
    L = 3e16 if radiation else 1.0
    box = ([0., 0., 0.], [L, L, L])
    blocks, kind = hydrorun.gen_state(rng, ncell, box, kind=rng.choice(["boxes", "smooth"]))
    if radiation:
        for b in blocks:   # interstellar densities so that photons are absorbed on the scale of the box
            b["density"] = 10 ** rng.uniform(7.5, 9)
            b["xH"] = 1.0
    cfg = dict(ncell=ncell, nsub=nsub, periodic=periodic, box=box, blocks=blocks, gamma=5. / 3., cfl=0.2,
               total_time=(1e-3 if not radiation else 1e10), radiation=radiation, nphoton=rng.choice([200, 1000]), niter=rng.choice([1, 2]),
               copy_level=rng.choice([0, 1]), nbuffers=27 * nsub[0] * nsub[1] * nsub[2] * 3 + 600, diffuse=rng.choice([None, "FixedValue"]) if radiation else None,
               luminosity=1e47 if radiation else 1e49, dump_interval=0. if rng.chance(0.5) else 1e30, backups=rng.choice([0, 1, 2, 3]),
               writer="Gadget", seed=rng.randint(1, 10 ** 6))   # the ASCII writer deliberately writes nothing for hydro grids
    toggles = dict(live=rng.choice([None, "surface", "ionized", "pdf", "velocity", "all"]), mask=rng.chance(0.25), turbulence=rng.chance(0.25),
                   cooling=rng.chance(0.2), gravity=rng.chance(0.25), restart=rng.chance(0.35), task_plot=rng.chance(0.15))
    if toggles["mask"]:
        # HydroMask::write_restart_file is a deliberate cmac_error("Restarting not supported for this mask!") for the
        # BlockSyntax mask: restart dumps with a mask are a documented unsupported combination, not a valid input
        toggles["restart"] = False
        cfg["dump_interval"] = 1e30
    if toggles["restart"]:
        cfg["dump_interval"] = 0.
    case = dict(mode="rhd", cfg=cfg, toggles=toggles, threads=rng.choice([1, 4]), steps=rng.choice([2, 3, 4]))
    if toggles["restart"]:
        case["restart_threads"] = rng.choice([case["threads"], 1, 2, 4, 8])
    if radiation and rng.chance(0.3):
        make_varsources(case, rng)
    return case


def make_varsources(case, rng):
    """time dependent source distribution: the copies of the source subgrids are deleted and re-created between steps,
    while task slots, buffers and queues are recycled (a fixed step a power of two below the total time, sources that
    live 2-3 steps and are updated more often than once per step)"""
    cfg = case["cfg"]
    dt = cfg["total_time"] / 128.
    cfg.update(min_dt=dt, max_dt=dt, copy_level=rng.choice([1, 2]), niter=2,
               varsources=dict(n=rng.choice([2, 3, 4]), lifetime=dt * rng.uniform(1.6, 3.2), update_interval=dt * rng.uniform(0.4, 0.9),
                               seed=rng.randint(1, 10 ** 6)))
    cfg["nbuffers"] = 27 * cfg["nsub"][0] * cfg["nsub"][1] * cfg["nsub"][2] * 6 + 600
    case["steps"] = rng.choice([5, 6, 7])
    case["toggles"]["varsources"] = True


def pick_rhd(rng, i, want):
    """an rhd case from the generator that satisfies `want` (a predicate on the case); forks of one PRNG stream"""
    for k in range(200):
        case = rhd_case(rng.fork("p%d" % k), i)
        if want(case):
            return case
    return case


def write_case(case, rd):
    cfg, tg = dict(case["cfg"]), case["toggles"]
    extra = []
    if case["mode"] == "photo":
        if tg.get("trackers"):
            fn = os.path.join(rd, "trackers.yml")
            L = cfg["box"][1][0]
            with open(fn, "w") as f:
                if tg.get("trackers") == "stacked":
                    # several trackers observing the same cell (e.g. one per frequency range or direction): 2 + 3 + 1
                    pos = [(0.2 * L, 0., 0.)] * 2 + [(0., -0.3 * L, 0.1 * L)] * 3 + [(-0.25 * L, 0.25 * L, 0.)]
                else:
                    pos = [(0.2 * L, 0., 0.), (0., -0.3 * L, 0.1 * L)]
                f.write("number of trackers: %d\n" % len(pos))
                for k, q in enumerate(pos):
                    f.write("tracker[%d]:\n  type: Spectrum\n  position: [%r m, %r m, %r m]\n  number of bins: %d\n" % (k, q[0], q[1], q[2], 50 + 10 * k))
            extra += ["TrackerManager:", "  filename: " + fn, "  minimum number of photon packets: 10"]
        pf = params.photo_params(cfg, rd)
        txt = open(pf).read()
        if tg.get("trackers"):
            txt = txt.replace("TaskBasedIonizationSimulation:\n", "TaskBasedIonizationSimulation:\n  enable trackers: true\n")
        sel = tg.get("field_selection")
        if sel:
            names = ion_names()
            on = {"He-only": [names[1]], "sparse": [names[1], names[7], names[8], names[5], names[12]]}[sel]
            extra += ["DensityGridWriterFields:", "  Temperature: 1"] + ["  NeutralFraction%s: %d" % (n, 1 if n in on else 0) for n in names]
        open(pf, "w").write(txt + "\n".join(extra) + "\n")
        args = ["--params", pf, "--task-based"] + (["--task-plot"] if tg.get("task_plot") else [])
        return pf, args
    # rhd
    if tg.get("live"):
        lv = tg["live"]
        extra += ["LiveOutputManager:", "  enabled: true", "  output interval: %r s" % (cfg["total_time"] * 1e-6),
                  "  output surface density: %s" % str(lv in ("surface", "all")).lower(),
                  "  output ionized surface density: %s" % str(lv in ("ionized", "all")).lower(),
                  "  output density PDF: %s" % str(lv in ("pdf", "all")).lower(),
                  "  output velocity PDF: %s" % str(lv in ("velocity", "all")).lower(), "  number of density bins: 20", "  number of velocity bins: 20"]
    if tg.get("mask"):
        L = cfg["box"][1][0]
        mf = os.path.join(rd, "mask.yml")
        with open(mf, "w") as f:
            f.write("number of blocks: 1\nblock[0]:\n  origin: [%r m, %r m, %r m]\n  sides: [%r m, %r m, %r m]\n  type: cube\n  number density: %r m^-3\n  initial temperature: 100. K\n"
                    "  initial velocity: [0. m s^-1, 0. m s^-1, 0. m s^-1]\n" % (0.5 * L, 0.5 * L, 0.5 * L, 0.3 * L, 0.3 * L, 0.3 * L, cfg["blocks"][0]["density"]))
        extra += ["HydroMask:", "  type: BlockSyntax", "  filename: " + mf]
    if tg.get("turbulence"):
        extra += ["TurbulenceForcing:", "  minimum wave number: 1.", "  maximum wave number: 3.", "  peak forcing wave number: 2.", "  concentration factor: 0.2",
                  "  forcing power: 1.e-6 m^2 s^-3", "  time step: %r s" % (cfg["total_time"] * 1e-3), "  starting time: 0. s", "  random seed: 42"]
    if tg.get("gravity"):
        L = cfg["box"][1][0]
        extra += ["ExternalPotential:", "  type: PointMass", "  position: [%r m, %r m, %r m]" % (0.5 * L, 0.5 * L, 0.5 * L), "  mass: 1.e10 kg"]
    cfg["extra"] = extra
    pf = params.rhd_params(cfg, rd)
    txt = open(pf).read()
    head = "TaskBasedRadiationHydrodynamicsSimulation:\n"
    add = ""
    if tg.get("mask"):
        add += "  use mask: true\n"
    if tg.get("turbulence"):
        add += "  turbulent forcing: true\n"
    if tg.get("cooling"):
        add += "  do radiative cooling: true\n"
    if tg.get("gravity"):
        add += "  external gravity: true\n"
    open(pf, "w").write(txt.replace(head, head + add))
    args = ["--params", pf, "--task-based-rhd", "--number-of-steps", str(case["steps"])] + (["--task-plot-rhd", "2"] if tg.get("task_plot") else [])
    return pf, args


SAN_RE = re.compile(r"(ERROR: AddressSanitizer: [^\n]*|runtime error: [^\n]*|ERROR: LeakSanitizer[^\n]*)")


def classify_failure(err, rc, tool):
    """Key of an abnormal run: sanitizer report kind + innermost repository frame."""
    m = SAN_RE.search(err or "")
    frame = ""
    fm = re.findall(r"#\d+ 0x[0-9a-f]+ in ([^\n(]+?)[ (][^\n]*?/src/([A-Za-z0-9_]+\.[ch]pp):(\d+)", err or "")
    if fm:
        frame = "%s@%s" % (fm[0][0].split("<")[0].strip(), fm[0][1])
    if m:
        kind = m.group(1)
        kind = re.sub(r"0x[0-9a-f]+", "", kind)
        kind = kind.replace("ERROR: AddressSanitizer: ", "asan/").replace("runtime error: ", "ubsan/").split(" on ")[0].split(" at ")[0].strip().replace(" ", "-")[:60]
        return "%s/%s" % (kind, frame or "unknown-frame")
    if rc == 97:   # the hooks' no-progress / lock-spin detectors: the run can never end
        return "termination/no-progress"
    cm = re.search(r"([A-Za-z0-9_]+\.[ch]pp):[A-Za-z_~]+\(\):(\d+): Error", err or "")
    if cm:
        return "abort/%s" % cm.group(1)
    return "exit/%s%s" % (("signal-%d" % -rc) if (rc or 0) < 0 else ("status-%s" % rc), ("/" + frame) if frame else "")


def run_case(job):
    i, case, exe, root, tool = job
    rd = os.path.join(root, "%s%03d" % (tool, i))
    os.makedirs(rd, exist_ok=True)
    pf, args = write_case(case, rd)
    env, prefix, timeout = {}, [], 600
    if tool == "asan":
        env["ASAN_OPTIONS"] = "abort_on_error=0:detect_leaks=0:halt_on_error=1:exitcode=23"
        env["UBSAN_OPTIONS"] = "print_stacktrace=1:halt_on_error=1"
    else:
        prefix = ["valgrind", "--tool=memcheck", "--error-exitcode=42", "--track-origins=yes", "--leak-check=no", "--num-callers=25",
                  "--suppressions=" + os.path.join(HERE, "..", "oracle", "c12_valgrind.supp"), "--log-file=" + os.path.join(rd, "valgrind.log")]
        timeout = 1800
    res = dict(i=i, case=case, tool=tool, viol=[], legs=0)

    def go(a, leg):
        # a restarted run may use another number of threads than the run that wrote the dump (job moved to another node)
        nth = case.get("restart_threads", case["threads"]) if leg == "restart" else case["threads"]
        r = common.run(prefix + [exe] + a + ["--threads", str(nth), "--dirty"], timeout=timeout, env=dict(env, OMP_NUM_THREADS=str(nth)), cwd=rd)
        if r.timed_out:
            r = common.run(prefix + [exe] + a + ["--threads", str(nth), "--dirty"], timeout=timeout, env=dict(env, OMP_NUM_THREADS=str(nth)), cwd=rd)
        res["legs"] += 1
        if r.timed_out:
            res["timed_out"] = True
            return False
        if r.rc != 0:
            err = r.err or ""
            if tool == "memcheck" and os.path.exists(os.path.join(rd, "valgrind.log")):
                vl = open(os.path.join(rd, "valgrind.log"), errors="replace").read()
                m = re.search(r"==\d+== ((?:Conditional jump|Use of uninitialised|Invalid (?:read|write|free)|Mismatched free|Syscall param)[^\n]*)\n((?:==\d+==    (?:at|by)[^\n]*\n)+)", vl)
                if m:
                    fr = re.findall(r"(?:at|by) 0x[0-9A-F]+: ([^\n]+?) \(([A-Za-z0-9_]+\.[ch]pp):(\d+)\)", m.group(2))
                    where = ("%s@%s" % (fr[0][0].split("<")[0].split("(")[0].strip(), fr[0][1])) if fr else "unknown-frame"
                    res["viol"].append(("memcheck/%s/%s" % (m.group(1).split(" of size")[0].strip().replace(" ", "-")[:50], where),
                                        "%s leg %s: %s | %s" % (tool, leg, m.group(1), m.group(2)[:600].replace("\n", " ")), (vl[-3000:])))
                    return False
            key = classify_failure(err, r.rc, tool)
            res["viol"].append((key, "%s leg %s: exit status %s | %s" % (tool, leg, r.rc, err[-700:].replace("\n", " ")), err[-3000:]))
            return False
        return True

    ok = go(args, "run")
    if ok and case["mode"] == "rhd" and case["toggles"].get("restart"):
        ok = go(["--params", pf, "--task-based-rhd", "--restart", rd, "--number-of-steps", str(case["steps"] + 2)], "restart")
    if ok:
        outs = glob.glob(os.path.join(rd, "snap_*"))
        if not outs or any(os.path.getsize(o) == 0 for o in outs):
            res["viol"].append(("output/missing-snapshot", "run finished with status 0 but wrote no (or an empty) snapshot", ""))
        if case["mode"] == "rhd" and case["cfg"].get("dump_interval") == 0. and not os.path.exists(os.path.join(rd, "restart.dump")):
            res["viol"].append(("output/missing-restart-dump", "run finished with status 0 but wrote no restart dump", ""))
    return res


def main():
    chk = common.Check("C12")
    quick = chk.tier == "quick"
    try:
        exe_asan = binrun.binary("asan")
        exe_hooks = binrun.binary("hooks")
    except common.BuildError as e:
        chk.inconclusive_because(str(e)); chk.finish()
    root = chk.rundir()
    rng = common.SplitMix64(chk.seed * 86028121 + 12)
    nasan, nmem = (14, 4) if quick else (900, 160)
    jobs = []
    if "--replay" in sys.argv:
        rp = json.load(open(sys.argv[sys.argv.index("--replay") + 1]))["replay"]
        jobs.append((0, rp["case"], exe_asan if rp["tool"] == "asan" else exe_hooks, root, rp["tool"]))
    else:
        for i in range(nasan):
            r = rng.fork("a%d" % i)
            case = photo_case(r, i) if i % 2 == 0 else rhd_case(r, i)
            # structured corners that are always present (the rest is random)
            if i == 0:      # continuous source next to a discrete source of zero total luminosity
                case["cfg"]["continuous"] = case["cfg"]["continuous"] or "Isotropic"
                if not case["cfg"]["sources"]:
                    case["cfg"]["sources"] = [(0., 0., 0.)]
                case["cfg"]["discrete_luminosity"] = 0.
                case["toggles"]["dark_discrete_source"] = True
            if i == 1:      # all live output calculators on subgrids with more cells in y than in x (and in z than in y)
                case["toggles"]["live"] = "all"
                case["cfg"]["ncell"] = [2 * case["cfg"]["nsub"][0], 4 * case["cfg"]["nsub"][1], 6 * case["cfg"]["nsub"][2]]
                case["toggles"]["mask"] = False
            if i == 2:      # several trackers in one cell
                case["toggles"]["trackers"] = "stacked"
            if i == 4:      # packets that are re-emitted many times and then leave the box (scattering statistics bins)
                case["cfg"]["diffuse"] = "FixedValue"
                case["cfg"]["reemit_p"] = 0.95
                case["cfg"]["cross"] = "FixedValue"
                case["cfg"]["periodic"] = [False, False, False]
                case["cfg"]["continuous"] = None
                if not case["cfg"]["sources"]:
                    case["cfg"]["sources"] = [(0., 0., 0.)]
                L4 = case["cfg"]["box"][1][0]
                case["cfg"]["density"] = 3. / (6.3e-22 * L4)
                case["cfg"]["luminosity"] = 1e-30
                case["cfg"]["nphoton"] = 2000
                case["toggles"]["dark_discrete_source"] = False
                case["cfg"].pop("discrete_luminosity", None)
                case["toggles"]["many_reemissions"] = True
            if i == 5:      # radiation + time dependent sources (copies deleted between steps) + recycled task slots, 4 threads
                case = pick_rhd(r, i, lambda c: c["cfg"]["radiation"] and not c["toggles"]["mask"])
                if not case["toggles"].get("varsources"):
                    make_varsources(case, r)
                case["cfg"]["diffuse"] = "FixedValue"
                case["threads"] = 4
            if i == 7:      # radiation + restart: every restart constructor runs before the first photon iteration
                case = pick_rhd(r, i, lambda c: c["cfg"]["radiation"] and not c["toggles"]["mask"])
                case["toggles"]["restart"] = True
                case["cfg"]["dump_interval"] = 0.
                case["threads"], case["restart_threads"] = 4, 2      # dump written with 4 threads, restarted with 2
            if i == 3:
                case["toggles"]["live"] = "surface"
                case["cfg"]["ncell"] = [6 * case["cfg"]["nsub"][0], 2 * case["cfg"]["nsub"][1], 3 * case["cfg"]["nsub"][2]]
            jobs.append((i, case, exe_asan, root, "asan"))
        for i in range(nmem):
            r = rng.fork("m%d" % i)
            case = rhd_case(r, i) if i % 2 == 0 else photo_case(r, i)
            if i == 0:      # restarted radiation run under memcheck: members that the restart constructors leave unset
                case = pick_rhd(r, i, lambda c: c["cfg"]["radiation"] and not c["toggles"]["mask"] and not c["toggles"].get("varsources"))
                case["toggles"]["restart"] = True
                case["cfg"]["dump_interval"] = 0.
                case["steps"] = 2
                # many subgrids, most of which no packet reaches early: what an idle thread looks at in them after the
                # restart is whatever the restart constructors left there
                case["cfg"]["nsub"] = [3, 3, 2]
                case["cfg"]["ncell"] = [6, 6, 4]
                case["cfg"]["nbuffers"] = 27 * 18 * 3 + 600
                case["cfg"]["niter"] = 2
            if i == 2:      # time dependent sources under memcheck (stale pointers into deleted subgrid copies)
                case = pick_rhd(r, i, lambda c: c["cfg"]["radiation"] and not c["toggles"]["mask"])
                if not case["toggles"].get("varsources"):
                    make_varsources(case, r)
                case["cfg"]["nphoton"] = 200
            # keep memcheck runs small
            case["threads"] = 1 if i % 2 == 0 else 2
            if i == 0:
                case["threads"] = 2   # an idle thread is what makes the others launch half-filled buffers prematurely
            if case["mode"] == "photo":
                case["cfg"]["nphoton"] = min(case["cfg"]["nphoton"], 999)
            jobs.append((i, case, exe_hooks, root, "memcheck"))
    tot = dict(asan_runs=0, memcheck_runs=0, legs=0, photo=0, rhd=0, rhd_radiation=0, restarts=0)
    toggles_seen = {}
    distinct = set()
    with cf.ThreadPoolExecutor(max_workers=8) as ex:
        for res in ex.map(run_case, jobs):
            case = res["case"]
            label = "%s %s threads=%d toggles=%s nsub=%s periodic=%s" % (res["tool"], case["mode"], case["threads"], case["toggles"], case["cfg"]["nsub"], case["cfg"]["periodic"])
            if case["mode"] == "photo":
                label += " cont=%s diffuse=%s writer=%s copy=%d" % (case["cfg"]["continuous"], case["cfg"]["diffuse"], case["cfg"]["writer"], case["cfg"]["copy_level"])
            else:
                label += " radiation=%s writer=%s backups=%d" % (case["cfg"]["radiation"], case["cfg"]["writer"], case["cfg"]["backups"])
            rp = dict(case=case, tool=res["tool"])
            if res.get("timed_out"):
                chk.inconclusive_because("watchdog fired twice: " + label)
                continue
            for key, text, detail in res["viol"]:
                chk.violation(key, text[:900] + " | " + label, dict(rp, detail=detail))
            tot[res["tool"] + "_runs"] += 1
            tot["legs"] += res["legs"]
            tot[case["mode"]] += 1
            if case["mode"] == "rhd" and case["cfg"]["radiation"]:
                tot["rhd_radiation"] += 1
            if res["legs"] > 1:
                tot["restarts"] += 1
            for k, v in case["toggles"].items():
                if v:
                    toggles_seen["%s=%s" % (k, v)] = toggles_seen.get("%s=%s" % (k, v), 0) + 1
            distinct.add(json.dumps(case, sort_keys=True, default=str))
            if len(chk.coverage["samples"]) < 4:
                chk.add_sample(dict(tool=res["tool"], mode=case["mode"], threads=case["threads"], toggles=case["toggles"], nsub=case["cfg"]["nsub"],
                                    ncell=case["cfg"]["ncell"], periodic=case["cfg"]["periodic"], legs=res["legs"]))
    cov = chk.coverage
    cov["evaluations"] = tot["legs"]
    cov["distinct_nontrivial"] = len(distinct)
    cov["rule"] = ("one evaluation = one complete run (or restart leg) of the real binary under ASan+UBSan (fatal) or valgrind memcheck; configurations are generated: "
                   "mode photo / RHD with and without radiation / stop+restart, continuous sources, diffuse field, trackers, writer type and field selection, live output "
                   "calculators, mask, turbulence, cooling, gravity, periodic boxes, backups, threads 1/4; non-trivial = distinct configurations that ran to completion or to a report")
    cov["monitor_counters"] = tot
    cov["toggles_seen"] = toggles_seen
    chk.assumptions += ["reports inside uninstrumented libraries (HDF5, OpenMP runtime, libc) that involve no repository frame are suppressed for memcheck (oracle/c12_valgrind.supp)",
                        "leaks are not part of the property (detect_leaks=0)"]
    if "--replay" not in sys.argv:
        chk.require_nonzero(asan=tot["asan_runs"], memcheck=tot["memcheck_runs"], photo=tot["photo"], rhd=tot["rhd"], radiation=tot["rhd_radiation"],
                            restarts=tot["restarts"], time_dependent_sources=toggles_seen.get("varsources=True"))
    chk.finish()


main()
