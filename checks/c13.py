#!/usr/bin/env python3
"""C13 — same seed, same input, one thread: identical output; the random stream is RANLUX.

Part A (harness/c13_ranlux.cpp): the real RandomGenerator against gsl_rng_ranlxd2 and an
independent integer RANLUX, plus range, seed 0 == seed 1, prefix distinctness, restart.
Part B: the real CMacIonize binary, same parameter file + same seed + one thread run twice
must write identical snapshots (ASCII: byte for byte; HDF5: object by object with
harness/c13_h5cmp.cpp, ignoring only the wall-clock "Creation time" attribute); a third run
with another seed must differ (otherwise the monitor would be blind)."""
import concurrent.futures as cf
import filecmp
import os
import re
import shutil
import sys
sys.path.insert(0, os.path.join(os.path.dirname(os.path.abspath(__file__)), "..", "lib"))
import common, hcheck

chk = common.Check("C13")
quick = chk.tier == "quick"
cov = chk.coverage
tmp = chk.rundir()

# --------------------------------------------------------------------------- builds
try:
    bdir = common.vbuild("hooks")
    # extra_flags precede the source on the command line: keep the libraries although
    # nothing has referenced them yet
    exe_a = common.build_harness("c13_ranlux", "hooks", link_libs=False,
                                 extra_flags=["-Wl,--no-as-needed", "-lgsl", "-lgslcblas"])
    _, _, libs = common._compile_flags(bdir)
    h5lib = [l for l in libs if "libhdf5" in l]
    rpath = [l for l in libs if l.startswith("-Wl,-rpath")]
    exe_h5 = common.build_harness("c13_h5cmp", "hooks", link_libs=False,
                                  extra_flags=["-Wl,--no-as-needed"] + rpath + h5lib) if h5lib else None
except common.BuildError as e:
    chk.inconclusive_because(str(e)); chk.finish()
binary = os.path.join(bdir, "rundir", "CMacIonize")

# --------------------------------------------------------------------------- part A
shards = 16
args = ["--random-seeds", str(125 if quick else 12500), "--outputs", "10000",
        "--long-seeds", str(1 if quick else 4), "--long-outputs", str(10**7 if quick else 10**8),
        "--long-every", "4" if quick else "1",
        "--prefix-seeds", str(50000 if quick else 2000000), "--tmp", tmp]
stats, statd = hcheck.run_shards(chk, exe_a, args, shards, timeout=600 if quick else 7200)
if stats.get("oracle_disagreements", 0):
    chk.inconclusive_because("the two reference generators (GSL ranlxd2 and the integer RANLUX) disagree in %d places: "
                             "the oracle is broken, no verdict on the code" % stats["oracle_disagreements"])

# --------------------------------------------------------------------------- part B
rng = common.SplitMix64(chk.seed * 7919 + 13).fork("c13-binary")

FIXED_PHYSICS = """CrossSections:
  type: FixedValue
  hydrogen_0: 6.3e-18 cm^2
  helium_0: 0. m^2
  carbon_1: 0. m^2
  carbon_2: 0. m^2
  nitrogen_0: 0. m^2
  nitrogen_1: 0. m^2
  nitrogen_2: 0. m^2
  oxygen_0: 0. m^2
  oxygen_1: 0. m^2
  neon_0: 0. m^2
  neon_1: 0. m^2
  sulphur_1: 0. m^2
  sulphur_2: 0. m^2
  sulphur_3: 0. m^2
RecombinationRates:
  type: FixedValue
  hydrogen_1: 4.e-13 cm^3 s^-1
  helium_1: 0. m^3 s^-1
  carbon_2: 0. m^3 s^-1
  carbon_3: 0. m^3 s^-1
  nitrogen_1: 0. m^3 s^-1
  nitrogen_2: 0. m^3 s^-1
  nitrogen_3: 0. m^3 s^-1
  oxygen_1: 0. m^3 s^-1
  oxygen_2: 0. m^3 s^-1
  neon_1: 0. m^3 s^-1
  neon_2: 0. m^3 s^-1
  sulphur_2: 0. m^3 s^-1
  sulphur_3: 0. m^3 s^-1
  sulphur_4: 0. m^3 s^-1
"""

FULL_PHYSICS = """AbundanceModel:
  type: FixedValue
  He: 0.1
  C: 2.2e-4
  N: 4.e-5
  O: 3.3e-4
  Ne: 5.e-5
  S: 9.e-6
"""


IONS = ["H", "He", "C+", "C++", "N", "N+", "N++", "O", "O+", "Ne", "Ne+", "S+", "S++", "S+++"]


def gen_problem(r, diffuse):
    """A small photoionization problem (8^3..16^3 cells, 1..2 subgrids per axis)."""
    p = {"diffuse": diffuse}
    p["ncell"] = [r.choice([8, 12, 16]) for _ in range(3)]
    p["nsub"] = [r.choice([1, 2]) for _ in range(3)]
    p["side"] = round(r.uniform(6., 14.), 3)
    p["density"] = round(r.loguniform(30., 300.), 3)
    p["lum"] = "%.4e" % r.loguniform(3e48, 1e50)
    p["pos"] = [round(r.uniform(-0.3, 0.3) * p["side"], 4) for _ in range(3)]
    p["photons"] = r.randint(1000, 10000)
    p["iterations"] = r.randint(2, 3)
    p["copy"] = r.randint(0, 1)
    p["seed"] = r.randint(0, 2**31 - 2)
    # full physics (He + metals, Verner cross sections, temperature calculation) goes with the
    # physical diffuse field; the other two use the hydrogen-only fixed-value set-up
    p["full"] = diffuse == "Physical"
    p["spectrum"] = "Planck" if p["full"] or r.chance(0.5) else "Monochromatic"
    return p


def param_text(p, writer, seed):
    h = p["side"] / 2.
    t = []
    t.append("SimulationBox:\n  anchor: [%r pc, %r pc, %r pc]\n  sides: [%r pc, %r pc, %r pc]\n"
             "  periodicity: [false, false, false]\n" % (-h, -h, -h, p["side"], p["side"], p["side"]))
    t.append("DensityGrid:\n  type: Cartesian\n  number of cells: [%d, %d, %d]\n" % tuple(p["ncell"]))
    t.append("DensitySubGridCreator:\n  number of subgrids: [%d, %d, %d]\n" % tuple(p["nsub"]))
    t.append("DensityFunction:\n  type: Homogeneous\n  density: %r cm^-3\n  temperature: 8000. K\n" % p["density"])
    t.append("PhotonSourceDistribution:\n  type: SingleStar\n  position: [%r pc, %r pc, %r pc]\n  luminosity: %s s^-1\n"
             % (p["pos"][0], p["pos"][1], p["pos"][2], p["lum"]))
    if p["spectrum"] == "Planck":
        t.append("PhotonSourceSpectrum:\n  type: Planck\n  temperature: 40000. K\n")
    else:
        t.append("PhotonSourceSpectrum:\n  type: Monochromatic\n  frequency: 13.6 eV\n")
    # small buffers/queues: the defaults allocate 2 GB
    t.append("TaskBasedIonizationSimulation:\n  number of iterations: %d\n  number of photons: %d\n"
             "  number of buffers: 2000\n  queue size per thread: 2000\n  shared queue size: 2000\n"
             "  number of tasks: 20000\n  random seed: %d\n  source copy level: %d\n  diffuse field: %s\n"
             % (p["iterations"], p["photons"], seed, p["copy"], "false" if p["diffuse"] == "none" else "true"))
    if p["diffuse"] != "none":
        t.append("DiffuseReemissionHandler:\n  type: %s\n" % p["diffuse"])
    if p["full"]:
        t.append(FULL_PHYSICS)
        t.append("TemperatureCalculator:\n  do temperature calculation: true\n  PAH heating factor: 0.\n")
    else:
        t.append("TemperatureCalculator:\n  do temperature calculation: false\n")
        t.append(FIXED_PHYSICS)
    if writer == "ascii":
        t.append("DensityGridWriter:\n  type: AsciiFile\n  prefix: snap_\n")
    else:
        t.append("DensityGridWriter:\n  type: Gadget\n  prefix: snap_\n  padding: 3\n")
        if p["full"]:
            # all ions: selecting a non-contiguous subset makes the Gadget writer overrun its buffers
            # (DensityGridWriterFields::ion_present tests `flag >> ion > 0`), which is not C13's business
            t.append("DensityGridWriterFields:\n  Temperature: 1\n" + "".join("  NeutralFraction%s: 1\n" % x for x in IONS))
    return "".join(t)


kinds = ["none", "FixedValue", "Physical"]
rng.shuffle(kinds)
nproblems = 3 if quick else 30
problems = [gen_problem(rng.fork("p%d" % i), kinds[i % 3]) for i in range(nproblems)]
writers = ["ascii", "hdf5"] if exe_h5 else ["ascii"]
if not exe_h5:
    chk.assumptions.append("no HDF5 library found in the build: only ASCII snapshots were compared")

jobs = []  # (problem index, writer, run tag, directory, parameter text)
for i, p in enumerate(problems):
    other_seed = (p["seed"] + 1 + rng.fork("o%d" % i).randint(0, 2**30)) % (2**31 - 1)
    if other_seed == p["seed"] or {other_seed, p["seed"]} == {0, 1}:
        other_seed = p["seed"] + 2
    p["other_seed"] = other_seed
    for w in writers:
        same = param_text(p, w, p["seed"])
        for tag, text in (("a", same), ("b", same), ("c", param_text(p, w, other_seed))):
            d = os.path.join(tmp, "bin_%d_%s_%s" % (i, w, tag))
            os.makedirs(d)
            with open(os.path.join(d, "problem.param"), "w") as f:
                f.write(text)
            jobs.append((i, w, tag, d, text))


def run_binary(job):
    i, w, tag, d, text = job
    cmd = [binary, "--params", "problem.param", "--task-based", "--threads", "1", "--dirty"]
    r = common.run(cmd, timeout=300, cwd=d)
    if r.timed_out:
        r = common.run(cmd, timeout=300, cwd=d)
    return job, r, cmd


results = {}
with cf.ThreadPoolExecutor(max_workers=min(common.NCPU, len(jobs))) as ex:
    for job, r, cmd in ex.map(run_binary, jobs):
        i, w, tag, d, text = job
        ok = (not r.timed_out) and r.rc == 0
        results[(i, w, tag)] = (ok, d, r)
        if not ok:
            chk.inconclusive_because("binary run %s failed (rc=%s timed_out=%s) in %s: %s" % (
                " ".join(cmd), r.rc, r.timed_out, d, ((r.err or "") + (r.out or ""))[-400:].replace("\n", " | ")))

bstat = {"binary_runs": len(jobs), "binary_runs_ok": sum(1 for v in results.values() if v[0]),
         "pairs_compared": 0, "ascii_snapshots_compared": 0, "ascii_bytes_compared": 0,
         "hdf5_snapshots_compared": 0, "hdf5_attributes_compared": 0, "hdf5_datasets_compared": 0,
         "hdf5_bytes_compared": 0, "hdf5_creation_time_ignored": 0, "hdf5_creation_time_actually_differed": 0,
         "other_seed_runs_differ": 0, "other_seed_runs_compared": 0,
         "problems_no_diffuse": 0, "problems_fixedvalue_diffuse": 0, "problems_physical_diffuse": 0,
         "final_snapshots_compared": 0, "initial_snapshots_compared": 0}


def snapshots(d, w):
    ext = ".txt" if w == "ascii" else ".hdf5"
    return sorted(f for f in os.listdir(d) if f.startswith("snap_") and f.endswith(ext))


def h5cmp(fa, fb):
    """-> (equal, list of differing objects, counters) ; None on tool failure."""
    r = common.run([exe_h5, fa, fb], timeout=120)
    if r.timed_out or r.rc not in (0, 1):
        return None
    diffs = [l[5:] for l in r.out.splitlines() if l.startswith("DIFF ")]
    ign = [l for l in r.out.splitlines() if l.startswith("IGNORED ")]
    m = re.search(r"COMPARED groups=(\d+) attributes=(\d+) datasets=(\d+) bytes=(\d+) differences=(\d+)", r.out)
    if not m:
        return None
    return r.rc == 0 and not diffs, diffs, [int(x) for x in m.groups()], ign


def first_diff_ascii(fa, fb):
    a, b = open(fa, "rb").read(), open(fb, "rb").read()
    la, lb = a.split(b"\n"), b.split(b"\n")
    for n, (x, y) in enumerate(zip(la, lb)):
        if x != y:
            return "line %d: %r vs %r" % (n + 1, x[:120], y[:120])
    return "lengths %d vs %d bytes" % (len(a), len(b))


for i, p in enumerate(problems):
    counted = False
    for w in writers:
        ra, rb, rc_ = results[(i, w, "a")], results[(i, w, "b")], results[(i, w, "c")]
        key = "rerun/%s/%s" % (w, p["diffuse"].lower())
        replay = {"parameter_file": jobs[[j[:3] for j in jobs].index((i, w, "a"))][4],
                  "cmd": "cd <dir with problem.param>; %s --params problem.param --task-based --threads 1 --dirty  (twice, compare snap_*)" % binary,
                  "problem": p}
        if ra[0] and rb[0]:
            sa, sb = snapshots(ra[1], w), snapshots(rb[1], w)
            if not sa:
                chk.inconclusive_because("no snapshot written in %s" % ra[1]); continue
            if sa != sb:
                chk.violation(key, "the two identical runs wrote different snapshot sets: %s vs %s" % (sa, sb), replay)
                continue
            bstat["pairs_compared"] += 1
            if not counted:
                counted = True
                bstat["problems_" + {"none": "no_diffuse", "FixedValue": "fixedvalue_diffuse",
                                     "Physical": "physical_diffuse"}[p["diffuse"]]] += 1
            for s in sa:
                fa, fb = os.path.join(ra[1], s), os.path.join(rb[1], s)
                final = not s.startswith("snap_000")
                bstat["final_snapshots_compared" if final else "initial_snapshots_compared"] += 1
                if w == "ascii":
                    bstat["ascii_snapshots_compared"] += 1
                    bstat["ascii_bytes_compared"] += os.path.getsize(fa)
                    if not filecmp.cmp(fa, fb, shallow=False):
                        chk.violation(key, "same parameter file, same seed %d, one thread: %s differs between two runs (%s)"
                                      % (p["seed"], s, first_diff_ascii(fa, fb)), replay)
                else:
                    res = h5cmp(fa, fb)
                    if res is None:
                        chk.inconclusive_because("HDF5 comparison tool failed on %s %s" % (fa, fb)); continue
                    eq, diffs, cnt, ign = res
                    bstat["hdf5_snapshots_compared"] += 1
                    bstat["hdf5_attributes_compared"] += cnt[1]
                    bstat["hdf5_datasets_compared"] += cnt[2]
                    bstat["hdf5_bytes_compared"] += cnt[3]
                    bstat["hdf5_creation_time_ignored"] += len(ign)
                    for l in ign:
                        m = re.search(r" a=(.*) b=(.*)$", l)
                        if m and m.group(1) != m.group(2):
                            bstat["hdf5_creation_time_actually_differed"] += 1
                    if not eq:
                        chk.violation(key, "same parameter file, same seed %d, one thread: %s differs between two runs in %d object(s): %s"
                                      % (p["seed"], s, len(diffs), "; ".join(diffs[:4])), replay)
        # monitor sensitivity: another seed must change the final snapshot
        if ra[0] and rc_[0]:
            sa, sc = snapshots(ra[1], w), snapshots(rc_[1], w)
            if sa and sa == sc:
                s = sa[-1]
                fa, fc = os.path.join(ra[1], s), os.path.join(rc_[1], s)
                bstat["other_seed_runs_compared"] += 1
                if w == "ascii":
                    differs = not filecmp.cmp(fa, fc, shallow=False)
                else:
                    res = h5cmp(fa, fc)
                    # the seed itself is stored under /Parameters: only field data counts
                    differs = bool(res) and any(dl.startswith("/PartType0/") for dl in res[1])
                if differs:
                    bstat["other_seed_runs_differ"] += 1
                else:
                    chk.inconclusive_because("monitor blind: seeds %d and %d give the same final %s snapshot for problem %d (%s)"
                                             % (p["seed"], p["other_seed"], w, i, p))
    chk.add_sample("binary problem %d: cells=%s subgrids=%s photons=%d iterations=%d diffuse=%s spectrum=%s full_physics=%s "
                   "seed=%d (other seed %d): reruns identical unless a violation is listed" % (
                       i, p["ncell"], p["nsub"], p["photons"], p["iterations"], p["diffuse"], p["spectrum"], p["full"],
                       p["seed"], p["other_seed"]), maxn=8)

# --------------------------------------------------------------------------- evidence
per_shard_struct = stats.get("structured_seed_cases", 0) // shards
distinct_seeds = (stats.get("distinct_case_seeds", 0) - (shards - 1) * stats.get("distinct_structured_seeds", 0) // shards)
cov["evaluations"] = (stats.get("outputs_compared", 0) + 24 * stats.get("prefix_seeds", 0)
                      + stats.get("restart_outputs_compared", 0) + bstat["pairs_compared"])
cov["distinct_nontrivial"] = max(0, distinct_seeds) + bstat["pairs_compared"]
cov["rule"] = ("part A: every output of the real RandomGenerator is compared bit for bit with gsl_rng_ranlxd2 and with an "
               "independent integer RANLUX (the two references are cross-checked on every output); distinct = distinct seeds "
               "(0 and 1 counted once; the structured seeds 0..64, 2^k, 2^k+-1, 2^31-2, 2^31-1 are repeated in every shard and "
               "counted once) whose full stream was compared, each with save/restore points; part B: distinct = (problem, "
               "writer) pairs whose two same-seed one-thread runs were compared snapshot by snapshot")
cov["monitor_counters"] = stats
cov["monitor_extrema"] = statd
cov["binary_counters"] = bstat
chk.assumptions += [
    "seeds are taken from the property's domain [0, 2^31); other seeds are not exercised",
    "prefix distinctness is checked over the sampled seed set of each shard (hash set, collisions resolved on the real "
    "prefixes), not over all 2^31 seeds",
    "no h5diff/h5dump/h5py is installed: HDF5 snapshots are compared object by object with an own HDF5-C-library walker "
    "(harness/c13_h5cmp.cpp); only the attribute /RuntimePars@'Creation time' (wall clock) is excluded",
    "the two identical runs use byte-identical parameter files in two different directories (output folder '.')",
    "ASCII snapshots carry 6 significant digits of position, density, volume and neutral H fraction only",
]
chk.require_nonzero(seeds=stats.get("seeds_compared"), outputs=stats.get("outputs_compared"),
                    refill_boundaries=stats.get("refill_boundaries_crossed"),
                    restart_pos_0_40=stats.get("restart_saves_pos_0_40"),
                    restart_random_pos=stats.get("restart_saves_random_pos"),
                    restart_outputs=stats.get("restart_outputs_compared"),
                    restart_byte_roundtrips=stats.get("restart_byte_roundtrips_equal"),
                    seed0_vs_seed1=stats.get("seed0_vs_seed1_outputs_compared"),
                    prefix_seeds=stats.get("prefix_seeds"), long_streams=stats.get("long_stream_cases"),
                    binary_pairs=bstat["pairs_compared"], ascii_snapshots=bstat["ascii_snapshots_compared"],
                    final_snapshots=bstat["final_snapshots_compared"],
                    no_diffuse=bstat["problems_no_diffuse"], fixedvalue_diffuse=bstat["problems_fixedvalue_diffuse"],
                    physical_diffuse=bstat["problems_physical_diffuse"],
                    other_seed_differs=bstat["other_seed_runs_differ"])
if exe_h5:
    chk.require_nonzero(hdf5_snapshots=bstat["hdf5_snapshots_compared"], hdf5_datasets=bstat["hdf5_datasets_compared"])
chk.finish()
