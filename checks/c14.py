#!/usr/bin/env python3
"""C14 - restart dumps are rotated safely and the last good dump is never destroyed.

Observes the REAL RestartManager/RestartWriter (harness/c14_driver.cpp) and decides
offline, from the files left on disk, against the sequential rotation model in
oracle/c14_model.py:

 fault-free   B in 0..8 x N in 0..20 (exhaustive): the run must not abort
              (dump/abort) and the directory must equal the model (rotation/*).
 crash        B >= 1, history of h complete dumps, then the process is killed at
              EVERY file-system operation of dump h+1 (LD_PRELOAD shim/fsfault.c:
              before / after each call, and after half the bytes of each write);
              a complete dump h must still be on disk (crash/lost-previous).
 resumed run  (informational unless C14_RESUME=strict) a new process/RestartManager
              continues in a directory that already holds dumps.
"""
import concurrent.futures as cf
import hashlib
import os
import re
import shlex
import shutil
import subprocess
import sys
import threading

HERE = os.path.dirname(os.path.abspath(__file__))
sys.path.insert(0, os.path.join(HERE, "..", "lib"))
sys.path.insert(0, os.path.join(HERE, "..", "oracle"))
import common
import c14_model as model

chk = common.Check("C14", level="fault_enumeration")
quick = chk.tier == "quick"
rng = common.SplitMix64(chk.seed * 1000003 + 14)
STRICT_RESUME = os.environ.get("C14_RESUME", "") == "strict"
FIRE_EXIT = 86
WRITE_OPS = ("write", "writev", "pwrite")


def build_shim():
    src = os.path.join(common.VERIF, "shim", "fsfault.c")
    h = hashlib.sha256(open(src, "rb").read()).hexdigest()[:12]
    outd = os.path.join(common.build_root(), "shim")
    os.makedirs(outd, exist_ok=True)
    so = os.path.join(outd, "fsfault-%s.so" % h)
    if not os.path.exists(so):
        tmp = "%s.%d.tmp" % (so, os.getpid())
        p = subprocess.run(["gcc", "-O1", "-g", "-Wall", "-shared", "-fPIC", "-o", tmp, src, "-ldl"],
                           stdout=subprocess.PIPE, stderr=subprocess.STDOUT, text=True)
        if p.returncode != 0:
            raise common.BuildError("shim/fsfault.c failed to compile:\n" + p.stdout[-2000:])
        os.replace(tmp, so)
    return so


# test hook (mutation / candidate-patch testing without touching /repo), e.g.
#   C14_EXTRA_FLAGS="-include /tmp/patched/RestartManager.hpp"   (include guard shadows the repo header)
XFLAGS = shlex.split(os.environ.get("C14_EXTRA_FLAGS", ""))
try:
    EXE = common.build_harness("c14_driver", "hooks", extra_flags=XFLAGS)
    EXE_ASAN = None if quick else common.build_harness("c14_driver", "asan", extra_flags=XFLAGS)
    SHIM = build_shim()
except common.BuildError as e:
    chk.inconclusive_because(str(e))
    chk.finish()

RUN = chk.rundir()
_lock = threading.Lock()
_seq = [0]
_decode_cache = {}
counters = {}
viol = {}          # key -> list of (sortkey, text, replay)
blocked = []       # crash scenarios that could not be reached because the history aborts
ops_per_dump = {}  # "B=..,payload=.." -> {dump index: number of operations}
observations = {"resume": {}}
SAMPLE_OPS = {("after", "rename-main"), ("after", "fopen"), ("half", "writev"), ("after", "fclose")}
_sampled = set()


def count(name, n=1):
    with _lock:
        counters[name] = counters.get(name, 0) + n


def add_viol(key, sortkey, text, replay):
    with _lock:
        viol.setdefault(key, []).append((sortkey, text, replay))


def fresh_dir():
    with _lock:
        _seq[0] += 1
        # the folder name is part of the input: every third one contains the word the dump files themselves carry
        # ("dump"), in the last component or in a parent
        k = _seq[0]
        d = os.path.join(RUN, "d%06d" % k) if k % 3 else os.path.join(RUN, "dumps%06d" % k, "run.dump.d") if k % 2 else os.path.join(RUN, "my_dump_%06d" % k)
    os.makedirs(d)
    return d


def scan(d):
    """{file name: (status, dump id, size)} for every entry of the dump directory."""
    out = {}
    for name in sorted(os.listdir(d)):
        p = os.path.join(d, name)
        if not os.path.isfile(p):
            out[name] = ("not-a-file", None, 0)
            continue
        data = open(p, "rb").read()
        hk = hashlib.sha256(data).digest()
        with _lock:
            res = _decode_cache.get(hk)
        if res is None:
            res = model.decode(data)
            with _lock:
                _decode_cache[hk] = res
        out[name] = (res[0], res[1], len(data))
    return out


def fmt_dir(content):
    return "{" + ", ".join("%s: %s%s" % (k, "#%s" % v[1] if v[1] is not None else "", "" if v[0] == "complete" else "(%s,%dB)" % (v[0], v[2]))
                           for k, v in sorted(content.items())) + "}"


def payload_args(pl):
    return ["--words", str(pl[0]), "--wstep", str(pl[1]), "--str", str(pl[2]), "--sstep", str(pl[3])]


def driver_cmd(exe, d, B, first, ndumps, via, pl):
    return [exe, "--dir", d, "--backups", str(B), "--first", str(first), "--dumps", str(ndumps),
            "--via", via] + payload_args(pl)


def shell_replay(segments, B, via, pl, fault=None, exe=None):
    """Copy-and-paste command line that reproduces a case in a fresh directory."""
    parts = ["d=$(mktemp -d /tmp/c14-replay.XXXXXX)"]
    for i, (first, nd) in enumerate(segments):
        cmd = " ".join(shlex.quote(c) for c in driver_cmd(exe or EXE, "@D@", B, first, nd, via, pl)).replace("@D@", "$d")
        if fault and i == len(segments) - 1:
            cmd = ("FSFAULT_DIR=$d FSFAULT_LOG=$d.log FSFAULT_AT=%d FSFAULT_MODE=%s LD_PRELOAD=%s " % (fault[0], fault[1], SHIM)) + cmd
        parts.append(cmd)
    parts.append("echo rc=$?; ls -l $d")
    return "; ".join(parts)


def progress_of(err):
    """(last dump begun, last dump ended) from the driver's stderr."""
    b = [int(x) for x in re.findall(r"^DUMP_BEGIN (\d+)$", err or "", re.M)]
    e = [int(x) for x in re.findall(r"^DUMP_END (\d+)$", err or "", re.M)]
    return (b[-1] if b else 0), (e[-1] if e else 0)


def describe_failure(r):
    if r.timed_out:
        return "timed out"
    if r.rc < 0:
        return "killed by signal %d" % (-r.rc)
    return "exit status %d" % r.rc


def error_tail(err):
    lines = [l.strip() for l in (err or "").splitlines() if l.strip() and not re.match(r"^(DUMP_|MANAGER_READY|ALL_DONE)", l)]
    return " | ".join(lines[-3:])[:300]


def compare_with_model(content, expect, B):
    """-> list of (key, text) for every difference between the directory and the model."""
    out = []
    for name, want in sorted(expect.items()):
        kind, idx = model.classify(name)
        got = content.get(name)
        if got is None:
            out.append(("rotation/main-dump" if kind == "main" else "rotation/missing-backup",
                        "%s should hold dump #%d but does not exist" % (name, want)))
        elif got[0] != "complete":
            out.append(("rotation/incomplete-file", "%s should hold dump #%d but is %s (%d bytes)" % (name, want, got[0], got[2])))
        elif got[1] != want:
            out.append(("rotation/main-dump" if kind == "main" else "rotation/wrong-order",
                        "%s holds dump #%d, the model says #%d" % (name, got[1], want)))
    for name, got in sorted(content.items()):
        if name not in expect:
            out.append(("rotation/extra-file", "%s (%s%s) should not exist" % (name, got[0], "" if got[1] is None else " #%d" % got[1])))
    return out


# --------------------------------------------------------------------------
# fault-free part
# --------------------------------------------------------------------------

def fault_free_case(B, N, via, pl, exe, tag):
    d = fresh_dir()
    try:
        r = common.run(driver_cmd(exe, d, B, 1, N, via, pl), timeout=120)
        count("fault_free_runs")
        rp = {"cmd": shell_replay([(1, N)], B, via, pl, exe=exe), "backups": B, "dumps": N, "via": via, "payload": pl, "build": tag}
        if r.timed_out:
            chk.inconclusive_because("watchdog fired for fault-free B=%d N=%d" % (B, N))
            return
        if r.rc != 0:
            begun, ended = progress_of(r.err)
            count("dump_aborts")
            add_viol("dump/abort", (B, N, via != "params"),
                     "backups=%d: dump #%d of %d did not complete (%s; %d dumps were complete): %s"
                     % (B, begun, N, describe_failure(r), ended, error_tail(r.err)), rp)
            return
        content = scan(d)
        diffs = compare_with_model(content, model.expected_after(B, N), B)
        count("rotation_states_verified")
        if N >= 2 and B >= 1:
            count("rotation_states_with_backups")
        if N - 1 > B >= 1:
            count("rotation_states_history_longer_than_backups")
        for key, text in diffs:
            add_viol(key, (B, N, via != "params"),
                     "backups=%d after %d dumps: %s; directory=%s" % (B, N, text, fmt_dir(content)), rp)
        if not diffs and (B, N) in ((1, 3), (3, 6)) and via == "params" and tag == "hooks":
            chk.add_sample("fault-free backups=%d after %d dumps: directory=%s == model" % (B, N, fmt_dir(content)), maxn=8)
    finally:
        shutil.rmtree(d, ignore_errors=True)


# --------------------------------------------------------------------------
# crash part
# --------------------------------------------------------------------------

def parse_log(path, d):
    ops, marks, fire = {}, [], None
    if not os.path.exists(path):
        return ops, marks, fire
    for line in open(path, errors="replace"):
        line = line.rstrip("\n")
        if line.startswith("OP "):
            _, k, rest = line.split(" ", 2)
            ops[int(k)] = rest.replace(d, "$D")
        elif line.startswith("MARK "):
            t = line.split()
            marks.append((t[1], int(t[2]), int(t[4])))
        elif line.startswith("FIRE "):
            t = line.split()
            fire = (int(t[1]), t[2])
    return ops, marks, fire


def run_segments(d, B, segments, via, pl, fault=None, log=None):
    """Run the driver once per segment in the same directory; the shim is loaded for
    the last segment only (when log is given).  -> RunResult of the first failing or
    the last segment, index of that segment."""
    r = None
    for i, (first, nd) in enumerate(segments):
        env = None
        if log is not None and i == len(segments) - 1:
            env = {"LD_PRELOAD": SHIM, "FSFAULT_DIR": d, "FSFAULT_LOG": log}
            if fault:
                env["FSFAULT_AT"], env["FSFAULT_MODE"] = str(fault[0]), fault[1]
        r = common.run(driver_cmd(EXE, d, B, first, nd, via, pl), timeout=120, env=env)
        if r.timed_out or r.rc != 0:
            return r, i
    return r, len(segments) - 1


def crash_scenario(B, segments, via, pl, pool, resumed=False, before_ids=()):
    """History = all dumps of `segments` except the last one; the crash is injected into
    the last dump of the last segment at every operation.  Returns futures."""
    last_first, last_n = segments[-1]
    target = last_first + last_n - 1   # dump that is interrupted
    prev = target - 1                  # dump that must survive
    scen = "backups=%d history=%d%s" % (B, prev, " resumed-run" if resumed else "")
    d = fresh_dir()
    log = d + ".log"
    r, seg = run_segments(d, B, segments, via, pl, log=log)
    rp = {"cmd": shell_replay(segments, B, via, pl), "backups": B, "segments": segments, "via": via, "payload": pl}
    obs = observations["resume"].setdefault("backups=%d" % B, {}) if resumed else None
    if r.timed_out:
        chk.inconclusive_because("watchdog fired in counting pass of %s" % scen)
        return []
    if r.rc != 0:
        begun, ended = progress_of(r.err)
        text = ("%s: fault-free counting pass: dump #%d did not complete (%s): %s"
                % (scen, begun if seg == len(segments) - 1 else begun, describe_failure(r), error_tail(r.err)))
        if resumed:
            count("resume_aborts")
            obs["abort"] = obs.get("abort", 0) + 1
            if STRICT_RESUME:
                add_viol("resume/abort", (B, prev), text, rp)
        else:
            count("crash_scenarios_blocked_by_abort")
            with _lock:
                blocked.append(scen)
            add_viol("dump/abort", (B, target, 2), text, rp)
        shutil.rmtree(d, ignore_errors=True)
        return []
    ops, marks, _ = parse_log(log, d)
    content = scan(d)
    # the fault-free end state of the counting pass is checked as well
    if resumed:
        expect = model.expected_after(B, last_n, first=last_first, before=before_ids)
    else:
        expect = model.expected_after(B, target)
    for key, text in compare_with_model(content, expect, B):
        if resumed:
            count("resume_content_mismatch")
            obs["content_mismatch"] = obs.get("content_mismatch", 0) + 1
            obs.setdefault("content_example", "history=%d: %s; directory=%s" % (prev, text, fmt_dir(content)))
            if STRICT_RESUME:
                add_viol("resume/content", (B, prev), "%s: %s; directory=%s" % (scen, text, fmt_dir(content)), rp)
        else:
            add_viol(key, (B, target, 1), "%s (under the counting shim) after %d dumps: %s; directory=%s"
                     % (scen, target, text, fmt_dir(content)), rp)
    shutil.rmtree(d, ignore_errors=True)
    os.remove(log)
    begin = [m for m in marks if m[0] == "DUMP_BEGIN" and m[1] == target]
    end = [m for m in marks if m[0] == "DUMP_END" and m[1] == target]
    if len(begin) != 1 or len(end) != 1:
        chk.inconclusive_because("no dump markers in the shim log of %s" % scen)
        return []
    ks = list(range(begin[0][2] + 1, end[0][2] + 1))
    if not resumed:
        per = ops_per_dump.setdefault("backups=%d payload=%s via=%s" % (B, "/".join(map(str, pl)), via), {})
        for m in marks:
            if m[0] == "DUMP_END":
                b = [x for x in marks if x[0] == "DUMP_BEGIN" and x[1] == m[1]][0]
                with _lock:
                    per[m[1]] = m[2] - b[2]
    count("crash_scenarios")
    if not ks:
        chk.inconclusive_because("dump #%d of %s made no file-system operation" % (target, scen))
    futs = []
    for k in ks:
        optype = ops[k].split()[0]
        modes = ["before", "after"] + (["half"] if optype in WRITE_OPS else [])
        for mode in modes:
            futs.append(pool.submit(crash_point, B, segments, via, pl, k, mode, ops[k], target, prev, scen, resumed))
    return futs


def crash_point(B, segments, via, pl, k, mode, opdesc, target, prev, scen, resumed):
    d = fresh_dir()
    log = d + ".log"
    try:
        r, seg = run_segments(d, B, segments, via, pl, fault=(k, mode), log=log)
        count("resume_crash_points_injected" if resumed else "crash_points_injected")
        ops, marks, fire = parse_log(log, d)
        begun, ended = progress_of(r.err)
        where = "%s, killed %s operation %d of the run (%s) during dump #%d" % (scen, mode, k, opdesc, target)
        if (r.timed_out or r.rc != FIRE_EXIT or fire is None or fire[0] != k or not fire[1].startswith(mode)
                or ops.get(k) != opdesc or begun != target or ended >= target):
            chk.inconclusive_because("fault did not fire as planned: %s: rc=%s fire=%s op=%s progress=%s/%s"
                                     % (where, r.rc, fire, ops.get(k), begun, ended))
            return
        optype = opdesc.split()[0]
        if optype == "rename":
            optype = "rename-main" if opdesc.split()[1].endswith("/" + model.MAIN) else "rename-shift"
        if resumed:
            count("resume_crash_points_fired")
        else:
            count("crash_points_fired")
            count("fired_%s_%s" % (mode, optype))
        content = scan(d)
        holders = [n for n, v in content.items() if v[0] == "complete" and v[1] == prev]
        rp = {"cmd": shell_replay(segments, B, via, pl, fault=(k, mode)), "backups": B, "segments": segments, "via": via,
              "payload": pl, "operation": k, "mode": mode, "op": opdesc}
        if holders:
            kind, idx = model.classify(holders[0])
            count("%sprevious_found_in_%s" % ("resume_" if resumed else "", "main" if kind == "main" else "backup0" if idx == 0 else "older_backup" if kind == "backup" else "other_file"))
            if not resumed and B == 1 and prev == 2 and via == "params" and (mode, optype) in SAMPLE_OPS:
                with _lock:
                    first_of_kind = (mode, optype) not in _sampled
                    _sampled.add((mode, optype))
                if first_of_kind:
                    chk.add_sample("crash %s: directory=%s -> dump #%d survives in %s" % (where, fmt_dir(content), prev, holders[0]), maxn=8)
        else:
            text = "%s: no complete dump #%d left on disk; directory=%s" % (where, prev, fmt_dir(content))
            if resumed:
                count("resume_lost_previous")
                obs = observations["resume"].setdefault("backups=%d" % B, {})
                with _lock:
                    obs["lost_previous"] = obs.get("lost_previous", 0) + 1
                    obs.setdefault("lost_previous_example", text)
                if STRICT_RESUME:
                    add_viol("resume/lost-previous", (B, prev, k, mode), text, rp)
            else:
                count("crash_lost_previous")
                add_viol("crash/lost-previous", (B, prev, k, mode), text, rp)
    finally:
        shutil.rmtree(d, ignore_errors=True)
        try:
            os.remove(log)
        except OSError:
            pass


# --------------------------------------------------------------------------
# end-to-end confirmation: the real binary, dumping after every step
# --------------------------------------------------------------------------
E2E_PARAMS = """SimulationBox:
  anchor: [-1.0 m, -1.0 m, -1.0 m]
  sides: [2.0 m, 2.0 m, 2.0 m]
  periodicity: [false, false, false]
DensityGrid:
  type: Cartesian
  number of cells: [8, 8, 8]
DensitySubGridCreator:
  number of subgrids: [2, 2, 2]
  periodicity: [false, false, false]
DensityFunction:
  type: Homogeneous
  density: 100000000.0 m^-3
  temperature: 8000. K
  neutral fraction H: 1.0
PhotonSourceDistribution:
  type: SingleStar
  position: [0.1 m, 0.05 m, -0.02 m]
  luminosity: 1e+49 s^-1
PhotonSourceSpectrum:
  type: Monochromatic
  frequency: 13.6 eV
TaskBasedRadiationHydrodynamicsSimulation:
  total time: 1.e-5 s
  minimum timestep: 1.e-9 s
  maximum timestep: 1.e-5 s
  snapshot time: 10. s
  do radiation: false
  number of buffers: 20000
  queue size per thread: 20000
  shared queue size: 20000
  number of tasks: 50000
  random seed: 3
  output folder: @OUT@
DensityGridWriter:
  type: AsciiFile
  prefix: snap_
  padding: 3
Hydro:
  polytropic index: 1.666667
RestartManager:
  path: @OUT@
  output interval: 0. s
  maximum number of backups: @B@
"""


def end_to_end(B):
    """CMacIonize --task-based-rhd with a restart dump after every step (auxiliary: only an
    abort inside the dump rotation or a wrong set of files is judged)."""
    obs = observations.setdefault("end_to_end", {})
    try:
        binary = os.path.join(common.vbuild("hooks", quiet=True), "rundir", "CMacIonize")
        out = os.path.join(RUN, "e2e-B%d" % B)
        os.makedirs(out)
        pf = os.path.join(out, "run.param")
        open(pf, "w").write(E2E_PARAMS.replace("@OUT@", out).replace("@B@", str(B)))
        cmd = [binary, "--task-based-rhd", "--params", pf, "--threads", "2", "--dirty"]
        r = common.run(cmd, timeout=600, cwd=out)
        text = (r.out or "") + (r.err or "")
        ndumps = len(re.findall(r"Writing restart file", text))
        names = sorted(n for n in os.listdir(out) if n.startswith("restart."))
        obs["backups=%d" % B] = {"exit": describe_failure(r) if (r.timed_out or r.rc) else "0", "dumps_started": ndumps, "files": names}
        rp = {"cmd": "mkdir -p %s && cd %s && %s   # parameter file: E2E_PARAMS in checks/c14.py with backups=%d"
                     % (out, out, " ".join(shlex.quote(c) for c in cmd), B)}
        if "Couldn't back up restart file" in text:
            count("end_to_end_aborts")
            chk.violation("dump/abort", "end-to-end: CMacIonize --task-based-rhd with 'RestartManager: maximum number of backups: %d' and a "
                          "dump after every step: restart dump #%d aborts (%s): %s"
                          % (B, ndumps + 1, describe_failure(r), error_tail("\n".join(l for l in text.splitlines() if "RestartManager.hpp" in l or "back up" in l))), rp)
        elif ndumps >= 1:
            count("end_to_end_dumps", ndumps)
            want = sorted(model.expected_after(B, ndumps))
            if names != want:
                chk.violation("rotation/missing-backup" if len(names) < len(want) else "rotation/extra-file",
                              "end-to-end: after %d restart dumps with %d backups the folder holds %s, the model says %s" % (ndumps, B, names, want), rp)
        shutil.rmtree(out, ignore_errors=True)
    except Exception as e:  # auxiliary: never decides on its own failures
        obs["error"] = repr(e)[:300]


# --------------------------------------------------------------------------
# the enumerated spaces
# --------------------------------------------------------------------------
# payloads (words, wstep, str, sstep): "tiny" fits in the stream buffer (a single write
# when the stream is closed), "medium" needs 4..9 flushes, "large" ~40
TINY = (40, 3, 100, 7)
medium = (rng.randint(2000, 6000), rng.randint(50, 400), rng.randint(3000, 20000), rng.randint(100, 2000))
LARGE = (30000, 211, 100000, 1021)

ff_space = [(B, N) for B in range(0, 9) for N in range(0, 21)]
SPEC_B = [1, 2, 3, 8]
spec_hist = lambda B: sorted({1, 2, B, B + 1, 2 * B + 1})
if quick:
    ff_jobs = [(B, N, "params", medium, EXE, "hooks") for B, N in ff_space]
    ff_jobs += [(B, N, "ctor", TINY, EXE, "hooks") for B, N in ff_space]
    extra_B = rng.choice([4, 5, 6, 7])   # one more backup count per seed
    crash_jobs = [(B, h, "params", medium) for B in SPEC_B + [extra_B] for h in spec_hist(B)]
    crash_jobs += [(B, h, "ctor", TINY) for B in SPEC_B for h in spec_hist(B)]
    crash_jobs += [(B, h, "params", LARGE) for B in SPEC_B for h in [spec_hist(B)[(chk.seed + B) % len(spec_hist(B))]]]
    resume_B = [1, 2, 3]
    crash_space = ("backups {1,2,3,8} x histories {1,2,B,B+1,2B+1} x every operation of the next dump x {before, after, half (writes)} "
                   "for the medium and the tiny payload; the same for one seed-chosen backup count (%d) and, with the large payload, "
                   "one seed-chosen history per backup count" % extra_B)
else:
    ff_jobs = [(B, N, via, pl, EXE, "hooks") for B, N in ff_space for via in ("params", "ctor") for pl in (TINY, medium, LARGE)]
    ff_jobs += [(B, N, "params", medium, EXE_ASAN, "asan") for B, N in ff_space]
    crash_jobs = [(B, h, via, pl) for via in ("params", "ctor") for pl in (medium, TINY, LARGE)
                  for B in range(1, 9) for h in range(1, 2 * B + 3)]
    resume_B = list(range(1, 9))
    crash_space = ("backups 1..8 x histories 1..2B+2 x every operation of the next dump x {before, after, half (writes)} "
                   "x {params,ctor} x 3 payload sizes")

with cf.ThreadPoolExecutor(max_workers=common.NCPU) as pool:
    # (the binary is built from /repo as is: skipped when the driver is compiled with a patched header)
    e2e_futs = [] if XFLAGS else [pool.submit(end_to_end, B) for B in ([2] if quick else [1, 2, 3])]
    list(pool.map(lambda j: fault_free_case(*j), ff_jobs))
    futs = []
    scen_futs = []
    for B, h, via, pl in crash_jobs:
        scen_futs.append(pool.submit(crash_scenario, B, [(1, h + 1)], via, pl, pool))
    # resumed run: h dumps by one process, then a new process (new RestartManager, as after
    # --restart) takes dump h+1 in the same directory
    for B in resume_B:
        for h in sorted({1, B + 1}):
            before = [h - i for i in range(min(h, B + 1))]
            scen_futs.append(pool.submit(crash_scenario, B, [(1, h), (h + 1, 1)], "params", medium, pool, True, before))
    for sf in scen_futs:
        futs += sf.result()
    for f in futs + e2e_futs:
        f.result()

# --------------------------------------------------------------------------
# verdict
# --------------------------------------------------------------------------
for key in sorted(viol):
    items = sorted(viol[key], key=lambda t: t[0])
    seenB = set()
    for sortkey, text, rp in items:
        if sortkey[0] in seenB:
            continue
        seenB.add(sortkey[0])
        n_same = sum(1 for s, _, _ in items if s[0] == sortkey[0])
        chk.violation(key, "%s  [minimal witness of %d cases with backups=%d, %d cases with this key in total]"
                      % (text, n_same, sortkey[0], len(items)), rp)

cov = chk.coverage
fired = counters.get("crash_points_fired", 0)
cov["evaluations"] = counters.get("fault_free_runs", 0) + counters.get("crash_points_injected", 0)
cov["distinct_nontrivial"] = counters.get("rotation_states_with_backups", 0) + fired
cov["rule"] = ("fault-free: one run of the real RestartManager per (backups 0..8, dumps 0..20), directory compared with the model; "
               "crash: one run per (backups, history, operation index, mode) - every file-system operation of the interrupted dump "
               "(counted by a fault-free pass under the shim) is a crash point; non-trivial = fault-free states with >=1 backup and "
               ">=2 dumps + crash points confirmed fired (exit status 86, FIRE record, same operation as in the counting pass)")
cov["exhaustive"] = True
if XFLAGS:
    cov["NOT_THE_REPO_AS_IS"] = "driver compiled with C14_EXTRA_FLAGS=%s" % " ".join(XFLAGS)
cov["spaces"] = {
    "fault_free": "backups 0..8 x dumps 0..20, all %d pairs x %s" % (len(ff_space), "{ParameterFile ctor + medium payload, direct ctor + tiny payload}" if quick else "{ParameterFile ctor, direct ctor} x 3 payload sizes + ASan/UBSan build"),
    "crash": crash_space,
    "payload_medium": medium,
}
cov["ops_per_dump"] = {k: {"dump %d" % n: c for n, c in sorted(v.items())} for k, v in sorted(ops_per_dump.items())}
cov["crash_scenarios_blocked_by_abort"] = sorted(set(blocked))
cov["observations"] = observations
cov["monitor_counters"] = dict(sorted(counters.items()))
chk.assumptions += [
    "process death is modelled by _exit(86) inside the intercepted libc call: user-space buffers are lost, everything handed to the "
    "kernel survives (no power-loss / fsync semantics)",
    "rename(2) and open(O_CREAT|O_TRUNC) are atomic with respect to process death; a write may be cut at any byte (half is sampled)",
    "operations are counted at the libc boundary used by libstdc++'s std::ofstream (fopen64, write, writev, fclose) and by "
    "RestartManager (rename); the driver is single-threaded, so operation indices are reproducible (verified per crash point)",
    "a complete dump of the previous state in ANY file of the dump directory is accepted by the crash clause",
    "resumed runs (new RestartManager in a directory that already holds dumps) are recorded under coverage.observations and only "
    "become violations with C14_RESUME=strict",
]
chk.require_nonzero(fault_free_states=counters.get("rotation_states_verified"),
                    states_with_backups=counters.get("rotation_states_with_backups"),
                    crash_points_fired=fired,
                    fired_before_main_rename=counters.get("fired_before_rename-main"),
                    fired_after_main_rename=counters.get("fired_after_rename-main"),
                    fired_after_truncating_open=counters.get("fired_after_fopen"),
                    fired_half_write=counters.get("fired_half_writev", 0) + counters.get("fired_half_write", 0),
                    fired_after_close=counters.get("fired_after_fclose"))
if "dump/abort" not in viol:
    chk.require_nonzero(fired_shift_rename=counters.get("fired_after_rename-shift"),
                        states_history_longer_than_backups=counters.get("rotation_states_history_longer_than_backups"))
if counters.get("crash_points_injected", 0) != fired:
    chk.inconclusive_because("%d of %d injected crash points did not fire as planned"
                             % (counters.get("crash_points_injected", 0) - fired, counters.get("crash_points_injected", 0)))
chk.finish()
