#!/usr/bin/env python3
"""C15 — Voronoi grids are valid tessellations and the two constructions agree.

The harness builds every grid with the real NewVoronoiGrid / OldVoronoiGrid in a
forked child (an abort or hang inside a construction is a violation of its own and
does not hide the other cases) and judges the returned cells with an oracle that
only uses the generator positions and the box (planes from generator pairs, closure
of the reported polyhedra, partition of the box, brute-force nearest generator,
old == new).

Violation keys
  random part:       <clause>/<construction>/<generator family>      (always a fresh violation)
  pinned witness k:  pinned-<k>/<clause>/<construction>               (fixed generator sets, replayed in every run,
                                                                      same keys whatever VERIF_SEED is)
  clauses: abort hang abort-locate | volume-positive volume-sum wall-area inside duplicate-face wall-normal
           vertex-finite vertex-in-box face-plane closure volume-faces partner partner-midpoint | locate |
           agree-volume agree-centroid agree-neighbours (construction "old-vs-new")

Input rules.  A regime that is diagnosed as broken in the code under test and not repaired is represented by its
pinned witnesses (whose violations are the known findings) and is kept out of the RANDOM part by a rule on the
generated input - never on the outcome.  A rule is active exactly while a finding it belongs to is listed as open
in known_findings.jsonl (field "avoid" of the entry, or the table RULE_OF below): once a defect is repaired and its
entries are closed, the random part covers the regime again.
"""
import concurrent.futures as cf
import os, sys
sys.path.insert(0, os.path.join(os.path.dirname(os.path.abspath(__file__)), "..", "lib"))
import common, hcheck

chk = common.Check("C15")
quick = chk.tier == "quick"
try:
    exe = common.build_harness("c15_voronoi", "hooks")
    exe_asan = None if quick else common.build_harness("c15_voronoi", "asan")
except common.BuildError as e:
    chk.inconclusive_because(str(e)); chk.finish()

FAMILIES = ["uniform", "clustered", "coplanar", "cospherical", "lattice", "perturbed-lattice", "wall"]
shards = 16 if quick else 32
grids = 4 if quick else 150            # per shard: 64 grids quick, 4800 + 192 (ASan) + pinned thorough
slowcap = 400 if quick else 1000       # every family but uniform / perturbed-lattice: the new construction is O(n^2) there
wallcap = 150 if quick else 300        # wall family: genuine hangs are frequent and each costs a full (quadratic) watchdog
env = {"OMP_NUM_THREADS": "4"}         # worksize 1..4 is chosen per grid by the harness
timeout = 3600 if quick else 6 * 3600  # watchdogs proper are CPU-time limits per construction inside the harness

# ---- input rules of the random part -------------------------------------------------------------------------
RULES = {
    "A": "new construction only for boxes whose rescaled big-tetrahedron corners (NewVoronoiBox of the rescaled box, unrepaired "
         "constructor arithmetic) lie inside [1,2): outside, ExactGeometricTests::get_mantissa is meaningless (defect A, witnesses pinned-0/4)",
    "B": "every generator is at least 1e-5 x (largest box side) away from every wall (wall family: 1e-5..1e-3 instead of 1e-12..1e-9): closer, the "
         "mirror-generator circumcentres of the new construction lose eps*h*(h/distance) (defect B, witnesses pinned-1/6)",
    "C": "no exact bcc lattice in a box with three equal sides for the new construction (defect C, witness pinned-2)",
    "O": "old construction only if the smallest generator separation is >= c*sqrt(OLDVORONOI_TOLERANCE)*|box sides|, c = 20: the documented "
         "vertex tolerance eps/|p| is then <= 1% of the half separation |p|; at c ~ 1 it exceeds |p|, whole cells lie 'in the plane' and "
         "OldVoronoiCell::intersect runs off its edge lists (witnesses pinned-5/6)",
    "D": "old construction only on lattices displaced by >= 10 delta (delta = 8*tol*|S|^2/nn, its allowed vertex displacement): a set that is "
         "degenerate within the documented tolerance is a degenerate set for the old construction; exactly degenerate input is only "
         "demanded of the new one (witnesses pinned-3/old, pinned-7)",
}


def rule_of(key, rec):
    if rec.get("avoid"):
        return rec["avoid"]
    try:
        pk, clause, ctor = key.split("/")
        k = int(pk.split("-")[1])
    except (ValueError, IndexError):
        return ""
    if ctor == "new":
        return {0: "A", 1: "B", 2: "C", 4: "A", 6: "B"}.get(k, "")
    if ctor == "old":
        return {3: "D", 5: "O", 6: "O", 7: "D"}.get(k, "")
    return ""


avoid = "".join(sorted(set("".join(rule_of(k, r) for k, r in chk.known.items()))))

stats, statd = {}, {}


def merge(st, sd):
    for k, v in st.items():
        stats[k] = stats.get(k, 0) + v
    for k, v in sd.items():
        statd[k] = max(statd.get(k, float("-inf")), v)


# pinned witnesses (fixed generator sets, independent of VERIF_SEED) run next to the seeded shards
npinned = 0
r = common.run([exe, "--pinned-count"], timeout=60)
try:
    npinned = int(r.out.strip())
except ValueError:
    chk.inconclusive_because("cannot read the number of pinned witnesses: %r" % (r.out[-200:],))


def run_pinned(k):
    return hcheck.run_shards(chk, exe, ["--pinned", str(k)], 1, timeout, env=env)


def run_main():
    return hcheck.run_shards(chk, exe, ["--grids", str(grids), "--stride", str(shards), "--slowcap", str(slowcap), "--wallcap", str(wallcap)]
                             + (["--avoid", avoid] if avoid else []),
                             shards, timeout, env=env)


def run_asan():
    # sanitizer pass (thorough): same generator, fewer grids, ASan+UBSan fatal -> counted as crash/...
    e = dict(env)
    e["ASAN_OPTIONS"] = "detect_leaks=0:abort_on_error=0"
    e["UBSAN_OPTIONS"] = "print_stacktrace=1"
    chk2_seed = chk.seed
    chk.seed = chk2_seed + 7777  # different cases than the main pass
    try:
        return hcheck.run_shards(chk, exe_asan, ["--grids", "12", "--stride", "16", "--slowcap", "300", "--wallcap", "100", "--cpufactor", "6"]
                                 + (["--avoid", avoid] if avoid else []),
                                 16, timeout, env=e)
    finally:
        chk.seed = chk2_seed


with cf.ThreadPoolExecutor(max_workers=4 + npinned) as ex:
    futs = [ex.submit(run_main)] + [ex.submit(run_pinned, k) for k in range(npinned)]
    for f in futs:
        merge(*f.result())
if exe_asan:
    st, sd = run_asan()
    merge({("asan_" + k): v for k, v in st.items() if k.startswith(("grids", "constructions", "violations"))}, {})

cov = chk.coverage
cov["evaluations"] = (stats.get("cells_checked_new", 0) + stats.get("cells_checked_old", 0)
                      + stats.get("locate_samples_checked_new", 0) + stats.get("locate_samples_checked_old", 0))
cov["distinct_nontrivial"] = stats.get("grids", 0)
cov["rule"] = ("one evaluation = one Voronoi cell judged (volume, every face against the plane computed from the generator pair / wall, "
               "closure, twin face) or one get_index answer compared with the brute-force nearest generator; distinct non-trivial = "
               "generator sets (each from its own PRNG stream: family x regime x box shape/offset/scale x size 2..2000 x worksize 1..4), "
               "plus %d pinned witness sets" % npinned)
cov["monitor_counters"] = stats
cov["monitor_maxima"] = {k: v for k, v in statd.items()}
chk.assumptions += [
    "generators are distinct and strictly inside the box (>= 1e-12 side from a wall); positions for get_index lie in [anchor, anchor+side)",
    "negligible face: area <= 1e-10 x (box volume)^(2/3); such faces are exempt from the twin/plane clauses (stated in the property)",
    "accuracy class 1e-9 x cell size for positions, 1e-8 relative for areas, 1e-10 relative for the volume sum, plus a conditioning allowance "
    "16[q(1+h/d)+eps h (h/d)^2] for needle-shaped Delaunay tetrahedra of real generators (never for walls)",
    "the old construction is approximate by design: its documented vertex tolerance OLDVORONOI_TOLERANCE x |box sides|^2 allows a vertex "
    "displacement delta_i = 8 tol |S|^2 / nn_i (nn_i: distance to the nearest generator); every clause of the old construction and the old-vs-new "
    "agreement get the resulting allowance (dV <= delta S, d(sum V) <= sum delta_i S_i, dc <= delta S h / V, dA <= delta P); derivation in the harness",
    "exactly degenerate lattices are only required of the new (incremental) construction, as the property states",
    "sets of 1000..2000 generators are uniform or perturbed lattices; the other families are capped at %d (wall: %d) generators because the new construction needs O(n^2) time there; the per-construction CPU watchdog is >= 8x (linear) / 15x (quadratic) the measured normal cost" % (slowcap, wallcap),
]
need = {"grids_threaded": stats.get("grids_threaded"), "grids_serial": stats.get("grids_serial"),
        "grid_pairs_compared": stats.get("grid_pairs_compared"), "grids_n_2_to_12": stats.get("grids_n_2_to_12"),
        "grids_n_1000_to_2000": stats.get("grids_n_1000_to_2000"), "grids_aspect_above_10": stats.get("grids_aspect_above_10"),
        "grids_box_not_at_origin": stats.get("grids_box_not_at_origin"),
        "locate_samples_checked_new": stats.get("locate_samples_checked_new"),
        "locate_samples_checked_old": stats.get("locate_samples_checked_old"),
        "face_pairs_checked_new": stats.get("face_pairs_checked_new"), "face_pairs_checked_old": stats.get("face_pairs_checked_old")}
for fam in FAMILIES:
    need["family_" + fam.replace("-", "_")] = stats.get("family_" + fam)
    need["built_new_" + fam.replace("-", "_")] = stats.get("grids_built_new_" + fam)
cov["input_rules_active"] = {r: RULES[r] for r in avoid}
cov["input_rule_skips"] = {k: v for k, v in stats.items() if k.startswith("rule_") or k.startswith("cases_skipped")}
for r in "ABCOD":
    chk.assumptions.append("input rule %s (%s in the random part): %s" % (r, "ACTIVE" if r in avoid else "not active: no open finding refers to it", RULES[r]))
chk.require_nonzero(**need)
chk.finish()
