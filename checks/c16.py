#!/usr/bin/env python3
"""C16 — every position maps to exactly one cell; legacy grid traversal conserves path; exact searches.

Drives harness/c16_grids.cpp (real CartesianDensityGrid, AMRDensityGrid, AMRGrid, VoronoiDensityGrid, Octree,
PointLocations, MortonKeyGenerator) family by family; every family is sharded over the cores.  The harness forks
per grid and per battery, so aborts / hangs of the library on in-domain input come back as violations
(<family>/abort/<phase>, <family>/hang/<phase>) with the witness input instead of killing the monitor.
"""
import os, sys
sys.path.insert(0, os.path.join(os.path.dirname(os.path.abspath(__file__)), "..", "lib"))
import common, hcheck

chk = common.Check("C16")
quick = chk.tier == "quick"


def build(variant):
    try:
        return common.build_harness("c16_grids", variant)
    except common.BuildError as e:
        chk.inconclusive_because(str(e))
        chk.finish()


exe = build("hooks")
# family -> (cases per shard, extra args).  Work is bounded by counts; thorough = quick x 30 cases (about 25 min) + an ASan/UBSan pass of quick size.
SHARDS = 16
scale = 1 if quick else 30
plan = [
    ("cartesian", 30, ["--locates", "1500", "--rays", "250"]),
    ("amr", 10, ["--locates", "1200", "--rays", "250"]),
    ("amrgrid", 10, ["--locates", "1200"]),
    ("voronoi", 10, ["--locates", "1200", "--rays", "250"]),
    ("search", 100, ["--queries", "40"]),
]
env = {"OMP_NUM_THREADS": "1"}
stats, statd = {}, {}


def compact(per_key=3):
    """keep a few written-out violations per key (with their replay commands); totals per key are in the counters"""
    kept, n = [], {}
    for key, what, rp in chk.violations:
        n[key] = n.get(key, 0) + 1
        if n[key] <= per_key and rp is not None:
            kept.append((key, what, rp))
    chk.violations[:] = kept


def run_family(exe_, fam, cases, extra, shards, tscale=1.0, timeout=None):
    args = ["--family", fam, "--cases", str(cases), "--tscale", str(tscale)] + extra
    st, sd = hcheck.run_shards(chk, exe_, args, shards, timeout=timeout or (1800 if quick else 6 * 3600), env=env)
    for k, v in st.items():
        stats[k] = stats.get(k, 0) + v
    for k, v in sd.items():
        statd[k] = max(statd.get(k, float("-inf")), v)
    compact()


for fam, cases, extra in plan:
    run_family(exe, fam, cases * scale, extra, SHARDS)

if not quick:
    # the same batteries (quick size) with AddressSanitizer/UBSan: out-of-bounds child / cell indices that happen
    # to read mapped memory in the optimised build abort here
    exe_asan = build("asan")
    env_asan = dict(env)
    env_asan.update({"ASAN_OPTIONS": "abort_on_error=1:detect_leaks=0:allocator_may_return_null=1", "UBSAN_OPTIONS": "abort_on_error=1:print_stacktrace=0"})
    env = env_asan
    for fam, cases, extra in plan:
        run_family(exe_asan, fam, cases, extra, SHARDS, tscale=10.0)

g = stats.get
cov = chk.coverage
locates = sum(g(k, 0) for k in ("cartesian_locates", "amr_locates", "amrgrid_locates", "voronoi_locates"))
rays = sum(g(k, 0) for k in ("cartesian_rays", "amr_rays", "voronoi_rays"))
queries = sum(g(k, 0) for k in ("search_octree_closest", "search_octree_ngbs", "search_octree_sphere", "search_octree_list",
                                 "search_pointlocations_closest", "search_pointlocations_iterators", "search_morton_keys"))
cov["evaluations"] = locates + rays + queries
cov["distinct_nontrivial"] = (g("cartesian_grids", 0) + g("amr_grids", 0) + g("amrgrid_grids", 0) + g("voronoi_grids", 0)
                              + g("search_point_sets", 0))
cov["rule"] = ("evaluations = located positions + traced photons + search queries, each judged against a brute-force oracle "
               "(scan over all cell boxes / nearest generator; slab intersection of the ray with every cell box in every periodic "
               "image, or clipping against all bisector planes; O(n) scans per query; integer shadow tree for AMR refinement "
               "histories).  distinct non-trivial = grids and point sets built from distinct PRNG streams (random box, cell/block "
               "counts incl. odd factors, periodicity flags, refinement history to depth 8, generator set, opacities).")
cov["totals"] = {"locates": locates, "rays": rays, "queries": queries}
cov["violations_per_key"] = {k[len("violations["):-1]: v for k, v in sorted(stats.items()) if k.startswith("violations[")}
cov["monitor_counters"] = {k: v for k, v in stats.items() if not k.startswith("violations[")}
cov["monitor_maxima"] = statd
chk.assumptions += [
    "positions are taken from the half-open box as Box::inside defines it (anchor <= x < fl(anchor+side)); positions within "
    "8 eps x coordinate scale of the upper wall form the regime 'upper-wall-ulp'",
    "containment of a located position is demanded up to 8 eps x (largest |coordinate| of the box) per axis; "
    "a position strictly inside exactly one cell box (by that margin) must be located in that cell",
    "all cells have number density > 0 (the estimator records no path in empty cells); opacity 0 is produced by neutral fraction 0",
    "photon starts: interior, exactly on cell faces/edges/corners and on the lower box walls (sources may sit there); "
    "axis-aligned directions only from interior starts; Voronoi: starts on a wall only with inward directions",
    "traversal tolerances: wall parameters uncertain by delta = 2(8+4k) eps P / min|dir_i| (k cells crossed, P coordinate scale; "
    "Voronoi: incidence cosine and the documented 1e-12|sides| pushes); tau-aware tie for the absorbed/escaped flag: "
    "max(1e-10 tau, 2 delta sum kappa); rays with delta > 5% of the smallest cell are only judged on sums and flags",
    "Voronoi: non-periodic only (the constructor rejects periodic boxes), generators in general position, >= 1e-6 sides from the walls; "
    "volume sum within 1e-8 (the exact bound is C15's subject; the old construction works with a 2e-10 plane tolerance), faces below 1e-10 box-side^2 are ignored in the mutuality clause",
    "Octree / PointLocations: >= 2 points, no exact duplicates (the tree documents duplicates as a warning case), points and "
    "queries in the half-open box; PointLocations without a box only for point sets with non-zero extent on all axes",
    "AMR: top-level blocks <= 12 per axis (10-bit block keys allow 1023), depth <= 8 (32-bit cell keys allow 10)",
]
chk.require_nonzero(
    cartesian_grids_periodic=g("cartesian_grids_periodic"), cartesian_grids_open=g("cartesian_grids_open"),
    cartesian_odd=g("cartesian_grids_with_odd_cell_count"), cartesian_face_locates=g("cartesian_locates_cell-face"),
    cartesian_wall_locates=g("cartesian_locates_lower-wall"), cartesian_rays_absorbed=g("cartesian_rays_absorbed"),
    cartesian_rays_escaped=g("cartesian_rays_escaped"), cartesian_neighbours=g("cartesian_neighbour_pairs_checked"),
    cartesian_ray_cells=g("cartesian_ray_cells_compared"), cartesian_ties=g("cartesian_rays_flag_tie"),
    amr_grids_depth8=g("amr_grids_depth_8"), amr_grids_periodic=g("amr_grids_periodic"), amr_grids_open=g("amr_grids_open"),
    amr_leaves=g("amr_leaves_matched"), amr_face_locates=g("amr_locates_cell-face"), amr_rays_absorbed=g("amr_rays_absorbed"),
    amr_rays_escaped=g("amr_rays_escaped"), amr_refine_callbacks=g("amr_refine_callbacks"),
    amrgrid_depth8=g("amrgrid_grids_depth_8"), amrgrid_odd=g("amrgrid_grids_odd_block_count"), amrgrid_keys=g("amrgrid_keys_enumerated"),
    amrgrid_neighbours=g("amrgrid_neighbour_pointers_checked"), amrgrid_coarser=g("amrgrid_neighbours_coarser"),
    amrgrid_locates=g("amrgrid_locates"),
    voronoi_old=g("voronoi_grids_Old"), voronoi_new=g("voronoi_grids_New"), voronoi_faces=g("voronoi_neighbour_faces_checked"),
    voronoi_unique=g("voronoi_locates_unique"), voronoi_equidistant=g("voronoi_locates_equidistant"),
    voronoi_rays_absorbed=g("voronoi_rays_absorbed"), voronoi_rays_escaped=g("voronoi_rays_escaped"),
    octree_open=g("search_octree_queries_open"), octree_periodic=g("search_octree_queries_periodic"),
    octree_ngbs_nonempty=g("search_octree_ngbs_nonempty"), pl_closest=g("search_pointlocations_closest"),
    pl_iterators=g("search_pointlocations_iterators"), pl_box=g("search_pointlocations_with_box"), morton=g("search_morton_keys"),
)
chk.finish()
