#!/usr/bin/env python3
"""C17 — orientation and in-sphere tests always return the exact sign.

The harness (harness/c17_predicates.cpp) drives the real ExactGeometricTests predicates on
generated tuples and all their permutations and logs inputs + results; every shard's log is
streamed into the offline oracle (oracle/c17_exact.py: arbitrary precision cofactor
expansion of the homogeneous determinants on the 52-bit mantissas)."""
import multiprocessing as mp
import os
import shlex
import subprocess
import sys
import threading

HERE = os.path.dirname(os.path.abspath(__file__))
sys.path.insert(0, os.path.join(HERE, "..", "lib"))
sys.path.insert(0, os.path.join(HERE, "..", "oracle"))
import common, hcheck
import c17_exact as oracle

ORACLE_PY = os.path.join(common.VERIF, "oracle", "c17_exact.py")


def run_shard(job):
    """Run one harness shard, stream its T lines through the oracle."""
    exe, seed, ntuples, timeout, variant = job
    cmd = [exe, "--seed", str(seed), "--tuples", str(ntuples)]
    env = dict(os.environ)
    if variant == "asan":
        env["ASAN_OPTIONS"] = "detect_leaks=0:abort_on_error=1"
        env["UBSAN_OPTIONS"] = "print_stacktrace=1:halt_on_error=1"
    p = subprocess.Popen(cmd, stdout=subprocess.PIPE, stderr=subprocess.PIPE, text=True, env=env,
                         stdin=subprocess.DEVNULL, start_new_session=True)
    timed_out = []

    def kill():
        timed_out.append(1)
        try:
            p.kill()
        except OSError:
            pass

    errbuf = []
    terr = threading.Thread(target=lambda: errbuf.append(p.stderr.read()), daemon=True)
    terr.start()
    wd = threading.Timer(timeout, kill)
    wd.start()
    tally = oracle.Tally()
    other = []
    oracle_error = None
    try:
        for line in p.stdout:
            if line.startswith("T "):
                if oracle_error is None:
                    try:
                        oracle.check_line(line, tally)
                    except Exception as e:  # malformed log line: harness failure, not a verdict
                        oracle_error = "%s: %r" % (e, line[:300])
            else:
                other.append(line)
        p.wait()
    finally:
        wd.cancel()
    terr.join(5)
    return {"cmd": " ".join(shlex.quote(c) for c in cmd), "seed": seed, "rc": p.returncode,
            "timed_out": bool(timed_out), "other": "".join(other), "err": (errbuf[0] if errbuf else "")[-2000:],
            "counters": tally.c, "maxima": tally.mx, "viol": tally.viol[:50], "nviol": len(tally.viol), "samples": tally.samples,
            "hashes": tally.hashes, "oracle_error": oracle_error, "variant": variant}


def main():
    chk = common.Check("C17")
    quick = chk.tier == "quick"
    try:
        exe = common.build_harness("c17_predicates", "hooks", link_libs=False)
        exe_asan = None if quick else common.build_harness("c17_predicates", "asan", link_libs=False)
    except common.BuildError as e:
        chk.inconclusive_because(str(e))
        chk.finish()

    # sign convention: determinant formulas of the oracle vs the geometric definitions
    bad = oracle.establish_convention(common.SplitMix64(chk.seed * 7919 + 17).next, 300 if quick else 3000)
    for b in bad:
        chk.inconclusive_because("oracle self-test (sign convention) failed: " + b)
    if bad:
        chk.finish()

    if quick:
        shards, per = 16, 6250          # 1e5 tuples, 1.4e7 predicate calls
    else:
        shards, per = 64, 156250        # 1e7 tuples, 1.4e9 predicate calls
    timeout = 600 if quick else 5400
    jobs = [(exe, chk.seed * 100003 + i, per, timeout, "hooks") for i in range(shards)]
    if exe_asan:  # same predicates compiled with ASan+UBSan (fatal): undefined behaviour in the integer code
        jobs += [(exe_asan, chk.seed * 100003 + 5000 + i, 30000, timeout, "asan") for i in range(4)]

    stats, hstats, maxima = {}, {}, {}
    hashes = set()
    samples = {}
    with mp.Pool(min(common.NCPU, len(jobs))) as pool:
        for r in pool.imap_unordered(run_shard, jobs, chunksize=1):
            cmdline = r["cmd"]
            for k, v in r["counters"].items():
                stats[k] = stats.get(k, 0) + v
            for k, v in r["maxima"].items():
                maxima[k] = max(maxima.get(k, 0), v)
            hashes |= r["hashes"]
            for k, v in r["samples"].items():
                samples.setdefault(k, v)
            _, hst, _, _, done = hcheck.parse(r["other"])
            for k, v in hst.items():
                hstats[k] = hstats.get(k, 0) + v
            for key, case, text in r["viol"]:
                chk.violation(key, text, {"cmd": "%s --only %s | python3 %s" % (cmdline, case, ORACLE_PY),
                                          "case": case, "shard_seed": r["seed"], "variant": r["variant"]})
            if r["nviol"] > len(r["viol"]):
                stats["violations_not_listed"] = stats.get("violations_not_listed", 0) + r["nviol"] - len(r["viol"])
            if r["oracle_error"]:
                chk.inconclusive_because("unreadable harness log: %s (%s)" % (r["oracle_error"], cmdline))
            if r["timed_out"]:
                chk.inconclusive_because("watchdog (%ds) fired for: %s" % (timeout, cmdline))
            elif r["rc"] != 0 or not done:
                if "Boost Multiprecision was not found" in r["err"]:
                    chk.inconclusive_because("build without Boost Multiprecision: exact predicates unavailable")
                elif r["rc"] is not None and r["rc"] < 0:
                    # the property says the predicates always RETURN a sign
                    chk.violation("predicate/abort-%s" % r["variant"],
                                  "harness died with signal %d while evaluating predicates: %s" % (-r["rc"], r["err"][-600:]),
                                  {"cmd": cmdline})
                else:
                    chk.inconclusive_because("harness failure rc=%s: %s\n%s" % (r["rc"], cmdline, r["err"][-1500:]))
            elif hst.get("tuples", 0) != r["counters"].get("tuples", 0):
                chk.inconclusive_because("oracle saw %d of %d logged tuples: %s" % (
                    r["counters"].get("tuples", 0), hst.get("tuples", 0), cmdline))

    # thread invariance: the Voronoi construction calls the predicates from all worker threads at once; every thread
    # evaluates its own near-degenerate tuples alone and concurrently (harness/c17_threads.cpp), and the same harness runs
    # under ThreadSanitizer (shared mutable state inside a predicate is a race whether or not it flipped a sign this time)
    try:
        exe_thr = common.build_harness("c17_threads", "hooks", link_libs=False)
        exe_thr_tsan = common.build_harness("c17_threads", "tsan", link_libs=False)
    except common.BuildError as e:
        chk.inconclusive_because(str(e)); chk.finish()
    thr, _ = hcheck.run_shards(chk, exe_thr, ["--tuples", str(20000 if quick else 400000), "--threads", "8"], 3 if quick else 12, timeout=1200, max_workers=2)
    import tsan_classify
    rd = chk.rundir()
    tenv = {"TSAN_OPTIONS": "halt_on_error=0:report_signal_unsafe=0:log_path=%s/tsan.log:exitcode=0" % rd}
    tthr, _ = hcheck.run_shards(chk, exe_thr_tsan, ["--tuples", str(1500 if quick else 20000), "--threads", "4"], 2 if quick else 6, timeout=1800, env=tenv, max_workers=2)
    reports = tsan_classify.classify_dir(rd)
    hstats["threads_evaluations_compared"] = thr.get("threads_evaluations_compared", 0)
    hstats["threads_exact_zero_results"] = thr.get("threads_exact_zero_results", 0)
    hstats["tsan_evaluations"] = tthr.get("threads_evaluations_compared", 0)
    hstats["tsan_reports"] = len(reports)
    for rep in reports:
        if not rep["benign"]:
            chk.violation("tsan/" + rep["key"], rep["summary"], {"report": rep["text"][:4000]})
    chk.require_nonzero(threads_evaluations=hstats["threads_evaluations_compared"], threads_exact_zero=hstats["threads_exact_zero_results"],
                        tsan_evaluations=hstats["tsan_evaluations"])

    cov = chk.coverage
    cov["evaluations"] = stats.get("evaluations", 0)
    cov["distinct_nontrivial"] = len(hashes)
    cov["rule"] = ("evaluations = calls of orient3d_adaptive/_exact and insphere_adaptive/_exact (every tuple in all 24 / 120 "
                   "argument orders), each compared with the sign of the homogeneous determinant computed by cofactor "
                   "expansion with unbounded integers; distinct_nontrivial = measured number of distinct input tuples "
                   "(hash of the coordinate bit patterns, at most 40000 recorded per shard) that are exactly degenerate, "
                   "perturbed from degeneracy by 1..1000 ulp, or inside the 1e-10 filter band "
                   "(nontrivial_tuples = %d before de-duplication)" % stats.get("nontrivial_tuples", 0))
    cov["monitor_counters"] = stats
    cov["harness_counters"] = hstats
    cov["monitor_maxima"] = maxima  # widest determinants seen (integer types of the repo: 256 / 278 bits)
    for k in sorted(samples):
        chk.add_sample(samples[k], maxn=12)
    chk.assumptions += [
        "thread invariance is checked as agreement between a sequential and a concurrent evaluation of the same tuples (8 threads, every "
        "test repeated 3 times in a row) plus a ThreadSanitizer pass; the sequential results themselves are what the offline oracle decides",
        "coordinates are doubles in [1,2) (exponent field 0x3FF), the range NewVoronoiGrid rescales generator positions into; "
        "behaviour outside that range (e.g. a coordinate equal to 2.0) is not part of this check",
        "sign convention: orient3d == sign det[a 1;b 1;c 1;d 1], insphere == sign det[p |p|^2 1] (rows a..e); verified against "
        "the documented geometric meaning with rational arithmetic before every run (oracle.establish_convention)",
        "the adaptive functions of this code base call the exact ones themselves when the filter is undecided, so an adaptive "
        "result must always equal the exact sign (0 only for truly degenerate input); how often the filter was undecided is "
        "estimated by the oracle (|det| <= 1e-10 * sum|terms|), it cannot be observed from outside",
    ]
    for name in ("orient3d", "insphere"):
        chk.require_nonzero(**{
            name + "_random": stats.get(name + "_random"),
            name + "_degenerate": stats.get(name + "_degenerate"),
            name + "_near_degenerate": stats.get(name + "_near-degenerate"),
            name + "_true_zero": stats.get(name + "_true_zero"),
            name + "_near_degenerate_nonzero": stats.get(name + "_near_degenerate_nonzero"),
            name + "_filter_band_nonzero": stats.get(name + "_filter_band_nonzero"),
            name + "_outside_filter_band": stats.get(name + "_outside_filter_band"),
            name + "_reference": stats.get(name + "_reference"),
        })
    chk.require_nonzero(permutation_results_checked=stats.get("permutation_results_checked"),
                        adaptive_returned_zero=stats.get("adaptive_returned_zero"),
                        exact_returned_zero=stats.get("exact_returned_zero"))
    chk.finish()


if __name__ == "__main__":
    main()
