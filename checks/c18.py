#!/usr/bin/env python3
"""C18 — atomic data and sampled photon frequencies are physical for all inputs.

The harness (harness/c18_atomic.cpp) evaluates the real classes and dumps hex floats;
all judgements are made here by the independent oracles in oracle/c18_*.py."""
import concurrent.futures as cf
import math
import os
import shlex
import sys
from fractions import Fraction

HERE = os.path.dirname(os.path.abspath(__file__))
sys.path.insert(0, os.path.join(HERE, "..", "lib"))
sys.path.insert(0, os.path.join(HERE, "..", "oracle"))
import common
import hcheck
import c18_phfit2 as PH
import c18_rates as RT
import c18_spectra as SP

NU_A, NU_B = SP.NU_A, SP.NU_B
# CODATA 2014 (what the code documents to use); the harness reports the code's values
CODATA = {"planck": 6.626070040e-34, "boltzmann": 1.38064852e-23, "electronvolt": 1.6021766208e-19}
E_2S_HE_EV = 20.616   # He 2^1S - 1^1S (NIST): a two-photon decay photon cannot carry more


def fh(s):
    return float.fromhex(s)


def parse_dump(path):
    d = {"const": {}, "ions": {}, "X": {}, "F": [], "FV": {}, "R": {}, "CT": {}, "spec": {}, "S": {}}
    with open(path) as f:
        for line in f:
            t = line.split()
            if not t:
                continue
            k = t[0]
            if k == "X":
                d["X"].setdefault(int(t[1]), []).append((fh(t[2]), fh(t[3])))
            elif k == "R":
                d["R"].setdefault(int(t[1]), []).append((fh(t[2]), fh(t[3])))
            elif k == "CT":
                d["CT"].setdefault((t[1], int(t[2])), []).append((fh(t[3]), fh(t[4]), fh(t[5])))
            elif k == "S":
                d["S"].setdefault(t[1], []).append((fh(t[2]), fh(t[3])))
            elif k == "SPEC":
                d["spec"][t[1]] = dict(kv.split("=", 1) for kv in t[2:])
            elif k == "CONST":
                d["const"][t[1]] = fh(t[2])
            elif k == "ION":
                d["ions"][int(t[1])] = t[2]
            elif k == "F":
                d["F"].append((int(t[1]), fh(t[2]), fh(t[3])))
            elif k == "FV":
                d["FV"][int(t[1])] = fh(t[2])
    return d


# ---------------------------------------------------------------------------
# sampler oracle for one spectrum (runs in a worker process)
# ---------------------------------------------------------------------------
_TB = None


def _sigma_fn(name, ev_hz):
    global _TB
    if _TB is None:
        _TB = PH.load_tables(common.REPO)
    z, n = PH.IONS[name]
    return SP.MemoSigma(lambda nu: _TB.total(z, n, nu / ev_hz))


def sampler_task(args):
    sid, meta, pairs, const = args
    kind = meta["kind"]
    h, kb, ev = const["planck"], const["boltzmann"], const["electronvolt"]
    ev_hz = ev / h
    pairs = sorted(pairs)
    lo_H = PH.NIST_IP_EV["H"] * ev_hz
    hi_all = 4.0 * NU_B * (1.0 + 1e-12)
    out = {"sid": sid, "kind": kind, "viol": [], "stats": {}, "regime": "", "note": ""}
    if kind == "mono":
        nu0 = fh(meta["nu"])
        bad = [(u, nu) for u, nu in pairs if nu != nu0]
        if bad:
            out["viol"].append(("sampler/mono/wrong-frequency", "%s: u=%.17g gives %.17g Hz instead of %.17g Hz" % (sid, bad[0][0], bad[0][1], nu0), bad[0][0]))
        out["stats"] = {"pairs": len(pairs), "max_norm_dev": 0.0, "max_abs_dev": 0.0, "bins_hit": 1}
        return out
    if kind == "uniform":
        v, st = SP.check_pairs(sid, kind, pairs, None, lo_H, hi_all, do_cdf=False)
        dev = 0.0
        for u, nu in pairs:
            c = (nu / NU_B - 1.0) / 3.0   # closed form CDF of a flat spectrum on [13.6, 54.4] eV
            dev = max(dev, abs(c - u))
            if abs(c - u) > 1e-12:
                v.append(("sampler/uniform/cdf-mismatch", "%s: u=%.17g gives nu=%.17g Hz whose flat-spectrum CDF is %.17g" % (sid, u, nu, c), u))
                break
        st["max_abs_dev"] = dev
        out["viol"], out["stats"] = v, st
        return out
    if kind == "planck":
        T = fh(meta["T"])
        kn = SP.Knots(NU_A, 4.0 * NU_A, 1000)
        refs = [SP.RefCDF(SP.planck_number_density(T * f, h, kb), NU_A, 4.0 * NU_A, 2997) for f in (1.0 - SP.CONV, 1.0 + SP.CONV)]
        ref = SP.Reference(refs, kn)
        v, st = SP.check_pairs(sid, kind, pairs, ref, lo_H, hi_all)
        out["note"] = "T=%g K first-bin mass %.3e e_quad %.2e e_conv %.2e" % (T, ref.knot_cdf[0][1], ref.e_quad, ref.e_conv)
    elif kind == "he2ph":
        kn = SP.Knots(NU_A, 1.6 * NU_A, 1000)
        ref = SP.Reference([SP.RefCDF(SP.he2ph_density(common.REPO), NU_A, 1.6 * NU_A, 2997)], kn)
        v, st = SP.check_pairs(sid, kind, pairs, ref, lo_H, E_2S_HE_EV * ev_hz)
    elif kind in ("hlyc", "helyc"):
        Tg = fh(meta["Tgas"])
        if kind == "hlyc":
            lo, hi, name, rlo = NU_B, 4.0 * NU_B, "H", lo_H
        else:
            lo, hi, name, rlo = 1.81 * NU_A, 4.0 * NU_A, "He", PH.NIST_IP_EV["He"] * ev_hz
        kn = SP.Knots(lo, hi, 1000)
        Ttab = [1500.0 + (i + 0.5) * 13500.0 / 100 for i in range(100)]   # documented: 100 temperatures over [1500, 15000] K
        sig = _sigma_fn(name, ev_hz)
        if Ttab[0] <= Tg <= Ttab[-1]:
            i = max(0, min(98, int((Tg - Ttab[0]) / 135.0)))
            Ts = sorted(set([Ttab[i], Ttab[i + 1], Tg]))
            refs = [SP.RefCDF(SP.lyc_density(sig, T, lo, h, kb), lo, hi, 2997) for T in Ts]
            ref = SP.Reference(refs, kn)
            v, st = SP.check_pairs(sid, kind, pairs, ref, rlo, hi_all)
            out["regime"] = "T-in-table"
        else:
            # outside the tabulated temperatures the class extrapolates; the header calls that safe.
            # Only range and monotonicity are demanded there.
            reg = "T-below-table" if Tg < Ttab[0] else "T-above-table"
            v, st = SP.check_pairs(sid, kind, pairs, None, rlo, hi_all, do_cdf=False, regime=reg)
            out["regime"] = reg
        out["note"] = "Tgas=%g K" % Tg
    elif kind == "masked":
        nb, ns = int(meta["nbins"]), int(meta["nsamples"])
        kn = SP.Knots(NU_B, 4.0 * NU_B, nb)
        if meta["base"] == "planck":
            base = SP.planck_number_density(fh(meta["T"]), h, kb)
        else:
            base = lambda nu: 1.0
        if meta["mask"] == "linear":
            mfun = lambda f: 1.0 - (f - NU_B) / (3.0 * NU_B)     # documented: linear from 1 at 13.6 eV to 0 at 54.4 eV
            forb = None
        else:
            a, b, fr = fh(meta["a"]), fh(meta["b"]), fh(meta["f"])
            mfun = lambda f: fr if a <= f < b else 1.0
            # every bin whose frequency lies in [a,b) is removed: [a+h, b) is removed whatever the bin alignment
            forb = (a + kn.h, b) if fr == 0.0 and b > a else None
        # the mask acts per table bin (get_bin_fraction(frequency of the bin))
        def dens(nu, base=base, mfun=mfun, kn=kn):
            return base(nu) * mfun(kn.knot(kn.bin_of(nu * (1 + 1e-15))))
        panels = (nb - 1) * max(1, 3000 // (nb - 1))
        r0 = SP.RefCDF(dens, NU_B, 4.0 * NU_B, panels)
        # Monte Carlo noise of a table built from `ns` samples: 6 sigma of a binomial fraction,
        # inflated by max(mask)/mean(mask) because the retained samples carry unequal weights
        rb = SP.RefCDF(base, NU_B, 4.0 * NU_B, panels)
        mean_mask = r0.Z / rb.Z
        mc = 6.0 * 0.5 / math.sqrt(ns) / max(mean_mask, 1e-3)
        ref = SP.Reference([r0], kn, extra_tol=mc)
        ref.e_quad = 0.0   # a histogram holds exact bin masses: no quadrature error
        v, st = SP.check_pairs(sid, kind, pairs, ref, lo_H, hi_all, forbidden=forb)
        out["note"] = "mask=%s nbins=%d mc_tol=%.2e mean_mask=%.3f" % (meta["mask"], nb, mc, mean_mask)
    else:
        v, st = [("sampler/unknown-kind", kind, 0.0)], {}
    out["viol"], out["stats"] = v, st
    return out


# ---------------------------------------------------------------------------
def main():
    chk = common.Check("C18")
    try:
        exe = common.build_harness("c18_atomic", "hooks")
    except common.BuildError as e:
        chk.inconclusive_because(str(e))
        chk.finish()
    quick = chk.tier == "quick"
    rd = chk.rundir()
    seed = chk.seed
    scale = 1 if quick else 10
    nrandT = 2 if quick else 24

    # constants the code converts units with (inputs of the property, cross-checked against CODATA 2014)
    r = common.run([exe, "--mode", "consts"], timeout=60)
    const = {}
    for line in r.out.splitlines():
        t = line.split()
        if t and t[0] == "CONST":
            const[t[1]] = fh(t[2])
    for k, v in CODATA.items():
        if k not in const or abs(const[k] - v) > 1e-6 * v:
            chk.violation("constants/" + k, "physical constant %s = %r, CODATA 2014 %r" % (k, const.get(k), v), {"cmd": exe + " --mode consts"})
    if len(const) < 3:
        chk.inconclusive_because("harness did not report the constants: rc=%s %s" % (r.rc, (r.err or "")[-500:]))
        chk.finish()
    ev_hz_exact = PH.hz_per_ev(const)
    ev_hz = const["electronvolt"] / const["planck"]

    tb = PH.load_tables(common.REPO)
    nu_lo, nu_hi = 0.5 * NU_A, 100.0 * NU_A
    edges = set()
    for name, (z, n) in PH.IONS.items():
        for e in tb.edges_ev(z, n):
            x = float(e * ev_hz_exact)
            if nu_lo <= x <= nu_hi:
                edges.add(x)
    edges.add(NU_A), edges.add(NU_B), edges.add(4 * NU_A), edges.add(4 * NU_B)
    edges_file = os.path.join(rd, "edges.txt")
    with open(edges_file, "w") as f:
        for e in sorted(edges):
            f.write(e.hex() + "\n")

    jobs = {
        "xsec": [exe, "--mode", "xsec", "--seed", str(seed), "--ngrid", str(4000 * scale), "--nrand", str(500 * scale), "--edges", edges_file],
        "rates": [exe, "--mode", "rates", "--seed", str(seed), "--ngrid", str(2000 * scale), "--nrand", str(500 * scale)],
    }
    for g in ("planck", "simple", "lyc", "masked"):
        # masked spectra get 10x the inputs: ~20 per table bin, so that the half bin next to a mask edge is always probed
        nu_in = 6000 * scale * (10 if g == "masked" else 1)
        jobs["sampler_" + g] = [exe, "--mode", "sampler", "--group", g, "--seed", str(seed), "--nu", str(nu_in), "--nrandT", str(nrandT), "--tmp", rd]
    for k in jobs:
        jobs[k] += ["--out", os.path.join(rd, k + ".dump")]

    def run_job(k):
        return k, common.run(jobs[k], timeout=900 if quick else 3600)

    stats = {}
    failed = set()
    with cf.ThreadPoolExecutor(max_workers=len(jobs)) as ex:
        for k, res in ex.map(run_job, jobs):
            viols, st, sd, samples, done = hcheck.parse(res.out)
            for a, b in st.items():
                stats[a] = stats.get(a, 0) + b
            if res.timed_out or res.rc != 0 or not done:
                failed.add(k)   # the other jobs are still judged; the run can no longer be a clean pass
                chk.inconclusive_because("harness job %s failed rc=%s: %s\n%s" % (k, res.rc, " ".join(shlex.quote(c) for c in jobs[k]), (res.err or "")[-1500:]))

    def replay(mode, spec, group=None):
        cmd = [exe, "--mode", mode, "--seed", str(seed), "--nrandT", str(nrandT), "--tmp", "/tmp", "--only", spec]
        if group:
            cmd += ["--group", group]
        return {"cmd": " ".join(shlex.quote(c) for c in cmd)}

    counters = dict(stats)
    nontrivial = 0
    evaluations = 0

    # ---------------- cross sections ----------------
    dx = parse_dump(jobs["xsec"][-1]) if "xsec" not in failed else parse_dump(os.devnull)
    ions = dx["ions"]
    ion_id = {v: k for k, v in ions.items()}
    if ions and sorted(ions.values()) != sorted(PH.IONS):
        chk.violation("xsec/ion-list", "code tracks ions %s, oracle expects %s" % (sorted(ions.values()), sorted(PH.IONS)), {})
    xs_tot = {"below_threshold": 0, "outer_fit_branch": 0, "inner_fit_branch": 0, "ambiguous_edge": 0, "edge_adjacent": 0,
              "edge_strict_zero": 0, "edge_strict_nonzero": 0,
              "compared_nonzero": 0, "all_shell_compared": 0}
    max_rel = 0.0
    for i, name in sorted(ions.items()):
        if name not in PH.IONS:
            continue
        v, st = PH.check_xsec(tb, name, dx["X"].get(i, []), ev_hz, nu_hi)
        for key, text, nu in v:
            chk.violation(key, text, replay("xsec", "%d:%s" % (i, nu.hex())))
        for k in xs_tot:
            xs_tot[k] += st[k]
        max_rel = max(max_rel, st["max_rel_err"])
        evaluations += st["n"]
        nontrivial += st["compared_nonzero"]
        z, n = PH.IONS[name]
        # ion -> (Z,N) row check that does not rest on the tables: thresholds vs NIST ionization potentials
        eth = min(tb.ph1[(z, n, s)][0] for s in tb.valence_shells(z, n, PH.EMAX_SOURCE_EV))
        if abs(eth - PH.NIST_IP_EV[name]) > PH.IP_TOL * PH.NIST_IP_EV[name]:
            chk.violation("xsec/%s/table-threshold" % PH.safe(name), "table threshold %.4g eV vs ionization potential %.4g eV" % (eth, PH.NIST_IP_EV[name]), {})
    for k, v in xs_tot.items():
        counters["xsec_" + k] = v
    counters["xsec_max_rel_err_x1e18"] = int(max_rel * 1e18)
    # fixed-value cross sections: argument order / ion mapping, frequency independence
    names14 = ["H", "He", "C+", "C++", "N", "N+", "N++", "O", "O+", "Ne", "Ne+", "S+", "S++", "S+++"]   # constructor argument order (documented)
    nfix = 0
    for i, nu, s in dx["F"]:
        want = dx["FV"][names14.index(ions[i])]
        nfix += 1
        if s != want:
            chk.violation("fixed/%s/wrong-value" % PH.safe(ions[i]), "FixedValueCrossSections(%s, nu=%.6e) = %r, configured %r" % (ions[i], nu, s, want), {})
    counters["fixed_checked"] = nfix
    i0 = ion_id.get("C+", 2)
    smp = [p for p in dx["X"].get(i0, []) if p[1] > 0][:1]
    if smp:
        nu, s = smp[0]
        chk.add_sample("xsec C+ nu=%s (%.6e Hz, %.4f eV) sigma=%s (%.6e m^2) oracle=%.6e m^2" % (nu.hex(), nu, nu / ev_hz, s.hex(), s, tb.total(6, 5, nu / ev_hz, tb.valence_shells(6, 5, 54.4)) * 1e-22))

    # ---------------- rates ----------------
    dr = parse_dump(jobs["rates"][-1]) if "rates" not in failed else parse_dump(os.devnull)
    rc_tot = {"n_le_1e5": 0, "n_zero_above_1e5": 0, "monotone_pairs": 0}
    for i, name in sorted(dr["ions"].items()):
        rows = sorted(dr["R"].get(i, []))
        v, st = RT.check_rec(name, rows)
        for key, text, T in v:
            chk.violation(key, text, replay("rates", "%d:%s" % (i, T.hex())))
        for k in rc_tot:
            rc_tot[k] += st[k]
        evaluations += st["n"]
        nontrivial += st["n"]
        if st["first_zero_T"]:
            counters["rec_first_zero_T_%s" % RT.safe(name)] = int(st["first_zero_T"])
    ct_n = ct_pos = 0
    for (reac, i), rows in sorted(dr["CT"].items()):
        v, st = RT.check_ct(reac, dr["ions"][i], sorted(rows))
        for key, text, T in v:
            chk.violation(key, text, replay("rates", "%d:%s" % (i, T.hex())))
        ct_n += st["n"]
        ct_pos += st["n_positive"]
    evaluations += ct_n
    counters.update({"rec_" + k: v for k, v in rc_tot.items()})
    counters["ct_checked"], counters["ct_positive"], counters["ct_reactions"] = ct_n, ct_pos, len(dr["CT"])
    rows = sorted(dr["R"].get(0, []))
    if rows:
        T, a = min(rows, key=lambda p: abs(p[0] - 1e4))
        chk.add_sample("rec H T=%.17g K alpha=%s (%.6e m^3/s)" % (T, a.hex(), a))

    # ---------------- samplers ----------------
    tasks = []
    group_of = {}
    for g in ("planck", "simple", "lyc", "masked"):
        if "sampler_" + g in failed:
            continue
        ds = parse_dump(jobs["sampler_" + g][-1])
        for sid, meta in ds["spec"].items():
            tasks.append((sid, meta, ds["S"].get(sid, []), const))
            group_of[sid] = g
    tasks.sort(key=lambda t: 0 if t[1]["kind"] in ("hlyc", "helyc", "masked") else 1)
    samp = {"pairs": 0, "spectra": 0}
    regimes = {}
    worst = {}
    with cf.ProcessPoolExecutor(max_workers=min(common.NCPU, 16)) as ex:
        for out in ex.map(sampler_task, tasks, chunksize=1):
            sid, kind = out["sid"], out["kind"]
            for key, text, u in out["viol"]:
                chk.violation(key, text, replay("sampler", "%s:%s" % (sid, float(u).hex()), group_of[sid]))
            st = out["stats"]
            samp["pairs"] += st.get("pairs", 0)
            samp["spectra"] += 1
            rk = kind + ("_" + out["regime"].replace("-", "_") if out["regime"] else "")
            regimes[rk] = regimes.get(rk, 0) + st.get("pairs", 0)
            regimes[rk + "_bins_hit"] = max(regimes.get(rk + "_bins_hit", 0), st.get("bins_hit", 0))
            worst[rk] = max(worst.get(rk, 0.0), st.get("max_norm_dev", 0.0))
            if sid in ("planck3", "hlyc3", "masked_lin"):
                chk.add_sample("sampler %s (%s) pairs=%d max|CDF_ref-u|/tol=%.3f bins_hit=%d" % (sid, out["note"], st.get("pairs", 0), st.get("max_norm_dev", 0.0), st.get("bins_hit", 0)))
    evaluations += samp["pairs"]
    nontrivial += samp["pairs"]
    counters["sampler_pairs"], counters["sampler_spectra"] = samp["pairs"], samp["spectra"]
    for k, v in regimes.items():
        counters["sampler_" + k] = v
    for k, v in worst.items():
        counters["sampler_worst_dev_over_tol_permille_" + k] = int(1000 * v)

    cov = chk.coverage
    cov["evaluations"] = evaluations
    cov["distinct_nontrivial"] = nontrivial
    cov["rule"] = ("every evaluation is a distinct input: (ion, frequency) on a 4000-point log grid 0.5..100 nu_H + seed-random + "
                   "+-{0,1,2,4,...,64} ulp around every threshold/shell edge; (ion|reaction, T) on a 2000-point log grid 10..1e9 K "
                   "+ 1-ulp neighbours + seed-random; (spectrum, u) with u injected bit-exactly through a restored RandomGenerator. "
                   "non-trivial = cross sections compared against a non-zero published-fit value + rate evaluations + sampler pairs")
    cov["monitor_counters"] = counters
    chk.assumptions += [
        "the code's own physical constants (CODATA 2014, checked to 1e-6) convert Hz <-> eV; fit tolerance 1e-10 relative around inputs moved by +-2e-15",
        "above 4 x 13.6 eV (beyond every source spectrum) the ion cross section is compared with the sum over the valence sub-shells whose "
        "threshold is below 54.4 eV (the code's documented choice); up to 54.4 eV it must equal the sum over ALL shells",
        "ranges: 13.6 eV is accepted as anything >= the H ionization potential 13.598 eV; upper limit 4 x 3.289e15 Hz; He I continuum >= 24.587 eV; "
        "two-photon continuum <= 20.616 eV",
        "CDF clause tolerance = CDF_ref mass of the table bin holding nu(u) (and neighbours) + trapezoid bound + 13.6-eV-convention term; "
        "a whole-bin shift of a table is therefore only caught through the range and mask clauses",
        "recombination continua: CDF clause for gas temperatures inside the tabulated [1567.5, 14932.5] K; outside (500..30000 K reach the sampler "
        "from the temperature calculation) only range and monotonicity are demanded",
        "random-number inputs restricted to the generator's lattice k*2^-48 in [1e-10, 1)",
    ]
    # thread invariance: the spectra / cross sections / rate tables are shared const objects of all worker threads; every
    # thread replays its own draw sequence alone and concurrently with 7 others on the same objects (bitwise equal, in range)
    try:
        exe_thr = common.build_harness("c18_threads", "hooks")
        thr_stats, _ = hcheck.run_shards(chk, exe_thr, ["--draws", str(150000 if quick else 3000000), "--threads", "8"], 3 if quick else 16, timeout=900)
        chk.coverage["thread_invariance"] = thr_stats
        chk.require_nonzero(thread_values_compared=thr_stats.get("values_compared"))
        # the same harness under ThreadSanitizer: a mutable cache inside a shared const table object is a data race whether or
        # not it produced a wrong value in this run (e.g. a "last temperature" memo in the recombination rates)
        import tsan_classify
        exe_thr_tsan = common.build_harness("c18_threads", "tsan")
        rd = chk.rundir()
        tenv = {"TSAN_OPTIONS": "halt_on_error=0:report_signal_unsafe=0:log_path=%s/tsan.log:exitcode=0" % rd}
        tst, _ = hcheck.run_shards(chk, exe_thr_tsan, ["--draws", str(4000 if quick else 60000), "--threads", "4"], 2 if quick else 6, timeout=1800, env=tenv, max_workers=2)
        reports = tsan_classify.classify_dir(rd)
        chk.coverage["thread_invariance_tsan"] = dict(values=tst.get("values_compared", 0), reports=len(reports))
        for rep in reports:
            if not rep["benign"]:
                chk.violation("tsan/" + rep["key"], rep["summary"], {"report": rep["text"][:4000]})
        chk.require_nonzero(tsan_values=tst.get("values_compared"))
    except common.BuildError as e:
        chk.inconclusive_because(str(e))
    chk.require_nonzero(
        xsec_below_threshold=xs_tot["below_threshold"], xsec_outer_fit=xs_tot["outer_fit_branch"], xsec_inner_fit=xs_tot["inner_fit_branch"],
        xsec_edges=xs_tot["edge_adjacent"], xsec_edge_strict_zero=xs_tot["edge_strict_zero"], xsec_edge_strict_nonzero=xs_tot["edge_strict_nonzero"], xsec_ambiguous=xs_tot["ambiguous_edge"], xsec_all_shell=xs_tot["all_shell_compared"], fixed=nfix,
        rec_le_1e5=rc_tot["n_le_1e5"], rec_monotone=rc_tot["monotone_pairs"], ct=ct_n, ct_positive=ct_pos,
        crafted=stats.get("crafted_draws_verified"), planck=regimes.get("planck"), mono=regimes.get("mono"), uniform=regimes.get("uniform"),
        he2ph=regimes.get("he2ph"), hlyc=regimes.get("hlyc_T_in_table"), helyc=regimes.get("helyc_T_in_table"),
        hlyc_extrap=regimes.get("hlyc_T_below_table"), masked=regimes.get("masked"))
    chk.finish()


if __name__ == "__main__":
    main()
