#!/usr/bin/env python3
"""C19 — the time line never overshoots and ends exactly on time."""
import os, sys
sys.path.insert(0, os.path.join(os.path.dirname(os.path.abspath(__file__)), "..", "lib"))
import common, hcheck

chk = common.Check("C19")
try:
    exe = common.build_harness("c19_timeline", "hooks", link_libs=False)
except common.BuildError as e:
    chk.inconclusive_because(str(e)); chk.finish()
quick = chk.tier == "quick"
shards = 8 if quick else 16
hist = 1500 if quick else 70000
maxsteps = 10000
tmp = chk.rundir()
stats, statd = hcheck.run_shards(chk, exe, ["--histories", str(hist), "--maxsteps", str(maxsteps), "--tmp", tmp],
                                 shards, timeout=1200 if quick else 7200, abort_key="advance/abort")
cov = chk.coverage
cov["evaluations"] = stats.get("advance_calls", 0)
cov["distinct_nontrivial"] = stats.get("histories_finished", 0) + stats.get("histories_stopped_below_min", 0)
cov["rule"] = ("histories = (start,end over 30 decades, min/max none|equal|tiny, 7 request patterns); every advance() answer is "
               "checked against an exact integer shadow time line; non-trivial = histories that reached the end time or were "
               "stopped by a below-minimum request (each from a distinct PRNG stream)")
cov["monitor_counters"] = stats
chk.assumptions += ["a process killed by a signal inside TimeLine (e.g. an integer division by zero for a vanishing request) is a violation: the property demands a clean stop",
                    "max step >= min step in generated configurations (the constructor silently raises max to min otherwise)",
                    "strict increase of *physical* time is only demanded when the step exceeds 8 ulp of the largest time magnitude"]
chk.require_nonzero(histories_finished=stats.get("histories_finished"), stops=stats.get("stops_expected"),
                    restores=stats.get("twin_compared"), reduced=stats.get("steps_reduced_to_divide"))
chk.finish()
