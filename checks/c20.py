#!/usr/bin/env python3
"""C20 — parameter files, units and snapshots round-trip without changing values."""
import os, re, sys
sys.path.insert(0, os.path.join(os.path.dirname(os.path.abspath(__file__)), "..", "lib"))
import common, hcheck

chk = common.Check("C20")
try:
    exe = common.build_harness("c20_roundtrip", "hooks")
    exe_snap = common.build_harness("c20_snapshot", "hooks")
except common.BuildError as e:
    chk.inconclusive_because(str(e)); chk.finish()
quick = chk.tier == "quick"
tmp = chk.rundir()
env = {"OMP_NUM_THREADS": "2"}

# the harness' unit / quantity lists must be the ones of the source
src = open(os.path.join(common.REPO, "src", "UnitConverter.hpp")).read()
body = src[src.index("get_single_unit(std::string name)"):src.index("get_SI_unit_name(const int quantity)")]
src_units = re.findall(r'name == "([^"]+)"', body)
enum = src[src.index("enum Quantity {"):]
src_quant = [q for q in re.findall(r"\b(QUANTITY_[A-Z_]+)\b", enum[:enum.index("}")])]
r = common.run([exe, "--list"], timeout=60)
have_units = (re.search(r"^UNITLIST (.*)$", r.out, re.M) or [None, ""])[1].split()
have_quant = (re.search(r"^QUANTITYLIST (.*)$", r.out, re.M) or [None, ""])[1].split()
if sorted(src_units) != sorted(have_units):
    chk.inconclusive_because("unit names of UnitConverter::get_single_unit (%s) differ from the harness list (%s)"
                             % (sorted(set(src_units) ^ set(have_units)), "symmetric difference"))
if src_quant != have_quant:
    chk.inconclusive_because("Quantity enum of the source differs from the harness list: %s"
                             % sorted(set(src_quant) ^ set(have_quant)))

stats, statd = {}, {}
def merge(res):
    s, d = res
    for k, v in s.items():
        stats[k] = stats.get(k, 0) + v
    for k, v in d.items():
        statd[k] = max(statd.get(k, float("-inf")), v)

# (a) parameter trees; (b) units; (c) snapshots
merge(hcheck.run_shards(chk, exe, ["--part", "trees", "--cases", str(6000 if quick else 150000), "--tmp", tmp],
                        8 if quick else 16, timeout=600 if quick else 3600, env=env))
ushards = 2 if quick else 8
merge(hcheck.run_shards(chk, exe, ["--part", "units", "--cases", str(150 if quick else 4000)],
                        ushards, timeout=600 if quick else 3600, env=env))
merge(hcheck.run_shards(chk, exe_snap, ["--cases", str(60 if quick else 1500), "--tmp", tmp],
                        6 if quick else 16, timeout=600 if quick else 3600, env=env))

cov = chk.coverage
cov["evaluations"] = (stats.get("trees_values_queried", 0) + stats.get("trees_used_values_compared", 0)
                      + stats.get("units_conversions", 0) + stats.get("units_pair_conversions", 0)
                      + stats.get("snap_values_compared", 0))
cov["distinct_nontrivial"] = (stats.get("trees_with_close_ge2_then_deeper", 0) + stats.get("trees_with_close_ge2_then_not_deeper", 0)
                              # the enumerated unit strings are the same in every units shard
                              + (stats.get("units_strings_substitution", 0) + stats.get("units_strings_base", 0)) // ushards
                              + stats.get("units_strings_random_compound", 0) + stats.get("snap_grids", 0))
cov["rule"] = ("(a) random parameter trees (depth 1..4, 1..40 keys, names with spaces, 11 value types, noise lines) plus 6 fixed "
               "witness trees; parse -> print_contents -> parse compared with the generator's flat map and read by the harness' own "
               "strict reader; used-values dump (defaults for missing keys, also in new nested groups) re-parsed and compared to 6 digits. "
               "(b) every quantity x every unit string (all same-dimension substitutions of the SI name, all base-unit forms, random "
               "compounds with exponents -3..3) against the long-double product of the measured single-unit factors; table relations. "
               "(c) task-based and Cartesian grids 4..16 cells/dim with hash-defined fields, written by GadgetDensityGridWriter and read by "
               "CMacIonizeSnapshotDensityFunction (cell by cell and as initial condition of a second grid) and the buffered variant. "
               "distinct non-trivial = trees containing a >= 2 level nesting change + distinct unit strings + snapshot grids")
cov["monitor_counters"] = stats
cov["monitor_maxima"] = statd
chk.assumptions += [
    "group/key names and string values avoid ':' and '#', have no leading/trailing blanks; every group holds at least one key; indentation is consistent within a group (1..4 blanks)",
    "used-values comparison tolerance 5.0001e-6 relative = half a unit of the 6th printed significant digit (C++ stream default precision)",
    "unit tolerance 1e-13 relative: at most ~40 roundings of 1.1e-16 in a compound of <= 10 factors with |exponent| <= 3; cases whose partial products leave [1e-280,1e280] are skipped and counted",
    "relations that hold only to the 4 digits of the unit table (pc vs au, yr vs Julian year, eV vs CODATA) are reported as info_* maxima, not as violations",
    "snapshot tolerance 4 units in the last place of the stored type (measured from the file with the HDF5 C API: 8-byte IEEE double, 52 mantissa bits); box anchors/sides are decimals of <= 5 significant digits so that the 6-digit parameter block of the snapshot reproduces the box exactly; |anchor| <= 20 sides",
    "buffered reader exercised only where it is defined: task-based snapshots, cubic boxes and cells, same resolution",
]
chk.require_nonzero(trees_close_ge2_then_deeper=stats.get("trees_transitions_closing_ge2_then_deeper"),
                    trees_close_ge2_then_not_deeper=stats.get("trees_transitions_closing_ge2_then_not_deeper"),
                    trees_open_ge2=stats.get("trees_transitions_opening_ge2_levels"),
                    trees_depth_4=stats.get("trees_depth_4"), trees_depth_1=stats.get("trees_depth_1"),
                    trees_defaults=stats.get("trees_values_from_defaults"),
                    trees_phys=stats.get("trees_values_phys"), trees_physvec=stats.get("trees_values_physvec"),
                    trees_bool=stats.get("trees_values_bool"), trees_vec=stats.get("trees_values_vec"),
                    trees_used_file=stats.get("trees_used_via_ParameterFile"),
                    units_table=stats.get("units_table_relations"), units_quantities=stats.get("units_quantities"),
                    units_compound=stats.get("units_strings_random_compound"), units_cross=stats.get("units_cross_quantity"),
                    snap_taskbased=stats.get("snap_files_taskbased"), snap_cartesian=stats.get("snap_files_cartesian"),
                    snap_buffered=stats.get("snap_reads_buffered"), snap_multi_subgrid=stats.get("snap_multi_subgrid_layouts"),
                    snap_second_grids=stats.get("snap_second_grids"))
chk.finish()
