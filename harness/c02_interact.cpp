// C02: drive the real DensitySubGrid::interact (and propagate /
// compute_optical_depth) packet by packet on small blocks and compare what every
// cell received with brute-force geometry (slab intersection of the straight
// segment with every cell box, in long double).  No marching, no direction
// tables of the repo are used by the oracle.
//
// Tolerance model (DESIGN.md, C02, "Tolerance model [measured]"):
//   delta  = 16 eps (L + |p|) / min_{d: dir_d != 0} |dir_d|   uncertainty of one wall-crossing parameter
//   dtau   = 2 delta * sum_{cells near the ray} kappa_c + (8 + 2 Npath) eps tau_target
// a chord / a deposit is the difference of two crossing parameters -> compared within 2 delta.
// A component with |dir_d| <= 1e-12 is left out of the minimum when the ray provably
// cannot meet a second wall of that axis inside the block (its coordinate is exactly
// on one wall in the code's own arithmetic, or farther than its whole excursion from
// every wall): such an axis never yields the minimum wall distance in the march.
#include "DensitySubGrid.hpp"
#include "vh.hpp"
#include <algorithm>
#include <cstdarg>
#include <string>
#include <vector>

typedef long double LD;
static const double EPS = 2.220446049250313e-16;

// ---------------------------------------------------------------------------
// the 27 classes, written down from the documentation of the enum
// (P = upper limit, N = lower limit; EDGE_X_ab: a->y b->z, EDGE_Y_ab: a->x b->z,
// EDGE_Z_ab: a->x b->y)
struct DirCode {
  int id;
  int s[3];
  const char *name;
};
static const DirCode DIRS[27] = {
    {TRAVELDIRECTION_INSIDE, {0, 0, 0}, "INSIDE"},
    {TRAVELDIRECTION_CORNER_PPP, {1, 1, 1}, "CORNER_PPP"},
    {TRAVELDIRECTION_CORNER_PPN, {1, 1, -1}, "CORNER_PPN"},
    {TRAVELDIRECTION_CORNER_PNP, {1, -1, 1}, "CORNER_PNP"},
    {TRAVELDIRECTION_CORNER_PNN, {1, -1, -1}, "CORNER_PNN"},
    {TRAVELDIRECTION_CORNER_NPP, {-1, 1, 1}, "CORNER_NPP"},
    {TRAVELDIRECTION_CORNER_NPN, {-1, 1, -1}, "CORNER_NPN"},
    {TRAVELDIRECTION_CORNER_NNP, {-1, -1, 1}, "CORNER_NNP"},
    {TRAVELDIRECTION_CORNER_NNN, {-1, -1, -1}, "CORNER_NNN"},
    {TRAVELDIRECTION_EDGE_X_PP, {0, 1, 1}, "EDGE_X_PP"},
    {TRAVELDIRECTION_EDGE_X_PN, {0, 1, -1}, "EDGE_X_PN"},
    {TRAVELDIRECTION_EDGE_X_NP, {0, -1, 1}, "EDGE_X_NP"},
    {TRAVELDIRECTION_EDGE_X_NN, {0, -1, -1}, "EDGE_X_NN"},
    {TRAVELDIRECTION_EDGE_Y_PP, {1, 0, 1}, "EDGE_Y_PP"},
    {TRAVELDIRECTION_EDGE_Y_PN, {1, 0, -1}, "EDGE_Y_PN"},
    {TRAVELDIRECTION_EDGE_Y_NP, {-1, 0, 1}, "EDGE_Y_NP"},
    {TRAVELDIRECTION_EDGE_Y_NN, {-1, 0, -1}, "EDGE_Y_NN"},
    {TRAVELDIRECTION_EDGE_Z_PP, {1, 1, 0}, "EDGE_Z_PP"},
    {TRAVELDIRECTION_EDGE_Z_PN, {1, -1, 0}, "EDGE_Z_PN"},
    {TRAVELDIRECTION_EDGE_Z_NP, {-1, 1, 0}, "EDGE_Z_NP"},
    {TRAVELDIRECTION_EDGE_Z_NN, {-1, -1, 0}, "EDGE_Z_NN"},
    {TRAVELDIRECTION_FACE_X_P, {1, 0, 0}, "FACE_X_P"},
    {TRAVELDIRECTION_FACE_X_N, {-1, 0, 0}, "FACE_X_N"},
    {TRAVELDIRECTION_FACE_Y_P, {0, 1, 0}, "FACE_Y_P"},
    {TRAVELDIRECTION_FACE_Y_N, {0, -1, 0}, "FACE_Y_N"},
    {TRAVELDIRECTION_FACE_Z_P, {0, 0, 1}, "FACE_Z_P"},
    {TRAVELDIRECTION_FACE_Z_N, {0, 0, -1}, "FACE_Z_N"}};
static const DirCode *BYID[27];

// ---------------------------------------------------------------------------
struct Block {
  int n[3];
  double anchor[3], L[3], cs[3]; // cs = L/n in double (what the constructor computes)
  bool lattice;
  int ncell;
  std::vector<double> dens, xH, xHe; // by geometric index (i*n1+j)*n2+k
  std::vector<int> store;            // storage index of geometric cell
  DensitySubGrid *grid;
  Block() : grid(nullptr) {}
  ~Block() { delete grid; }
  int geo(int i, int j, int k) const { return (i * n[1] + j) * n[2] + k; }
};

struct Packet {
  int entry;
  double pabs[3];   // position handed to the code
  double dir[3];    // direction as stored by the packet (after its normalisation)
  double tau;
  double w, energy;
  double sigma[NUMBER_OF_IONNAMES];
  bool accumulate;  // estimators start from known non-zero values
  double l0;        // pre-existing path (accumulate regime)
};

struct Observed {
  int out;
  double pend[3];
  double tau_after;
  std::vector<LD> d; // per geometric cell: recovered path
};

static vh::Stats st;
static uint64_t g_case = 0;
static bool g_dump = false;

static std::string describe(const Block &b, const Packet &p) {
  char buf[1400];
  std::snprintf(buf, sizeof buf,
                "n=%d,%d,%d anchor=%a,%a,%a L=%a,%a,%a lattice=%d entry=%s pos=%a,%a,%a (rel %.17g,%.17g,%.17g) "
                "dir=%a,%a,%a (%.3g,%.3g,%.3g) tau=%.17g",
                b.n[0], b.n[1], b.n[2], b.anchor[0], b.anchor[1], b.anchor[2], b.L[0], b.L[1], b.L[2], (int)b.lattice,
                BYID[p.entry]->name, p.pabs[0], p.pabs[1], p.pabs[2], p.pabs[0] - b.anchor[0], p.pabs[1] - b.anchor[1],
                p.pabs[2] - b.anchor[2], p.dir[0], p.dir[1], p.dir[2], p.dir[0], p.dir[1], p.dir[2], p.tau);
  return buf;
}

// ---------------------------------------------------------------------------
// block generation
static void make_block(Block &b, vh::Rng &r) {
  b.lattice = r.chance(0.5);
  for (int d = 0; d < 3; ++d) b.n[d] = r.chance(0.15) ? 1 : 1 + (int)r.below(8);
  if (b.lattice) {
    static const int exps[3] = {0, 54, -20};
    const double u = std::ldexp(1., -10 + exps[r.below(3)]);
    for (int d = 0; d < 3; ++d) {
      const double m = 2. * (double)r.range(150, 1500) + 1.; // odd: not dyadic
      b.cs[d] = m * u;
      b.L[d] = b.n[d] * b.cs[d];
      const double a = (double)r.range(1, 20000) * u;
      b.anchor[d] = r.chance(0.5) ? a : -a;
    }
  } else {
    static const double scales[3] = {1., 3.0856775814913674e16, 1e-5};
    const double S = scales[r.below(3)];
    const bool far = r.chance(0.1);
    for (int d = 0; d < 3; ++d) {
      b.L[d] = S * r.uniform(0.3, 3.);
      b.anchor[d] = far ? S * r.uniform(-1000., 1000.) : S * r.uniform(-5., 5.);
      if (b.anchor[d] == 0.) b.anchor[d] = S;
    }
  }
  double box[6] = {b.anchor[0], b.anchor[1], b.anchor[2], b.L[0], b.L[1], b.L[2]};
  b.grid = new DensitySubGrid(box, CoordinateVector< int_fast32_t >(b.n[0], b.n[1], b.n[2]));
  for (int d = 0; d < 3; ++d) b.cs[d] = b.L[d] / b.n[d];
  b.ncell = b.n[0] * b.n[1] * b.n[2];
  if ((size_t)b.ncell != b.grid->get_number_of_cells()) {
    VH_VIOL("setup/cell-count", g_case, "block reports %zu cells, expected %d", b.grid->get_number_of_cells(), b.ncell);
  }
  // which storage slot is which geometric cell: ask the block for the midpoints
  b.store.assign(b.ncell, -1);
  for (int s = 0; s < b.ncell; ++s) {
    const CoordinateVector<> mid = b.grid->get_cell_midpoint(s);
    int idx[3];
    for (int d = 0; d < 3; ++d) {
      const LD t = ((LD)mid[d] - (LD)b.anchor[d]) / ((LD)b.L[d] / b.n[d]);
      idx[d] = (int)std::floor((double)t);
      if (idx[d] < 0 || idx[d] >= b.n[d] || std::fabs((double)(t - idx[d] - 0.5L)) > 1e-6) {
        VH_VIOL("setup/midpoint", g_case, "storage cell %d has midpoint outside the lattice of cell centres", s);
        idx[d] = std::min(std::max(idx[d], 0), b.n[d] - 1);
      }
    }
    const int g = b.geo(idx[0], idx[1], idx[2]);
    if (b.store[g] != -1) VH_VIOL("setup/midpoint", g_case, "two storage cells share one geometric cell");
    b.store[g] = s;
  }
  for (int g = 0; g < b.ncell; ++g)
    if (b.store[g] < 0) { VH_VIOL("setup/midpoint", g_case, "geometric cell without storage"); b.store[g] = 0; }

  // contents: optical depth per block length nu_c, turned into a density
  const double Lmax = std::max(b.L[0], std::max(b.L[1], b.L[2]));
  const double sig_unit = 1e-22;
  const int mode = (int)r.below(20);
  const double K = r.loguniform(1e-3, 1e3);
  b.dens.resize(b.ncell); b.xH.resize(b.ncell); b.xHe.resize(b.ncell);
  for (int i = 0; i < b.n[0]; ++i) for (int j = 0; j < b.n[1]; ++j) for (int k = 0; k < b.n[2]; ++k) {
    const int g = b.geo(i, j, k);
    double nu;
    if (mode == 0) nu = 0.;                                         // empty block
    else if (mode <= 2) nu = K;                                     // homogeneous
    else if (mode <= 4) nu = ((i + j + k) & 1) ? K * 1e6 : K * 1e-6; // thin/thick checkerboard
    else if (mode <= 8) nu = r.chance(0.3) ? 0. : K * r.loguniform(1e-6, 1e3); // holes
    else nu = K * r.loguniform(1e-6, 1e3);
    b.dens[g] = nu / (sig_unit * Lmax);
    const int fk = (int)r.below(10);
    b.xH[g] = fk == 0 ? 0. : fk == 1 ? 1. : fk == 2 ? 1e-8 : r.uniform();
    const int fh = (int)r.below(10);
    b.xHe[g] = fh == 0 ? 0. : fh == 1 ? 1. : fh == 2 ? 1e-8 : r.uniform();
    IonizationVariables &iv = (b.grid->begin() + b.store[g]).get_ionization_variables();
    iv.set_number_density(b.dens[g]);
    for (int ion = 0; ion < NUMBER_OF_IONNAMES; ++ion) iv.set_ionic_fraction(ion, r.uniform());
    iv.set_ionic_fraction(ION_H_n, b.xH[g]);
    iv.set_ionic_fraction(ION_He_n, b.xHe[g]);
  }
}

// ---------------------------------------------------------------------------
// packet generation
static double tiny_component(vh::Rng &r) {
  static const double t[4] = {1e-300, 1e-17, 1e-13, 1e-200};
  return t[r.below(4)];
}

static void make_packet(const Block &b, Packet &p, vh::Rng &r, PhotonPacket &ph) {
  p.entry = (int)r.below(27);
  if (r.chance(0.25)) p.entry = TRAVELDIRECTION_INSIDE;
  const int *es = BYID[p.entry]->s;
  // --- direction
  double v[3];
  const int dk = (int)r.below(100);
  const char *dname = "random";
  {
    const double ct = r.uniform(-1., 1.), ph2 = r.uniform(0., 2. * M_PI), stt = std::sqrt(std::max(0., 1. - ct * ct));
    v[0] = stt * std::cos(ph2); v[1] = stt * std::sin(ph2); v[2] = ct;
  }
  if (dk < 8) { // axis aligned
    const int a = (int)r.below(3); const double s = r.chance(0.5) ? 1. : -1.;
    v[0] = v[1] = v[2] = 0.; v[a] = s; dname = "axis";
  } else if (dk < 16) { // in a coordinate plane
    v[r.below(3)] = 0.; dname = "plane";
  } else if (dk < 30) { // tiny components
    const int a = (int)r.below(3);
    v[a] = (r.chance(0.5) ? 1. : -1.) * tiny_component(r);
    if (r.chance(0.4)) { const int a2 = (a + 1 + (int)r.below(2)) % 3; v[a2] = (r.chance(0.5) ? 1. : -1.) * tiny_component(r); }
    dname = "tiny";
  } else if (dk < 42) { // through cell corners: integer combination of cell sizes
    for (int d = 0; d < 3; ++d) v[d] = (r.chance(0.5) ? 1. : -1.) * b.cs[d] * (double)r.range(r.chance(0.2) ? 0 : 1, 3);
    if (v[0] == 0. && v[1] == 0. && v[2] == 0.) v[0] = b.cs[0];
    dname = "diagonal";
  } else if (dk < 48) { // nearly along an axis
    const int a = (int)r.below(3);
    for (int d = 0; d < 3; ++d) if (d != a) v[d] *= r.loguniform(1e-9, 1e-3);
    dname = "near-axis";
  }
  // aimed at a block edge or corner: equal direction components and equal distances to
  // the two or three exit planes, so that the wall distances tie exactly
  int aim[3] = {0, 0, 0};
  double aim_t = 0.;
  if (dk >= 48 && dk < 62 && p.entry == TRAVELDIRECTION_INSIDE) {
    int nz = 0;
    while (nz < 2) { nz = 0; for (int d = 0; d < 3; ++d) { aim[d] = (int)r.below(3) - 1; nz += aim[d] != 0; } }
    double lim = 1e300;
    const bool shortstep = r.chance(0.7);
    for (int d = 0; d < 3; ++d) if (aim[d]) lim = std::min(lim, shortstep ? b.cs[d] : b.L[d]);
    aim_t = lim * r.uniform(0.05, 0.95);
    if (b.lattice) { const double q = std::ldexp(1., std::ilogb(lim) - 24); aim_t = std::floor(aim_t / q) * q; }
    for (int d = 0; d < 3; ++d) v[d] = aim[d] ? (double)aim[d] : r.uniform(-0.3, 0.3);
    dname = "aimed-at-edge-or-corner";
  }
  // a tiny component along an axis in which the start is (within a few ulp) on a cell wall
  int hostile = -1;
  bool have_hostile_pos = false;
  double hostile_pabs = 0.;
  if (dk >= 62 && dk < 67) {
    int cand[3], nc = 0;
    for (int d = 0; d < 3; ++d) if (es[d] == 0) cand[nc++] = d;
    if (nc) {
      hostile = cand[r.below(nc)];
      v[hostile] = (r.chance(0.5) ? 1. : -1.) * tiny_component(r);
      dname = "tiny-towards-adjacent-wall";
      // Look for a start within 2 ulp of an interior wall for which "position times
      // inverse cell size, truncated" names the cell on the other side of the wall
      // (generator knowledge only; the oracle does not use it).
      const int d = hostile;
      const double inv = b.n[d] / b.L[d];
      const int j0 = b.n[d] > 1 ? 1 + (int)r.below(b.n[d] - 1) : 0;
      for (int jj = 0; jj < b.n[d] - 1 && !have_hostile_pos; ++jj) {
        const int j = 1 + (j0 - 1 + jj) % (b.n[d] - 1);
        for (int k = -2; k <= 2 && !have_hostile_pos; ++k) {
          double pa = b.anchor[d] + j * b.cs[d];
          if (k > 0) pa = vh::nextup(pa, k);
          if (k < 0) pa = vh::nextdown(pa, -k);
          const double rel = pa - b.anchor[d];
          const int idx = (int)(rel * inv);
          if (idx < 0 || idx >= b.n[d]) continue;
          if (rel < idx * b.cs[d]) { hostile_pabs = pa; v[d] = -std::fabs(v[d]); have_hostile_pos = true; }
          else if (rel > (idx + 1.) * b.cs[d]) { hostile_pabs = pa; v[d] = std::fabs(v[d]); have_hostile_pos = true; }
        }
      }
      if (have_hostile_pos) st.inc("start_one_ulp_across_wall_from_its_index_cell_with_tiny_component");
    }
  }
  // entry class fixes the sign of the declared components: entering through the
  // lower side means moving up
  for (int d = 0; d < 3; ++d) {
    if (es[d] == 0) continue;
    const double want = -(double)es[d];
    if (v[d] == 0.) v[d] = r.chance(0.5) ? tiny_component(r) : r.uniform(0.05, 1.);
    v[d] = want * std::fabs(v[d]);
  }
  ph.set_direction(CoordinateVector<>(v[0], v[1], v[2]));
  for (int d = 0; d < 3; ++d) p.dir[d] = ph.get_direction()[d];
  st.inc(std::string("dir_") + dname);
  int nzero = 0, ntiny = 0;
  for (int d = 0; d < 3; ++d) { if (p.dir[d] == 0.) ++nzero; else if (std::fabs(p.dir[d]) <= 1e-12) ++ntiny; }
  if (nzero == 2) st.inc("dir_axis_aligned_exact");
  if (nzero == 1) st.inc("dir_one_zero_component");
  if (ntiny) st.inc("dir_with_tiny_component");

  // --- position
  for (int d = 0; d < 3; ++d) {
    double rel;
    if (es[d] != 0) {
      // declared by the entry class: on that boundary, as the previous block left it (+- a few ulp)
      rel = es[d] > 0 ? b.n[d] * b.cs[d] : 0.;
      double pa = b.anchor[d] + rel;
      const int k = (int)r.below(8);
      if (k == 5) pa = vh::nextup(pa, 1 + (int)r.below(2));
      if (k == 6) pa = vh::nextdown(pa, 1 + (int)r.below(2));
      p.pabs[d] = pa;
      continue;
    }
    int pk = (int)r.below(100);
    if (d == hostile && have_hostile_pos) { p.pabs[d] = hostile_pabs; continue; }
    if (d == hostile) pk = r.chance(0.5) ? 50 : 90;
    if (aim[d]) { // at distance aim_t from the exit plane
      rel = aim[d] > 0 ? b.n[d] * b.cs[d] - aim_t : aim_t;
    } else if (aim_t > 0.) { // the other coordinate: well inside
      rel = b.L[d] * r.uniform(0.35, 0.65);
      if (b.lattice) { const double q = std::ldexp(1., std::ilogb(b.cs[d]) - 24); rel = std::floor(rel / q) * q; }
    } else if (pk < 38) { // interior
      rel = b.L[d] * r.uniform(0.001, 0.999);
      if (b.lattice) { // keep anchor+rel exact: 20 bits below the cell size exponent
        const double q = std::ldexp(1., std::ilogb(b.cs[d]) - 24);
        rel = std::floor(rel / q) * q;
      }
    } else if (pk < 63) { // exactly on an interior cell face (if any)
      const int j = b.n[d] > 1 ? 1 + (int)r.below(b.n[d] - 1) : (int)r.below(2) * 0;
      rel = j * b.cs[d];
    } else if (pk < 73) { // on the lower block boundary
      rel = 0.;
    } else if (pk < 78) { // on the upper block boundary although the class does not say so
      rel = b.n[d] * b.cs[d];
    } else if (pk < 83) { // cell centre
      rel = ((double)r.below(b.n[d]) + 0.5) * b.cs[d];
    } else { // a few ulp next to a cell face, inside the block
      const int j = (int)r.below(b.n[d] + 1);
      rel = j * b.cs[d];
      const int k = 1 + (int)r.below(3);
      const bool up = j == 0 ? true : j == b.n[d] ? false : r.chance(0.5);
      double pa = b.anchor[d] + rel;
      pa = up ? vh::nextup(pa, k) : vh::nextdown(pa, k);
      p.pabs[d] = pa;
      continue;
    }
    p.pabs[d] = b.anchor[d] + rel;
  }
  ph.set_position(CoordinateVector<>(p.pabs[0], p.pabs[1], p.pabs[2]));

  // --- cross sections, weight, energy
  const double sig_unit = 1e-22;
  for (int ion = 0; ion < NUMBER_OF_IONNAMES; ++ion) {
    p.sigma[ion] = sig_unit * r.uniform(0.5, 5.) * (1. + 0.01 * ion);
    if (r.chance(0.1)) p.sigma[ion] = 0.;
  }
  if (r.chance(0.9) && p.sigma[ION_H_n] == 0.) p.sigma[ION_H_n] = sig_unit * r.uniform(0.5, 5.);
  bool any = false;
  for (int ion = 0; ion < NUMBER_OF_IONNAMES; ++ion) any |= p.sigma[ion] > 0.;
  if (!any) p.sigma[NUMBER_OF_IONNAMES - 1] = sig_unit;
  p.w = r.loguniform(1e-3, 1e3);
  p.energy = r.chance(0.8) ? r.uniform(6e15, 2e16) : r.uniform(3.3e15, 5.9e15);
  for (int ion = 0; ion < NUMBER_OF_IONNAMES; ++ion) ph.set_photoionization_cross_section(ion, p.sigma[ion]);
  ph.set_weight(p.w);
  ph.set_energy(p.energy);
  ph.set_type(PHOTONTYPE_PRIMARY);
  ph.set_scatter_counter(0);
  p.accumulate = r.chance(0.12);
  p.l0 = p.accumulate ? 0.01 * std::min(b.L[0], std::min(b.L[1], b.L[2])) : 0.;
  p.tau = 1.; // set by the caller once the geometry is known
}

// ---------------------------------------------------------------------------
// the oracle
struct Case {
  const Block *b;
  const Packet *p;
  LD prel[3];      // start, relative to the anchor, declared coordinates on their boundary
  LD kap[512];     // kappa per geometric cell
  double delta, mpos, pmax, Lmax;
  bool vacuous;
};

enum { OPT_GEO = -100, OPT_OUT_N = -1 }; // other values: column index for dir==0 (n == out through P)

struct Eval {
  bool ok;
  std::string key, msg;
  double worst; // largest |deposit - chord| / (2 delta) seen (escaped, pure geometry)
  bool immediate, bounce;
  Eval() : ok(true), worst(0.), immediate(false), bounce(false) {}
  void fail(const char *k, const std::string &m) { if (ok) { ok = false; key = k; msg = m; } }
};

static std::string fmt(const char *f, ...) {
  char buf[700];
  va_list ap; va_start(ap, f); std::vsnprintf(buf, sizeof buf, f, ap); va_end(ap);
  return buf;
}

struct Geometry {
  std::vector<LD> a, bb, chord; // per geometric cell
  LD Sexit; LD Sd[3];
  std::vector<int> path; // sorted by entry parameter
  LD tau_tot;
  int npath;
};

static void geometry(const Case &c, const int opt[3], Geometry &G) {
  const Block &b = *c.b; const Packet &p = *c.p;
  G.a.assign(b.ncell, 0); G.bb.assign(b.ncell, 0); G.chord.assign(b.ncell, 0);
  G.Sexit = INFINITY;
  for (int d = 0; d < 3; ++d) {
    if (p.dir[d] == 0.) { G.Sd[d] = INFINITY; continue; }
    const LD bound = p.dir[d] > 0. ? (LD)b.L[d] : 0.L;
    G.Sd[d] = (bound - c.prel[d]) / (LD)p.dir[d];
    if (G.Sd[d] < 0) G.Sd[d] = 0; // start marginally beyond the boundary, moving out
    if (G.Sd[d] < G.Sexit) G.Sexit = G.Sd[d];
  }
  G.path.clear();
  for (int i = 0; i < b.n[0]; ++i) for (int j = 0; j < b.n[1]; ++j) for (int k = 0; k < b.n[2]; ++k) {
    const int idx[3] = {i, j, k};
    LD s0 = 0, s1 = G.Sexit;
    bool empty = false;
    for (int d = 0; d < 3 && !empty; ++d) {
      if (p.dir[d] == 0.) { if (idx[d] != opt[d]) empty = true; continue; }
      const LD lo = (LD)b.L[d] * idx[d] / b.n[d], hi = (LD)b.L[d] * (idx[d] + 1) / b.n[d];
      LD t0 = (lo - c.prel[d]) / (LD)p.dir[d], t1 = (hi - c.prel[d]) / (LD)p.dir[d];
      if (t0 > t1) std::swap(t0, t1);
      if (t0 > s0) s0 = t0;
      if (t1 < s1) s1 = t1;
    }
    const int g = b.geo(i, j, k);
    if (!empty && s1 > s0) { G.a[g] = s0; G.bb[g] = s1; G.chord[g] = s1 - s0; G.path.push_back(g); }
  }
  std::sort(G.path.begin(), G.path.end(), [&](int x, int y) { return G.a[x] < G.a[y]; });
  G.tau_tot = 0;
  for (int g : G.path) G.tau_tot += c.kap[g] * G.chord[g];
  G.npath = (int)G.path.size();
}

// inf { s : tau(s) >= T }
static LD s_inf(const Case &c, const Geometry &G, LD T) {
  if (T <= 0) return 0;
  LD cum = 0;
  for (int g : G.path) {
    const LD nx = cum + c.kap[g] * G.chord[g];
    if (nx >= T && c.kap[g] > 0) return G.a[g] + (T - cum) / c.kap[g];
    cum = nx;
  }
  return INFINITY;
}
// sup { s : tau(s) <= T }
static LD s_sup(const Case &c, const Geometry &G, LD T) {
  LD cum = 0;
  for (int g : G.path) {
    const LD nx = cum + c.kap[g] * G.chord[g];
    if (nx > T && c.kap[g] > 0) return G.a[g] + (T - cum) / c.kap[g];
    cum = nx;
  }
  return INFINITY;
}
static LD overlap(LD a, LD b, LD s) { // length of [a,b] n [0,s]
  const LD e = std::min(b, s);
  return e > a ? e - a : 0;
}

// sum of kappa over the cells whose box, grown by g, meets the ray
static LD kappa_near(const Case &c, const int opt[3], LD grow) {
  const Block &b = *c.b; const Packet &p = *c.p;
  LD sum = 0;
  for (int i = 0; i < b.n[0]; ++i) for (int j = 0; j < b.n[1]; ++j) for (int k = 0; k < b.n[2]; ++k) {
    const int idx[3] = {i, j, k};
    LD s0 = -grow, s1 = INFINITY;
    bool empty = false;
    for (int d = 0; d < 3 && !empty; ++d) {
      const LD lo = (LD)b.L[d] * idx[d] / b.n[d] - grow, hi = (LD)b.L[d] * (idx[d] + 1) / b.n[d] + grow;
      if (p.dir[d] == 0.) { if (c.prel[d] < lo || c.prel[d] > hi) empty = true; continue; }
      LD t0 = (lo - c.prel[d]) / (LD)p.dir[d], t1 = (hi - c.prel[d]) / (LD)p.dir[d];
      if (t0 > t1) std::swap(t0, t1);
      if (t0 > s0) s0 = t0;
      if (t1 < s1) s1 = t1;
    }
    if (!empty && s1 >= s0) sum += c.kap[b.geo(i, j, k)];
  }
  return sum;
}

// which = 0: interact (deposits present), 1: propagate, 2: compute_optical_depth
static Eval evaluate(const Case &c, const int opt[3], const Observed &o, int which) {
  Eval E;
  const Block &b = *c.b; const Packet &p = *c.p;
  const LD d2 = 2 * (LD)c.delta;
  const LD postol = 4 * EPS * (c.pmax + c.Lmax);
  if (o.out < 0 || o.out >= 27) { E.fail("exit/invalid-class", fmt("returned class %d", o.out)); return E; }
  const int *os = BYID[o.out]->s;
  LD sumd = 0, sumabs = 0;
  if (which == 0) for (int g = 0; g < b.ncell; ++g) { sumd += o.d[g]; sumabs += std::fabs((double)o.d[g]); }

  // does this candidate say "the start is outside already"?
  bool outside[3] = {false, false, false}; int outsign[3] = {0, 0, 0}; bool any_out = false;
  for (int d = 0; d < 3; ++d) {
    if (opt[d] == OPT_OUT_N) { outside[d] = true; outsign[d] = -1; }
    else if (opt[d] == b.n[d] && opt[d] != OPT_GEO) { outside[d] = true; outsign[d] = 1; }
    any_out |= outside[d];
  }
  Geometry G;
  int gopt[3] = {opt[0], opt[1], opt[2]};
  geometry(c, gopt, G);
  if (any_out) {
    E.immediate = true;
    // expected: handed on at once, nothing deposited, position unchanged
    if (o.out == TRAVELDIRECTION_INSIDE && which != 2) { E.fail("exit/class", "start on the outer side of the block boundary but the packet was absorbed"); return E; }
    bool has_out = false;
    for (int d = 0; d < 3; ++d) {
      if (os[d] == 0) continue;
      if (outside[d] && os[d] == outsign[d]) { has_out = true; continue; }
      const bool geo_ok = p.dir[d] != 0. && ((p.dir[d] > 0.) == (os[d] > 0)) && G.Sd[d] <= d2;
      if (!geo_ok) { E.fail("exit/class", fmt("left through %s; axis %d is not a boundary the start lies on", BYID[o.out]->name, d)); return E; }
    }
    if (!has_out) { E.fail("exit/class", fmt("left through %s", BYID[o.out]->name)); return E; }
    if (which == 0 && !c.vacuous)
      for (int g = 0; g < b.ncell; ++g)
        if (std::fabs((double)o.d[g]) > d2) { E.fail("deposit/off-path", fmt("cell %d got %Lg although the packet starts on the outer boundary", g, o.d[g])); return E; }
    for (int d = 0; d < 3; ++d) {
      const LD want = c.prel[d] + (LD)b.anchor[d];
      if (std::fabs((double)(o.pend[d] - want)) > d2 + postol) { E.fail("escape/position", fmt("coordinate %d moved from %.17Lg to %.17g", d, want, o.pend[d])); return E; }
    }
    for (int d = 0; d < 3; ++d) if (outside[d] && p.dir[d] < 0. && outsign[d] > 0) E.bounce = true;
    return E;
  }

  // ---- regular geometric candidate
  const LD knear = kappa_near(c, opt, d2);
  const LD dtau = d2 * knear + (8 + 2 * G.npath) * EPS * (LD)p.tau;
  const bool absorbed = o.out == TRAVELDIRECTION_INSIDE;

  // exit class can never point against the direction of motion
  for (int d = 0; d < 3; ++d)
    if (os[d] != 0 && !((p.dir[d] > 0. && os[d] > 0) || (p.dir[d] < 0. && os[d] < 0))) {
      E.fail("exit/against-direction", fmt("left through %s with direction component %d = %g", BYID[o.out]->name, d, p.dir[d]));
      return E;
    }
  if (c.vacuous) {
    // Everything below is conditioned worse than a cell size.  What no conditioning can
    // excuse: a deposit that is negative by more than a whole (smallest) cell or longer
    // than a cell diagonal, a total longer than the block diagonal, a packet outside the block.
    const Block &bb = *c.b;
    const LD csmin = std::min(bb.cs[0], std::min(bb.cs[1], bb.cs[2]));
    const LD dcell = std::sqrt(bb.cs[0] * bb.cs[0] + bb.cs[1] * bb.cs[1] + bb.cs[2] * bb.cs[2]);
    const LD dblock = std::sqrt(bb.L[0] * bb.L[0] + bb.L[1] * bb.L[1] + bb.L[2] * bb.L[2]);
    if (which == 0) {
      for (int g = 0; g < bb.ncell; ++g) {
        if (o.d[g] < -csmin) { E.fail("illcond/runaway-step", fmt("cell %d received the negative path %Lg (smallest cell size %Lg)", g, o.d[g], csmin)); return E; }
        if (o.d[g] > dcell + csmin) { E.fail("illcond/runaway-step", fmt("cell %d received path %Lg, its diagonal is %Lg", g, o.d[g], dcell)); return E; }
      }
      if (sumd > dblock + csmin) { E.fail("illcond/runaway-step", fmt("deposits sum to %Lg, block diagonal %Lg", sumd, dblock)); return E; }
    }
    for (int d = 0; d < 3; ++d) {
      const LD rel = (LD)o.pend[d] - (LD)bb.anchor[d];
      if (rel < -csmin || rel > (LD)bb.L[d] + csmin) { E.fail("illcond/runaway-step", fmt("coordinate %d ends at %Lg relative to the block of size %g", d, rel, bb.L[d])); return E; }
    }
    return E;
  }

  if (which == 2) {
    // compute_optical_depth: always crosses the whole block
    if (absorbed) { E.fail("exit/class", "compute_optical_depth returned INSIDE"); return E; }
    const LD got = (LD)o.tau_after - (LD)p.tau;
    if (std::fabs((double)(got - G.tau_tot)) > dtau + 8 * EPS * (LD)p.tau + 8 * EPS * G.tau_tot) {
      E.fail("tau/total", fmt("optical depth added %.17Lg, geometry gives %.17Lg (tolerance %Lg)", got, G.tau_tot, dtau));
      return E;
    }
  } else {
    // (v) decision
    if (absorbed && G.tau_tot + dtau < (LD)p.tau) {
      E.fail("tau/decision", fmt("stopped inside although sum kappa*chord = %.17Lg < target %.17g (tolerance %Lg)", G.tau_tot, p.tau, dtau));
      return E;
    }
    if (!absorbed && G.tau_tot - dtau > (LD)p.tau) {
      E.fail("tau/decision", fmt("left the block although sum kappa*chord = %.17Lg > target %.17g (tolerance %Lg)", G.tau_tot, p.tau, dtau));
      return E;
    }
  }
  const LD slo = absorbed ? s_inf(c, G, (LD)p.tau - dtau) : INFINITY;
  const LD shi = absorbed ? s_sup(c, G, (LD)p.tau + dtau) : INFINITY;
  if (which == 0) {
    LD tsum = 0, tabs = 0;
    for (int g = 0; g < b.ncell; ++g) {
      const LD lo = overlap(G.a[g], G.bb[g], slo), hi = overlap(G.a[g], G.bb[g], shi);
      const LD dd = o.d[g];
      tsum += c.kap[g] * dd; tabs += c.kap[g] * std::fabs((double)dd);
      const LD acctol = p.accumulate ? 8 * EPS * (LD)p.l0 : 0;
      if (G.chord[g] == 0) {
        if (std::fabs((double)dd) > d2 + acctol) { E.fail("deposit/off-path", fmt("cell %d is not on the segment but received path %Lg (2 delta = %Lg)", g, dd, d2)); return E; }
      } else if (dd < lo - d2 - acctol || dd > hi + d2 + acctol) {
        E.fail(absorbed ? "deposit/range" : "deposit/chord",
               fmt("cell %d received path %.17Lg, chord is %.17Lg (admissible [%.17Lg, %.17Lg], 2 delta = %Lg)", g, dd, G.chord[g], lo, hi, d2));
        return E;
      }
      if (!absorbed && G.chord[g] > 0) E.worst = std::max(E.worst, (double)(std::fabs((double)(dd - G.chord[g])) / d2));
    }
    const LD dt2 = dtau + 16 * EPS * tabs;
    if (absorbed && std::fabs((double)(tsum - (LD)p.tau)) > dt2) {
      E.fail("tau/absorbed-sum", fmt("absorbed, but sum kappa*deposit = %.17Lg, target %.17g (tolerance %Lg)", tsum, p.tau, dt2));
      return E;
    }
    if (!absorbed && tsum > (LD)p.tau + dt2) {
      E.fail("tau/escaped-sum", fmt("escaped, but sum kappa*deposit = %.17Lg exceeds the target %.17g", tsum, p.tau));
      return E;
    }
    if (!absorbed) {
      const LD rem = (LD)p.tau - G.tau_tot;
      if (std::fabs((double)((LD)o.tau_after - rem)) > dt2 + 8 * EPS * (LD)p.tau) {
        E.fail("tau/remaining", fmt("remaining target %.17g, expected %.17Lg", o.tau_after, rem));
        return E;
      }
    }
  }
  // ---- end position / exit class
  const LD steps = G.npath + 2;
  if (absorbed) {
    LD dist2 = 0;
    for (int d = 0; d < 3; ++d) {
      const LD start = c.prel[d] + (LD)b.anchor[d];
      const LD mv = (LD)o.pend[d] - start;
      dist2 += mv * mv;
      if (which == 0) {
        const LD want = start + sumd * (LD)p.dir[d];
        if (std::fabs((double)((LD)o.pend[d] - want)) > d2 * steps + postol) {
          E.fail("absorb/position", fmt("coordinate %d ends at %.17g, start + (sum of deposits)*dir = %.17Lg", d, o.pend[d], want));
          return E;
        }
      } else {
        const LD wlo = start + (LD)p.dir[d] * slo, whi = start + (LD)p.dir[d] * std::min(shi, G.Sexit);
        const LD mn = std::min(wlo, whi) - d2 * steps - postol, mx = std::max(wlo, whi) + d2 * steps + postol;
        if ((LD)o.pend[d] < mn || (LD)o.pend[d] > mx) {
          E.fail("absorb/position", fmt("propagate: coordinate %d ends at %.17g outside [%.17Lg, %.17Lg]", d, o.pend[d], mn, mx));
          return E;
        }
      }
    }
    if (which == 0 && std::fabs((double)(std::sqrt((double)dist2) - sumd)) > d2 * steps + postol + 4 * EPS * sumabs) {
      E.fail("pathsum/length", fmt("deposits sum to %.17Lg but the packet moved %.17g", sumd, std::sqrt((double)dist2)));
      return E;
    }
  } else {
    // geometric exit: the axes whose exit crossing coincides with the first one within 2 delta
    int nallowed = 0, only = -1;
    bool allowed[3];
    for (int d = 0; d < 3; ++d) { allowed[d] = p.dir[d] != 0. && G.Sd[d] <= G.Sexit + d2; if (allowed[d]) { ++nallowed; only = d; } }
    int nobs = 0;
    for (int d = 0; d < 3; ++d) {
      if (os[d] == 0) continue;
      ++nobs;
      if (!allowed[d]) {
        E.fail("exit/class", fmt("left through %s, but the line leaves the block first at s=%.17Lg through axis set {%s%s%s} (axis %d only at %.17Lg)",
                                 BYID[o.out]->name, G.Sexit, allowed[0] ? "x" : "", allowed[1] ? "y" : "", allowed[2] ? "z" : "", d, G.Sd[d]));
        return E;
      }
    }
    if (nobs == 0 || (nallowed == 1 && os[only] == 0)) { E.fail("exit/class", fmt("left through %s, geometric exit axis is %d", BYID[o.out]->name, only)); return E; }
    LD dist2 = 0;
    for (int d = 0; d < 3; ++d) {
      const LD start = c.prel[d] + (LD)b.anchor[d];
      dist2 += ((LD)o.pend[d] - start) * ((LD)o.pend[d] - start);
      if (os[d] != 0) {
        const LD want = (LD)b.anchor[d] + (os[d] > 0 ? (LD)b.L[d] : 0.L);
        if (std::fabs((double)((LD)o.pend[d] - want)) > postol) {
          E.fail("escape/position", fmt("left through %s but coordinate %d ends at %.17g, boundary is %.17Lg", BYID[o.out]->name, d, o.pend[d], want));
          return E;
        }
      } else {
        const LD want = start + G.Sexit * (LD)p.dir[d];
        if (std::fabs((double)((LD)o.pend[d] - want)) > d2 * steps + postol) {
          E.fail("escape/position", fmt("coordinate %d ends at %.17g, the line leaves the block at %.17Lg", d, o.pend[d], want));
          return E;
        }
      }
    }
    if (which == 0 && std::fabs((double)(std::sqrt((double)dist2) - sumd)) > d2 * steps + postol + 4 * EPS * sumabs) {
      E.fail("pathsum/length", fmt("deposits sum to %.17Lg but the packet moved %.17g", sumd, std::sqrt((double)dist2)));
      return E;
    }
  }
  return E;
}

// ---------------------------------------------------------------------------
static void setup_case(Case &c, const Block &b, const Packet &p) {
  c.b = &b; c.p = &p;
  const int *es = BYID[p.entry]->s;
  c.Lmax = std::max(b.L[0], std::max(b.L[1], b.L[2]));
  c.pmax = 0;
  for (int d = 0; d < 3; ++d) {
    c.pmax = std::max(c.pmax, std::max(std::fabs(p.pabs[d]), std::max(std::fabs(b.anchor[d]), std::fabs(b.anchor[d] + b.L[d]))));
    if (es[d] > 0) c.prel[d] = (LD)b.L[d];
    else if (es[d] < 0) c.prel[d] = 0;
    else c.prel[d] = (LD)p.pabs[d] - (LD)b.anchor[d];
  }
  c.mpos = 16 * EPS * (c.Lmax + c.pmax);
  const double D = std::sqrt(b.L[0] * b.L[0] + b.L[1] * b.L[1] + b.L[2] * b.L[2]) * (1. + 1e-9) + c.mpos;
  double mindir = 1.;
  for (int d = 0; d < 3; ++d) {
    if (p.dir[d] == 0.) continue;
    const double ad = std::fabs(p.dir[d]);
    bool relevant = true;
    if (ad <= 1e-12) {
      const double E = ad * D + 2 * c.mpos; // whole excursion of the ray along this axis
      // is the coordinate exactly on a wall in the arithmetic of the code?
      int exact = -1;
      if (es[d] != 0) exact = es[d] > 0 ? b.n[d] : 0;
      else if (b.lattice) {
        const double relc = p.pabs[d] - b.anchor[d];
        // ... and only if that subtraction is exact, so that the oracle sees the same number
        if ((LD)relc == (LD)p.pabs[d] - (LD)b.anchor[d])
          for (int j = 0; j <= b.n[d]; ++j) if (relc == j * b.cs[d]) exact = j;
      }
      bool other_wall_close = false;
      for (int j = 0; j <= b.n[d]; ++j) {
        if (j == exact) continue;
        const LD f = (LD)b.L[d] * j / b.n[d];
        if (std::fabs((double)(f - c.prel[d])) <= E + c.mpos) other_wall_close = true;
      }
      relevant = other_wall_close;
    }
    if (relevant) mindir = std::min(mindir, ad);
  }
  c.delta = c.mpos / mindir;
  const double csmin = std::min(b.cs[0], std::min(b.cs[1], b.cs[2]));
  c.vacuous = !(c.delta < 0.125 * csmin);
  for (int g = 0; g < b.ncell; ++g)
    c.kap[g] = (LD)b.dens[g] * ((LD)p.sigma[ION_H_n] * (LD)b.xH[g] + (LD)p.sigma[ION_He_n] * (LD)b.xHe[g]);
}

// candidate interpretations of a degenerate start
static int options(const Case &c, int d, int out[4]) {
  const Block &b = *c.b; const Packet &p = *c.p;
  const int *es = BYID[p.entry]->s;
  int n = 0;
  if (p.dir[d] != 0.) {
    out[n++] = OPT_GEO;
    // coordinate on the upper block boundary which the entry class does not declare
    if (es[d] == 0 && c.prel[d] >= (LD)b.L[d] - c.mpos) out[n++] = b.n[d];
    return n;
  }
  if (es[d] != 0) { out[n++] = es[d] > 0 ? b.n[d] - 1 : 0; return n; } // cannot happen (declared axes move)
  for (int j = -1; j <= b.n[d]; ++j) {
    const LD lo = j < 0 ? -INFINITY : (LD)b.L[d] * j / b.n[d], hi = j >= b.n[d] ? INFINITY : (LD)b.L[d] * (j + 1) / b.n[d];
    if (c.prel[d] >= lo - c.mpos && c.prel[d] <= hi + c.mpos && n < 4) out[n++] = j;
  }
  return n;
}

static Eval judge(const Case &c, const Observed &o, int which) {
  {
    Eval e;
    bool fin = std::isfinite(o.tau_after) && std::isfinite(o.pend[0]) && std::isfinite(o.pend[1]) && std::isfinite(o.pend[2]);
    if (which == 0) for (size_t g = 0; g < o.d.size(); ++g) fin = fin && std::isfinite((double)o.d[g]);
    if (!fin) {
      e.fail(c.vacuous ? "illcond/runaway-step" : "nonfinite", fmt("not-a-number / infinity after the traversal: end %g,%g,%g remaining optical depth %g", o.pend[0], o.pend[1], o.pend[2], o.tau_after));
      return e;
    }
  }
  int op[3][4], no[3];
  for (int d = 0; d < 3; ++d) no[d] = options(c, d, op[d]);
  Eval first; bool have_first = false;
  for (int i = 0; i < no[0]; ++i) for (int j = 0; j < no[1]; ++j) for (int k = 0; k < no[2]; ++k) {
    const int opt[3] = {op[0][i], op[1][j], op[2][k]};
    Eval e = evaluate(c, opt, o, which);
    if (e.ok) return e;
    if (!have_first) { first = e; have_first = true; }
  }
  return first;
}

// ---------------------------------------------------------------------------
static void run_packet(Block &b, vh::Rng &r, uint64_t caseid, bool sample, const Packet *pinned = nullptr) {
  g_case = caseid;
  Packet p;
  PhotonPacket ph;
  if (pinned) {
    p = *pinned;
    ph.set_direction(CoordinateVector<>(p.dir[0], p.dir[1], p.dir[2]));
    for (int d = 0; d < 3; ++d) { ph.get_direction()[d] = p.dir[d]; }
    ph.set_position(CoordinateVector<>(p.pabs[0], p.pabs[1], p.pabs[2]));
    for (int ion = 0; ion < NUMBER_OF_IONNAMES; ++ion) ph.set_photoionization_cross_section(ion, p.sigma[ion]);
    ph.set_weight(p.w); ph.set_energy(p.energy); ph.set_type(PHOTONTYPE_PRIMARY); ph.set_scatter_counter(0);
  } else {
    make_packet(b, p, r, ph);
  }
  Case c;
  setup_case(c, b, p);
  const int *es = BYID[p.entry]->s;

  // target: needs the total along the (primary) geometric path
  int op[3][4];
  int opt0[3];
  for (int d = 0; d < 3; ++d) { options(c, d, op[d]); opt0[d] = op[d][0]; if (opt0[d] == OPT_OUT_N) opt0[d] = 0; if (opt0[d] == b.n[d]) opt0[d] = b.n[d] - 1; }
  Geometry G0;
  geometry(c, opt0, G0);
  const double tot = (double)G0.tau_tot;
  const int tk = (int)r.below(100);
  const char *tname;
  if (tk < 40 && tot > 0.) { p.tau = tot * r.uniform(0.001, 0.999); tname = "inside"; }
  else if (tk < 50) { p.tau = r.loguniform(1e-12, 1e-6); tname = "tiny"; }
  else if (tk < 65) { p.tau = r.loguniform(1e-6, 1e3); tname = "loguniform"; }
  else if (tk < 72 && tot > 0.) { p.tau = tot; tname = "exactly-total"; }
  else if (tk < 80 && tot > 0.) { p.tau = tot * (1. + r.loguniform(1e-15, 1e-3) * (r.chance(0.5) ? 1. : -1.)); tname = "near-total"; }
  else if (tk < 93) { p.tau = (tot > 0. ? tot : 1.) * r.uniform(1.01, 50.); tname = "beyond"; }
  else { p.tau = 1e300; tname = "huge"; }
  if (!(p.tau > 0.)) p.tau = 1e-12;
  if (pinned) { p.tau = pinned->tau; tname = "pinned"; }
  st.inc(std::string("target_") + tname);
  ph.set_target_optical_depth(p.tau);

  // estimators: zero, or known non-zero values (accumulate regime)
  const int nion = NUMBER_OF_IONNAMES;
  b.grid->reset_intensities();
  std::vector<double> J0(nion, 0.);
  double h0H = 0., h0He = 0.;
  if (p.accumulate) {
    for (int ion = 0; ion < nion; ++ion) J0[ion] = p.w * p.sigma[ion] * p.l0;
    h0H = J0[ION_H_n] * 1e15; h0He = -J0[ION_He_n] * 3e14;
    for (int g = 0; g < b.ncell; ++g) {
      IonizationVariables &iv = (b.grid->begin() + g).get_ionization_variables();
      for (int ion = 0; ion < nion; ++ion) iv.set_mean_intensity(ion, J0[ion]);
      iv.set_heating(HEATINGTERM_H, h0H); iv.set_heating(HEATINGTERM_He, h0He);
    }
    st.inc("regime_accumulate_on_nonzero_estimators");
  }

  // regime counters about the start
  int onface = 0;
  for (int d = 0; d < 3; ++d) {
    if (es[d] != 0) continue;
    const double relc = p.pabs[d] - b.anchor[d];
    for (int j = 0; j <= b.n[d]; ++j) if (relc == j * b.cs[d]) { ++onface; break; }
  }
  const int declared = (es[0] != 0) + (es[1] != 0) + (es[2] != 0);
  st.inc(std::string("entry_") + BYID[p.entry]->name);
  if (onface == 1) st.inc(declared ? "start_boundary_plus_1_cellface" : "start_inside_on_cellface");
  if (onface == 2) st.inc(declared ? "start_boundary_plus_2_cellfaces" : "start_inside_on_celledge");
  if (onface == 3) st.inc("start_inside_on_cellcorner");
  if (onface == 0 && declared == 0) st.inc("start_inside_generic");
  if (c.vacuous) st.inc("cases_ill_conditioned_weak_checks_only");

  PhotonPacket ph_prop = ph, ph_tau = ph;

  // ---------------- the real code
  Observed o;
  o.out = (int)b.grid->interact(ph, p.entry);
  for (int d = 0; d < 3; ++d) o.pend[d] = ph.get_position()[d];
  o.tau_after = ph.get_target_optical_depth();

  // recover the path per cell from every ion independently
  int ref = -1;
  for (int ion = 0; ion < nion; ++ion) if (p.sigma[ion] > 0. && ref < 0) ref = ion;
  o.d.assign(b.ncell, 0);
  bool ion_ok = std::isfinite(o.tau_after) && std::isfinite(o.pend[0]) && std::isfinite(o.pend[1]) && std::isfinite(o.pend[2]);
  for (int g = 0; g < b.ncell; ++g) {
    const double Jr = (b.grid->begin() + b.store[g]).get_ionization_variables().get_mean_intensity(ref);
    o.d[g] = ((LD)Jr - (LD)J0[ref]) / ((LD)p.w * (LD)p.sigma[ref]);
    if (!std::isfinite(Jr)) ion_ok = false;
  }
  for (int g = 0; g < b.ncell && ion_ok; ++g) {
    const IonizationVariables &iv = (b.grid->begin() + b.store[g]).get_ionization_variables();
    const LD dref = ((LD)iv.get_mean_intensity(ref) - (LD)J0[ref]) / ((LD)p.w * (LD)p.sigma[ref]);
    o.d[g] = dref;
    const LD tol = 16 * EPS * (std::fabs((double)dref) + 2 * p.l0) + 1e-300;
    for (int ion = 0; ion < nion; ++ion) {
      const double J = iv.get_mean_intensity(ion);
      if (p.sigma[ion] == 0.) {
        if (J != J0[ion]) { VH_VIOL("ion/zero-cross-section", caseid, "cell %d ion %d has zero cross section but its estimator changed by %g | %s", g, ion, J - J0[ion], describe(b, p).c_str()); ion_ok = false; break; }
        continue;
      }
      const LD di = ((LD)J - (LD)J0[ion]) / ((LD)p.w * (LD)p.sigma[ion]);
      if (std::fabs((double)(di - dref)) > tol) {
        VH_VIOL("ion/inconsistent", caseid, "cell %d: path from ion %d = %.17Lg, from ion %d = %.17Lg | %s", g, ref, dref, ion, di, describe(b, p).c_str());
        ion_ok = false; break;
      }
    }
    // heating = increment of J times the excess energy
    const LD dJH = (LD)iv.get_mean_intensity(ION_H_n) - (LD)J0[ION_H_n], dJHe = (LD)iv.get_mean_intensity(ION_He_n) - (LD)J0[ION_He_n];
    const LD wantH = dJH * ((LD)p.energy - 3.288e15L), wantHe = dJHe * ((LD)p.energy - 5.948e15L);
    const LD gotH = (LD)iv.get_heating(HEATINGTERM_H) - (LD)h0H, gotHe = (LD)iv.get_heating(HEATINGTERM_He) - (LD)h0He;
    const LD tH = 32 * EPS * (std::fabs((double)wantH) + std::fabs(h0H) + (LD)J0[ION_H_n] * p.energy) + 1e-300;
    const LD tHe = 32 * EPS * (std::fabs((double)wantHe) + std::fabs(h0He) + (LD)J0[ION_He_n] * p.energy) + 1e-300;
    if (std::fabs((double)(gotH - wantH)) > tH || std::fabs((double)(gotHe - wantHe)) > tHe) {
      VH_VIOL("heating", caseid, "cell %d: heating H %.17Lg (want %.17Lg), He %.17Lg (want %.17Lg) | %s", g, gotH, wantH, gotHe, wantHe, describe(b, p).c_str());
      ion_ok = false;
    }
    // contents must be untouched
    if (iv.get_number_density() != b.dens[g] || iv.get_ionic_fraction(ION_H_n) != b.xH[g] || iv.get_ionic_fraction(ION_He_n) != b.xHe[g]) {
      VH_VIOL("contents/changed", caseid, "cell %d: density or neutral fractions changed during the traversal", g);
      ion_ok = false;
    }
  }
  st.inc("packets");
  Eval e = judge(c, o, 0);
  if (!e.ok) VH_VIOL(e.key.c_str(), caseid, "%s | %s | delta=%g out=%s end=%a,%a,%a", e.msg.c_str(), describe(b, p).c_str(), c.delta, (o.out >= 0 && o.out < 27) ? BYID[o.out]->name : "?", o.pend[0], o.pend[1], o.pend[2]);
  if (o.out >= 0 && o.out < 27) st.inc(std::string("exit_") + BYID[o.out]->name);
  if (e.ok) {
    if (e.immediate) st.inc("start_on_outer_boundary_handed_on_at_once");
    if (e.bounce) st.inc("start_on_undeclared_upper_boundary_moving_in_handed_to_neighbour");
    if (!c.vacuous && !e.immediate) {
      st.inc(o.out == TRAVELDIRECTION_INSIDE ? "absorbed" : "escaped");
      int np = 0; for (int g = 0; g < b.ncell; ++g) if (std::fabs((double)o.d[g]) > 2 * c.delta) ++np;
      if (np >= 2) st.inc("nontrivial_multi_cell_cases");
      st.inc("cells_compared", (uint64_t)b.ncell);
      st.maxd("max_deposit_error_over_2delta", e.worst);
    }
  }
  if (sample)
    std::printf("SAMPLE case=%" PRIu64 " %s -> %s end=%.17g,%.17g,%.17g delta=%.3g verdict=%s\n", caseid, describe(b, p).c_str(),
                (o.out >= 0 && o.out < 27) ? BYID[o.out]->name : "?", o.pend[0], o.pend[1], o.pend[2], c.delta, e.ok ? "ok" : e.key.c_str());

  if (g_dump) {
    for (int g = 0; g < b.ncell; ++g) {
      const IonizationVariables &iv = (b.grid->begin() + b.store[g]).get_ionization_variables();
      std::printf("DUMP cell %d (%d,%d,%d) dens=%a xH=%a xHe=%a kappa=%Lg J[ref]=%a path=%.17Lg\n", g, g / (b.n[1] * b.n[2]), (g / b.n[2]) % b.n[1], g % b.n[2],
                  b.dens[g], b.xH[g], b.xHe[g], c.kap[g], iv.get_mean_intensity(ref), o.d[g]);
    }
    std::printf("DUMP w=%a energy=%a sigmaH=%a sigmaHe=%a tau_after=%a\n", p.w, p.energy, p.sigma[ION_H_n], p.sigma[ION_He_n], o.tau_after);
  }
  // ---------------- propagate / compute_optical_depth on the same packet (a fifth of the cases)
  if (r.chance(0.2)) {
    // these two do not move the start onto the declared boundary themselves
    CoordinateVector<> ps(p.pabs[0], p.pabs[1], p.pabs[2]);
    for (int d = 0; d < 3; ++d) if (es[d] != 0) ps[d] = b.anchor[d] + (es[d] > 0 ? b.n[d] * b.cs[d] : 0.);
    std::vector<double> snap(b.ncell);
    for (int g = 0; g < b.ncell; ++g) snap[g] = (b.grid->begin() + g).get_ionization_variables().get_mean_intensity(ref);
    Packet p2 = p;
    for (int d = 0; d < 3; ++d) p2.pabs[d] = ps[d];
    Case c2; setup_case(c2, b, p2);
    {
      ph_prop.set_position(ps);
      Observed o2;
      o2.out = (int)b.grid->propagate(ph_prop, p.entry);
      for (int d = 0; d < 3; ++d) o2.pend[d] = ph_prop.get_position()[d];
      o2.tau_after = ph_prop.get_target_optical_depth();
      Eval e2 = judge(c2, o2, 1);
      if (!e2.ok) VH_VIOL(("propagate/" + e2.key).c_str(), caseid, "%s | %s", e2.msg.c_str(), describe(b, p2).c_str());
      st.inc("propagate_calls");
    }
    {
      ph_tau.set_position(ps);
      Observed o3;
      o3.out = (int)b.grid->compute_optical_depth(ph_tau, p.entry);
      for (int d = 0; d < 3; ++d) o3.pend[d] = ph_tau.get_position()[d];
      o3.tau_after = ph_tau.get_target_optical_depth();
      Eval e3 = judge(c2, o3, 2);
      if (!e3.ok) VH_VIOL(("optical-depth/" + e3.key).c_str(), caseid, "%s | %s", e3.msg.c_str(), describe(b, p2).c_str());
      st.inc("compute_optical_depth_calls");
    }
    for (int g = 0; g < b.ncell; ++g)
      if (vh::bits(snap[g]) != vh::bits((b.grid->begin() + g).get_ionization_variables().get_mean_intensity(ref))) {
        VH_VIOL("propagate/estimators-touched", caseid, "cell %d estimator changed by a non-interacting traversal", g);
        break;
      }
  }
}


// ---------------------------------------------------------------------------
// Symmetric lines.  The block, the start and the direction are bitwise invariant under the exchange of two (or of all
// three) axes: same anchor, side, cell count, start coordinate and direction component in those axes, homogeneous
// contents.  The straight line then crosses the block boundary exactly ON the edge (corner) shared by those axes -- not
// merely within rounding of it -- and every step of a march that treats the axes alike sees bitwise equal wall
// distances.  For these lines the generic clause's allowance "a face is acceptable when the edge is within 2 delta" does
// not apply: the class has to name all symmetric axes or none of them.
static const uint64_t SYM_BASE = 1000000000ull;

static void run_symmetric(vh::Rng &r, const uint64_t caseid) {
  const int m = 1 + (int)r.below(6);
  const int nA = r.chance(0.35) ? 3 : 2;
  int inA[3] = {1, 1, 1};
  int third = -1;
  if (nA == 2) { third = (int)r.below(3); inA[third] = 0; }
  static const double scales[3] = {1., 3.0856775814913674e16, 1e-5};
  const double S = scales[r.below(3)];
  const double a = S * r.uniform(-5., 5.), l = S * r.uniform(0.3, 3.);
  double anchor[3], L[3];
  int n[3];
  for (int d = 0; d < 3; ++d) { anchor[d] = a; L[d] = l; n[d] = m; }
  if (third >= 0) { anchor[third] = S * r.uniform(-5., 5.); L[third] = S * r.uniform(0.3, 3.); n[third] = 1 + (int)r.below(6); }
  double box[6] = {anchor[0], anchor[1], anchor[2], L[0], L[1], L[2]};
  DensitySubGrid grid(box, CoordinateVector< int_fast32_t >(n[0], n[1], n[2]));
  const double Lmax = std::max(L[0], std::max(L[1], L[2]));
  const double dens = r.chance(0.2) ? 0. : r.loguniform(1e-3, 10.) / (1e-22 * Lmax);
  for (auto it = grid.begin(); it != grid.end(); ++it) {
    IonizationVariables &iv = it.get_ionization_variables();
    iv.set_number_density(dens);
    for (int ion = 0; ion < NUMBER_OF_IONNAMES; ++ion) iv.set_ionic_fraction(ion, 0.5);
  }
  grid.reset_intensities();
  // start: the same coordinate in the symmetric axes (interior point, or an interior cell corner / cell centre line)
  const double cs = l / m;
  double rel;
  const int pk = (int)r.below(3);
  if (pk == 0 && m > 1) rel = (double)(1 + (int)r.below(m - 1)) * cs;
  else if (pk == 1) rel = ((double)r.below(m) + 0.5) * cs;
  else rel = l * r.uniform(0.02, 0.98);
  const double pA = a + rel;
  if (!(pA > a) || !(pA < a + (double)m * cs)) { st.inc("symmetric_skipped"); return; }
  const double sgn = r.chance(0.5) ? 1. : -1.;
  double v[3], pabs[3];
  for (int d = 0; d < 3; ++d) { v[d] = sgn; pabs[d] = pA; }
  if (third >= 0) {
    v[third] = r.chance(0.3) ? 0. : r.uniform(-0.4, 0.4);
    pabs[third] = anchor[third] + L[third] * r.uniform(0.05, 0.95);
  }
  PhotonPacket ph;
  ph.set_direction(CoordinateVector<>(v[0], v[1], v[2]));
  ph.set_position(CoordinateVector<>(pabs[0], pabs[1], pabs[2]));
  for (int ion = 0; ion < NUMBER_OF_IONNAMES; ++ion) ph.set_photoionization_cross_section(ion, 1e-22);
  ph.set_weight(1.); ph.set_energy(1e16); ph.set_type(PHOTONTYPE_PRIMARY); ph.set_scatter_counter(0);
  ph.set_target_optical_depth(1e300);
  double dir[3];
  for (int d = 0; d < 3; ++d) dir[d] = ph.get_direction()[d];
  int first = -1;
  for (int d = 0; d < 3; ++d) if (inA[d]) { if (first < 0) first = d; else if (vh::bits(dir[d]) != vh::bits(dir[first])) { st.inc("symmetric_skipped"); return; } }
  // exit parameters of the straight line, from the doubles handed to the code
  const LD SdA = ((sgn > 0. ? (LD)l : 0.L) - ((LD)pA - (LD)a)) / (LD)dir[first];
  LD Sd3 = INFINITY;
  if (third >= 0 && dir[third] != 0.) Sd3 = ((dir[third] > 0. ? (LD)L[third] : 0.L) - ((LD)pabs[third] - (LD)anchor[third])) / (LD)dir[third];
  const LD margin = 64 * EPS * ((LD)l + std::fabs(a)) / std::fabs(dir[first]) +
                    (third >= 0 && dir[third] != 0. ? 64 * EPS * ((LD)L[third] + std::fabs(anchor[third])) / std::fabs(dir[third]) : 0.L);
  const bool clear = SdA + margin < Sd3;   // the symmetric edge/corner is reached well before the third axis' boundary
  st.inc("symmetric_cases");
  if (clear) st.inc(nA == 3 ? "symmetric_lines_through_a_block_corner" : "symmetric_lines_through_a_block_edge");
  char desc[600];
  std::snprintf(desc, sizeof desc, "symmetric axes {%s%s%s} n=%d,%d,%d anchor=%a,%a,%a L=%a,%a,%a pos=%a,%a,%a dir=%a,%a,%a",
                inA[0] ? "x" : "", inA[1] ? "y" : "", inA[2] ? "z" : "", n[0], n[1], n[2], anchor[0], anchor[1], anchor[2], L[0], L[1], L[2],
                pabs[0], pabs[1], pabs[2], dir[0], dir[1], dir[2]);
  static const char *rname[3] = {"interact", "propagate", "compute_optical_depth"};
  for (int which = 0; which < 3; ++which) {
    PhotonPacket q = ph;
    const int out = which == 0 ? (int)grid.interact(q, TRAVELDIRECTION_INSIDE)
                               : which == 1 ? (int)grid.propagate(q, TRAVELDIRECTION_INSIDE) : (int)grid.compute_optical_depth(q, TRAVELDIRECTION_INSIDE);
    if (out < 0 || out >= 27) { VH_VIOL("exit/class", caseid, "%s returned the invalid class %d | %s", rname[which], out, desc); continue; }
    const int *os = BYID[out]->s;
    int nz = 0, wrongsign = 0;
    for (int d = 0; d < 3; ++d) if (inA[d] && os[d] != 0) { ++nz; if ((double)os[d] != sgn) ++wrongsign; }
    if (nz != 0 && nz != nA) {
      VH_VIOL("exit/class", caseid, "%s: left through %s, which names %d of the %d axes that are bitwise symmetric in this case: the line crosses their common edge/corner exactly | %s",
              rname[which], BYID[out]->name, nz, nA, desc);
    } else if (clear && (nz != nA || wrongsign)) {
      VH_VIOL("exit/class", caseid, "%s: left through %s, but the line reaches the %s of the symmetric axes at s=%.17Lg, before the third axis' boundary (%.17Lg) | %s",
              rname[which], BYID[out]->name, nA == 3 ? "corner" : "edge", SdA, Sd3, desc);
    } else if (clear) {
      st.inc("symmetric_exits_confirmed");
    }
  }
}

static double HX(const char *t) { return std::strtod(t, nullptr); } // hex floating literals are not C++11

int main(int argc, char **argv) {
  const uint64_t seed = vh::arg_u64(argc, argv, "--seed", 1);
  const uint64_t npackets = vh::arg_u64(argc, argv, "--packets", 20000);
  const uint64_t per_block = vh::arg_u64(argc, argv, "--per-block", 32);
  const int64_t only = (int64_t)vh::arg_u64(argc, argv, "--only", (uint64_t)-1);
  g_dump = vh::arg_flag(argc, argv, "--dump");
  for (int i = 0; i < 27; ++i) BYID[i] = nullptr;
  for (int i = 0; i < 27; ++i) {
    if (DIRS[i].id < 0 || DIRS[i].id >= 27 || BYID[DIRS[i].id]) { std::printf("VIOL key=setup/enum case=0 the 27 class identifiers are not a permutation of 0..26\nDONE violations=1\n"); return 1; }
    BYID[DIRS[i].id] = &DIRS[i];
  }
  if (vh::arg_flag(argc, argv, "--pinned")) {
    // Pinned witness of the finding "illcond/runaway-step" (found by this harness, seed 1):
    // the start is one ulp below the wall x = 1*cell_size, "x * inverse cell size" truncates to
    // cell 1, the x-component of the direction is -1.04e-17: the distance to the lower wall of
    // cell 1 comes out as -5.34 (block units) instead of >= 0.
    Block b;
    b.lattice = false;
    b.n[0] = 6; b.n[1] = 5; b.n[2] = 1;
    b.anchor[0] = -HX("0x1.8a12e29856d9p-1"); b.anchor[1] = -HX("0x1.2a2955afca07cp+0"); b.anchor[2] = HX("0x1.db05205ed15bp-2");
    b.L[0] = HX("0x1.4975c8d68983fp+1"); b.L[1] = HX("0x1.2ddd7a48f577ap-1"); b.L[2] = HX("0x1.5fca7d529d3p+1");
    double box[6] = {b.anchor[0], b.anchor[1], b.anchor[2], b.L[0], b.L[1], b.L[2]};
    b.grid = new DensitySubGrid(box, CoordinateVector< int_fast32_t >(b.n[0], b.n[1], b.n[2]));
    b.ncell = 30;
    b.store.resize(b.ncell); b.dens.assign(b.ncell, 1e22); b.xH.assign(b.ncell, 1.); b.xHe.assign(b.ncell, 1.);
    for (int d = 0; d < 3; ++d) b.cs[d] = b.L[d] / b.n[d];
    for (int g = 0; g < b.ncell; ++g) {
      b.store[g] = g; // (i*n1+j)*n2+k is also the documented storage order; the main mode derives it from the midpoints
      IonizationVariables &iv = (b.grid->begin() + g).get_ionization_variables();
      iv.set_number_density(b.dens[g]);
      for (int ion = 0; ion < NUMBER_OF_IONNAMES; ++ion) iv.set_ionic_fraction(ion, 1.);
    }
    Packet p;
    p.entry = TRAVELDIRECTION_EDGE_X_PP;
    p.pabs[0] = -HX("0x1.5cde0ebd4bacdp-2"); p.pabs[1] = -HX("0x1.267531169e97ep-1"); p.pabs[2] = HX("0x1.9b2b215e775b6p+1");
    p.dir[0] = -HX("0x1.7f46f3dfa76c5p-57"); p.dir[1] = -HX("0x1.fcbe0dd5fda2fp-1"); p.dir[2] = -HX("0x1.cd507e1f49396p-4");
    p.tau = 7.8122289908988227; p.w = 1.; p.energy = 1e16; p.accumulate = false; p.l0 = 0.;
    for (int ion = 0; ion < NUMBER_OF_IONNAMES; ++ion) p.sigma[ion] = 1e-22 * (1. + 0.01 * ion);
    vh::Rng rp(12345);
    run_packet(b, rp, 0, true, &p);
    st.inc("pinned_cases");
    st.print();
    std::printf("DONE violations=%" PRIu64 "\n", vh::g_nviol);
    return vh::g_nviol ? 1 : 0;
  }
  vh::Rng master(seed * 1000003ull + 2);
  const uint64_t nblocks = (npackets + per_block - 1) / per_block;
  for (uint64_t ib = 0; ib < nblocks; ++ib) {
    if (only >= 0 && (uint64_t)only / per_block != ib) continue;
    vh::Rng rb = master.fork(ib);
    g_case = ib * per_block;
    Block b;
    make_block(b, rb);
    st.inc("blocks");
    st.inc(b.lattice ? "blocks_exact_lattice" : "blocks_generic");
    if (b.n[0] != b.n[1] || b.n[1] != b.n[2]) st.inc("blocks_anisotropic_cell_counts");
    for (uint64_t ip = 0; ip < per_block; ++ip) {
      const uint64_t caseid = ib * per_block + ip;
      if (caseid >= npackets) break;
      vh::Rng rp = rb.fork(1000 + ip);
      if (only >= 0 && (uint64_t)only != caseid) continue;
      run_packet(b, rp, caseid, caseid < 3 || only >= 0);
    }
  }
  const uint64_t nsym = npackets / 10 + 1;
  for (uint64_t is = 0; is < nsym; ++is) {
    const uint64_t caseid = SYM_BASE + is;
    if (only >= 0 && (uint64_t)only != caseid) continue;
    vh::Rng rs = master.fork(caseid);
    g_case = caseid;
    run_symmetric(rs, caseid);
  }
  st.print();
  std::printf("DONE violations=%" PRIu64 "\n", vh::g_nviol);
  return vh::g_nviol ? 1 : 0;
}
