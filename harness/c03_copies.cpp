// C03 layer 3: duplicated subgrids ("copies").
// Real DensitySubGridCreator::create_copies / update_copies / update_original_counters /
// update_copy_properties on random layouts and random copy-level assignments.
//   * every copy belongs to exactly one original; an original of level l has 2^l - 1 copies
//   * for every copy c and class d: original(neighbour(c,d)) == neighbour(original(c),d),
//     "outside" preserved, neighbour(c, INSIDE) == c; the originals' tables stay geometric
//   * folding: every subgrid gets distinct integer-valued estimators (sums are exact in
//     any order); after update_original_counters each original holds own + sum of its copies
//   * update_copy_properties: every copy carries its original's new state, estimators zero
#include "DensitySubGridCreator.hpp"
#include "vh.hpp"
#include <omp.h>
#include <string>
#include <vector>

struct DirCode { int id; int s[3]; const char *name; };
static const DirCode DIRS[27] = {
    {TRAVELDIRECTION_INSIDE, {0, 0, 0}, "INSIDE"},
    {TRAVELDIRECTION_CORNER_PPP, {1, 1, 1}, "CORNER_PPP"}, {TRAVELDIRECTION_CORNER_PPN, {1, 1, -1}, "CORNER_PPN"},
    {TRAVELDIRECTION_CORNER_PNP, {1, -1, 1}, "CORNER_PNP"}, {TRAVELDIRECTION_CORNER_PNN, {1, -1, -1}, "CORNER_PNN"},
    {TRAVELDIRECTION_CORNER_NPP, {-1, 1, 1}, "CORNER_NPP"}, {TRAVELDIRECTION_CORNER_NPN, {-1, 1, -1}, "CORNER_NPN"},
    {TRAVELDIRECTION_CORNER_NNP, {-1, -1, 1}, "CORNER_NNP"}, {TRAVELDIRECTION_CORNER_NNN, {-1, -1, -1}, "CORNER_NNN"},
    {TRAVELDIRECTION_EDGE_X_PP, {0, 1, 1}, "EDGE_X_PP"}, {TRAVELDIRECTION_EDGE_X_PN, {0, 1, -1}, "EDGE_X_PN"},
    {TRAVELDIRECTION_EDGE_X_NP, {0, -1, 1}, "EDGE_X_NP"}, {TRAVELDIRECTION_EDGE_X_NN, {0, -1, -1}, "EDGE_X_NN"},
    {TRAVELDIRECTION_EDGE_Y_PP, {1, 0, 1}, "EDGE_Y_PP"}, {TRAVELDIRECTION_EDGE_Y_PN, {1, 0, -1}, "EDGE_Y_PN"},
    {TRAVELDIRECTION_EDGE_Y_NP, {-1, 0, 1}, "EDGE_Y_NP"}, {TRAVELDIRECTION_EDGE_Y_NN, {-1, 0, -1}, "EDGE_Y_NN"},
    {TRAVELDIRECTION_EDGE_Z_PP, {1, 1, 0}, "EDGE_Z_PP"}, {TRAVELDIRECTION_EDGE_Z_PN, {1, -1, 0}, "EDGE_Z_PN"},
    {TRAVELDIRECTION_EDGE_Z_NP, {-1, 1, 0}, "EDGE_Z_NP"}, {TRAVELDIRECTION_EDGE_Z_NN, {-1, -1, 0}, "EDGE_Z_NN"},
    {TRAVELDIRECTION_FACE_X_P, {1, 0, 0}, "FACE_X_P"}, {TRAVELDIRECTION_FACE_X_N, {-1, 0, 0}, "FACE_X_N"},
    {TRAVELDIRECTION_FACE_Y_P, {0, 1, 0}, "FACE_Y_P"}, {TRAVELDIRECTION_FACE_Y_N, {0, -1, 0}, "FACE_Y_N"},
    {TRAVELDIRECTION_FACE_Z_P, {0, 0, 1}, "FACE_Z_P"}, {TRAVELDIRECTION_FACE_Z_N, {0, 0, -1}, "FACE_Z_N"}};
static const DirCode *BYID[27];

// density field: a smooth function of position, so that every cell differs
class Field : public DensityFunction {
public:
  virtual DensityValues operator()(const Cell &cell) {
    const CoordinateVector<> p = cell.get_cell_midpoint();
    DensityValues v;
    v.set_number_density(1e6 * (2. + std::sin(3. * p.x()) * std::cos(2. * p.y() + p.z())));
    for (int ion = 0; ion < NUMBER_OF_IONNAMES; ++ion) v.set_ionic_fraction(ion, 0.5 + 0.4 * std::sin(p.x() + 2. * p.y() + 3. * p.z() + ion));
    v.set_temperature(8000. + 100. * p.x());
    return v;
  }
};

static vh::Stats st;

struct Config {
  int ns[3], nc[3];
  bool per[3];
  std::vector< uint_fast8_t > levels;
};

static double estimator_value(size_t subgrid, size_t cell, int ion, int round) {
  return 1. + (double)((subgrid * 131 + cell * 17 + (size_t)ion * 7 + (size_t)round * 977) % 1009);
}

static std::string cfgstr(const Config &c) {
  char b[200];
  std::snprintf(b, sizeof b, "layout %dx%dx%d periodic %d%d%d cells/subgrid %dx%dx%d", c.ns[0], c.ns[1], c.ns[2], (int)c.per[0], (int)c.per[1], (int)c.per[2], c.nc[0], c.nc[1], c.nc[2]);
  return b;
}

static void gen_levels(const Config &c, std::vector< uint_fast8_t > &lv, vh::Rng &r) {
  const int N = c.ns[0] * c.ns[1] * c.ns[2];
  lv.assign(N, 0);
  const int kind = (int)r.below(6);
  if (kind == 0) { for (int i = 0; i < N; ++i) lv[i] = (uint_fast8_t)r.below(4); st.inc("levels_kind_iid"); }
  else if (kind == 1) { lv[r.below(N)] = 3; if (r.chance(0.5)) lv[r.below(N)] = 2; st.inc("levels_kind_isolated_peak"); }
  else if (kind == 2) { const int l = (int)r.below(4); for (int i = 0; i < N; ++i) lv[i] = (uint_fast8_t)l; st.inc("levels_kind_uniform"); }
  else if (kind == 3) { for (int i = 0; i < N; ++i) lv[i] = r.chance(0.5) ? 3 : 0; st.inc("levels_kind_0_or_3"); }
  else if (kind == 4) { for (int i = 0; i < N; ++i) lv[i] = r.chance(0.3) ? (uint_fast8_t)(1 + r.below(3)) : 0; st.inc("levels_kind_sparse"); }
  else {
    // what the simulation does: a peak, face neighbours at most one level lower
    lv[r.below(N)] = (uint_fast8_t)(1 + r.below(3));
    for (int pass = 0; pass < 3; ++pass)
      for (int i = 0; i < N; ++i) {
        const int p[3] = {i / (c.ns[1] * c.ns[2]), (i / c.ns[2]) % c.ns[1], i % c.ns[2]};
        for (int d = 0; d < 3; ++d) for (int sgn = -1; sgn <= 1; sgn += 2) {
          int q[3] = {p[0], p[1], p[2]};
          q[d] += sgn;
          if (q[d] < 0 || q[d] >= c.ns[d]) { if (!c.per[d]) continue; q[d] = (q[d] + c.ns[d]) % c.ns[d]; }
          const int j = (q[0] * c.ns[1] + q[1]) * c.ns[2] + q[2];
          if (lv[j] + 1 < lv[i]) lv[j] = lv[i] - 1;
        }
      }
    st.inc("levels_kind_simulation_like");
  }
}

// geometric neighbour of original i in class d (own arithmetic); -1 == outside
static long geo_neighbour(const Config &c, int i, int d) {
  const int p[3] = {i / (c.ns[1] * c.ns[2]), (i / c.ns[2]) % c.ns[1], i % c.ns[2]};
  int q[3];
  for (int a = 0; a < 3; ++a) {
    q[a] = p[a] + BYID[d]->s[a];
    if (q[a] < 0 || q[a] >= c.ns[a]) { if (!c.per[a]) return -1; q[a] = (q[a] + c.ns[a]) % c.ns[a]; }
  }
  return (q[0] * c.ns[1] + q[1]) * c.ns[2] + q[2];
}

static void check_wiring(DensitySubGridCreator< DensitySubGrid > &cr, const Config &c, uint64_t caseid, const char *phase) {
  const size_t N = cr.number_of_original_subgrids();
  const size_t T = cr.number_of_actual_subgrids();
  size_t want_total = N;
  for (size_t i = 0; i < N; ++i) want_total += ((size_t)1 << c.levels[i]) - 1;
  if (T != want_total) { VH_VIOL("copies/count", caseid, "%s %s: %zu subgrids in total, expected %zu", phase, cfgstr(c).c_str(), T, want_total); return; }
  // who is whose copy, through the public iterator interface
  std::vector< long > orig(T, -1);
  for (size_t i = 0; i < N; ++i) orig[i] = (long)i;
  for (size_t i = 0; i < N; ++i) {
    auto range = cr.get_subgrid(i).get_copies();
    size_t ncop = 0;
    for (auto it = range.first; it != range.second; ++it) {
      const size_t ci = it.get_index();
      if (ci < N || ci >= T) { VH_VIOL("copies/ownership", caseid, "%s %s: copy index %zu of original %zu out of range", phase, cfgstr(c).c_str(), ci, i); return; }
      if (orig[ci] != -1) { VH_VIOL("copies/ownership", caseid, "%s %s: subgrid %zu is a copy of both %ld and %zu", phase, cfgstr(c).c_str(), ci, orig[ci], i); return; }
      orig[ci] = (long)i;
      ++ncop;
    }
    if (ncop != ((size_t)1 << c.levels[i]) - 1) { VH_VIOL("copies/count", caseid, "%s %s: original %zu (level %d) has %zu copies", phase, cfgstr(c).c_str(), i, (int)c.levels[i], ncop); return; }
  }
  for (size_t s = N; s < T; ++s) if (orig[s] < 0) { VH_VIOL("copies/ownership", caseid, "%s %s: subgrid %zu belongs to no original", phase, cfgstr(c).c_str(), s); return; }
  // copies are geometrically their original
  for (size_t s = N; s < T; ++s) {
    double b1[6], b2[6];
    (*cr.get_subgrid(s)).get_grid_box(b1); (*cr.get_subgrid((size_t)orig[s])).get_grid_box(b2);
    for (int k = 0; k < 6; ++k) if (b1[k] != b2[k]) { VH_VIOL("copies/box", caseid, "%s %s: copy %zu does not cover the box of its original %ld", phase, cfgstr(c).c_str(), s, orig[s]); break; }
  }
  // neighbour tables
  for (size_t s = 0; s < T; ++s) {
    DensitySubGrid &g = *cr.get_subgrid(s);
    const long o = orig[s];
    for (int d = 0; d < 27; ++d) {
      const uint_fast32_t ng = g.get_neighbour(d);
      const long geo = geo_neighbour(c, (int)o, d);
      st.inc("copy_neighbour_entries_checked");
      if (d == 0) {
        if (ng != s) VH_VIOL("copies/self", caseid, "%s %s: subgrid %zu (original %ld) names %u as itself", phase, cfgstr(c).c_str(), s, o, (unsigned)ng);
        continue;
      }
      if (geo < 0) {
        if (ng != NEIGHBOUR_OUTSIDE) VH_VIOL("copies/outside", caseid, "%s %s: subgrid %zu (original %ld) class %s: neighbour %u, but the original has none there", phase, cfgstr(c).c_str(), s, o, BYID[d]->name, (unsigned)ng);
        continue;
      }
      if (ng == NEIGHBOUR_OUTSIDE || ng >= T) { VH_VIOL("copies/neighbour", caseid, "%s %s: subgrid %zu (original %ld) class %s: neighbour %u invalid, geometric neighbour is %ld", phase, cfgstr(c).c_str(), s, o, BYID[d]->name, (unsigned)ng, geo); continue; }
      if (orig[ng] != geo) VH_VIOL("copies/neighbour", caseid, "%s %s: subgrid %zu (original %ld, level %d) class %s: neighbour %u is a copy of %ld, geometric neighbour is %ld (level %d)", phase, cfgstr(c).c_str(), s, o, (int)c.levels[o], BYID[d]->name, (unsigned)ng, orig[ng], geo, (int)c.levels[geo]);
      if (s < N && (long)ng != geo) VH_VIOL("copies/original-table-changed", caseid, "%s %s: original %zu class %s now points to %u instead of %ld", phase, cfgstr(c).c_str(), s, BYID[d]->name, (unsigned)ng, geo);
      if (s >= N) {
        const int dl = std::abs((int)c.levels[o] - (int)c.levels[geo]);
        const int nd = (BYID[d]->s[0] != 0) + (BYID[d]->s[1] != 0) + (BYID[d]->s[2] != 0);
        if (dl >= 2) st.inc(nd == 1 ? "copy_neighbours_level_gap_ge2_across_face" : nd == 2 ? "copy_neighbours_level_gap_ge2_across_edge" : "copy_neighbours_level_gap_ge2_across_corner");
        if (ng >= N) st.inc("copy_neighbour_is_copy"); else st.inc("copy_neighbour_is_original");
      }
    }
  }

  // ---- folding
  static int round = 0;
  ++round;
  const size_t ncell = (*cr.get_subgrid(0)).get_number_of_cells();
  for (size_t s = 0; s < T; ++s) {
    DensitySubGrid &g = *cr.get_subgrid(s);
    size_t ic = 0;
    for (auto it = g.begin(); it != g.end(); ++it, ++ic) {
      IonizationVariables &iv = it.get_ionization_variables();
      for (int ion = 0; ion < NUMBER_OF_IONNAMES; ++ion) iv.set_mean_intensity(ion, estimator_value(s, ic, ion, round));
      for (int h = 0; h < NUMBER_OF_HEATINGTERMS; ++h) iv.set_heating(h, estimator_value(s, ic, 100 + h, round));
    }
  }
  cr.update_original_counters();
  for (size_t s = 0; s < T; ++s) {
    DensitySubGrid &g = *cr.get_subgrid(s);
    size_t ic = 0;
    bool bad = false;
    for (auto it = g.begin(); it != g.end() && !bad; ++it, ++ic) {
      const IonizationVariables &iv = it.get_ionization_variables();
      for (int q = 0; q < NUMBER_OF_IONNAMES + NUMBER_OF_HEATINGTERMS && !bad; ++q) {
        const bool heat = q >= NUMBER_OF_IONNAMES;
        const int tag = heat ? 100 + (q - NUMBER_OF_IONNAMES) : q;
        double want = estimator_value(s, ic, tag, round);
        if (s < N) for (size_t k = N; k < T; ++k) if (orig[k] == (long)s) want += estimator_value(k, ic, tag, round);
        const double got = heat ? iv.get_heating(q - NUMBER_OF_IONNAMES) : iv.get_mean_intensity(q);
        if (got != want) {
          VH_VIOL(s < N ? "fold/sum" : "fold/copy-changed", caseid, "%s %s: subgrid %zu (original %ld, level %d) cell %zu %s %d holds %.17g after folding, expected %.17g (own %g)", phase, cfgstr(c).c_str(), s, orig[s], (int)c.levels[orig[s]], ic, heat ? "heating" : "ion", heat ? q - NUMBER_OF_IONNAMES : q, got, want, estimator_value(s, ic, tag, round));
          bad = true;
        }
      }
    }
    st.inc(s < N ? "fold_originals_checked" : "fold_copies_checked");
  }
  st.inc("fold_cells_checked", ncell * T);

  // ---- pushing the new state to the copies
  for (size_t s = 0; s < N; ++s) {
    DensitySubGrid &g = *cr.get_subgrid(s);
    size_t ic = 0;
    for (auto it = g.begin(); it != g.end(); ++it, ++ic) {
      IonizationVariables &iv = it.get_ionization_variables();
      iv.set_number_density(1e3 + (double)(s * 37 + ic) + round);
      for (int ion = 0; ion < NUMBER_OF_IONNAMES; ++ion) iv.set_ionic_fraction(ion, 1. / (2. + (double)((s + ic * 3 + ion + round) % 97)));
      iv.set_temperature(5000. + (double)(s + ic) + round);
    }
  }
  cr.update_copy_properties();
  for (size_t s = N; s < T; ++s) {
    DensitySubGrid &g = *cr.get_subgrid(s), &o = *cr.get_subgrid((size_t)orig[s]);
    auto io = o.begin();
    bool bad = false;
    size_t ic = 0;
    for (auto it = g.begin(); it != g.end() && !bad; ++it, ++io, ++ic) {
      const IonizationVariables &a = it.get_ionization_variables(), &b = io.get_ionization_variables();
      bool same = a.get_number_density() == b.get_number_density() && a.get_temperature() == b.get_temperature();
      for (int ion = 0; ion < NUMBER_OF_IONNAMES; ++ion) same = same && a.get_ionic_fraction(ion) == b.get_ionic_fraction(ion);
      if (!same) { VH_VIOL("push/state", caseid, "%s %s: copy %zu cell %zu does not carry the state of its original %ld", phase, cfgstr(c).c_str(), s, ic, orig[s]); bad = true; }
      bool zero = true;
      for (int ion = 0; ion < NUMBER_OF_IONNAMES; ++ion) zero = zero && a.get_mean_intensity(ion) == 0.;
      for (int h = 0; h < NUMBER_OF_HEATINGTERMS; ++h) zero = zero && a.get_heating(h) == 0.;
      if (!zero && !bad) { VH_VIOL("push/estimators-not-reset", caseid, "%s %s: copy %zu cell %zu still holds estimators after the push; the next fold would count them again", phase, cfgstr(c).c_str(), s, ic); bad = true; }
    }
    st.inc("push_copies_checked");
  }
}

int main(int argc, char **argv) {
  const uint64_t seed = vh::arg_u64(argc, argv, "--seed", 1);
  const uint64_t ncases = vh::arg_u64(argc, argv, "--cases", 30);
  const int64_t only = (int64_t)vh::arg_u64(argc, argv, "--only", (uint64_t)-1);
  const uint64_t threads = vh::arg_u64(argc, argv, "--threads", 2);
  omp_set_num_threads((int)threads);
  for (int i = 0; i < 27; ++i) BYID[DIRS[i].id] = &DIRS[i];
  vh::Rng master(seed * 1000003ull + 33);
  Field field;
  for (uint64_t ic = 0; ic < ncases; ++ic) {
    vh::Rng r = master.fork(ic);
    if (only >= 0 && (uint64_t)only != ic) continue;
    Config c;
    for (int d = 0; d < 3; ++d) {
      c.ns[d] = 1 + (int)r.below(4);
      c.nc[d] = 1 + (int)r.below(3);
      c.per[d] = r.chance(0.5);
    }
    if (ic % 8 == 0) { c.ns[0] = 1; c.per[0] = true; }  // periodic axis with one subgrid
    if (ic % 8 == 1) { c.ns[1] = 2; c.per[1] = true; }  // periodic axis with two subgrids
    gen_levels(c, c.levels, r);
    DensitySubGridCreator< DensitySubGrid > cr(
        Box<>(CoordinateVector<>(-0.7, 1.3, 2.9), CoordinateVector<>(1.9, 2.3, 0.85)),
        CoordinateVector< int_fast32_t >(c.ns[0] * c.nc[0], c.ns[1] * c.nc[1], c.ns[2] * c.nc[2]),
        CoordinateVector< int_fast32_t >(c.ns[0], c.ns[1], c.ns[2]), CoordinateVector< bool >(c.per[0], c.per[1], c.per[2]));
    cr.initialize(field);
    std::vector< uint_fast8_t > lv = c.levels;
    cr.create_copies(lv);
    st.inc("assignments");
    int maxl = 0; for (auto l : c.levels) maxl = std::max(maxl, (int)l);
    if (maxl > 0) st.inc("assignments_with_copies");
    check_wiring(cr, c, ic, "create_copies");
    // a second, different assignment on the same grid (what the RHD loop does when sources move)
    if (r.chance(0.6)) {
      gen_levels(c, c.levels, r);
      lv = c.levels;
      cr.update_copies(lv);
      st.inc("reassignments");
      check_wiring(cr, c, ic, "update_copies");
    }
    if (ic < 3) {
      std::string ls; for (auto l : c.levels) ls += (char)('0' + l);
      std::printf("SAMPLE case=%" PRIu64 " %s levels=%s total_subgrids=%u\n", ic, cfgstr(c).c_str(), ls.c_str(), (unsigned)cr.number_of_actual_subgrids());
    }
  }
  st.print();
  std::printf("DONE violations=%" PRIu64 "\n", vh::g_nviol);
  return vh::g_nviol ? 1 : 0;
}
