// C03 layer 2: hand-over between subgrids.
//
// The objects the task-based simulation builds (DensitySubGridCreator, MemorySpace,
// ThreadSafeVector<Task>, TaskQueue, Scheduler, PrematureLaunchTaskContext and the real
// PhotonTraversalTaskContext::execute) are driven by the single-threaded copy of the
// simulation's worker loop below, with a fixed list of packets.  Absorbed packets are
// routed into the "inside" buffers (re-emission switched on) and harvested there.
//
// Monitors / oracles
//   * at every hand-over (a traversal task about to run): the packet sits on the boundary
//     of the subgrid it left, the receiving subgrid is the geometric neighbour (periodic
//     wrap included) through the class opposite to the entry class of the buffer, the
//     position lies on the packet's own straight line (periodic images unwrapped),
//     direction / weight / cross sections are untouched, the remaining optical depth
//     does not grow;
//   * whole-box geometry, independent of the code: all wall-crossing parameters of the
//     unwrapped line are sorted, each piece between two crossings is credited to the
//     cell that contains its midpoint (long double); absorption where the summed optical
//     depth reaches the target;
//   * the same packets through the undivided 1x1x1 layout of the same cells.
#include "DensitySubGridCreator.hpp"
#include "MemorySpace.hpp"
#include "PhotonTraversalTaskContext.hpp"
#include "PrematureLaunchTaskContext.hpp"
#include "Scheduler.hpp"
#include "vh.hpp"
#include <algorithm>
#include <cstdarg>
#include <omp.h>
#include <string>
#include <vector>

typedef long double LD;
static const double EPS = 2.220446049250313e-16;
static const int NION = NUMBER_OF_IONNAMES;

struct DirCode { int id; int s[3]; const char *name; };
static const DirCode DIRS[27] = {
    {TRAVELDIRECTION_INSIDE, {0, 0, 0}, "INSIDE"},
    {TRAVELDIRECTION_CORNER_PPP, {1, 1, 1}, "CORNER_PPP"}, {TRAVELDIRECTION_CORNER_PPN, {1, 1, -1}, "CORNER_PPN"},
    {TRAVELDIRECTION_CORNER_PNP, {1, -1, 1}, "CORNER_PNP"}, {TRAVELDIRECTION_CORNER_PNN, {1, -1, -1}, "CORNER_PNN"},
    {TRAVELDIRECTION_CORNER_NPP, {-1, 1, 1}, "CORNER_NPP"}, {TRAVELDIRECTION_CORNER_NPN, {-1, 1, -1}, "CORNER_NPN"},
    {TRAVELDIRECTION_CORNER_NNP, {-1, -1, 1}, "CORNER_NNP"}, {TRAVELDIRECTION_CORNER_NNN, {-1, -1, -1}, "CORNER_NNN"},
    {TRAVELDIRECTION_EDGE_X_PP, {0, 1, 1}, "EDGE_X_PP"}, {TRAVELDIRECTION_EDGE_X_PN, {0, 1, -1}, "EDGE_X_PN"},
    {TRAVELDIRECTION_EDGE_X_NP, {0, -1, 1}, "EDGE_X_NP"}, {TRAVELDIRECTION_EDGE_X_NN, {0, -1, -1}, "EDGE_X_NN"},
    {TRAVELDIRECTION_EDGE_Y_PP, {1, 0, 1}, "EDGE_Y_PP"}, {TRAVELDIRECTION_EDGE_Y_PN, {1, 0, -1}, "EDGE_Y_PN"},
    {TRAVELDIRECTION_EDGE_Y_NP, {-1, 0, 1}, "EDGE_Y_NP"}, {TRAVELDIRECTION_EDGE_Y_NN, {-1, 0, -1}, "EDGE_Y_NN"},
    {TRAVELDIRECTION_EDGE_Z_PP, {1, 1, 0}, "EDGE_Z_PP"}, {TRAVELDIRECTION_EDGE_Z_PN, {1, -1, 0}, "EDGE_Z_PN"},
    {TRAVELDIRECTION_EDGE_Z_NP, {-1, 1, 0}, "EDGE_Z_NP"}, {TRAVELDIRECTION_EDGE_Z_NN, {-1, -1, 0}, "EDGE_Z_NN"},
    {TRAVELDIRECTION_FACE_X_P, {1, 0, 0}, "FACE_X_P"}, {TRAVELDIRECTION_FACE_X_N, {-1, 0, 0}, "FACE_X_N"},
    {TRAVELDIRECTION_FACE_Y_P, {0, 1, 0}, "FACE_Y_P"}, {TRAVELDIRECTION_FACE_Y_N, {0, -1, 0}, "FACE_Y_N"},
    {TRAVELDIRECTION_FACE_Z_P, {0, 0, 1}, "FACE_Z_P"}, {TRAVELDIRECTION_FACE_Z_N, {0, 0, -1}, "FACE_Z_N"}};
static const DirCode *BYID[27];

static vh::Stats st;
static uint64_t g_case = 0;
static int g_trace = 0;
static long g_watch = -1;
static std::string g_prefix;
#define VH_VIOL2(key, caseid, ...) VH_VIOL((g_prefix + key).c_str(), caseid, __VA_ARGS__)
static uint64_t g_maxtasks = 300000ull;

static std::string fmt(const char *f, ...) {
  char buf[900];
  va_list ap; va_start(ap, f); std::vsnprintf(buf, sizeof buf, f, ap); va_end(ap);
  return buf;
}

// ---------------------------------------------------------------------------
struct World {      // the physical problem, independent of how it is split
  double A[3], S[3];
  int Ng[3];        // cells per axis in the whole box
  bool per[3];
  std::vector<double> dens, xH, xHe; // per global cell (i*Ng1+j)*Ng2+k
  int gidx(int i, int j, int k) const { return (i * Ng[1] + j) * Ng[2] + k; }
  int ncell() const { return Ng[0] * Ng[1] * Ng[2]; }
};
struct Pk {
  double p[3], dir[3], tau, w, energy, sigma[NUMBER_OF_IONNAMES];
};
struct Split {
  int ns[3];
  std::vector< uint_fast8_t > levels;
};

class Field : public DensityFunction {
  const World &_w;
public:
  Field(const World &w) : _w(w) {}
  virtual DensityValues operator()(const Cell &cell) {
    const CoordinateVector<> m = cell.get_cell_midpoint();
    int idx[3];
    for (int d = 0; d < 3; ++d) {
      idx[d] = (int)std::floor((m[d] - _w.A[d]) / (_w.S[d] / _w.Ng[d]));
      idx[d] = std::min(std::max(idx[d], 0), _w.Ng[d] - 1);
    }
    const int g = _w.gidx(idx[0], idx[1], idx[2]);
    DensityValues v;
    v.set_number_density(_w.dens[g]);
    for (int ion = 0; ion < NION; ++ion) v.set_ionic_fraction(ion, 0.5);
    v.set_ionic_fraction(ION_H_n, _w.xH[g]);
    v.set_ionic_fraction(ION_He_n, _w.xHe[g]);
    v.set_temperature(8000.);
    return v;
  }
};

struct Outcome {           // what one run (real code or oracle) says about the packet list
  std::vector<LD> J;       // [cell*3 + q], q = H, He, last ion
  std::vector<char> absorbed;
  std::vector<double> pos; // absorption position, 3 per packet
};
static const int QION[3] = {ION_H_n, ION_He_n, NUMBER_OF_IONNAMES - 1};

// ---------------------------------------------------------------------------
// independent whole-box geometry
struct OraclePk {
  LD delta, ds;            // crossing uncertainty, absorption-point uncertainty
  bool tie_escape;
  int nseg;
};

static void oracle(const World &w, const std::vector<Pk> &pk, Outcome &out, std::vector<LD> &Jtol, std::vector<OraclePk> &info) {
  const int nc = w.ncell();
  out.J.assign(nc * 3, 0); Jtol.assign(nc * 3, 0);
  out.absorbed.assign(pk.size(), 0); out.pos.assign(pk.size() * 3, 0.);
  info.resize(pk.size());
  LD h[3]; for (int d = 0; d < 3; ++d) h[d] = (LD)w.S[d] / w.Ng[d];
  // A ray crossing a wall close to an edge / corner (or starting on a wall) may, within round-off,
  // clip a neighbouring cell for a length of order delta (C02 tolerance model).  The optical depth
  // that may cost is bounded with the thickest cell among the 27 around the cell, the path length
  // that a given optical depth corresponds to with the thinnest one:
  //   NBmax[g] = max n*max(xH,xHe), NBmin[g] = min n*min(xH,xHe) over the neighbourhood of g.
  std::vector<LD> NBmax(nc, 0), NBmin(nc, INFINITY);
  LD nxmin = INFINITY; // the same lower bound over the whole box
  for (int g = 0; g < nc; ++g) nxmin = std::min(nxmin, (LD)w.dens[g] * std::min((LD)w.xH[g], (LD)w.xHe[g]));
  for (int g = 0; g < nc; ++g) {
    const int gi[3] = {g / (w.Ng[1] * w.Ng[2]), (g / w.Ng[2]) % w.Ng[1], g % w.Ng[2]};
    for (int a = -1; a <= 1; ++a) for (int b = -1; b <= 1; ++b) for (int c = -1; c <= 1; ++c) {
      int n[3] = {gi[0] + a, gi[1] + b, gi[2] + c}; bool ok = true;
      for (int d = 0; d < 3; ++d) if (n[d] < 0 || n[d] >= w.Ng[d]) { if (w.per[d]) n[d] = (n[d] + w.Ng[d]) % w.Ng[d]; else ok = false; }
      if (!ok) continue;
      const int g2 = w.gidx(n[0], n[1], n[2]);
      NBmax[g] = std::max(NBmax[g], (LD)w.dens[g2] * std::max((LD)w.xH[g2], (LD)w.xHe[g2]));
      NBmin[g] = std::min(NBmin[g], (LD)w.dens[g2] * std::min((LD)w.xH[g2], (LD)w.xHe[g2]));
    }
  }
  const LD diag = std::sqrt((double)(w.S[0] * w.S[0] + w.S[1] * w.S[1] + w.S[2] * w.S[2]));
  struct Seg { int g; LD len; LD kap; bool edge; };
  std::vector<Seg> segs;
  std::vector<LD> bp;
  for (size_t ip = 0; ip < pk.size(); ++ip) {
    const Pk &p = pk[ip];
    const LD ssum = (LD)p.sigma[ION_H_n] + (LD)p.sigma[ION_He_n];
    LD Sexit = INFINITY;
    double mindir = 1., pmax = 0., Smax = 0.;
    for (int d = 0; d < 3; ++d) {
      pmax = std::max(pmax, std::max(std::fabs(w.A[d]), std::fabs(w.A[d] + w.S[d])));
      Smax = std::max(Smax, w.S[d]);
      if (p.dir[d] == 0.) continue;
      mindir = std::min(mindir, std::fabs(p.dir[d]));
      if (!w.per[d]) {
        LD t = (((p.dir[d] > 0.) ? (LD)w.A[d] + (LD)w.S[d] : (LD)w.A[d]) - (LD)p.p[d]) / (LD)p.dir[d];
        if (t < 0) t = 0;
        Sexit = std::min(Sexit, t);
      }
    }
    segs.clear();
    LD cum = 0, sabs = -1, rest = INFINITY; // rest: optical depth left in the cell behind the absorption point
    bool done = false, pending_edge = false;
    for (int chunk = 0; !done; ++chunk) {
      const LD s0 = chunk * diag, s1 = std::min((LD)(chunk + 1) * diag, Sexit);
      if (!(s1 > s0)) break;
      bp.clear(); bp.push_back(s0); bp.push_back(s1);
      for (int d = 0; d < 3; ++d) {
        if (p.dir[d] == 0.) continue;
        // planes A + k h crossed for s in (s0, s1)
        const LD x0 = (LD)p.p[d] + s0 * (LD)p.dir[d] - (LD)w.A[d], x1 = (LD)p.p[d] + s1 * (LD)p.dir[d] - (LD)w.A[d];
        const long k0 = (long)std::floor((double)(std::min(x0, x1) / h[d])) - 1, k1 = (long)std::ceil((double)(std::max(x0, x1) / h[d])) + 1;
        for (long k = k0; k <= k1; ++k) {
          const LD t = ((LD)w.A[d] + k * h[d] - (LD)p.p[d]) / (LD)p.dir[d];
          if (t > s0 && t < s1) bp.push_back(t);
        }
      }
      std::sort(bp.begin(), bp.end());
      for (size_t i = 0; i + 1 < bp.size() && !done; ++i) {
        const LD a = bp[i], b = bp[i + 1];
        if (!(b > a)) { // two walls crossed at the same parameter: an edge or a corner
          pending_edge = true;
          if (!segs.empty()) segs.back().edge = true;
          continue;
        }
        const LD mid = 0.5L * (a + b);
        int gi[3]; bool inside = true;
        for (int d = 0; d < 3; ++d) {
          const LD x = (LD)p.p[d] + mid * (LD)p.dir[d] - (LD)w.A[d];
          long k = (long)std::floor((double)(x / h[d]));
          // floor through double may be off by one next to a wall: correct with long double
          while ((k + 1) * h[d] <= x) ++k;
          while (k * h[d] > x) --k;
          if (w.per[d]) k = ((k % w.Ng[d]) + w.Ng[d]) % w.Ng[d];
          else if (k < 0 || k >= w.Ng[d]) inside = false;
          gi[d] = (int)k;
        }
        if (!inside) { done = true; break; }
        const int g = w.gidx(gi[0], gi[1], gi[2]);
        const LD kap = (LD)w.dens[g] * ((LD)p.sigma[ION_H_n] * (LD)w.xH[g] + (LD)p.sigma[ION_He_n] * (LD)w.xHe[g]);
        LD len = b - a;
        if (cum + kap * len >= (LD)p.tau) { const LD full = len; len = ((LD)p.tau - cum) / kap; sabs = a + len; rest = kap * (full - len); done = true; }
        cum += kap * len;
        segs.push_back({g, len, kap, pending_edge});
        pending_edge = false;
      }
      if (s1 >= Sexit) break;
      if (chunk > 200000) { VH_VIOL2("oracle/runaway", g_case, "packet %zu never ends", ip); break; }
    }
    OraclePk &I = info[ip];
    I.nseg = (int)segs.size();
    I.delta = (16 + 2 * I.nseg) * EPS * (Smax + pmax) / mindir;
    // crossings closer together than 4 delta count as an edge / corner as well
    for (size_t i = 0; i < segs.size(); ++i)
      if (segs[i].len <= 4 * I.delta) {
        segs[i].edge = true;
        if (i > 0) segs[i - 1].edge = true;
        if (i + 1 < segs.size()) segs[i + 1].edge = true;
      }
    // the cell the packet starts in: it may be left at once with a round-off sized step; if the start
    // is within the position uncertainty of a wall, the cell across that wall may be clipped
    int g0;
    bool start_edge = false;
    {
      int gi[3];
      for (int d = 0; d < 3; ++d) {
        const LD x = ((LD)p.p[d] - (LD)w.A[d]) / h[d];
        long k = (long)std::floor((double)x);
        if (std::fabs((double)(x - std::floor((double)x + 0.5))) * h[d] <= 4 * I.delta) start_edge = true;
        gi[d] = (int)std::min<long>(std::max<long>(k, 0), w.Ng[d] - 1);
      }
      g0 = w.gidx(gi[0], gi[1], gi[2]);
      if (start_edge && !segs.empty()) segs.front().edge = true;
    }
    LD ksum = start_edge ? NBmax[g0] * ssum : 0;
    for (const Seg &sg : segs) ksum += sg.edge ? NBmax[sg.g] * ssum : sg.kap;
    const LD dtau = 2 * I.delta * ksum + (8 + 2 * I.nseg) * EPS * (LD)p.tau;
    // An uncertainty dtau of the optical depth moves the absorption point by dtau / kappa of the cell(s)
    // in which the target can be reached: the last piece, the pieces before it as long as the optical
    // depth summed up to their end is within dtau of the target, and their neighbours at an edge.
    const LD smin = std::min((LD)p.sigma[ION_H_n], (LD)p.sigma[ION_He_n]);
    LD kref = INFINITY;
    size_t first_slack = segs.size();
    if (sabs >= 0) {
      LD back = 0; // optical depth between the end of piece i and the absorption point
      for (size_t i = segs.size(); i-- > 0;) {
        kref = std::min(kref, segs[i].edge ? NBmin[segs[i].g] * smin : segs[i].kap);
        first_slack = i;
        back += segs[i].kap * segs[i].len;
        if (back > dtau) break;
      }
      if (first_slack == 0 && start_edge) kref = std::min(kref, NBmin[g0] * smin);
      // absorbed within dtau of the far wall of its cell: the real traversal may just as well carry on
      // into the next cell, whatever that is (one of the 26 neighbours, possibly much thinner)
      if (rest <= dtau) { segs.back().edge = true; kref = std::min(kref, nxmin * smin); }
    }
    I.ds = std::isfinite((double)kref) ? dtau / kref : 0;
    I.tie_escape = false;
    if (g_watch >= 0 && (long)ip == g_watch)
      for (const Seg &sg : segs) std::printf("WATCH oracle packet %zu piece in cell %d length %.17Lg edge %d (sabs %.17Lg, cum tau %.17Lg)\n", ip, sg.g, sg.len, (int)sg.edge, sabs, cum);
    if (sabs >= 0) {
      out.absorbed[ip] = 1;
      for (int d = 0; d < 3; ++d) out.pos[ip * 3 + d] = (double)((LD)p.p[d] + sabs * (LD)p.dir[d]);
    } else if (std::fabs((double)(cum - (LD)p.tau)) <= dtau) I.tie_escape = true;
    if (sabs >= 0 && std::isfinite((double)Sexit) && std::fabs((double)(sabs - Sexit)) <= I.ds + 2 * I.delta) I.tie_escape = true;
    segs.push_back({g0, 0, 0, start_edge});
    for (size_t is = 0; is < segs.size(); ++is) {
      const Seg &s = segs[is];
      // the absorption slack only concerns the pieces in which the target can be reached (and, through
      // the start cell entry, a packet absorbed before it left its first cell)
      const bool slack = sabs >= 0 && (is + 1 == segs.size() ? first_slack == 0 : is >= first_slack);
      const LD tol = 2 * I.delta + (slack ? I.ds : 0);
      for (int q = 0; q < 3; ++q) out.J[s.g * 3 + q] += (LD)p.w * (LD)p.sigma[QION[q]] * s.len;
      // the tolerance goes to the cell itself and, at edges / corners / a start on a wall, to its 26 neighbours
      const int gi[3] = {s.g / (w.Ng[1] * w.Ng[2]), (s.g / w.Ng[2]) % w.Ng[1], s.g % w.Ng[2]};
      const int r = s.edge ? 1 : 0;
      for (int a = -r; a <= r; ++a) for (int b = -r; b <= r; ++b) for (int c = -r; c <= r; ++c) {
        int n[3] = {gi[0] + a, gi[1] + b, gi[2] + c}; bool ok = true;
        for (int d = 0; d < 3; ++d) {
          if (n[d] < 0 || n[d] >= w.Ng[d]) { if (w.per[d]) n[d] = (n[d] + w.Ng[d]) % w.Ng[d]; else ok = false; }
        }
        if (!ok) continue;
        // (per piece, not per packet: with periodic wrap a packet may pass the same cell many times)
        const int g2 = w.gidx(n[0], n[1], n[2]);
        for (int q = 0; q < 3; ++q) Jtol[g2 * 3 + q] += (LD)p.w * (LD)p.sigma[QION[q]] * tol;
      }
    }
  }
}

// ---------------------------------------------------------------------------
// the real code
struct PkState { long last_sub; int handovers; long wrap[3]; double tau; bool seen, harvested; };

static long geo_neighbour(const int ns[3], const bool per[3], long i, int cls, int wrapped[3]) {
  const long p[3] = {i / (ns[1] * ns[2]), (i / ns[2]) % ns[1], i % ns[2]};
  long q[3];
  for (int a = 0; a < 3; ++a) {
    wrapped[a] = 0;
    q[a] = p[a] + BYID[cls]->s[a];
    if (q[a] < 0) { if (!per[a]) return -1; q[a] += ns[a]; wrapped[a] = -1; }
    if (q[a] >= ns[a]) { if (!per[a]) return -1; q[a] -= ns[a]; wrapped[a] = 1; }
  }
  return (q[0] * ns[1] + q[1]) * ns[2] + q[2];
}

static std::string wstr(const World &w, const Split &sp) {
  std::string lv; for (auto l : sp.levels) lv += (char)('0' + l);
  return fmt("box A=%a,%a,%a S=%a,%a,%a cells %dx%dx%d layout %dx%dx%d periodic %d%d%d levels %s", w.A[0], w.A[1], w.A[2], w.S[0], w.S[1], w.S[2],
             w.Ng[0], w.Ng[1], w.Ng[2], sp.ns[0], sp.ns[1], sp.ns[2], (int)w.per[0], (int)w.per[1], (int)w.per[2], lv.c_str());
}

static bool run_real(const World &w, const Split &sp, const std::vector<Pk> &pk, const std::vector<OraclePk> &info, Outcome &out, vh::Rng &r, bool monitor) {
  const int nc = w.ncell();
  out.J.assign(nc * 3, 0); out.absorbed.assign(pk.size(), 0); out.pos.assign(pk.size() * 3, 0.);
  DensitySubGridCreator< DensitySubGrid > creator(
      Box<>(CoordinateVector<>(w.A[0], w.A[1], w.A[2]), CoordinateVector<>(w.S[0], w.S[1], w.S[2])),
      CoordinateVector< int_fast32_t >(w.Ng[0], w.Ng[1], w.Ng[2]), CoordinateVector< int_fast32_t >(sp.ns[0], sp.ns[1], sp.ns[2]),
      CoordinateVector< bool >(w.per[0], w.per[1], w.per[2]));
  Field field(w);
  creator.initialize(field);
  std::vector< uint_fast8_t > lv = sp.levels;
  creator.create_copies(lv);
  const size_t N = creator.number_of_original_subgrids(), T = creator.number_of_actual_subgrids();
  // as TaskBasedIonizationSimulation does after creating the copies
  for (size_t i = 0; i < T; ++i) {
    DensitySubGrid &sg = *creator.get_subgrid(i);
    for (int d = 0; d < TRAVELDIRECTION_NUMBER; ++d) sg.set_active_buffer(d, NEIGHBOUR_OUTSIDE);
    sg.set_owning_thread(0);
  }
  std::vector<long> orig(T, -1);
  std::vector<std::vector<size_t>> copies(N);
  for (size_t i = 0; i < N; ++i) {
    orig[i] = (long)i;
    auto range = creator.get_subgrid(i).get_copies();
    for (auto it = range.first; it != range.second; ++it) { if (it.get_index() < T) orig[it.get_index()] = (long)i; copies[i].push_back(it.get_index()); }
  }
  const size_t ninput = pk.size() / 50 + 2 * N + 16;
  const size_t nbuf = 28 * T + ninput + 64;
  MemorySpace buffers(nbuf);
  ThreadSafeVector< Task > tasks(nbuf + 64, "Tasks");
  std::vector< TaskQueue * > queues(1);
  queues[0] = new TaskQueue(nbuf + 64, "Queue for thread 0");
  TaskQueue shared_queue(nbuf + 64, "Shared queue");
  AtomicValue< uint_fast32_t > num_photon_done(0);
  PhotonTraversalTaskContext< DensitySubGrid > traversal(buffers, creator, tasks, num_photon_done, nullptr, true);
  PrematureLaunchTaskContext< DensitySubGrid > premature_launch(buffers, creator, tasks, queues, shared_queue);
  Scheduler scheduler(tasks, queues, shared_queue);
  ThreadContext *thread_context = traversal.get_thread_context();

  // ---- source: the fixed packet list, grouped per subgrid into input buffers (what a source task does)
  std::vector<PkState> state(pk.size());
  std::vector<std::vector<uint32_t>> per_sub(N);
  for (size_t ip = 0; ip < pk.size(); ++ip) {
    state[ip] = PkState{-1, 0, {0, 0, 0}, pk[ip].tau, false, false};
    const size_t s = creator.get_subgrid(CoordinateVector<>(pk[ip].p[0], pk[ip].p[1], pk[ip].p[2])).get_index();
    if (s >= N) { VH_VIOL2("source/subgrid", g_case, "packet %zu at %a,%a,%a inside the box is assigned to subgrid %zu of %zu | %s", ip, pk[ip].p[0], pk[ip].p[1], pk[ip].p[2], s, N, wstr(w, sp).c_str()); delete queues[0]; delete thread_context; return false; }
    per_sub[s].push_back((uint32_t)ip);
  }
  for (size_t s = 0; s < N; ++s) {
    size_t done = 0;
    while (done < per_sub[s].size()) {
      const size_t n = std::min((size_t)PHOTONBUFFER_SIZE, per_sub[s].size() - done);
      size_t target = s;
      if (!copies[s].empty() && r.chance(0.7)) target = copies[s][r.below(copies[s].size())];
      const uint_fast32_t bi = buffers.get_free_buffer();
      PhotonBuffer &buf = buffers[bi];
      buf.grow(n);
      buf.set_subgrid_index(target);
      buf.set_direction(TRAVELDIRECTION_INSIDE);
      for (size_t k = 0; k < n; ++k) {
        const uint32_t ip = per_sub[s][done + k];
        PhotonPacket &ph = buf[k];
        ph.set_type(PHOTONTYPE_PRIMARY);
        ph.set_scatter_counter(ip); // packet identity: the traversal copies packets whole and never touches this
        ph.set_position(CoordinateVector<>(pk[ip].p[0], pk[ip].p[1], pk[ip].p[2]));
        ph.set_direction(CoordinateVector<>(pk[ip].dir[0], pk[ip].dir[1], pk[ip].dir[2]));
        ph.get_direction()[0] = pk[ip].dir[0]; ph.get_direction()[1] = pk[ip].dir[1]; ph.get_direction()[2] = pk[ip].dir[2];
        ph.set_weight(pk[ip].w);
        ph.set_energy(pk[ip].energy);
        ph.set_target_optical_depth(pk[ip].tau);
        for (int ion = 0; ion < NION; ++ion) ph.set_photoionization_cross_section(ion, pk[ip].sigma[ion]);
      }
      done += n;
      DensitySubGrid &sg = *creator.get_subgrid(target);
      const size_t ti = tasks.get_free_element();
      Task &t = tasks[ti];
      t.set_type(TASKTYPE_PHOTON_TRAVERSAL);
      t.set_subgrid(target);
      t.set_buffer(bi);
      t.set_dependency(sg.get_dependency());
      queues[sg.get_owning_thread()]->add_task(ti);
      st.inc(target == s ? "source_buffers_into_originals" : "source_buffers_into_copies");
    }
  }

  double pmax = 0., Smax = 0.;
  for (int d = 0; d < 3; ++d) { pmax = std::max(pmax, std::max(std::fabs(w.A[d]), std::fabs(w.A[d] + w.S[d]))); Smax = std::max(Smax, w.S[d]); }
  const double btol = 8 * EPS * (pmax + Smax);
  LD nxmax = 0;
  for (int g = 0; g < nc; ++g) nxmax = std::max(nxmax, (LD)w.dens[g] * std::max((LD)w.xH[g], (LD)w.xHe[g]));
  uint64_t harvested = 0;
  bool ok = true;

  // ---- the worker loop of TaskBasedIonizationSimulation, one thread
  uint64_t guard = 0;
  uint_fast32_t current = shared_queue.get_task(tasks);
  bool run = true;
  while (run) {
    if (current == NO_TASK) { premature_launch.execute(); current = scheduler.get_task(0); }
    while (current != NO_TASK) {
      uint_fast32_t num_tasks_to_add = 0;
      uint_fast32_t tasks_to_add[TRAVELDIRECTION_NUMBER];
      int_fast32_t queues_to_add[TRAVELDIRECTION_NUMBER];
      Task &task = tasks[current];
      task.start(0);
      if (task.get_type() == TASKTYPE_PHOTON_TRAVERSAL) {
        PhotonBuffer &buf = buffers[task.get_buffer()];
        const size_t s = buf.get_subgrid_index();
        const int e = buf.get_direction();
        st.inc("traversal_tasks");
        if (s >= T || e < 0 || e >= 27) { VH_VIOL2("handover/buffer-tag", g_case, "buffer names subgrid %zu of %zu, class %d | %s", s, T, e, wstr(w, sp).c_str()); ok = false; }
        else if (monitor) {
          if (task.get_subgrid() != s) VH_VIOL2("handover/buffer-tag", g_case, "task for subgrid %zu carries a buffer for subgrid %zu", task.get_subgrid(), s);
          double sbox[6];
          (*creator.get_subgrid(s)).get_grid_box(sbox);
          for (uint_fast32_t i = 0; i < buf.size(); ++i) {
            const PhotonPacket &ph = buf[i];
            const uint32_t ip = (uint32_t)ph.get_scatter_counter();
            if (ip >= pk.size()) { VH_VIOL2("handover/identity", g_case, "unknown packet id %u in a buffer", ip); ok = false; continue; }
            PkState &S = state[ip];
            const Pk &P = pk[ip];
            bool same = ph.get_weight() == P.w && ph.get_energy() == P.energy;
            for (int d = 0; d < 3; ++d) same = same && ph.get_direction()[d] == P.dir[d];
            for (int ion = 0; ion < NION; ++ion) same = same && ph.get_photoionization_cross_section(ion) == P.sigma[ion];
            if (!same) { VH_VIOL2("handover/identity", g_case, "packet %u changed direction / weight / cross sections on the way | %s", ip, wstr(w, sp).c_str()); ok = false; }
            // (a wall distance of -ulp/|dir| in the first cell may add a round-off sized amount)
            const double grow_tol = (double)(2 * info[ip].delta * nxmax * ((LD)P.sigma[ION_H_n] + (LD)P.sigma[ION_He_n])) + 16 * EPS * S.tau;
            if (!(ph.get_target_optical_depth() <= S.tau + grow_tol) || !(ph.get_target_optical_depth() > 0.)) {
              VH_VIOL2("handover/optical-depth", g_case, "packet %u handed on with remaining optical depth %g (before: %g) | %s", ip, ph.get_target_optical_depth(), S.tau, wstr(w, sp).c_str()); ok = false;
            }
            S.tau = ph.get_target_optical_depth();
            if (e == TRAVELDIRECTION_INSIDE) {
              if (S.seen) { VH_VIOL2("handover/inside-twice", g_case, "packet %u enters a subgrid as INSIDE a second time", ip); ok = false; }
              S.seen = true; S.last_sub = (long)s;
              st.inc("packets_injected");
              continue;
            }
            if (!S.seen) { VH_VIOL2("handover/identity", g_case, "packet %u handed over before it was injected", ip); ok = false; S.seen = true; S.last_sub = (long)s; continue; }
            // the class it left through: opposite of the entry class (own table)
            int x[3]; for (int d = 0; d < 3; ++d) x[d] = -BYID[e]->s[d];
            int xcls = -1; for (int k = 0; k < 27; ++k) if (DIRS[k].s[0] == x[0] && DIRS[k].s[1] == x[1] && DIRS[k].s[2] == x[2]) xcls = DIRS[k].id;
            int wrapped[3];
            const long gn = geo_neighbour(sp.ns, w.per, orig[S.last_sub], xcls, wrapped);
            if (g_trace && S.handovers >= g_trace)
              std::printf("TRACE packet %u hand-over %d: subgrid %ld -> %zu entry %s pos %a,%a,%a dir %a,%a,%a tau %.17g box %a,%a,%a + %a,%a,%a start %a,%a,%a\n", ip, S.handovers, S.last_sub, s, BYID[e]->name,
                          ph.get_position()[0], ph.get_position()[1], ph.get_position()[2], P.dir[0], P.dir[1], P.dir[2], ph.get_target_optical_depth(), sbox[0], sbox[1], sbox[2], sbox[3], sbox[4], sbox[5], P.p[0], P.p[1], P.p[2]);
            st.inc(std::string("handover_entry_") + BYID[e]->name);
            st.inc("handovers");
            if (gn < 0 || gn != orig[s]) {
              VH_VIOL2("handover/neighbour", g_case, "packet %u left subgrid %ld (original %ld) and arrives in subgrid %zu (original %ld) through %s; the geometric neighbour through the opposite class is %ld | %s",
                      ip, S.last_sub, orig[S.last_sub], s, orig[s], BYID[e]->name, gn, wstr(w, sp).c_str());
              ok = false;
            }
            double pbox[6];
            (*creator.get_subgrid((size_t)S.last_sub)).get_grid_box(pbox);
            bool against = false;
            // a packet handed on without a step keeps the position it came with, which a wall
            // distance of -ulp/|dir| in the subgrid before may have moved by a crossing uncertainty
            const double ptol = btol + (double)(2 * info[ip].delta);
            for (int d = 0; d < 3; ++d) {
              const double pd = ph.get_position()[d];
              if (x[d] != 0) {
                const double want = x[d] > 0 ? pbox[d] + pbox[3 + d] : pbox[d];
                if (std::fabs(pd - want) > ptol) { VH_VIOL2("handover/position", g_case, "packet %u enters through %s but coordinate %d = %.17g is not on the boundary %.17g of the subgrid it left | %s", ip, BYID[e]->name, d, pd, want, wstr(w, sp).c_str()); ok = false; }
                // same physical plane seen from the receiving subgrid (modulo the box)
                const double recv = x[d] > 0 ? sbox[d] : sbox[d] + sbox[3 + d];
                const double diff = want - recv - wrapped[d] * w.S[d];
                if (std::fabs(diff) > btol) { VH_VIOL2("handover/continuity", g_case, "packet %u: exit plane %.17g and entry plane %.17g of coordinate %d differ (wrap %d) | %s", ip, want, recv, d, wrapped[d], wstr(w, sp).c_str()); ok = false; }
                if (P.dir[d] * x[d] <= 0.) against = true;
              } else {
                if (pd < pbox[d] - ptol || pd > pbox[d] + pbox[3 + d] + ptol) { VH_VIOL2("handover/position", g_case, "packet %u: coordinate %d = %.17g outside the subgrid it left | %s", ip, d, pd, wstr(w, sp).c_str()); ok = false; }
                if (std::fabs(sbox[d] - pbox[d]) > btol) { VH_VIOL2("handover/continuity", g_case, "packet %u: receiving subgrid is shifted along coordinate %d although the class does not cross it", ip, d); ok = false; }
              }
            }
            if (against) st.inc("handovers_against_direction_of_motion_bounce");
            if (wrapped[0] || wrapped[1] || wrapped[2]) st.inc("handovers_periodic_wrap");
            if (orig[s] == orig[S.last_sub]) st.inc("handovers_to_itself_by_wrap");
            if (s >= N) st.inc("handovers_into_copies");
            // on the packet's own straight line, images unwrapped
            LD u[3], along = 0;
            for (int d = 0; d < 3; ++d) { u[d] = (LD)ph.get_position()[d] + (LD)S.wrap[d] * (LD)w.S[d] - (LD)P.p[d]; along += u[d] * (LD)P.dir[d]; }
            LD off = 0;
            for (int d = 0; d < 3; ++d) { const LD o = u[d] - along * (LD)P.dir[d]; off = std::max(off, (LD)std::fabs((double)o)); }
            ++S.handovers;
            double mind = 1.; for (int d = 0; d < 3; ++d) if (P.dir[d] != 0.) mind = std::min(mind, std::fabs(P.dir[d]));
            const LD ltol = (64 + 8 * S.handovers) * EPS * (Smax + pmax) / mind + 4 * EPS * std::fabs((double)along);
            if (off > ltol || along < -ltol) {
              VH_VIOL2("handover/straight-line", g_case, "packet %u is %Lg away from its own line after %d hand-overs (path so far %Lg, tolerance %Lg) | %s", ip, off, S.handovers, along, ltol, wstr(w, sp).c_str());
              ok = false;
            }
            // the position is still the one in the frame of the subgrid that was left; the
            // receiving subgrid re-positions it, which is where the periodic image changes
            for (int d = 0; d < 3; ++d) S.wrap[d] += wrapped[d];
            S.last_sub = (long)s;
          }
        }
        num_tasks_to_add = traversal.execute(0, thread_context, tasks_to_add, queues_to_add, task);
      } else if (task.get_type() == TASKTYPE_PHOTON_REEMIT) {
        // absorbed packets arrive here; this is where they are harvested
        PhotonBuffer &buf = buffers[task.get_buffer()];
        if (buf.get_direction() != TRAVELDIRECTION_INSIDE) { VH_VIOL2("handover/buffer-tag", g_case, "re-emission buffer tagged with class %d", (int)buf.get_direction()); ok = false; }
        for (uint_fast32_t i = 0; i < buf.size(); ++i) {
          const uint32_t ip = (uint32_t)buf[i].get_scatter_counter();
          if (ip >= pk.size()) { VH_VIOL2("handover/identity", g_case, "unknown packet id %u among the absorbed", ip); ok = false; continue; }
          if (state[ip].harvested) { VH_VIOL2("absorbed/twice", g_case, "packet %u absorbed twice", ip); ok = false; }
          state[ip].harvested = true;
          if (g_watch >= 0 && (long)ip == g_watch)
            std::printf("WATCH packet %u absorbed in subgrid %zu at %a,%a,%a (%.17g,%.17g,%.17g) remaining tau %a, %d hand-overs\n", ip, (size_t)buf.get_subgrid_index(), buf[i].get_position()[0], buf[i].get_position()[1], buf[i].get_position()[2],
                        buf[i].get_position()[0], buf[i].get_position()[1], buf[i].get_position()[2], buf[i].get_target_optical_depth(), state[ip].handovers);
          out.absorbed[ip] = 1;
          for (int d = 0; d < 3; ++d) out.pos[ip * 3 + d] = buf[i].get_position()[d];
          // must lie in the subgrid the buffer belongs to
          double sb[6];
          const size_t s = buf.get_subgrid_index();
          if (s < T) {
            (*creator.get_subgrid(s)).get_grid_box(sb);
            for (int d = 0; d < 3; ++d)
              if (out.pos[ip * 3 + d] < sb[d] - btol || out.pos[ip * 3 + d] > sb[d] + sb[3 + d] + btol) { VH_VIOL2("absorbed/position", g_case, "packet %u absorbed at coordinate %d = %.17g outside subgrid %zu | %s", ip, d, out.pos[ip * 3 + d], s, wstr(w, sp).c_str()); ok = false; }
          }
        }
        harvested += buf.size();
        num_photon_done.pre_add(buf.size());
        buffers.free_buffer(task.get_buffer());
        st.inc("reemit_tasks_harvested");
      } else {
        VH_VIOL2("loop/task-type", g_case, "unexpected task type %d", (int)task.get_type()); ok = false;
      }
      task.stop();
      task.unlock_dependency();
      tasks.free_element(current);
      for (uint_fast32_t it = 0; it < num_tasks_to_add; ++it) {
        if (queues_to_add[it] < 0) shared_queue.add_task(tasks_to_add[it]);
        else queues[queues_to_add[it]]->add_task(tasks_to_add[it]);
      }
      current = scheduler.get_task(0);
      if (++guard > g_maxtasks) {
        size_t worst = 0;
        for (size_t ip = 0; ip < pk.size(); ++ip) if (state[ip].handovers > state[worst].handovers) worst = ip;
        // one key for both packet lists: the same defect
        VH_VIOL("handover/no-termination", g_case, "more than %llu tasks (a normal case needs a few hundred): packet %zu (start %a,%a,%a dir %a,%a,%a tau %.17g) was handed over %d times and is still travelling | %s",
                (unsigned long long)g_maxtasks, worst, pk[worst].p[0], pk[worst].p[1], pk[worst].p[2], pk[worst].dir[0], pk[worst].dir[1], pk[worst].dir[2], pk[worst].tau, state[worst].handovers, wstr(w, sp).c_str());
        ok = false; run = false; break;
      }
    }
    if (buffers.is_empty() && num_photon_done.value() == pk.size()) run = false;
    else {
      current = scheduler.get_task(0);
      if (current == NO_TASK) {
        premature_launch.execute();
        current = scheduler.get_task(0);
        if (current == NO_TASK) {
          VH_VIOL2("loop/stuck", g_case, "no task left but %zu buffers active and %u of %zu packets done | %s", buffers.get_number_of_active_buffers(), (unsigned)num_photon_done.value(), pk.size(), wstr(w, sp).c_str());
          ok = false; run = false;
        }
      }
    }
  }
  // nothing left behind
  for (size_t i = 0; i < T && ok; ++i)
    for (int d = 0; d < 27; ++d)
      if ((*creator.get_subgrid(i)).get_active_buffer(d) != NEIGHBOUR_OUTSIDE) { VH_VIOL2("loop/leftover-buffer", g_case, "subgrid %zu keeps an active buffer for class %s at the end", i, BYID[d]->name); ok = false; break; }
  if (ok && tasks.get_number_of_active_elements() != 0) VH_VIOL2("loop/leftover-task", g_case, "%zu task slots still taken", tasks.get_number_of_active_elements());

  // ---- assemble: fold the copies, read the originals cell by cell
  creator.update_original_counters();
  for (size_t i = 0; i < N; ++i) {
    DensitySubGrid &sg = *creator.get_subgrid(i);
    for (auto it = sg.begin(); it != sg.end(); ++it) {
      const CoordinateVector<> m = it.get_cell_midpoint();
      int idx[3];
      for (int d = 0; d < 3; ++d) idx[d] = std::min(std::max((int)std::floor((m[d] - w.A[d]) / (w.S[d] / w.Ng[d])), 0), w.Ng[d] - 1);
      const int g = w.gidx(idx[0], idx[1], idx[2]);
      for (int q = 0; q < 3; ++q) out.J[g * 3 + q] += (LD)it.get_ionization_variables().get_mean_intensity(QION[q]);
    }
  }
  st.inc("packets_absorbed_real", harvested);
  delete queues[0];
  delete thread_context;
  return ok;
}

// ---------------------------------------------------------------------------
// all comparison failures of the edge-start list share one key (one defect, several symptoms)
static std::string ckey(const char *what, const char *clause) {
  return g_prefix.empty() ? std::string(what) + clause : g_prefix + "result-differs";
}
static double perdiff(double a, double b, double S, bool per) {
  double d = a - b;
  if (per) { d = std::fmod(d, S); if (d > 0.5 * S) d -= S; if (d < -0.5 * S) d += S; }
  return std::fabs(d);
}

static void compare(const World &w, const Split &sp, const std::vector<Pk> &pk, const Outcome &a, const Outcome &b, const std::vector<LD> &Jtol,
                    const std::vector<OraclePk> &info, const char *what, LD factor) {
  const int nc = w.ncell();
  int bad = 0;
  for (int g = 0; g < nc && bad < 3; ++g)
    for (int q = 0; q < 3; ++q) {
      const LD x = a.J[g * 3 + q], y = b.J[g * 3 + q];
      const LD tol = factor * Jtol[g * 3 + q] + 4096 * EPS * (std::fabs((double)x) + std::fabs((double)y));
      st.inc("cells_compared");
      if (!(std::fabs((double)(x - y)) <= tol)) {
        VH_VIOL(ckey(what, "/estimator").c_str(), g_case, "%s: cell %d (%d,%d,%d) ion %d: %.17Lg vs %.17Lg (difference %Lg, tolerance %Lg) | %s", what, g, g / (w.Ng[1] * w.Ng[2]), (g / w.Ng[2]) % w.Ng[1], g % w.Ng[2], QION[q], x, y, x - y, tol, wstr(w, sp).c_str());
        ++bad; break;
      }
      if (y != 0) {
        st.maxd(std::string(what) + "_max_estimator_error_over_tolerance", (double)(std::fabs((double)(x - y)) / tol));
        st.maxd(std::string(what) + "_max_tolerance_relative_to_estimator", (double)(tol / std::fabs((double)y)));
        if (tol > 1e-6 * std::fabs((double)y)) st.inc("cells_with_relative_tolerance_above_1e-6");
        if (tol > 1e-3 * std::fabs((double)y)) st.inc("cells_with_relative_tolerance_above_1e-3");
      }
    }
  bad = 0;
  for (size_t ip = 0; ip < pk.size() && bad < 3; ++ip) {
    if (info[ip].tie_escape) { st.inc("decision_ties_skipped"); continue; }
    if (a.absorbed[ip] != b.absorbed[ip]) {
      VH_VIOL(ckey(what, "/decision").c_str(), g_case, "%s: packet %zu (start %a,%a,%a dir %a,%a,%a tau %.17g): %s vs %s | %s", what, ip, pk[ip].p[0], pk[ip].p[1], pk[ip].p[2], pk[ip].dir[0], pk[ip].dir[1], pk[ip].dir[2], pk[ip].tau,
              a.absorbed[ip] ? "absorbed" : "escaped", b.absorbed[ip] ? "absorbed" : "escaped", wstr(w, sp).c_str());
      ++bad; continue;
    }
    st.inc(a.absorbed[ip] ? "decisions_compared_absorbed" : "decisions_compared_escaped");
    if (!a.absorbed[ip]) continue;
    const LD tol = factor * (2 * info[ip].delta * (info[ip].nseg + 2) + info[ip].ds) + 16 * EPS * (std::fabs(w.A[0]) + std::fabs(w.A[1]) + std::fabs(w.A[2]) + w.S[0] + w.S[1] + w.S[2]);
    for (int d = 0; d < 3; ++d) {
      const double df = perdiff(a.pos[ip * 3 + d], b.pos[ip * 3 + d], w.S[d], w.per[d]);
      if (!(df <= tol)) {
        VH_VIOL(ckey(what, "/absorption-position").c_str(), g_case, "%s: packet %zu coordinate %d: %.17g vs %.17g (tolerance %Lg; %d pieces, delta %Lg, absorption slack %Lg; start %a,%a,%a dir %a,%a,%a tau %.17g) | %s", what, ip, d, a.pos[ip * 3 + d], b.pos[ip * 3 + d], tol, info[ip].nseg, info[ip].delta, info[ip].ds,
                pk[ip].p[0], pk[ip].p[1], pk[ip].p[2], pk[ip].dir[0], pk[ip].dir[1], pk[ip].dir[2], pk[ip].tau, wstr(w, sp).c_str());
        ++bad; break;
      }
    }
  }
}

static double HX(const char *t) { return std::strtod(t, nullptr); } // hex floating literals are not C++11

int main(int argc, char **argv) {
  const uint64_t seed = vh::arg_u64(argc, argv, "--seed", 1);
  const uint64_t ncases = vh::arg_u64(argc, argv, "--cases", 5);
  const uint64_t npk = vh::arg_u64(argc, argv, "--packets", 2000);
  const int64_t only = (int64_t)vh::arg_u64(argc, argv, "--only", (uint64_t)-1);
  omp_set_num_threads(1);
  g_trace = (int)vh::arg_u64(argc, argv, "--trace-after", 0);
  g_watch = (long)vh::arg_u64(argc, argv, "--watch", (uint64_t)-1);
  g_maxtasks = vh::arg_u64(argc, argv, "--max-tasks", 300000ull);
  for (int i = 0; i < 27; ++i) BYID[DIRS[i].id] = &DIRS[i];
  if (vh::arg_flag(argc, argv, "--pinned")) {
    // Pinned witness of the finding "handover/no-termination" (found by this harness, seed 1):
    // one undivided box, periodic in y and z; the packet starts on the box edge (y and z on the lower
    // box faces) with x one ulp below a cell wall whose truncated index names the cell above it, and
    // moves towards -x,-y,-z.  It is handed from the subgrid to itself for ever.
    World w;
    w.A[0] = HX("-0x1.795991bf8cbd9p+0"); w.A[1] = HX("-0x1.e8c301dff4a2ap+0"); w.A[2] = HX("0x1.6fad07cfd0bdp+1");
    w.S[0] = HX("0x1.17c1754d354adp+0"); w.S[1] = HX("0x1.37424f9564777p+1"); w.S[2] = HX("0x1.8dc4aeedef88cp+0");
    w.Ng[0] = 6; w.Ng[1] = 4; w.Ng[2] = 2;
    w.per[0] = false; w.per[1] = true; w.per[2] = true;
    const int nc = w.ncell();
    w.dens.assign(nc, 1e22); w.xH.assign(nc, 0.5); w.xHe.assign(nc, 0.5);
    std::vector<Pk> pk(1);
    pk[0].p[0] = HX("-0x1.2070b553c0a92p-1"); pk[0].p[1] = HX("-0x1.e8c301dff4a2ap+0"); pk[0].p[2] = HX("0x1.6fad07cfd0bdp+1");
    pk[0].dir[0] = HX("-0x1.93ca367390db2p-1"); pk[0].dir[1] = HX("-0x1.d87c454181cb9p-2"); pk[0].dir[2] = HX("-0x1.a01c6dafef41cp-2");
    pk[0].tau = 4.8487278158820235; pk[0].w = 1.; pk[0].energy = 1e16;
    for (int ion = 0; ion < NION; ++ion) pk[0].sigma[ion] = 1e-22 * (1. + 0.1 * ion);
    Split one; one.ns[0] = one.ns[1] = one.ns[2] = 1; one.levels.assign(1, 0);
    Outcome orc, whole;
    std::vector<LD> Jtol;
    std::vector<OraclePk> info;
    oracle(w, pk, orc, Jtol, info);
    g_maxtasks = std::min<uint64_t>(g_maxtasks, 20000);
    vh::Rng r2(777);
    const bool ok = run_real(w, one, pk, info, whole, r2, true);
    if (ok) compare(w, one, pk, whole, orc, Jtol, info, "undivided-vs-geometry", 1);
    st.inc("pinned_cases");
    std::printf("SAMPLE pinned %s packet start %a,%a,%a dir %a,%a,%a tau %.17g: geometry says %s, real run %s\n", wstr(w, one).c_str(), pk[0].p[0], pk[0].p[1], pk[0].p[2],
                pk[0].dir[0], pk[0].dir[1], pk[0].dir[2], pk[0].tau, orc.absorbed[0] ? "absorbed" : "escaped", ok ? "finished" : "did not finish");
    st.print();
    std::printf("DONE violations=%" PRIu64 "\n", vh::g_nviol);
    return vh::g_nviol ? 1 : 0;
  }
  vh::Rng master(seed * 1000003ull + 32);
  for (uint64_t ic = 0; ic < ncases; ++ic) {
    vh::Rng r = master.fork(ic);
    if (only >= 0 && (uint64_t)only != ic) continue;
    g_case = ic;
    // ---- the world
    World w; Split sp;
    int ncs[3];
    const uint64_t mix = seed * 7919 + ic; // walk through all periodicity flags and the special layouts
    for (int d = 0; d < 3; ++d) {
      sp.ns[d] = 1 + (int)r.below(4);
      ncs[d] = 1 + (int)r.below(3);
      w.per[d] = (mix >> d) & 1;
    }
    if ((mix / 8) % 4 == 0) { const int d = (int)r.below(3); sp.ns[d] = 1; w.per[d] = true; }
    if ((mix / 8) % 4 == 1) { const int d = (int)r.below(3); sp.ns[d] = 2; w.per[d] = true; }
    const double scale = r.chance(0.5) ? 1. : 3.0856775814913674e16;
    // half of the worlds live on an exact binary lattice (all walls and the aimed starts are
    // exactly representable, so that wall distances tie exactly and edges / corners are really hit)
    const bool lattice = r.chance(0.5);
    const double unit = std::ldexp(1., -10 + (scale == 1. ? 0 : 54));
    for (int d = 0; d < 3; ++d) {
      w.Ng[d] = sp.ns[d] * ncs[d];
      if (lattice) {
        const double hc = (2. * (double)r.range(150, 1500) + 1.) * unit;
        w.S[d] = w.Ng[d] * hc;
        w.A[d] = (r.chance(0.5) ? 1. : -1.) * (double)r.range(1, 20000) * unit;
      } else {
        w.S[d] = scale * r.uniform(0.4, 2.5);
        w.A[d] = scale * r.uniform(-3., 3.);
      }
    }
    st.inc(lattice ? "worlds_exact_lattice" : "worlds_generic");
    const int nc = w.ncell();
    w.dens.resize(nc); w.xH.resize(nc); w.xHe.resize(nc);
    const double Smin = std::min(w.S[0], std::min(w.S[1], w.S[2]));
    const double sig_unit = 1e-22;
    const double contrast = r.chance(0.3) ? 1. : r.chance(0.5) ? 10. : 1000.;
    const bool anyper = w.per[0] || w.per[1] || w.per[2];
    // optical depth per shortest box side of the thinnest cell: at least ~0.3 when packets cannot escape
    const double base = anyper ? r.uniform(0.6, 2.) : r.loguniform(0.02, 3.);
    for (int g = 0; g < nc; ++g) {
      w.dens[g] = base * r.loguniform(1., contrast) / (sig_unit * Smin);
      w.xH[g] = r.uniform(0.3, 1.);
      w.xHe[g] = r.uniform(0.3, 1.);
    }
    // copy levels: half of the cases
    const int N = sp.ns[0] * sp.ns[1] * sp.ns[2];
    sp.levels.assign(N, 0);
    if (r.chance(0.5)) { for (int i = 0; i < N; ++i) sp.levels[i] = r.chance(0.4) ? (uint_fast8_t)(1 + r.below(N > 27 ? 1 : 2)) : 0; st.inc("cases_with_copies"); }

    // ---- the packet list
    std::vector<Pk> pk(npk);
    PhotonPacket scratch;
    for (size_t ip = 0; ip < npk; ++ip) {
      Pk &p = pk[ip];
      double v[3];
      const double ct = r.uniform(-1., 1.), ph = r.uniform(0., 2. * M_PI), stt = std::sqrt(std::max(0., 1. - ct * ct));
      v[0] = stt * std::cos(ph); v[1] = stt * std::sin(ph); v[2] = ct;
      const int dk = (int)r.below(100);
      if (dk < 6) { const int a = (int)r.below(3); const double s = r.chance(0.5) ? 1. : -1.; v[0] = v[1] = v[2] = 0.; v[a] = s; st.inc("dir_axis_aligned"); }
      else if (dk < 12) { v[r.below(3)] = 0.; st.inc("dir_in_plane"); }
      else if (dk < 24) { // through cell / subgrid corners
        for (int d = 0; d < 3; ++d) v[d] = (r.chance(0.5) ? 1. : -1.) * (w.S[d] / w.Ng[d]) * (double)r.range(1, 3);
        st.inc("dir_cell_diagonal");
      } else if (dk < 30) { // exact (+-1,+-1,+-1), (+-1,+-1,0): ties when aimed from a corner
        for (int d = 0; d < 3; ++d) v[d] = r.chance(0.5) ? 1. : -1.;
        if (r.chance(0.4)) v[r.below(3)] = 0.;
        st.inc("dir_equal_components");
      }
      // aimed at an edge or corner of a subgrid: equal components, equal distances
      int aim[3] = {0, 0, 0}; int aimc[3] = {0, 0, 0}; double aim_t = 0.;
      if (dk >= 30 && dk < 48) {
        int nz = 0;
        while (nz < 2) { nz = 0; for (int d = 0; d < 3; ++d) { aim[d] = (int)r.below(3) - 1; nz += aim[d] != 0; } }
        double hmin = 1e300;
        for (int d = 0; d < 3; ++d) {
          hmin = std::min(hmin, w.S[d] / w.Ng[d]);
          // plane index: the start (plane - aim*t) must stay inside the box
          aimc[d] = aim[d] > 0 ? 1 + (int)r.below(sp.ns[d]) : (int)r.below(sp.ns[d]);
          v[d] = aim[d] ? (double)aim[d] : (r.chance(0.5) ? 0. : r.uniform(-0.3, 0.3));
        }
        aim_t = hmin * r.uniform(0.05, 0.95);
        if (lattice) { const double q = std::ldexp(1., std::ilogb(hmin) - 24); aim_t = std::floor(aim_t / q) * q; }
        st.inc("dir_aimed_at_subgrid_edge_or_corner");
      }
      scratch.set_direction(CoordinateVector<>(v[0], v[1], v[2]));
      for (int d = 0; d < 3; ++d) p.dir[d] = scratch.get_direction()[d];
      for (int d = 0; d < 3; ++d) {
        if (aim[d]) { p.p[d] = w.A[d] + aimc[d] * (w.S[d] / sp.ns[d]) - aim[d] * aim_t; continue; }
        if (aim_t > 0.) { p.p[d] = w.A[d] + ((double)r.below(w.Ng[d]) + 0.375) * (w.S[d] / w.Ng[d]); continue; }
        const int pkind = (int)r.below(100);
        const double hsub = w.S[d] / sp.ns[d], hcell = w.S[d] / w.Ng[d];
        double x;
        if (pkind < 45) x = w.A[d] + w.S[d] * r.uniform(0.001, 0.999);
        else if (pkind < 65) { x = w.A[d] + (double)r.below(sp.ns[d]) * hsub; st.inc("start_coordinate_on_subgrid_boundary"); }
        else if (pkind < 75) { // one or two ulp next to an internal subgrid boundary
          x = w.A[d] + (double)r.below(sp.ns[d]) * hsub;
          const int k = 1 + (int)r.below(2);
          x = (r.chance(0.5) && x > w.A[d]) ? vh::nextdown(x, k) : vh::nextup(x, k);
          st.inc("start_coordinate_ulp_next_to_subgrid_boundary");
        } else if (pkind < 90) { x = w.A[d] + (double)r.below(w.Ng[d]) * hcell; st.inc("start_coordinate_on_cell_wall"); }
        else x = w.A[d] + 0.5 * w.S[d];
        // keep it inside the half-open box (a source on the upper box face belongs to no subgrid)
        if (x < w.A[d]) x = w.A[d];
        while (x >= w.A[d] + w.S[d] || std::floor((x - w.A[d]) / hsub) >= sp.ns[d]) x = vh::nextdown(x, 4);
        // rays lying exactly in a wall plane may be credited to either side: keep them off the walls
        if (p.dir[d] == 0.) {
          const double t = (x - w.A[d]) / hcell;
          if (std::fabs(t - std::floor(t + 0.5)) < 1e-6) x = w.A[d] + (std::floor(t + 0.5) + 0.37) * hcell;
          if (x >= w.A[d] + w.S[d]) x = w.A[d] + 0.37 * hcell;
        }
        p.p[d] = x;
      }
      const int tk = (int)r.below(100);
      if (tk < 70) p.tau = -std::log(1. - r.uniform());
      else if (tk < 80) p.tau = r.loguniform(1e-9, 1e-2);
      else p.tau = r.uniform(3., anyper ? 8. : 40.);
      if (!(p.tau > 0.)) p.tau = 1e-9;
      p.w = r.loguniform(0.1, 10.);
      p.energy = r.uniform(6e15, 2e16);
      const double sH = sig_unit * r.uniform(0.5, 5.), sHe = sig_unit * r.uniform(0.5, 5.);
      for (int ion = 0; ion < NION; ++ion) p.sigma[ion] = sH * (1. + 0.1 * ion);
      p.sigma[ION_H_n] = sH; p.sigma[ION_He_n] = sHe;
    }

    // ---- oracle, split layout, undivided layout
    Outcome orc, split, whole;
    std::vector<LD> Jtol;
    std::vector<OraclePk> info;
    oracle(w, pk, orc, Jtol, info);
    uint64_t nseg = 0; for (auto &i : info) nseg += i.nseg;
    st.inc("oracle_segments", nseg);
    vh::Rng r2 = r.fork(77);
    const bool ok1 = run_real(w, sp, pk, info, split, r2, true);
    Split one; one.ns[0] = one.ns[1] = one.ns[2] = 1; one.levels.assign(1, 0);
    const bool ok2 = run_real(w, one, pk, info, whole, r2, true);
    if (ok1) compare(w, sp, pk, split, orc, Jtol, info, "split-vs-geometry", 1);
    if (ok2) compare(w, one, pk, whole, orc, Jtol, info, "undivided-vs-geometry", 1);
    if (ok1 && ok2) compare(w, sp, pk, split, whole, Jtol, info, "split-vs-undivided", 2);
    // ---- second list: starts exactly on an edge shared by four subgrids, third coordinate on
    // a cell wall whose "position times inverse cell size" index names the cell across the wall
    {
      std::vector<Pk> hp;
      uint64_t nmis = 0;
      for (int k = 0; k < 128; ++k) {
        Pk p;
        const int dw = (int)r.below(3);
        double v[3];
        int sgnw = -1;
        for (int d = 0; d < 3; ++d) {
          const double side = w.S[d] / sp.ns[d];
          const int nc = w.Ng[d] / sp.ns[d];
          const int i0 = (int)r.below(sp.ns[d]);
          if (d != dw) { p.p[d] = w.A[d] + i0 * side; continue; }
          const double cs = side / nc, inv = nc / side;
          p.p[d] = w.A[d] + i0 * side + (nc > 1 ? (1 + (int)r.below(nc - 1)) : 0) * cs;
          bool found = false;
          const int j0 = (int)r.below(nc);
          for (int ii = 0; ii < sp.ns[d] && !found; ++ii)
          for (int jj = 0; jj < nc && !found; ++jj)
            for (int u = -2; u <= 2 && !found; ++u) {
              const int i = (i0 + ii) % sp.ns[d], j = (j0 + jj) % nc;
              if (j == 0) continue;
              const double anchor = w.A[d] + i * side;
              double pa = anchor + j * cs;
              if (u > 0) pa = vh::nextup(pa, u);
              if (u < 0) pa = vh::nextdown(pa, -u);
              const double rel = pa - anchor;
              const int idx = (int)(rel * inv);
              if (idx < 0 || idx >= nc) continue;
              if (rel < idx * cs) { p.p[d] = pa; sgnw = -1; found = true; }
              else if (rel > (idx + 1.) * cs) { p.p[d] = pa; sgnw = 1; found = true; }
            }
          if (found) ++nmis;
        }
        for (int d = 0; d < 3; ++d) v[d] = (d == dw ? sgnw : -1) * r.uniform(0.05, 1.);
        scratch.set_direction(CoordinateVector<>(v[0], v[1], v[2]));
        for (int d = 0; d < 3; ++d) p.dir[d] = scratch.get_direction()[d];
        p.tau = r.chance(0.5) ? -std::log(1. - r.uniform()) : r.uniform(2., 6.);
        if (!(p.tau > 0.)) p.tau = 1e-9;
        p.w = r.loguniform(0.1, 10.);
        p.energy = r.uniform(6e15, 2e16);
        const double sH = sig_unit * r.uniform(0.5, 5.), sHe = sig_unit * r.uniform(0.5, 5.);
        for (int ion = 0; ion < NION; ++ion) p.sigma[ion] = sH * (1. + 0.1 * ion);
        p.sigma[ION_H_n] = sH; p.sigma[ION_He_n] = sHe;
        hp.push_back(p);
      }
      st.inc("edge_start_packets", hp.size());
      st.inc("edge_start_packets_with_index_across_the_wall", nmis);
      g_prefix = "edge-start/";
      const uint64_t keep = g_maxtasks;
      g_maxtasks = std::min<uint64_t>(g_maxtasks, 20000);
      Outcome o2, s2, w2;
      std::vector<LD> Jtol2;
      std::vector<OraclePk> info2;
      oracle(w, hp, o2, Jtol2, info2);
      const bool h1 = run_real(w, sp, hp, info2, s2, r2, true);
      const bool h2 = run_real(w, one, hp, info2, w2, r2, true);
      if (h1) compare(w, sp, hp, s2, o2, Jtol2, info2, "split-vs-geometry", 1);
      if (h2) compare(w, one, hp, w2, o2, Jtol2, info2, "undivided-vs-geometry", 1);
      g_maxtasks = keep;
      g_prefix = "";
    }
    st.inc("layout_cases");
    st.inc(fmt("periodicity_%d%d%d", (int)w.per[0], (int)w.per[1], (int)w.per[2]));
    for (int d = 0; d < 3; ++d) {
      if (w.per[d] && sp.ns[d] == 1) st.inc("periodic_axis_with_1_subgrid");
      if (w.per[d] && sp.ns[d] == 2) st.inc("periodic_axis_with_2_subgrids");
      if (w.per[d] && sp.ns[d] >= 3) st.inc("periodic_axis_with_3plus_subgrids");
      st.inc(fmt("subgrids_per_axis_%d", sp.ns[d]));
    }
    st.inc("packets", npk);
    if (ic < 3 || only >= 0) std::printf("SAMPLE case=%" PRIu64 " %s packets=%zu oracle_segments=%" PRIu64 " ok_split=%d ok_undivided=%d\n", ic, wstr(w, sp).c_str(), pk.size(), nseg, (int)ok1, (int)ok2);
  }
  st.print();
  std::printf("DONE violations=%" PRIu64 "\n", vh::g_nviol);
  return vh::g_nviol ? 1 : 0;
}
