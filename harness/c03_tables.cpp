// C03 layer 1: exhaustive audit of the 27-direction tables against definitions
// written down independently from the documentation of the enum
// (P = upper limit, N = lower limit of a coordinate).
//
//  A  output_to_input_direction is the point reflection (N <-> P), an involution
//  B  TravelDirections::get_output_direction(mask): all 64 masks
//  C  is_compatible_output_direction / is_compatible_input_direction: all 27 classes x
//     6^3 sign patterns of the direction (incl. +-0 and +-1e-300)
//  D  DensitySubGrid::get_output_direction(three_index): all index patterns
//  E  entry tables: get_start_index (27 classes) and update_photon_position
//  F  DensitySubGridCreator::create_subgrid neighbour tables: every layout 1..4 per axis,
//     every periodicity flag, every subgrid, every class (wrap incl. 1 and 2 subgrids)
#include "DensitySubGridCreator.hpp"
#include "vh.hpp"
#include <string>
#include <vector>

struct DirCode {
  int id;
  int s[3];
  const char *name;
};
static const DirCode DIRS[27] = {
    {TRAVELDIRECTION_INSIDE, {0, 0, 0}, "INSIDE"},
    {TRAVELDIRECTION_CORNER_PPP, {1, 1, 1}, "CORNER_PPP"},
    {TRAVELDIRECTION_CORNER_PPN, {1, 1, -1}, "CORNER_PPN"},
    {TRAVELDIRECTION_CORNER_PNP, {1, -1, 1}, "CORNER_PNP"},
    {TRAVELDIRECTION_CORNER_PNN, {1, -1, -1}, "CORNER_PNN"},
    {TRAVELDIRECTION_CORNER_NPP, {-1, 1, 1}, "CORNER_NPP"},
    {TRAVELDIRECTION_CORNER_NPN, {-1, 1, -1}, "CORNER_NPN"},
    {TRAVELDIRECTION_CORNER_NNP, {-1, -1, 1}, "CORNER_NNP"},
    {TRAVELDIRECTION_CORNER_NNN, {-1, -1, -1}, "CORNER_NNN"},
    {TRAVELDIRECTION_EDGE_X_PP, {0, 1, 1}, "EDGE_X_PP"},
    {TRAVELDIRECTION_EDGE_X_PN, {0, 1, -1}, "EDGE_X_PN"},
    {TRAVELDIRECTION_EDGE_X_NP, {0, -1, 1}, "EDGE_X_NP"},
    {TRAVELDIRECTION_EDGE_X_NN, {0, -1, -1}, "EDGE_X_NN"},
    {TRAVELDIRECTION_EDGE_Y_PP, {1, 0, 1}, "EDGE_Y_PP"},
    {TRAVELDIRECTION_EDGE_Y_PN, {1, 0, -1}, "EDGE_Y_PN"},
    {TRAVELDIRECTION_EDGE_Y_NP, {-1, 0, 1}, "EDGE_Y_NP"},
    {TRAVELDIRECTION_EDGE_Y_NN, {-1, 0, -1}, "EDGE_Y_NN"},
    {TRAVELDIRECTION_EDGE_Z_PP, {1, 1, 0}, "EDGE_Z_PP"},
    {TRAVELDIRECTION_EDGE_Z_PN, {1, -1, 0}, "EDGE_Z_PN"},
    {TRAVELDIRECTION_EDGE_Z_NP, {-1, 1, 0}, "EDGE_Z_NP"},
    {TRAVELDIRECTION_EDGE_Z_NN, {-1, -1, 0}, "EDGE_Z_NN"},
    {TRAVELDIRECTION_FACE_X_P, {1, 0, 0}, "FACE_X_P"},
    {TRAVELDIRECTION_FACE_X_N, {-1, 0, 0}, "FACE_X_N"},
    {TRAVELDIRECTION_FACE_Y_P, {0, 1, 0}, "FACE_Y_P"},
    {TRAVELDIRECTION_FACE_Y_N, {0, -1, 0}, "FACE_Y_N"},
    {TRAVELDIRECTION_FACE_Z_P, {0, 0, 1}, "FACE_Z_P"},
    {TRAVELDIRECTION_FACE_Z_N, {0, 0, -1}, "FACE_Z_N"}};
static const DirCode *BYID[27];
static int id_of(int sx, int sy, int sz) {
  for (int i = 0; i < 27; ++i)
    if (DIRS[i].s[0] == sx && DIRS[i].s[1] == sy && DIRS[i].s[2] == sz) return DIRS[i].id;
  return -1;
}

// exposes the protected entry helpers of the real class (no re-implementation)
struct Probe : public DensitySubGrid {
  Probe(const double *box, const CoordinateVector< int_fast32_t > n) : DensitySubGrid(box, n) {}
  void snap(int cls, CoordinateVector<> &p) const { update_photon_position(cls, p); }
};

int main(int argc, char **argv) {
  vh::Stats st;
  uint64_t cs = 0; // case counter for VIOL lines
  for (int i = 0; i < 27; ++i) BYID[i] = nullptr;
  for (int i = 0; i < 27; ++i) {
    if (DIRS[i].id < 0 || DIRS[i].id >= 27 || BYID[DIRS[i].id]) { std::printf("VIOL key=tables/enum case=0 the 27 identifiers are not a permutation of 0..26\nDONE violations=1\n"); return 1; }
    BYID[DIRS[i].id] = &DIRS[i];
  }
  if (TRAVELDIRECTION_NUMBER != 27) VH_VIOL("tables/enum", 0, "TRAVELDIRECTION_NUMBER = %d", (int)TRAVELDIRECTION_NUMBER);

  // ---- A
  for (int i = 0; i < 27; ++i, ++cs) {
    const int *s = BYID[i]->s;
    const int want = id_of(-s[0], -s[1], -s[2]);
    const int got = (int)TravelDirections::output_to_input_direction(i);
    if (got != want) VH_VIOL("tables/opposite", cs, "output_to_input_direction(%s) = %d, the opposite class is %s", BYID[i]->name, got, BYID[want]->name);
    else if ((int)TravelDirections::output_to_input_direction(got) != i) VH_VIOL("tables/opposite", cs, "not an involution at %s", BYID[i]->name);
    st.inc("opposite_entries_checked");
  }
  // ---- B
  for (int mask = 0; mask < 64; ++mask, ++cs) {
    int s[3]; bool valid = true;
    for (int d = 0; d < 3; ++d) {
      const bool high = (mask >> (5 - 2 * d)) & 1, low = (mask >> (4 - 2 * d)) & 1;
      if (high && low) valid = false;
      s[d] = high ? 1 : low ? -1 : 0;
    }
    const int want = valid ? id_of(s[0], s[1], s[2]) : -1;
    const int got = (int)TravelDirections::get_output_direction(mask);
    if (got != want) VH_VIOL("tables/mask", cs, "get_output_direction(mask %d) = %d, expected %d", mask, got, want);
    st.inc(valid ? "masks_valid_checked" : "masks_invalid_checked");
  }
  // ---- C
  static const double vals[6] = {-1., -1e-300, -0., 0., 1e-300, 1.};
  for (int i = 0; i < 27; ++i)
    for (int a = 0; a < 6; ++a) for (int b = 0; b < 6; ++b) for (int c = 0; c < 6; ++c, ++cs) {
      const double v[3] = {vals[a], vals[b], vals[c]};
      const CoordinateVector<> dir(v[0], v[1], v[2]);
      bool out_ok = true, in_ok = true;
      for (int d = 0; d < 3; ++d) {
        const int sg = v[d] > 0. ? 1 : v[d] < 0. ? -1 : 0;
        if (BYID[i]->s[d] != 0 && sg != BYID[i]->s[d]) out_ok = false;  // leaves through P only when moving up
        if (BYID[i]->s[d] != 0 && sg != -BYID[i]->s[d]) in_ok = false;  // enters through P only when moving down
      }
      if (TravelDirections::is_compatible_output_direction(dir, i) != out_ok)
        VH_VIOL("tables/compatible-output", cs, "%s with direction (%g,%g,%g): table says %d", BYID[i]->name, v[0], v[1], v[2], (int)!out_ok);
      if (TravelDirections::is_compatible_input_direction(dir, i) != in_ok)
        VH_VIOL("tables/compatible-input", cs, "%s with direction (%g,%g,%g): table says %d", BYID[i]->name, v[0], v[1], v[2], (int)!in_ok);
      st.inc("compatibility_entries_checked", 2);
    }
  // ---- D, E on a few block shapes
  static const int shapes[5][3] = {{1, 1, 1}, {2, 3, 5}, {8, 1, 4}, {3, 3, 3}, {1, 7, 2}};
  for (int sh = 0; sh < 5; ++sh) {
    const int *n = shapes[sh];
    const double box[6] = {-3.25, 7.5, 0.625, 1.7 * n[0], 0.9 * n[1], 2.3 * n[2]};
    Probe g(box, CoordinateVector< int_fast32_t >(n[0], n[1], n[2]));
    const double csz[3] = {box[3] / n[0], box[4] / n[1], box[5] / n[2]};
    // D
    for (int a = 0; a < 4; ++a) for (int b = 0; b < 4; ++b) for (int c = 0; c < 4; ++c, ++cs) {
      const int pick[3] = {a, b, c};
      int idx[3], s[3];
      for (int d = 0; d < 3; ++d) {
        idx[d] = pick[d] == 0 ? -1 : pick[d] == 1 ? 0 : pick[d] == 2 ? n[d] - 1 : n[d];
        s[d] = idx[d] < 0 ? -1 : idx[d] >= n[d] ? 1 : 0;
      }
      const int got = (int)g.get_output_direction(CoordinateVector< int_fast32_t >(idx[0], idx[1], idx[2]));
      const int want = id_of(s[0], s[1], s[2]);
      if (got != want) VH_VIOL("tables/exit-from-index", cs, "block %dx%dx%d index (%d,%d,%d): class %d, expected %s", n[0], n[1], n[2], idx[0], idx[1], idx[2], got, BYID[want]->name);
      st.inc("exit_index_patterns_checked");
    }
    // E: every class, every cell (free coordinates at the cell centre, declared ones garbage)
    for (int i = 0; i < 27; ++i)
      for (int ix = 0; ix < n[0]; ++ix) for (int iy = 0; iy < n[1]; ++iy) for (int iz = 0; iz < n[2]; ++iz, ++cs) {
        const int cell[3] = {ix, iy, iz};
        CoordinateVector<> p;
        int want[3];
        for (int d = 0; d < 3; ++d) {
          p[d] = (cell[d] + 0.5) * csz[d];
          want[d] = cell[d];
          if (BYID[i]->s[d] > 0) { want[d] = n[d] - 1; }
          if (BYID[i]->s[d] < 0) { want[d] = 0; }
        }
        CoordinateVector<> q = p;
        for (int d = 0; d < 3; ++d) if (BYID[i]->s[d] != 0) q[d] = 12345.678; // must be overwritten
        g.snap(i, q);
        for (int d = 0; d < 3; ++d) {
          const double wantp = BYID[i]->s[d] > 0 ? n[d] * csz[d] : BYID[i]->s[d] < 0 ? 0. : p[d];
          if (q[d] != wantp) VH_VIOL("tables/entry-position", cs, "%s: coordinate %d moved to %.17g, expected %.17g", BYID[i]->name, d, q[d], wantp);
        }
        CoordinateVector< int_fast32_t > ti;
        const int one = (int)g.get_start_index(q, i, ti);
        if (ti[0] != want[0] || ti[1] != want[1] || ti[2] != want[2])
          VH_VIOL("tables/entry-index", cs, "%s in block %dx%dx%d at cell (%d,%d,%d): start cell (%d,%d,%d), expected (%d,%d,%d)", BYID[i]->name, n[0], n[1], n[2], ix, iy, iz, (int)ti[0], (int)ti[1], (int)ti[2], want[0], want[1], want[2]);
        // the storage index must be the cell whose midpoint is the expected cell centre
        if (one < 0 || one >= n[0] * n[1] * n[2]) VH_VIOL("tables/entry-index", cs, "%s: storage index %d out of range", BYID[i]->name, one);
        else {
          const CoordinateVector<> mid = g.get_cell_midpoint(one);
          for (int d = 0; d < 3; ++d)
            if (std::fabs(mid[d] - (box[d] + (want[d] + 0.5) * csz[d])) > 1e-9)
              VH_VIOL("tables/entry-index", cs, "%s: storage index %d is not the expected cell", BYID[i]->name, one);
        }
        st.inc("entry_table_cases_checked");
      }
  }
  // ---- F: neighbour wiring of the creator
  for (int nx = 1; nx <= 4; ++nx) for (int ny = 1; ny <= 4; ++ny) for (int nz = 1; nz <= 4; ++nz)
    for (int per = 0; per < 8; ++per) {
      const int ns[3] = {nx, ny, nz};
      const bool pf[3] = {(bool)(per & 1), (bool)(per & 2), (bool)(per & 4)};
      DensitySubGridCreator< DensitySubGrid > creator(
          Box<>(CoordinateVector<>(-1.5, 2.25, 0.75), CoordinateVector<>(3.3, 1.7, 2.9)),
          CoordinateVector< int_fast32_t >(2 * nx, 3 * ny, nz), CoordinateVector< int_fast32_t >(nx, ny, nz),
          CoordinateVector< bool >(pf[0], pf[1], pf[2]));
      st.inc("layouts_checked");
      for (int ix = 0; ix < nx; ++ix) for (int iy = 0; iy < ny; ++iy) for (int iz = 0; iz < nz; ++iz) {
        const int pos[3] = {ix, iy, iz};
        const int index = (ix * ny + iy) * nz + iz;
        DensitySubGrid *sg = creator.create_subgrid(index);
        // the box of the subgrid
        double box[6];
        sg->get_grid_box(box);
        const double L[3] = {3.3, 1.7, 2.9}, A[3] = {-1.5, 2.25, 0.75};
        for (int d = 0; d < 3; ++d)
          if (std::fabs(box[d] - (A[d] + pos[d] * L[d] / ns[d])) > 1e-12 || std::fabs(box[3 + d] - L[d] / ns[d]) > 1e-12)
            VH_VIOL("neighbours/box", cs, "layout %dx%dx%d subgrid %d: box coordinate %d wrong", nx, ny, nz, index, d);
        for (int i = 0; i < 27; ++i, ++cs) {
          bool outside = false; int q[3];
          for (int d = 0; d < 3; ++d) {
            q[d] = pos[d] + BYID[i]->s[d];
            if (q[d] < 0 || q[d] >= ns[d]) { if (pf[d]) q[d] = (q[d] + ns[d]) % ns[d]; else outside = true; }
          }
          const uint_fast32_t want = outside ? (uint_fast32_t)NEIGHBOUR_OUTSIDE : (uint_fast32_t)((q[0] * ny + q[1]) * nz + q[2]);
          const uint_fast32_t got = sg->get_neighbour(i);
          if (got != want)
            VH_VIOL("neighbours/table", cs, "layout %dx%dx%d periodic %d%d%d subgrid %d (%d,%d,%d) class %s: neighbour %u, expected %u", nx, ny, nz, (int)pf[0], (int)pf[1], (int)pf[2], index, ix, iy, iz, BYID[i]->name, (unsigned)got, (unsigned)want);
          if (sg->get_active_buffer(i) != NEIGHBOUR_OUTSIDE) VH_VIOL("neighbours/active-buffer", cs, "fresh subgrid has an active buffer for class %s", BYID[i]->name);
          st.inc("neighbour_entries_checked");
          if (!outside && (q[0] != pos[0] + BYID[i]->s[0] || q[1] != pos[1] + BYID[i]->s[1] || q[2] != pos[2] + BYID[i]->s[2])) st.inc("neighbour_entries_wrapped");
          if (!outside && i != 0 && (int)want == index) st.inc("neighbour_entries_self_by_wrap");
        }
        delete sg;
      }
    }
  st.print();
  std::printf("DONE violations=%" PRIu64 "\n", vh::g_nviol);
  return vh::g_nviol ? 1 : 0;
}
