// C05: Riemann fluxes respect the symmetries of the Euler equations, vacuum included.
//
// Drives the real HLLCRiemannSolver::solve_for_flux, ExactRiemannSolver::solve_for_flux
// and ExactRiemannSolver::solve with generated left/right states and judges the
// answers with oracles that are written here from the equations (long double):
//   swap        F(L,R,n) = -F(R,L,-n)                                  (metamorphic)
//   boost       Galilean covariance of (mass, momentum, energy) flux   (metamorphic)
//   boost-sample  solve(L+V,R+V,xi+V) = (rho, u+V, P)                   (metamorphic)
//   identical   F(W,W) = analytic flux of W through the moving face    (closed form)
//   finite      fluxes / sampled states finite, rho,P >= 0
//   hllc-exact  HLLC flux == exact flux whenever vacuum is involved
//   vacuum-closed-form  both == closed-form vacuum solution derived from the
//               Riemann invariants (anchors hllc-exact against a common-mode error)
//   textbook    HLLC == Toro's HLLC (eqs. 10.37-10.39, pressure-based speeds 10.59-10.61)
//               whenever S_L <= S* <= S_R
//   continuity-{contact,outer,front}  no flux jump when a wave crosses the face
//               (one-parameter family: common normal velocity s added to both states;
//                jump-tracking bisection around the independently computed crossing)
//   mirror      mirror states approaching at |v| < 1.5 a exchange no mass, no energy
// Violation keys: <clause>/<solver>/<regime>.
#include "ExactRiemannSolver.hpp"
#include "HLLCRiemannSolver.hpp"
#include "vh.hpp"
#include <cstdarg>
#include <string>
#include <vector>

typedef long double LD;
static const double EPS = 2.220446049250313e-16;

struct State {
  double rho, P;
  double u[3];
};
struct Flux {
  double m, E;
  double p[3];
};
struct FluxLD {
  LD m, E;
  LD p[3];
};
struct Case {
  double g;
  State L, R;
  double n[3], vf[3];
};

enum Regime { NONVAC = 0, LVAC, RVAC, BVAC, VGEN, THRESH };
static const char *RNAME[] = {"non-vacuum", "left-vacuum", "right-vacuum", "both-vacuum", "vacuum-generation", "threshold"};
static const char *RSTAT[] = {"non_vacuum", "left_vacuum", "right_vacuum", "both_vacuum", "vacuum_generation", "threshold"};

static vh::Stats st;
static bool g_replay = false;
static std::map<std::string, uint64_t> g_keycount;

static void viol(const std::string &key, uint64_t id, const char *fmt, ...) {
  ++vh::g_nviol;
  const uint64_t k = ++g_keycount[key];
  st.inc("viol_" + key);
  if (k <= 3 || g_replay) {
    std::printf("VIOL key=%s case=%" PRIu64 " ", key.c_str(), id);
    va_list ap;
    va_start(ap, fmt);
    std::vprintf(fmt, ap);
    va_end(ap);
    std::printf("\n");
    std::fflush(stdout);
  }
}

static std::string describe(const Case &c) {
  char b[900];
  std::snprintf(b, sizeof b,
                "gamma=%.17g L=(rho %.17g u %.17g %.17g %.17g P %.17g) R=(rho %.17g u %.17g %.17g %.17g P %.17g) "
                "n=(%.17g %.17g %.17g) vface=(%.17g %.17g %.17g)",
                c.g, c.L.rho, c.L.u[0], c.L.u[1], c.L.u[2], c.L.P, c.R.rho, c.R.u[0], c.R.u[1], c.R.u[2], c.R.P, c.n[0],
                c.n[1], c.n[2], c.vf[0], c.vf[1], c.vf[2]);
  return b;
}
static std::string fstr(const Flux &f) {
  char b[300];
  std::snprintf(b, sizeof b, "(m %.9g p %.9g %.9g %.9g E %.9g)", f.m, f.p[0], f.p[1], f.p[2], f.E);
  return b;
}
static Flux tod(const FluxLD &f) {
  Flux r;
  r.m = (double)f.m;
  r.E = (double)f.E;
  for (int i = 0; i < 3; ++i) r.p[i] = (double)f.p[i];
  return r;
}

// ---------------------------------------------------------------- real code
static Case g_last; // inputs of the most recent solver call (for messages)
static Flux call(const RiemannSolver &s, const State &L, const State &R, const double n[3], const double vf[3]) {
  g_last.L = L;
  g_last.R = R;
  for (int i = 0; i < 3; ++i) {
    g_last.n[i] = n[i];
    g_last.vf[i] = vf[i];
  }
  double m = 0., E = 0.;
  CoordinateVector<> p;
  s.solve_for_flux(L.rho, CoordinateVector<>(L.u[0], L.u[1], L.u[2]), L.P, R.rho, CoordinateVector<>(R.u[0], R.u[1], R.u[2]),
                   R.P, m, p, E, CoordinateVector<>(n[0], n[1], n[2]), CoordinateVector<>(vf[0], vf[1], vf[2]));
  Flux f;
  f.m = m;
  f.E = E;
  f.p[0] = p[0];
  f.p[1] = p[1];
  f.p[2] = p[2];
  st.inc("solver_calls");
  return f;
}
static bool finite(const Flux &f) {
  return std::isfinite(f.m) && std::isfinite(f.E) && std::isfinite(f.p[0]) && std::isfinite(f.p[1]) && std::isfinite(f.p[2]);
}


// a non-finite result is reported once per (case, solver) under finite/<solver>/<regime>; the clause that
// found it is then skipped (its comparison would be meaningless)
static const Case *g_case = nullptr;
static uint64_t g_case_id = 0;
static int g_case_regime = 0;
static bool g_nonfinite_reported[2];
static std::string describe(const Case &c);
static bool chkfin(const Flux &f, int k, const char *where) {
  st.inc("n_finite_flux");
  if (finite(f)) return true;
  if (!g_nonfinite_reported[k]) {
    g_nonfinite_reported[k] = true;
    viol(std::string("finite/") + (k ? "exact" : "hllc") + "/" + RNAME[g_case_regime], g_case_id,
         "non-finite flux (m %g p %g %g %g E %g) returned while checking '%s' for the input: %s", f.m, f.p[0], f.p[1], f.p[2], f.E, where,
         (g_last.g = g_case->g, describe(g_last).c_str()));
  }
  return false;
}

// ---------------------------------------------------------------- analysis of a case (independent, long double)
static inline bool is_vac(const State &w) { return w.rho == 0. || w.P == 0.; }
static inline LD dot3(const LD a[3], const double b[3]) { return a[0] * b[0] + a[1] * b[1] + a[2] * b[2]; }
static inline LD norm3(const double a[3]) { return sqrtl((LD)a[0] * a[0] + (LD)a[1] * a[1] + (LD)a[2] * a[2]); }
static inline LD norm3(const LD a[3]) { return sqrtl(a[0] * a[0] + a[1] * a[1] + a[2] * a[2]); }
static inline LD maxl(LD a, LD b) { return a > b ? a : b; }
static inline LD minl(LD a, LD b) { return a < b ? a : b; }

struct Info {
  int regime;
  bool vacL, vacR;
  LD g, kap;          // kap = 1 + 2g/(g-1): largest exponent used by the closed forms
  LD aL, aR, vL, vR;  // sound speeds, face-frame normal velocities
  LD uLf[3], uRf[3];  // face-frame velocities
  LD crit;            // 2/(g-1) (aL+aR)
  LD U, rhos, Ps, amin;
};

static Info analyse(const Case &c) {
  Info I;
  I.g = c.g;
  I.kap = 1 + 2 * I.g / (I.g - 1);
  I.vacL = is_vac(c.L);
  I.vacR = is_vac(c.R);
  for (int i = 0; i < 3; ++i) {
    I.uLf[i] = (LD)c.L.u[i] - c.vf[i];
    I.uRf[i] = (LD)c.R.u[i] - c.vf[i];
  }
  I.vL = dot3(I.uLf, c.n);
  I.vR = dot3(I.uRf, c.n);
  I.aL = I.vacL ? 0 : sqrtl(I.g * c.L.P / c.L.rho);
  I.aR = I.vacR ? 0 : sqrtl(I.g * c.R.P / c.R.rho);
  I.crit = 2 / (I.g - 1) * (I.aL + I.aR);
  I.U = norm3(c.vf);
  I.rhos = 0;
  I.Ps = 0;
  I.amin = 0;
  if (!I.vacL) {
    I.U = maxl(I.U, maxl(maxl(norm3(I.uLf), norm3(c.L.u)), I.aL));
    I.rhos = c.L.rho;
    I.Ps = c.L.P;
    I.amin = I.aL;
  }
  if (!I.vacR) {
    I.U = maxl(I.U, maxl(maxl(norm3(I.uRf), norm3(c.R.u)), I.aR));
    I.rhos = maxl(I.rhos, c.R.rho);
    I.Ps = maxl(I.Ps, c.R.P);
    I.amin = I.vacL ? I.aR : minl(I.amin, I.aR);
  }
  if (I.vacL && I.vacR) I.regime = BVAC;
  else if (I.vacL) I.regime = LVAC;
  else if (I.vacR) I.regime = RVAC;
  else {
    const LD d = I.vR - I.vL;
    // the generation threshold itself is a (documented) discontinuity of the approximate solver: keep away
    if (fabsl(d - I.crit) <= 1e-9L * I.crit) I.regime = THRESH;
    else I.regime = d > I.crit ? VGEN : NONVAC;
  }
  return I;
}

struct Scale {
  LD m, p, E;
};
static Scale mkscale(LD g, LD rho, LD P, LD U) {
  Scale s;
  s.m = rho * U;
  s.p = rho * U * U + P;
  s.E = (0.5L * rho * U * U + g * P / (g - 1)) * U;
  return s;
}
// max over components of |a-b| / scale ; +inf when something is not finite
static double ndiff(const Flux &a, const Flux &b, const Scale &s) {
  if (!finite(a) || !finite(b)) return INFINITY;
  LD r = fabsl((LD)a.m - b.m) / s.m;
  r = maxl(r, fabsl((LD)a.E - b.E) / s.E);
  for (int i = 0; i < 3; ++i) r = maxl(r, fabsl((LD)a.p[i] - b.p[i]) / s.p);
  return (double)r;
}

// flux of a sampled face-frame state (rho, normal speed w, P) that belongs to side with face-frame velocity uKf, vK
static FluxLD flux_of_sample(const Case &c, LD g, LD rho, LD w, LD P, const LD uKf[3], LD vK) {
  FluxLD F;
  LD ul[3];
  for (int i = 0; i < 3; ++i) ul[i] = uKf[i] + (w - vK) * c.n[i] + c.vf[i]; // lab-frame velocity of the sampled gas
  const LD un = dot3(ul, c.n);
  const LD u2 = ul[0] * ul[0] + ul[1] * ul[1] + ul[2] * ul[2];
  F.m = rho * w;
  for (int i = 0; i < 3; ++i) F.p[i] = rho * w * ul[i] + P * c.n[i];
  F.E = (0.5L * rho * u2 + P / (g - 1)) * w + P * un;
  return F;
}
static FluxLD zero_flux() {
  FluxLD F;
  F.m = F.E = F.p[0] = F.p[1] = F.p[2] = 0;
  return F;
}

// closed-form vacuum solution sampled at the face (xi = 0 in the face frame).
// Left fan (gas on the left):  u + 2a/(g-1) = vL + 2aL/(g-1),  xi = u - a
// Right fan (gas on the right): u - 2a/(g-1) = vR - 2aR/(g-1),  xi = u + a
static FluxLD vacuum_closed_form(const Case &c, const Info &I, int *region = nullptr) {
  const LD g = I.g;
  int reg = 0; // 0 vacuum, 1 undisturbed state, 2 fan
  FluxLD F = zero_flux();
  bool left = false, right = false;
  if (I.regime == RVAC) left = true;
  else if (I.regime == LVAC) right = true;
  else if (I.regime == VGEN) {
    const LD frontL = I.vL + 2 * I.aL / (g - 1), frontR = I.vR - 2 * I.aR / (g - 1);
    if (0 < frontL) left = true;
    else if (0 > frontR) right = true;
  }
  if (left) {
    const LD head = I.vL - I.aL, front = I.vL + 2 * I.aL / (g - 1);
    if (0 <= head) {
      F = flux_of_sample(c, g, c.L.rho, I.vL, c.L.P, I.uLf, I.vL);
      reg = 1;
    } else if (0 < front) {
      const LD a = 2 / (g + 1) * (I.aL + (g - 1) / 2 * I.vL); // from the invariant with u = a
      const LD x = a / I.aL;
      F = flux_of_sample(c, g, c.L.rho * powl(x, 2 / (g - 1)), a, c.L.P * powl(x, 2 * g / (g - 1)), I.uLf, I.vL);
      reg = 2;
    }
  } else if (right) {
    const LD head = I.vR + I.aR, front = I.vR - 2 * I.aR / (g - 1);
    if (0 >= head) {
      F = flux_of_sample(c, g, c.R.rho, I.vR, c.R.P, I.uRf, I.vR);
      reg = 1;
    } else if (0 > front) {
      const LD a = 2 / (g + 1) * (I.aR - (g - 1) / 2 * I.vR); // from the invariant with u = -a
      const LD x = a / I.aR;
      F = flux_of_sample(c, g, c.R.rho * powl(x, 2 / (g - 1)), -a, c.R.P * powl(x, 2 * g / (g - 1)), I.uRf, I.vR);
      reg = 2;
    }
  }
  if (region) *region = reg;
  return F;
}

// Toro's HLLC (face frame, then expressed in the lab frame)
struct Hllc {
  LD SL, SR, Ss, rsL, rsR, psL;
  int branch; // 0 F_L, 1 F*_L, 2 F*_R, 3 F_R
  bool ordered;
  LD gap; // min(S* - SL, SR - S*)
  FluxLD F;
};
static Hllc textbook_hllc(const Case &c, const Info &I) {
  Hllc H;
  const LD g = I.g, rL = c.L.rho, rR = c.R.rho, PL = c.L.P, PR = c.R.P;
  const LD ppv = 0.5L * (PL + PR) - 0.125L * (I.vR - I.vL) * (rL + rR) * (I.aL + I.aR);
  const LD ps = ppv > 0 ? ppv : 0;
  const LD qL = ps <= PL ? 1 : sqrtl(1 + (g + 1) / (2 * g) * (ps / PL - 1));
  const LD qR = ps <= PR ? 1 : sqrtl(1 + (g + 1) / (2 * g) * (ps / PR - 1));
  H.SL = I.vL - I.aL * qL;
  H.SR = I.vR + I.aR * qR;
  H.Ss = (PR - PL + rL * I.vL * (H.SL - I.vL) - rR * I.vR * (H.SR - I.vR)) / (rL * (H.SL - I.vL) - rR * (H.SR - I.vR));
  H.gap = minl(H.Ss - H.SL, H.SR - H.Ss);
  H.ordered = H.gap > 0;
  H.rsL = rL * (H.SL - I.vL) / (H.SL - H.Ss);
  H.rsR = rR * (H.SR - I.vR) / (H.SR - H.Ss);
  H.psL = PL + rL * (H.SL - I.vL) * (H.Ss - I.vL);
  // conserved variables and fluxes in the face frame
  LD UK[2][5], FK[2][5], US[2][5];
  for (int k = 0; k < 2; ++k) {
    const LD r = k ? rR : rL, P = k ? PR : PL, v = k ? I.vR : I.vL, S = k ? H.SR : H.SL;
    const LD *u = k ? I.uRf : I.uLf;
    const LD u2 = u[0] * u[0] + u[1] * u[1] + u[2] * u[2];
    const LD En = P / (g - 1) + 0.5L * r * u2;
    UK[k][0] = r;
    for (int i = 0; i < 3; ++i) UK[k][1 + i] = r * u[i];
    UK[k][4] = En;
    FK[k][0] = r * v;
    for (int i = 0; i < 3; ++i) FK[k][1 + i] = r * v * u[i] + P * c.n[i];
    FK[k][4] = (En + P) * v;
    const LD fac = r * (S - v) / (S - H.Ss);
    US[k][0] = fac;
    for (int i = 0; i < 3; ++i) US[k][1 + i] = fac * (u[i] + (H.Ss - v) * c.n[i]);
    US[k][4] = fac * (En / r + (H.Ss - v) * (H.Ss + P / (r * (S - v))));
  }
  LD Ff[5];
  if (0 <= H.SL) {
    H.branch = 0;
    for (int j = 0; j < 5; ++j) Ff[j] = FK[0][j];
  } else if (0 <= H.Ss) {
    H.branch = 1;
    for (int j = 0; j < 5; ++j) Ff[j] = FK[0][j] + H.SL * (US[0][j] - UK[0][j]);
  } else if (0 <= H.SR) {
    H.branch = 2;
    for (int j = 0; j < 5; ++j) Ff[j] = FK[1][j] + H.SR * (US[1][j] - UK[1][j]);
  } else {
    H.branch = 3;
    for (int j = 0; j < 5; ++j) Ff[j] = FK[1][j];
  }
  // to the lab frame
  LD vf2 = 0, vfp = 0;
  for (int i = 0; i < 3; ++i) {
    vf2 += (LD)c.vf[i] * c.vf[i];
    vfp += c.vf[i] * Ff[1 + i];
  }
  H.F.m = Ff[0];
  for (int i = 0; i < 3; ++i) H.F.p[i] = Ff[1 + i] + Ff[0] * c.vf[i];
  H.F.E = Ff[4] + vfp + 0.5L * vf2 * Ff[0];
  return H;
}


// sensitivity of the (independent) HLLC flux to a perturbation dv of either normal velocity: the round-off of
// u - vface in the real code is such a perturbation, so this is the condition number of the case, measured
// on the oracle.  It covers what the closed-form factor U/(S*-S_K) does not, e.g. the pressure estimate
// p_pvrs ~ (vR-vL) rho_bar a_bar feeding q_K when a cold dense gas meets a hot thin one.
static double hllc_sens(const Case &c, const Info &I, const Hllc &H, LD dv, const Scale &sc) {
  double worst = 0.;
  const Flux F0 = tod(H.F);
  for (int w = 0; w < 4; ++w) {
    Info J = I;
    const LD d = (w & 1) ? dv : -dv;
    if (w < 2) {
      J.vL += d;
      for (int i = 0; i < 3; ++i) J.uLf[i] += d * c.n[i];
    } else {
      J.vR += d;
      for (int i = 0; i < 3; ++i) J.uRf[i] += d * c.n[i];
    }
    const Hllc P = textbook_hllc(c, J);
    // the ordering S_L < S* < S_R itself hangs on round-off: the textbook formula (and any statement about the
    // flux to round-off accuracy) does not apply to this input
    if (!P.ordered) return INFINITY;
    worst = std::max(worst, ndiff(tod(P.F), F0, sc));
  }
  return worst;
}

// reference exact solution (star state and wave speeds), monotone bisection in long double
struct ExRef {
  LD ps, us, rsL, rsR;
  bool shL, shR;
  LD SL, STL, SR, STR; // shock speed or head ; tail (== SL/SR for a shock)
  LD fprime;           // f'(p*)
};
static LD fK(LD p, LD pK, LD rK, LD aK, LD g) {
  if (p > pK) return (p - pK) * sqrtl((2 / ((g + 1) * rK)) / (p + (g - 1) / (g + 1) * pK));
  return 2 * aK / (g - 1) * (powl(p / pK, (g - 1) / (2 * g)) - 1);
}
static LD fKp(LD p, LD pK, LD rK, LD aK, LD g) {
  if (p > pK) {
    const LD A = 2 / ((g + 1) * rK), B = (g - 1) / (g + 1) * pK;
    return sqrtl(A / (B + p)) * (1 - (p - pK) / (2 * (B + p)));
  }
  return powl(p / pK, -(g + 1) / (2 * g)) / (rK * aK);
}
static ExRef exact_ref(LD g, LD rL, LD vL, LD PL, LD aL, LD rR, LD vR, LD PR, LD aR) {
  ExRef X;
  const LD du = vR - vL;
  LD lo = 0, hi = maxl(PL, PR);
  while (fK(hi, PL, rL, aL, g) + fK(hi, PR, rR, aR, g) + du < 0) {
    lo = hi;
    hi *= 2;
  }
  for (int it = 0; it < 20000; ++it) { // ends when the bracket cannot be halved any more
    const LD mid = 0.5L * (lo + hi);
    if (!(mid > lo && mid < hi)) break;
    if (fK(mid, PL, rL, aL, g) + fK(mid, PR, rR, aR, g) + du < 0) lo = mid;
    else hi = mid;
  }
  X.ps = 0.5L * (lo + hi);
  X.us = 0.5L * (vL + vR) + 0.5L * (fK(X.ps, PR, rR, aR, g) - fK(X.ps, PL, rL, aL, g));
  X.fprime = fKp(X.ps, PL, rL, aL, g) + fKp(X.ps, PR, rR, aR, g);
  X.shL = X.ps > PL;
  X.shR = X.ps > PR;
  const LD mu = (g - 1) / (g + 1);
  if (X.shL) {
    X.SL = X.STL = vL - aL * sqrtl((g + 1) / (2 * g) * X.ps / PL + (g - 1) / (2 * g));
    X.rsL = rL * (X.ps / PL + mu) / (mu * X.ps / PL + 1);
  } else {
    X.SL = vL - aL;
    X.STL = X.us - aL * powl(X.ps / PL, (g - 1) / (2 * g));
    X.rsL = rL * powl(X.ps / PL, 1 / g);
  }
  if (X.shR) {
    X.SR = X.STR = vR + aR * sqrtl((g + 1) / (2 * g) * X.ps / PR + (g - 1) / (2 * g));
    X.rsR = rR * (X.ps / PR + mu) / (mu * X.ps / PR + 1);
  } else {
    X.SR = vR + aR;
    X.STR = X.us + aR * powl(X.ps / PR, (g - 1) / (2 * g));
    X.rsR = rR * powl(X.ps / PR, 1 / g);
  }
  return X;
}

// ---------------------------------------------------------------- generation
static void rand_dir(vh::Rng &r, double d[3]) {
  for (;;) {
    double s = 0;
    for (int i = 0; i < 3; ++i) {
      d[i] = r.uniform(-1, 1);
      s += d[i] * d[i];
    }
    if (s > 1e-4 && s <= 1) {
      s = std::sqrt(s);
      for (int i = 0; i < 3; ++i) d[i] /= s;
      return;
    }
  }
}
static double pick_gamma(vh::Rng &r) {
  switch (r.below(8)) {
  case 0: return 5. / 3.;
  case 1: return 1.4;
  case 2: return 2.;
  case 3: return 1.01;
  case 4: return r.uniform(1.001, 1.05);
  default: return r.uniform(1.05, 2.);
  }
}
static double rsigned(vh::Rng &r, double a) {
  if (r.chance(0.1)) return 0.;
  return (r.chance(0.5) ? a : -a) * r.loguniform(1e-3, 100.);
}
static void gas(vh::Rng &r, State &w) {
  if (r.chance(0.5)) {
    w.rho = r.loguniform(1e-3, 1e3);
    w.P = r.loguniform(1e-3, 1e3);
  } else {
    w.rho = r.loguniform(1e-12, 1e12);
    w.P = r.loguniform(1e-12, 1e12);
  }
}
static void vacuum_state(vh::Rng &r, State &w) {
  const int k = r.below(10);
  w.rho = 0.;
  w.P = 0.;
  if (k == 7) w.P = r.loguniform(1e-6, 1e6);        // no mass, pressure given: vacuum
  else if (k >= 8) w.rho = r.loguniform(1e-6, 1e6); // pressureless: treated as vacuum by both solvers
}

// build a case of the wanted regime; vLn, vRn are the wanted face-frame normal velocities
static Case gen_case(vh::Rng &r, int regime) {
  Case c;
  c.g = pick_gamma(r);
  const double g = c.g;
  // face
  if (r.chance(0.5)) {
    const int ax = r.below(3);
    c.n[0] = c.n[1] = c.n[2] = 0.;
    c.n[ax] = r.chance(0.5) ? 1. : -1.;
  } else
    rand_dir(r, c.n);
  // thermodynamic states
  if (regime == BVAC) {
    vacuum_state(r, c.L);
    vacuum_state(r, c.R);
  } else if (regime == LVAC) {
    vacuum_state(r, c.L);
    gas(r, c.R);
  } else if (regime == RVAC) {
    gas(r, c.L);
    vacuum_state(r, c.R);
  } else {
    gas(r, c.L);
    switch (r.below(4)) {
    case 0:
      c.R.rho = c.L.rho * r.loguniform(1e-3, 1e3);
      c.R.P = c.L.P * r.loguniform(1e-3, 1e3);
      break;
    case 1:
      c.R.rho = c.L.rho;
      c.R.P = c.L.P;
      break;
    case 2: gas(r, c.R); break;
    default:
      c.R.rho = c.L.rho * r.uniform(0.5, 2.);
      c.R.P = c.L.P * r.uniform(0.5, 2.);
      break;
    }
  }
  const bool vL_ = is_vac(c.L), vR_ = is_vac(c.R);
  const double aL = vL_ ? 0. : std::sqrt(g * c.L.P / c.L.rho), aR = vR_ ? 0. : std::sqrt(g * c.R.P / c.R.rho);
  const double amax = std::max(aL, aR);
  const double tdgm1 = 2. / (g - 1.);
  double vLn = 0., vRn = 0.;
  if (regime == BVAC) {
    vLn = rsigned(r, 1.);
    vRn = rsigned(r, 1.);
  } else if (regime == LVAC || regime == RVAC) {
    // gas next to vacuum: put the face in the undisturbed state / in the fan / in the vacuum, gas moving
    const double a = regime == LVAC ? aR : aL;
    const double sgn = regime == LVAC ? 1. : -1.; // LVAC: head at v+a, front at v - tdgm1 a
    double v;
    const int where = r.below(8);
    if (where == 0) v = 0.;                                                      // the tabulated situation
    else if (where == 1) v = -sgn * a * (1. + r.loguniform(1e-6, 100.));         // face in the undisturbed gas
    else if (where <= 4) v = sgn * a * (-1. + (1. + tdgm1) * r.uniform(0., 1.)); // face in the fan
    else if (where == 5) v = sgn * a * tdgm1 * (1. + r.loguniform(1e-6, 10.));   // face in the vacuum
    else if (where == 6) v = sgn * a * tdgm1 * (1. + (double)r.range(-6, 6) * EPS); // front within ulps of the face
    else v = -sgn * a * (1. + (double)r.range(-6, 6) * EPS);                         // head within ulps of the face
    if (regime == LVAC) {
      vRn = v;
      vLn = rsigned(r, a);
    } else {
      vLn = v;
      vRn = rsigned(r, a);
    }
  } else if (regime == VGEN) {
    const double crit = tdgm1 * (aL + aR);
    const double d = crit * (1. + r.loguniform(1e-6, 10.));
    // with vL = 0: left head -aL, left front tdgm1 aL, right front d - tdgm1 aR, right head d + aR
    const double xs[4] = {-aL, tdgm1 * aL, d - tdgm1 * aR, d + aR};
    double xi;
    const int where = r.below(7);
    if (where == 0) xi = xs[0] - amax * r.loguniform(1e-6, 100.);
    else if (where == 1) xi = xs[0] + (xs[1] - xs[0]) * r.uniform(0., 1.);
    else if (where == 2) xi = xs[1] + (xs[2] - xs[1]) * r.uniform(0., 1.);
    else if (where == 3) xi = xs[2] + (xs[3] - xs[2]) * r.uniform(0., 1.);
    else if (where == 4) xi = xs[3] + amax * r.loguniform(1e-6, 100.);
    else if (where == 5) xi = xs[r.below(4)];
    else xi = 0.5 * d; // symmetric situation
    vLn = -xi;
    vRn = d - xi;
  } else {
    const double crit = tdgm1 * (aL + aR);
    switch (r.below(6)) {
    case 0:
      vLn = rsigned(r, aL);
      vRn = rsigned(r, aR);
      break;
    case 1: { // diverging, close to vacuum generation
      const double d = crit * (1. - r.loguniform(1e-6, 0.5));
      const double cc = r.uniform(-1., 1.) * crit;
      vLn = cc - 0.5 * d;
      vRn = cc + 0.5 * d;
    } break;
    case 2: { // strongly converging
      vLn = aL * r.loguniform(0.1, 100.);
      vRn = -aR * r.loguniform(0.1, 100.);
      const double sh = r.uniform(-1., 1.) * (std::fabs(vLn) + std::fabs(vRn));
      vLn += sh;
      vRn += sh;
    } break;
    case 3:
      vLn = rsigned(r, amax);
      vRn = vLn + r.uniform(-0.1, 0.1) * std::min(aL, aR);
      break;
    case 4: vLn = vRn = rsigned(r, amax); break;
    default: {
      vLn = rsigned(r, aL);
      vRn = rsigned(r, aR);
      const double lo = std::min(vLn - 2. * aL, vRn - 2. * aR), hi = std::max(vLn + 2. * aL, vRn + 2. * aR);
      const double t = r.uniform(lo, hi);
      vLn -= t;
      vRn -= t;
    } break;
    }
    if (vRn - vLn >= crit * (1. - 1e-6)) vRn = vLn + crit * r.uniform(0., 0.9);
  }
  // face velocity, tangential velocities
  if (r.chance(0.4)) c.vf[0] = c.vf[1] = c.vf[2] = 0.;
  else {
    rand_dir(r, c.vf);
    const double m = (amax > 0 ? amax : 1.) * r.loguniform(1e-2, 1e2);
    for (int i = 0; i < 3; ++i) c.vf[i] *= m;
  }
  for (int k = 0; k < 2; ++k) {
    State &w = k ? c.R : c.L;
    const double vn = k ? vRn : vLn;
    const double a = k ? aR : aL;
    double t[3] = {0., 0., 0.};
    if (r.chance(0.7)) {
      double d[3];
      rand_dir(r, d);
      const double dn = d[0] * c.n[0] + d[1] * c.n[1] + d[2] * c.n[2];
      const double m = (a > 0 ? a : (amax > 0 ? amax : 1.)) * r.loguniform(1e-3, 10.);
      for (int i = 0; i < 3; ++i) t[i] = m * (d[i] - dn * c.n[i]);
    }
    for (int i = 0; i < 3; ++i) w.u[i] = c.vf[i] + vn * c.n[i] + t[i];
  }
  return c;
}

// ---------------------------------------------------------------- continuity (jump tracking)
static Flux shifted_flux(const RiemannSolver &S, const Case &c, double s) {
  State L = c.L, R = c.R;
  for (int i = 0; i < 3; ++i) {
    L.u[i] += s * c.n[i];
    R.u[i] += s * c.n[i];
  }
  return call(S, L, R, c.n, c.vf);
}
// returns the normalised jump over the final interval [sa, sb]; -1 when a non-finite flux was met (reported)
static double track_jump(const RiemannSolver &S, int k, const Case &c, double s0, double w0, double dmin, const Scale &sc,
                         double &sa, double &sb, Flux &Fa, Flux &Fb) {
  sa = s0 - w0;
  sb = s0 + w0;
  Fa = shifted_flux(S, c, sa);
  Fb = shifted_flux(S, c, sb);
  if (!chkfin(Fa, k, "continuity") || !chkfin(Fb, k, "continuity")) return -1.;
  while (sb - sa > dmin) {
    const double mid = 0.5 * (sa + sb);
    if (!(mid > sa && mid < sb)) break;
    const Flux Fm = shifted_flux(S, c, mid);
    if (!chkfin(Fm, k, "continuity")) return -1.;
    const double dl = ndiff(Fa, Fm, sc), dr = ndiff(Fm, Fb, sc);
    if (dl >= dr) {
      sb = mid;
      Fb = Fm;
    } else {
      sa = mid;
      Fa = Fm;
    }
  }
  return ndiff(Fa, Fb, sc);
}

struct Crossing {
  const char *wave; // contact, outer, front
  LD speed;         // face-frame speed of the wave at s = 0
  LD aK;            // sound speed that sets the width of the adjacent smooth structure
};

static void check_continuity(const RiemannSolver &S, int k, const char *sname, const Case &c, const Info &I, uint64_t id,
                             const std::vector<Crossing> &xs, LD rho_eff, LD P_eff, LD U_eff, double noise) {
  for (size_t j = 0; j < xs.size(); ++j) {
    const LD s0 = -xs[j].speed;
    const LD Us = U_eff + fabsl(s0);
    const Scale sc = mkscale(I.g, rho_eff, P_eff, Us);
    const LD floor_ = 4096 * EPS * Us;
    // an iterative solver that is only accurate to `noise` cannot resolve a jump in a narrower window
    const LD rel = noise > 1e-9 ? 1e-8L : 1e-11L;
    const double w0 = (double)maxl(1e-6L * xs[j].aK, 16 * floor_);
    const double dmin = (double)maxl(rel * xs[j].aK, floor_);
    double sa, sb;
    Flux Fa, Fb;
    const double jump = track_jump(S, k, c, (double)s0, w0, dmin, sc, sa, sb, Fa, Fb);
    if (jump < 0.) continue;
    const double tol = noise + 64. * (double)I.kap * (sb - sa) / (double)xs[j].aK;
    const std::string cl = std::string("continuity-") + xs[j].wave;
    st.inc("n_" + cl + "_" + sname);
    st.maxd("maxratio_" + cl + "_" + sname + "_" + RSTAT[I.regime], jump / tol);
    if (!(jump <= tol))
      viol(cl + "/" + sname + "/" + RNAME[I.regime], id,
           "flux jumps by %.3g (normalised; allowed %.3g) between normal shifts s=%.17g and s=%.17g (wave speed %.9Lg crosses the "
           "face): %s -> %s ; %s",
           jump, tol, sa, sb, xs[j].speed, fstr(Fa).c_str(), fstr(Fb).c_str(), describe(c).c_str());
  }
}

// ---------------------------------------------------------------- one case
// got: answer of solver k (checked for finiteness); want: oracle value or the answer of solver k2 (k2 >= 0)
static void judge(const std::string &clause, int k, int k2, int regime, const char *regname, uint64_t id, const Scale &sc, double tol,
                  const Case &c, const Flux &got, const Flux &want, const char *what) {
  static const char *snames[2] = {"hllc", "exact"};
  if (!chkfin(got, k, clause.c_str())) return;
  if (k2 >= 0 && !chkfin(want, k2, clause.c_str())) return;
  const double err = ndiff(got, want, sc);
  st.inc("n_" + clause + "_" + snames[k]);
  st.maxd("maxratio_" + clause + "_" + snames[k] + "_" + (regime >= 0 ? RSTAT[regime] : regname), err / tol);
  if (!(err <= tol))
    viol(clause + "/" + snames[k] + "/" + regname, id, "%s: normalised error %.3g > %.3g ; got %s expected %s ; %s", what, err, tol,
         fstr(got).c_str(), fstr(want).c_str(), describe(c).c_str());
}

static void run_case(uint64_t id, vh::Rng &r, int regime_wanted, bool sample_out, uint64_t exact_every) {
  Case c = gen_case(r, regime_wanted);
  const Info I = analyse(c);
  st.inc(std::string("regime_") + RSTAT[I.regime]);
  if (I.regime == THRESH) return;
  g_case = &c;
  g_case_id = id;
  g_case_regime = I.regime;
  g_nonfinite_reported[0] = g_nonfinite_reported[1] = false;
  const HLLCRiemannSolver hllc(c.g);
  const ExactRiemannSolver exact(c.g);
  const RiemannSolver *solvers[2] = {&hllc, &exact};
  const char *snames[2] = {"hllc", "exact"};
  const bool vac = I.regime != NONVAC;
  const double kap = (double)I.kap;
  // the iterative branch of the exact solver is slow (its Brent loop) and is the subject of C11: the clauses on it
  // are evaluated for one in `exact_every` non-vacuum cases; the closed-form (vacuum) branches for every case
  const bool do_exact = vac || exact_every <= 1 || r.below(exact_every) == 0;
  if (!vac) st.inc(do_exact ? "non_vacuum_cases_with_exact_solver" : "non_vacuum_cases_hllc_only");

  // independent descriptions of the solution
  Hllc H;
  ExRef X;
  LD rho_eff[2], P_eff[2], U_eff[2], cond[2];
  for (int k = 0; k < 2; ++k) {
    rho_eff[k] = I.rhos;
    P_eff[k] = I.Ps;
    U_eff[k] = I.U;
    cond[k] = kap;
  }
  if (I.regime == BVAC) {
    rho_eff[0] = rho_eff[1] = P_eff[0] = P_eff[1] = U_eff[0] = U_eff[1] = 1; // every flux must be exactly 0
  }
  if (!vac) {
    H = textbook_hllc(c, I);
    if (H.ordered) {
      rho_eff[0] = maxl(I.rhos, maxl(H.rsL, H.rsR));
      P_eff[0] = maxl(I.Ps, H.psL);
      U_eff[0] = maxl(I.U, maxl(fabsl(H.SL), fabsl(H.SR)));
      cond[0] = 1 + U_eff[0] / H.gap;
    }
    X = exact_ref(I.g, c.L.rho, I.vL, c.L.P, I.aL, c.R.rho, I.vR, c.R.P, I.aR);
    rho_eff[1] = maxl(I.rhos, maxl(X.rsL, X.rsR));
    P_eff[1] = maxl(I.Ps, X.ps);
    U_eff[1] = maxl(I.U, maxl(fabsl(X.SL), fabsl(X.SR)));
  }
  // round-off level of a solver in this regime (normalised).  HLLC: 256 eps times the condition number
  // U/(distance of S* to the nearer outer speed) of the star-state formula.  Closed forms (vacuum): 256 eps times
  // the largest exponent.  The iterative solver is only accurate to 1e-8 relative in p*, which propagates with
  // O(1) factors into the flux -> 1e-6.
  double noise[2];
  noise[0] = 256. * EPS * (double)cond[0];
  if (!vac && H.ordered)
    noise[0] += 8. * hllc_sens(c, I, H, 4 * EPS * U_eff[0], mkscale(I.g, rho_eff[0], P_eff[0], U_eff[0]));
  noise[1] = vac ? 256. * EPS * kap : 1e-6;
  if (!vac && H.ordered && !(noise[0] < INFINITY)) {
    H.ordered = false; // ordering not robust against round-off of the inputs: handled like unordered speeds
    st.inc("hllc_ordering_not_robust");
  } else if (!vac && !H.ordered)
    st.inc("hllc_speeds_unordered");

  Flux F[2];
  bool ok[2];
  for (int k = 0; k < 2; ++k) {
    ok[k] = false;
    if (k == 1 && !do_exact) continue;
    F[k] = call(*solvers[k], c.L, c.R, c.n, c.vf);
    ok[k] = chkfin(F[k], k, "flux of the case");
  }
  if (I.regime != BVAC && ok[0] && (F[0].m != 0. || F[0].E != 0. || F[0].p[0] != 0. || F[0].p[1] != 0. || F[0].p[2] != 0.))
    st.inc("cases_with_nonzero_flux");

  for (int k = 0; k < 2; ++k) {
    if (!ok[k]) continue;
    if (k == 0 && !vac && !H.ordered) continue; // no independent scale for the approximate solver there
    const Scale sc = mkscale(I.g, rho_eff[k], P_eff[k], U_eff[k]);
    // --- swap
    {
      double mn[3] = {-c.n[0], -c.n[1], -c.n[2]};
      const Flux G = call(*solvers[k], c.R, c.L, mn, c.vf);
      Flux Gm;
      Gm.m = -G.m;
      Gm.E = -G.E;
      for (int i = 0; i < 3; ++i) Gm.p[i] = -G.p[i];
      const bool oneside = I.regime == LVAC || I.regime == RVAC;
      judge("swap", k, k, oneside ? -1 : I.regime, oneside ? "one-sided-vacuum" : RNAME[I.regime], id, sc, noise[k], c, F[k], Gm,
            "F(L,R,n) != -F(R,L,-n)");
    }
    // --- boost (states and face)
    {
      double V[3];
      rand_dir(r, V);
      const double Vm = (I.U > 0 ? (double)I.U : 1.) * r.loguniform(1e-2, 1e2);
      for (int i = 0; i < 3; ++i) V[i] *= Vm;
      Case b = c;
      for (int i = 0; i < 3; ++i) {
        b.L.u[i] += V[i];
        b.R.u[i] += V[i];
        b.vf[i] += V[i];
      }
      // round-off of u+V enters as eps*(|u|+|V|) in the velocities -> scales and condition number with U+|V|
      const Flux B = call(*solvers[k], b.L, b.R, b.n, b.vf);
      Flux W; // expected: m, p + m V, E + p.V + V^2 m / 2
      LD pv = 0, v2 = 0;
      for (int i = 0; i < 3; ++i) {
        pv += (LD)F[k].p[i] * V[i];
        v2 += (LD)V[i] * V[i];
      }
      W.m = F[k].m;
      for (int i = 0; i < 3; ++i) W.p[i] = (double)((LD)F[k].p[i] + (LD)F[k].m * V[i]);
      W.E = (double)((LD)F[k].E + pv + 0.5L * v2 * F[k].m);
      const LD Ub = U_eff[k] + sqrtl(v2);
      const Scale sb = mkscale(I.g, rho_eff[k], P_eff[k], Ub);
      double tolb = k == 0 ? 256. * EPS * (double)(vac ? (LD)kap : 1 + Ub / H.gap) : noise[1];
      if (k == 0 && !vac) tolb += 8. * hllc_sens(c, I, H, 4 * EPS * Ub, sb);
      if (!(tolb < INFINITY)) st.inc("hllc_boost_skipped_ordering_not_robust");
      else judge("boost", k, -1, I.regime, RNAME[I.regime], id, sb, tolb, c, B, W, "boosted flux is not the Galilean transform");
    }
    // --- continuity across wave direction changes
    if (I.regime != BVAC) {
      std::vector<Crossing> xs;
      if (!vac && k == 0) {
        xs.push_back({"outer", H.SL, I.aL});
        xs.push_back({"contact", H.Ss, minl(I.aL, I.aR)});
        xs.push_back({"outer", H.SR, I.aR});
      } else if (!vac) {
        xs.push_back({"outer", X.SL, I.aL});
        if (!X.shL) xs.push_back({"outer", X.STL, I.aL});
        xs.push_back({"contact", X.us, minl(I.aL, I.aR)});
        if (!X.shR) xs.push_back({"outer", X.STR, I.aR});
        xs.push_back({"outer", X.SR, I.aR});
      } else {
        if (!I.vacL) {
          xs.push_back({"outer", I.vL - I.aL, I.aL});
          xs.push_back({"front", I.vL + 2 * I.aL / (I.g - 1), I.aL});
        }
        if (!I.vacR) {
          xs.push_back({"outer", I.vR + I.aR, I.aR});
          xs.push_back({"front", I.vR - 2 * I.aR / (I.g - 1), I.aR});
        }
      }
      check_continuity(*solvers[k], k, snames[k], c, I, id, xs, rho_eff[k], P_eff[k], U_eff[k], noise[k]);
      // near vacuum generation with p* below the smallest double (gamma close to 1): the face just inside the
      // would-be vacuum fronts; the flux must stay finite
      if (!vac && k == 1 && X.ps < 1e-290L * minl(c.L.P, c.R.P)) {
        const LD fl = I.vL + 2 * I.aL / (I.g - 1), fr = I.vR - 2 * I.aR / (I.g - 1);
        for (int q = 1; q <= 8; ++q) {
          chkfin(shifted_flux(*solvers[k], c, (double)-(fl + q * I.aL / 8)), k, "p* underflow, face next to the left front");
          chkfin(shifted_flux(*solvers[k], c, (double)-(fr - q * I.aR / 8)), k, "p* underflow, face next to the right front");
        }
        st.inc("n_pstar_underflow_scans");
      }
      // the vacuum front within a few ulps of the face: the flux must stay finite
      if (vac && r.below(4) == 0) {
        for (size_t j = 0; j < xs.size(); ++j) {
          if (xs[j].wave[0] != 'f') continue;
          const double s0 = (double)-xs[j].speed;
          const double h = 0.5 * EPS * std::max(std::fabs(s0), (double)I.U);
          for (int q = -12; q <= 12; ++q) chkfin(shifted_flux(*solvers[k], c, s0 + q * h), k, "vacuum front within ulps of the face");
          st.inc("n_front_ulps_scans");
        }
      }
    }
  }

  // --- identical states give the analytic flux (each side of the case in turn)
  for (int side = 0; side < 2; ++side) {
    Case d = c;
    if (side) d.L = c.R;
    else d.R = c.L;
    const Info J = analyse(d);
    FluxLD A = zero_flux();
    LD rs = 1, Ps_ = 1, Us = 1;
    if (J.regime != BVAC) {
      A = flux_of_sample(d, J.g, d.L.rho, J.vL, d.L.P, J.uLf, J.vL);
      rs = J.rhos;
      Ps_ = J.Ps;
      Us = J.U;
    }
    const Flux Ad = tod(A);
    const Scale sc = mkscale(J.g, rs, Ps_, Us);
    for (int k = 0; k < 2; ++k) {
      const Flux G = call(*solvers[k], d.L, d.R, d.n, d.vf);
      const char *rn = J.regime == BVAC ? RNAME[BVAC] : RNAME[NONVAC];
      // identical states: HLLC has S* = v, SL = v - a, SR = v + a -> gap a; the exact solver starts on the root
      const double tol = 256. * EPS * (k == 0 ? (double)(1 + J.U / maxl(J.amin, 1e-300L)) : kap);
      judge("identical", k, -1, J.regime == BVAC ? BVAC : NONVAC, rn, id, sc, tol, d, G, Ad, "F(W,W) is not the analytic flux of W");
    }
  }

  // --- vacuum: HLLC == exact == closed form
  if (vac) {
    int region = 0;
    const FluxLD A = vacuum_closed_form(c, I, &region);
    const Flux Ad = tod(A);
    st.inc(region == 0 ? "vacuum_face_in_vacuum" : region == 1 ? "vacuum_face_in_state" : "vacuum_face_in_fan");
    const Scale sc = mkscale(I.g, rho_eff[0], P_eff[0], U_eff[0]);
    if (ok[0] && ok[1])
      judge("hllc-exact", 0, 1, I.regime, RNAME[I.regime], id, sc, noise[1], c, F[0], F[1],
            "HLLC flux differs from the exact solver's flux although vacuum is involved");
    for (int k = 0; k < 2; ++k)
      if (ok[k])
        judge("vacuum-closed-form", k, -1, I.regime, RNAME[I.regime], id, sc, noise[1], c, F[k], Ad,
              "flux differs from the closed-form vacuum solution");
  } else if (H.ordered && ok[0]) {
    // --- textbook HLLC
    static const char *BR[] = {"outer-left", "star-left", "star-right", "outer-right"};
    static const char *BS[] = {"outer_left", "star_left", "star_right", "outer_right"};
    st.inc(std::string("hllc_branch_") + BS[H.branch]);
    const Scale sc = mkscale(I.g, rho_eff[0], P_eff[0], U_eff[0]);
    const Flux T = tod(H.F);
    judge("textbook", 0, -1, -1, BR[H.branch], id, sc, noise[0], c, F[0], T, "HLLC flux differs from Toro's HLLC flux (speeds ordered)");
  }

  // --- sampled states of the exact solver: finite, non-negative, and covariant under a boost of states and speed
  if (do_exact) {
    const double vL = CoordinateVector<>::dot_product(CoordinateVector<>(c.L.u[0] - c.vf[0], c.L.u[1] - c.vf[1], c.L.u[2] - c.vf[2]),
                                                      CoordinateVector<>(c.n[0], c.n[1], c.n[2]));
    const double vR = CoordinateVector<>::dot_product(CoordinateVector<>(c.R.u[0] - c.vf[0], c.R.u[1] - c.vf[1], c.R.u[2] - c.vf[2]),
                                                      CoordinateVector<>(c.n[0], c.n[1], c.n[2]));
    std::vector<std::pair<double, bool> > xis; // sampling speed, also check the boost relation there
    const double U = (double)(I.regime == BVAC ? 1 : U_eff[1]);
    xis.push_back(std::make_pair(0., true));
    xis.push_back(std::make_pair(r.uniform(-3., 3.) * U, true));
    xis.push_back(std::make_pair(r.uniform(-1., 1.) * U, true));
    std::vector<LD> disc; // discontinuities of the true solution (shocks, contact)
    if (!vac) {
      disc.push_back(X.us);
      if (X.shL) disc.push_back(X.SL);
      if (X.shR) disc.push_back(X.SR);
      const LD ws[5] = {X.SL, X.STL, X.us, X.STR, X.SR};
      const LD w = ws[r.below(5)];
      xis.push_back(std::make_pair((double)(w + r.uniform(-1., 1.) * 1e-3 * (double)minl(I.aL, I.aR)), true));
    } else if (I.regime != BVAC) {
      std::vector<LD> ws; // head, front of each gas side
      if (!I.vacL) {
        ws.push_back(I.vL - I.aL);
        ws.push_back(I.vL + 2 * I.aL / (I.g - 1));
      }
      if (!I.vacR) {
        ws.push_back(I.vR + I.aR);
        ws.push_back(I.vR - 2 * I.aR / (I.g - 1));
      }
      for (size_t i = 0; i < ws.size(); ++i) {
        const double w = (double)ws[i];
        xis.push_back(std::make_pair(w * (1. + r.uniform(-1., 1.) * 1e-9), true));
        if (i % 2 == 0) xis.push_back(std::make_pair((double)(ws[i] + (ws[i + 1] - ws[i]) * (LD)r.uniform(0., 1.)), true)); // in the fan
        else { // the vacuum front within a few ulps of the sampling speed
          const double h = 0.5 * EPS * std::max(std::fabs(w), (double)I.U);
          for (int q = -8; q <= 8; ++q) xis.push_back(std::make_pair(w + q * h, false));
        }
      }
    }
    const double Vb = (r.chance(0.5) ? 1. : -1.) * U * r.loguniform(1e-2, 1e2);
    bool reported = false;
    for (size_t i = 0; i < xis.size(); ++i) {
      const double xi = xis[i].first;
      double rs = -1., us = 0., Ps = -1.;
      const int flag = (int)exact.solve(c.L.rho, vL, c.L.P, c.R.rho, vR, c.R.P, rs, us, Ps, xi);
      st.inc("n_finite_sample");
      st.inc(flag == 0 ? "sampled_vacuum" : "sampled_gas");
      if (!(std::isfinite(rs) && std::isfinite(us) && std::isfinite(Ps) && rs >= 0. && Ps >= 0.)) {
        if (!reported)
          viol(std::string("finite/exact/") + RNAME[I.regime], id,
               "solve() sampled at dx/dt=%.17g returned rho=%g u=%g P=%g flag=%d ; 1-D problem vL=%.17g vR=%.17g ; %s", xi, rs, us, Ps, flag,
               vL, vR, describe(c).c_str());
        reported = true;
        continue;
      }
      if (!xis[i].second) continue;
      // boost
      double rb = -1., ub = 0., Pb = -1.;
      exact.solve(c.L.rho, vL + Vb, c.L.P, c.R.rho, vR + Vb, c.R.P, rb, ub, Pb, xi + Vb);
      if (!(std::isfinite(rb) && std::isfinite(ub) && std::isfinite(Pb) && rb >= 0. && Pb >= 0.)) {
        if (!reported)
          viol(std::string("finite/exact/") + RNAME[I.regime], id,
               "solve() sampled at dx/dt=%.17g returned rho=%g u=%g P=%g ; 1-D problem vL=%.17g vR=%.17g ; %s", xi + Vb, rb, ub, Pb, vL + Vb,
               vR + Vb, describe(c).c_str());
        reported = true;
        continue;
      }
      const LD Ub = U + std::fabs(xi) + std::fabs(Vb);
      bool near_disc = false;
      for (size_t j = 0; j < disc.size(); ++j)
        if (fabsl(xi - disc[j]) <= 1e-6L * Ub) near_disc = true;
      if (near_disc) {
        st.inc("boost_sample_skipped_at_discontinuity");
        continue;
      }
      // round-off eps*Ub in (v - xi) moves the sampled point of a fan of width ~a: relative change eps*Ub/a
      const double tol = vac ? 256. * EPS * kap * (double)(Ub / maxl(I.amin, 1e-300L)) : 1e-6 * (double)(Ub / I.amin);
      LD err = 0;
      if (I.regime == BVAC) err = (rb != 0. || Pb != 0. || rs != 0. || Ps != 0.) ? INFINITY : 0;
      else {
        err = maxl(fabsl((LD)rb - rs) / rho_eff[1], fabsl((LD)Pb - Ps) / P_eff[1]);
        if (rs > 0. && rb > 0.) err = maxl(err, fabsl(((LD)ub - Vb) - us) / Ub);
      }
      st.inc("n_boost-sample_exact");
      st.maxd(std::string("maxratio_boost-sample_exact_") + RSTAT[I.regime], (double)err / tol);
      if (!(err <= tol))
        viol(std::string("boost-sample/exact/") + RNAME[I.regime], id,
             "solve() at dx/dt=%.17g gives (rho %.17g u %.17g P %.17g); after adding V=%.17g to both states and the speed it gives "
             "(rho %.17g u-V %.17g P %.17g); normalised error %.3Lg > %.3g ; 1-D problem vL=%.17g vR=%.17g ; %s",
             xi, rs, us, Ps, Vb, rb, ub - Vb, Pb, err, tol, vL, vR, describe(c).c_str());
    }
  }

  // --- mirror states approaching at |v| < 1.5 a (derived from the left gas state of a non-vacuum case)
  if (!vac) {
    Case m = c;
    m.R.rho = c.L.rho;
    m.R.P = c.L.P;
    const double a = (double)I.aL;
    const double v = a * (r.chance(0.5) ? r.uniform(0., 1.5) : r.loguniform(1e-4, 1.49));
    // mirror image in the face plane: tangential velocities equal, normal velocities opposite; the face is at
    // rest or slides tangentially.  Everything is built at the scale of the sound speed so that the construction
    // itself is symmetric to eps*a (the remaining common drift is measured below and allowed for).
    double tg[3] = {0., 0., 0.}, tf[3] = {0., 0., 0.};
    for (int w = 0; w < 2; ++w) {
      if (r.chance(0.4)) continue;
      double d[3];
      rand_dir(r, d);
      const double dn = d[0] * c.n[0] + d[1] * c.n[1] + d[2] * c.n[2];
      const double mg = a * r.loguniform(1e-3, 10.);
      for (int i = 0; i < 3; ++i) (w ? tf : tg)[i] = mg * (d[i] - dn * c.n[i]);
    }
    for (int i = 0; i < 3; ++i) {
      m.vf[i] = tf[i];
      m.L.u[i] = (tf[i] + tg[i]) + v * c.n[i];
      m.R.u[i] = (tf[i] + tg[i]) - v * c.n[i];
    }
    const Info J = analyse(m);
    if (J.regime == NONVAC && fabsl(J.vL) < 1.5L * J.aL && J.vL > 0) {
      const Hllc Hm = textbook_hllc(m, J);
      ExRef Xm;
      if (do_exact) Xm = exact_ref(J.g, m.L.rho, J.vL, m.L.P, J.aL, m.R.rho, J.vR, m.R.P, J.aR);
      for (int k = 0; k < 2; ++k) {
        LD re, Pe, Ue, cd;
        if (k == 0) {
          if (!Hm.ordered) continue;
          re = maxl(J.rhos, maxl(Hm.rsL, Hm.rsR));
          Pe = maxl(J.Ps, Hm.psL);
          Ue = maxl(J.U, maxl(fabsl(Hm.SL), fabsl(Hm.SR)));
          cd = 1 + Ue / Hm.gap;
        } else {
          if (!do_exact) continue;
          re = maxl(J.rhos, maxl(Xm.rsL, Xm.rsR));
          Pe = maxl(J.Ps, Xm.ps);
          Ue = maxl(J.U, maxl(fabsl(Xm.SL), fabsl(Xm.SR)));
          cd = kap;
        }
        const Scale sc = mkscale(J.g, re, Pe, Ue);
        const Flux G = call(*solvers[k], m.L, m.R, m.n, m.vf);
        if (!chkfin(G, k, "mirror")) continue;
        // a common normal drift delta of both states (round-off of the construction) changes the fluxes by
        // (dF/ds) delta with dm/ds = rho*, dE/ds = E* + P*  <=  scale / U
        double tol = 256. * EPS * (double)cd + 4. * (double)(fabsl(J.vL + J.vR) / 2 / Ue);
        if (k == 0) tol += 8. * hllc_sens(m, J, Hm, 4 * EPS * Ue, sc);
        if (!(tol < INFINITY)) continue;
        const double err = (double)maxl(fabsl((LD)G.m) / sc.m, fabsl((LD)G.E) / sc.E);
        st.inc(std::string("n_mirror_") + snames[k]);
        st.maxd(std::string("maxratio_mirror_") + snames[k] + "_non_vacuum", err / tol);
        if (!(err <= tol))
          viol(std::string("mirror/") + snames[k] + "/non-vacuum", id,
               "mirror states approaching at %.4g a exchange mass %.9g (scale %.3Lg) / energy %.9g (scale %.3Lg): normalised %.3g > "
               "%.3g ; %s",
               (double)(J.vL / J.aL), G.m, sc.m, G.E, sc.E, err, tol, describe(m).c_str());
      }
    }
  }

  if (sample_out)
    std::printf("SAMPLE case=%" PRIu64 " regime=%s %s hllc=%s exact=%s\n", id, RNAME[I.regime], describe(c).c_str(), fstr(F[0]).c_str(),
                ok[1] || do_exact ? fstr(F[1]).c_str() : "(not evaluated)");
  g_case = nullptr;
}

// ---------------------------------------------------------------- hand-written witnesses (printed, not judged)
static void witness() {
  const double g = 5. / 3.;
  const HLLCRiemannSolver hllc(g);
  const ExactRiemannSolver exact(g);
  Case c;
  c.g = g;
  c.n[0] = 1.;
  c.n[1] = c.n[2] = 0.;
  c.vf[0] = c.vf[1] = c.vf[2] = 0.;
  // (1) left vacuum, gas on the right moving at 0.5 (a = sqrt(5/3))
  c.L = {0., 0., {0., 0., 0.}};
  c.R = {1., 1., {0.5, 0., 0.}};
  {
    const Info I = analyse(c);
    const Flux A = tod(vacuum_closed_form(c, I));
    std::printf("WITNESS left-vacuum  %s\n  hllc   %s\n  exact  %s\n  closed %s\n", describe(c).c_str(), fstr(call(hllc, c.L, c.R, c.n, c.vf)).c_str(),
                fstr(call(exact, c.L, c.R, c.n, c.vf)).c_str(), fstr(A).c_str());
    double mn[3] = {-1., 0., 0.};
    State Rm = c.R;
    Rm.u[0] = 0.5; // F(R,L,-n): same vectors, normal reversed
    std::printf("  swapped problem F(R,L,-n): hllc %s exact %s  (must be the negative)\n", fstr(call(hllc, Rm, c.L, mn, c.vf)).c_str(),
                fstr(call(exact, Rm, c.L, mn, c.vf)).c_str());
    double rs, us, Ps;
    for (double xi : {0., 1., 1.7, 0.5 + std::sqrt(5. / 3.) - 1e-9, 0.5 + std::sqrt(5. / 3.) + 1e-9}) {
      exact.solve(0., 0., 0., 1., 0.5, 1., rs, us, Ps, xi);
      const double a = std::sqrt(g * Ps / (rs > 0 ? rs : 1.));
      std::printf("  exact.solve at dx/dt=%.12g: rho %.12g u %.12g P %.12g ; u+a-xi = %.3g (0 inside the fan) ; u-3a-(uR-3aR) = %.3g\n", xi,
                  rs, us, Ps, us + a - xi, us - 3. * a - (0.5 - 3. * std::sqrt(5. / 3.)));
    }
  }
  // (2) vacuum generation, symmetric, in a frame moving at 1
  c.L = {1., 1., {-10. + 1., 0., 0.}};
  c.R = {1., 1., {10. + 1., 0., 0.}};
  {
    const Info I = analyse(c);
    std::printf("WITNESS vacuum-generation %s\n", describe(c).c_str());
    double rs, us, Ps;
    const double a = std::sqrt(g);
    for (double xi : {-9. - a - 1e-9, -9. - a + 1e-9, -8., 11. + a - 1e-9, 11. + a + 1e-9, 10.}) {
      exact.solve(1., -9., 1., 1., 11., 1., rs, us, Ps, xi);
      std::printf("  exact.solve at dx/dt=%.12g: rho %.12g u %.12g P %.12g\n", xi, rs, us, Ps);
    }
    (void)I;
  }
  // (3) HLLC star region: mirror states
  c.L = {1., 1., {0.5, 0., 0.}};
  c.R = {1., 1., {-0.5, 0., 0.}};
  {
    const Info I = analyse(c);
    const Hllc H = textbook_hllc(c, I);
    std::printf("WITNESS mirror %s\n  hllc %s\n  toro %s (SL %.9Lg S* %.9Lg SR %.9Lg)\n  exact %s\n", describe(c).c_str(),
                fstr(call(hllc, c.L, c.R, c.n, c.vf)).c_str(), fstr(tod(H.F)).c_str(), H.SL, H.Ss, H.SR,
                fstr(call(exact, c.L, c.R, c.n, c.vf)).c_str());
  }
}

int main(int argc, char **argv) {
  const uint64_t seed = vh::arg_u64(argc, argv, "--seed", 1);
  const uint64_t ncases = vh::arg_u64(argc, argv, "--cases", 10000);
  const int64_t only = (int64_t)vh::arg_u64(argc, argv, "--only", (uint64_t)-1);
  const uint64_t exact_every = vh::arg_u64(argc, argv, "--exact-every", 5);
  if (vh::arg_flag(argc, argv, "--witness")) {
    witness();
    return 0;
  }
  g_replay = only >= 0;
  vh::Rng master(seed * 1000003ull + 5);
  // regime mix: non-vacuum 46 %, left 14 %, right 14 %, both 2 %, generation 24 %
  for (uint64_t h = 0; h < ncases; ++h) {
    vh::Rng r = master.fork(h);
    if (only >= 0 && (int64_t)h != only) continue;
    const uint64_t k = r.below(100);
    const int regime = k < 46 ? NONVAC : k < 60 ? LVAC : k < 74 ? RVAC : k < 76 ? BVAC : VGEN;
    run_case(h, r, regime, h < 2 || g_replay, exact_every);
    st.inc("cases");
  }
  st.print();
  std::printf("DONE violations=%" PRIu64 "\n", vh::g_nviol);
  return vh::g_nviol ? 1 : 0;
}
