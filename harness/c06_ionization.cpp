// C06: ionization and thermal balance always return a physical cell state.
//
// Drives the REAL IonizationStateCalculator::calculate_ionization_state and
// TemperatureCalculator::calculate_temperature (shipped Verner recombination
// rates, charge transfer rates, line cooling data) with radiation-field
// estimators that are physically consistent by construction: a non-negative
// mixture of K <= 6 photon frequencies above the hydrogen threshold, pushed
// through the real Verner cross sections and accumulated into an
// IonizationVariables object the same way the photon traversal does
// (increase_mean_intensity / increase_heating per packet, unnormalised), then
// normalised by jfac = L/(N V) and hfac = jfac*h exactly as the simulation
// drivers do.
//
// Cases run in forked batches.  Counters, the current case index and the
// per-key print budget live in a MAP_SHARED page so that nothing is lost when
// a child dies.  A child that dies on a signal is narrowed down to the single
// input (progress marker, then confirmed in isolation with stderr captured;
// plain bisection as fall-back); the input becomes the witness of an
// abort/<function>-<message> violation and the batch continues after it.
//
// Oracle (independent of the code under test):
//  * every ionic fraction finite, >= -1e-12, <= 1+1e-12;
//  * tracked stages of one metal sum to <= 1+1e-12;
//  * temperature finite and inside the documented [500 K, 30000 K];
//  * no abort / signal;
//  * hydrogen only (A_He = 0): x solves n (1-x)^2 alpha = x J, judged by the
//    residual evaluated in long double at the returned x with a backward
//    error allowance of 4 ulp of x; x does not increase with J and does not
//    decrease with n*alpha (8 ulp slack).
#include "Abundances.hpp"
#include "ChargeTransferRates.hpp"
#include "CoordinateVector.hpp"
#include "IonizationStateCalculator.hpp"
#include "IonizationVariables.hpp"
#include "LineCoolingData.hpp"
#include "PhysicalConstants.hpp"
#include "TemperatureCalculator.hpp"
#include "VernerCrossSections.hpp"
#include "VernerRecombinationRates.hpp"
#include "vh.hpp"

#include <cctype>
#include <csignal>
#include <cstdarg>
#include <functional>
#include <string>
#include <sys/mman.h>
#include <sys/wait.h>
#include <unistd.h>
#include <unordered_set>

// ---------------------------------------------------------------------------
// shared state (survives the death of a child)
// ---------------------------------------------------------------------------
#define C06_COUNTERS(X)                                                        \
  X(cases) X(state_evals) X(tbal_evals) X(distinct_nontrivial)                 \
  X(n_zero) X(flux_zero) X(jH_positive) X(no_He_ionizing_photons)              \
  X(with_He_ionizing_photons) X(hard_photons_above_4nuH) X(AHe_zero)           \
  X(AHe_positive) X(metal_abundance_zero) X(pipeline_taskbased)                \
  X(regime_negligible_field) X(regime_neutral_side) X(regime_ionized_side)   \
  X(weak_field_below_1em8_nalpha) X(strong_field_above_1e3_nalpha)             \
  X(trace_He_field) X(stress_trace_He_cases) X(tbal_viol_default_config)       \
  X(tbal_viol_with_pah_or_cr)                     \
  X(state_h0_exactly_one) X(state_he0_exactly_one) X(state_ne_zero)            \
  X(state_neutral_or_vacuum_branch) X(fractions_checked) X(metal_sums_checked) \
  X(honly_cases) X(honly_residual_checked) X(honly_floor_active)               \
  X(honly_floor_active_true_root_above_floor) X(honly_series_branch)           \
  X(honly_monoJ_pairs) X(honly_monoJ_strict_decrease)                          \
  X(honly_monoNA_pairs) X(honly_monoNA_strict_increase)                        \
  X(honly_monoNA_by_temperature) X(tbal_T_500) X(tbal_T_30000)                 \
  X(tbal_T_interior) X(tbal_trivial_neutral) X(tbal_pah_on) X(tbal_cr_on)      \
  X(tbal_h0_exactly_one) X(tbal_T_30000_with_h0_one) X(honly_ionized_side) X(honly_neutral_side) X(pinned_cases) X(aborts_isolated) X(batches) X(children_died) X(direct_cases) X(direct_fixed_value_rates) X(direct_below_100K) X(direct_helium_inert)

enum Ctr {
#define X(n) C_##n,
  C06_COUNTERS(X)
#undef X
      NCTR
};
static const char *ctr_names[NCTR] = {
#define X(n) #n,
    C06_COUNTERS(X)
#undef X
};

#define C06_MAXD(X)                                                            \
  X(max_fraction_excess_above_one) X(max_fraction_below_zero)                  \
  X(max_metal_sum_excess) X(honly_max_rel_residual_within_allowance)           \
  X(honly_max_rel_residual) X(honly_max_floor_true_root_over_floor)            \
  X(honly_max_monoJ_increase_ulps) X(honly_max_monoNA_decrease_ulps)

enum MaxD {
#define X(n) D_##n,
  C06_MAXD(X)
#undef X
      NMAXD
};
static const char *maxd_names[NMAXD] = {
#define X(n) #n,
    C06_MAXD(X)
#undef X
};

static const int MAXKEYS = 96;
struct Shared {
  uint64_t cur_case;
  uint64_t nviol;
  uint64_t ctr[NCTR];
  double maxd[NMAXD];
  bool maxd_set[NMAXD];
  int nkeys;
  char keys[MAXKEYS][112];
  uint64_t keycount[MAXKEYS];
  uint64_t samples;
};
static Shared *S = nullptr;
static uint64_t g_print_per_key = 3;
static int64_t g_inject_abort = -1;
// oracle self-test (--reference-honly): the hydrogen-only clauses are fed with a
// plain double-precision evaluation of the cancellation-free closed form
// instead of the repository's routine; they must then stay silent
static bool g_reference_honly = false;
static double reference_honly(double alphaH, double jH, double nH) {
  const double aa = 0.5 * jH / (nH * alphaH);
  return 1. / (1. + aa + std::sqrt(aa * (aa + 2.)));
}

static inline void inc(Ctr c, uint64_t n = 1) { S->ctr[c] += n; }
static inline void maxd(MaxD d, double v) {
  if (!S->maxd_set[d] || v > S->maxd[d]) {
    S->maxd[d] = v;
    S->maxd_set[d] = true;
  }
}

static void viol(const std::string &key, uint64_t idx, const char *fmt, ...) {
  ++S->nviol;
  int k = 0;
  for (; k < S->nkeys; ++k)
    if (!std::strcmp(S->keys[k], key.c_str())) break;
  if (k == S->nkeys) {
    if (S->nkeys < MAXKEYS) {
      std::snprintf(S->keys[k], sizeof S->keys[k], "%s", key.c_str());
      S->keycount[k] = 0;
      ++S->nkeys;
    } else {
      k = MAXKEYS - 1;
    }
  }
  if (++S->keycount[k] > g_print_per_key) return;
  std::printf("VIOL key=%s case=%" PRIu64 " ", key.c_str(), idx);
  va_list ap;
  va_start(ap, fmt);
  std::vprintf(fmt, ap);
  va_end(ap);
  std::printf("\n");
  std::fflush(stdout);
}

// ---------------------------------------------------------------------------
// the real code's data (constructed once, before forking)
// ---------------------------------------------------------------------------
struct World {
  VernerCrossSections xs;
  VernerRecombinationRates rr;
  ChargeTransferRates ctr;
  LineCoolingData lcd;
};
static World *W = nullptr;

// thresholds the photon traversal subtracts in the heating estimators
// (DensitySubGrid::update_intensity_counters)
static const double NU_H_HEAT = 3.288e15;
static const double NU_HE_HEAT = 5.948e15;
// lowest generated frequency: >= both "13.6 eV" conventions used in the code
static const double NU_MIN = 3.2885e15;

static const char *ion_label(int ion) {
  switch (ion) {
  case ION_H_n: return "H0";
  case ION_He_n: return "He0";
  case ION_C_p1: return "C_p1";
  case ION_C_p2: return "C_p2";
  case ION_N_n: return "N_n";
  case ION_N_p1: return "N_p1";
  case ION_N_p2: return "N_p2";
  case ION_O_n: return "O_n";
  case ION_O_p1: return "O_p1";
  case ION_Ne_n: return "Ne_n";
  case ION_Ne_p1: return "Ne_p1";
  case ION_S_p1: return "S_p1";
  case ION_S_p2: return "S_p2";
  case ION_S_p3: return "S_p3";
  default: return "ion?";
  }
}
static int ion_element(int ion) {
  switch (ion) {
  case ION_He_n: return ELEMENT_He;
  case ION_C_p1: case ION_C_p2: return ELEMENT_C;
  case ION_N_n: case ION_N_p1: case ION_N_p2: return ELEMENT_N;
  case ION_O_n: case ION_O_p1: return ELEMENT_O;
  case ION_Ne_n: case ION_Ne_p1: return ELEMENT_Ne;
  case ION_S_p1: case ION_S_p2: case ION_S_p3: return ELEMENT_S;
  default: return -1;
  }
}

// ---------------------------------------------------------------------------
// case generation (everything derives from the seed and the case index)
// ---------------------------------------------------------------------------
struct Case {
  double A[6];  // He C N O Ne S
  int K;
  double nu[6], w[6];
  double F;     // flux scale (m^-2 s^-1): J_ion = F * sum_k w_k sigma_ion(nu_k)
  double jfac;  // normalisation L/(N V) the drivers pass (s^-1 m^-3)
  double n, T;
  bool taskbased;  // estimator accumulation convention
  double pahfac, crfac, crscale, z;
  // hydrogen-only probes
  double rJ, rN, T2, n2;
  bool nalpha_by_T;
  bool stress;
};

static Case gen_case(uint64_t seed, uint64_t idx) {
  vh::Rng master(seed * 1000003ull + 6);
  vh::Rng r = master.fork(idx);
  Case c;
  // abundances
  const int hek = r.below(10);
  if (hek < 3) c.A[0] = 0.;
  else if (hek < 6) c.A[0] = r.uniform(0., 0.15);
  else if (hek < 9) c.A[0] = r.loguniform(1e-8, 0.15);
  else c.A[0] = r.chance(0.5) ? 0.15 : 0.1;
  for (int e = 1; e < 6; ++e) {
    const int k = r.below(10);
    if (k < 2) c.A[e] = 0.;
    else if (k < 6) c.A[e] = r.loguniform(1e-9, 1e-3);
    else if (k < 9) c.A[e] = r.uniform(0., 1e-3);
    else c.A[e] = 1e-3;
  }
  // spectrum
  c.K = 1 + (int)r.below(6);
  const int sk = r.below(10);  // 0-2: nothing above the He threshold
  for (int k = 0; k < 6; ++k) {
    double nu;
    if (sk < 3) nu = r.uniform(NU_MIN, 5.94e15);            // H-ionizing only
    else if (sk < 8) nu = r.loguniform(NU_MIN, 4. * 3.288e15);  // up to 54.4 eV
    else if (sk < 9) nu = r.loguniform(NU_MIN, 30. * 3.288e15); // hard photons
    else nu = r.chance(0.5) ? NU_MIN : r.loguniform(5.95e15, 4. * 3.288e15);
    c.nu[k] = nu;
    const int wk = r.below(8);
    c.w[k] = wk == 0 ? 0. : (wk == 1 ? r.loguniform(1e-12, 1.) : r.uniform(0., 1.));
  }
  // flux factor: 23 decades and exactly zero
  c.F = r.chance(0.03) ? 0. : r.loguniform(1e1, 1e24);
  c.jfac = r.loguniform(1e-27, 1e15);
  c.n = r.chance(0.03) ? 0. : r.loguniform(1e4, 1e12);
  // 10 K is the temperature floor the radiative cooling of the RHD driver imposes (DeRijckeRadiativeCooling): the code itself
  // hands cells of 10..100 K to the ionization balance
  c.T = r.chance(0.15) ? r.loguniform(10., 1e2) : r.loguniform(1e2, 1e5);
  c.taskbased = r.chance(0.5);
  // thermal balance configuration: the ParameterFile defaults most of the time
  c.pahfac = r.chance(0.15) ? 1. : 0.;
  c.crfac = r.chance(0.15) ? r.loguniform(1e-2, 1e2) : 0.;
  c.crscale = r.chance(0.5) ? 0. : 4.114e19;
  c.z = r.uniform(-1e20, 1e20);
  // hydrogen-only probes
  c.rJ = r.loguniform(1e-10, 1e2);
  c.rN = r.loguniform(1e-10, 1e2);
  c.nalpha_by_T = r.chance(0.5);
  c.T2 = r.loguniform(1e2, 1e5);
  c.n2 = r.loguniform(1e4, 1e12);
  c.stress = false;
  // 10%: weak field with only a trace of helium-ionizing photons (still a
  // member of the domain: one packet above the He threshold with a tiny
  // weight, flux chosen so that jH = C n alpha_H with C in [1e-14, 1e-2],
  // clipped to the 23 decades of the flux factor)
  if (r.chance(0.10)) {
    c.stress = true;
    if (c.A[0] == 0.) c.A[0] = r.chance(0.5) ? 0.1 : r.loguniform(1e-8, 0.15);
    if (c.n == 0.) c.n = r.loguniform(1e4, 1e12);
    if (c.K < 2) c.K = 2;
    for (int k = 0; k < c.K; ++k) {
      c.nu[k] = r.uniform(NU_MIN, 5.94e15);
      c.w[k] = r.uniform(0.01, 1.);
    }
    c.nu[c.K - 1] = r.loguniform(5.95e15, 4. * 3.288e15);
    c.w[c.K - 1] = r.loguniform(1e-13, 1e-5);
    double swsig = 0.;
    for (int k = 0; k < c.K; ++k) swsig += c.w[k] * W->xs.get_cross_section(ION_H_n, c.nu[k]);
    const double C = r.loguniform(1e-14, 1e-2);
    c.F = C * c.n * W->rr.get_recombination_rate(ION_H_n, c.T) / swsig;
    c.F = std::fmin(std::fmax(c.F, 1e1), 1e24);
  }
  return c;
}

static std::string describe(const Case &c) {
  char b[1600];
  int o = std::snprintf(b, sizeof b,
                        "A(He,C,N,O,Ne,S)=(%.17g,%.17g,%.17g,%.17g,%.17g,%.17g) n=%.17g T=%.17g "
                        "F=%.17g jfac=%.17g conv=%s pah=%g cr=%.6g K=%d spectrum[nu:w]=",
                        c.A[0], c.A[1], c.A[2], c.A[3], c.A[4], c.A[5], c.n, c.T, c.F, c.jfac,
                        c.taskbased ? "taskbased" : "classic", c.pahfac, c.crfac, c.K);
  for (int k = 0; k < c.K && o < (int)sizeof b - 64; ++k)
    o += std::snprintf(b + o, sizeof b - o, "%s%.17g:%.17g", k ? "," : "", c.nu[k], c.w[k]);
  return b;
}

// accumulate the estimators the way the photon traversal does
static void fill_estimators(const Case &c, const Abundances &ab, double jfac_scale,
                            IonizationVariables &v, double &jfac, double &hfac) {
  jfac = c.jfac * jfac_scale;
  hfac = jfac * PhysicalConstants::get_physical_constant(PHYSICALCONSTANT_PLANCK);
  const double path = c.F / c.jfac;  // "distance" such that jfac * sum = F * sum w sigma
  for (int k = 0; k < c.K; ++k) {
    double dmean[NUMBER_OF_IONNAMES];
    for (int ion = 0; ion < NUMBER_OF_IONNAMES; ++ion) {
      double sigma = W->xs.get_cross_section(ion, c.nu[k]);
      if (c.taskbased && ion != ION_H_n) sigma *= ab.get_abundance(ion_element(ion));
      dmean[ion] = path * sigma * c.w[k];
      v.increase_mean_intensity(ion, dmean[ion]);
    }
    v.increase_heating(HEATINGTERM_H, dmean[ION_H_n] * (c.nu[k] - NU_H_HEAT));
    v.increase_heating(HEATINGTERM_He, dmean[ION_He_n] * (c.nu[k] - NU_HE_HEAT));
  }
  if (c.taskbased) {
    // TaskBasedIonizationSimulation divides the abundance factor out again
    // before the state calculation (elements with zero abundance keep 0)
    for (int ion = 1; ion < NUMBER_OF_IONNAMES; ++ion) {
      const double a = ab.get_abundance(ion_element(ion));
      if (a > 0.) v.set_mean_intensity(ion, v.get_mean_intensity(ion) / a);
    }
    const double aHe = ab.get_abundance(ELEMENT_He);
    if (aHe > 0.) v.set_heating(HEATINGTERM_He, v.get_heating(HEATINGTERM_He) / aHe);
  }
}

static double ulp(double x) {
  x = std::fabs(x);
  return std::nextafter(x, INFINITY) - x;
}

static const double EPS_RANGE = 1e-12;

// regime labels (functions of the INPUT only) appended to the keys.
//  vacuum            n = 0
//  dark              jH = 0
//  negligible-field  0 < jH < 1e-20 s^-1 (the documented "gas is neutral" cut)
//  neutral-side      jH <= n alpha_H (hydrogen-only equilibrium x >= 0.38)
//  ionized-side      jH >  n alpha_H
static std::string regime_of(const Case &c, double jH) {
  if (c.n == 0.) return "vacuum";
  if (jH == 0.) return "dark";
  if (jH < 1e-20) return "negligible-field";
  const double nalpha = c.n * W->rr.get_recombination_rate(ION_H_n, c.T);
  return jH > nalpha ? "ionized-side" : "neutral-side";
}
// hydrogen-only clauses: which side of J = n alpha (x = 0.38) the input lies on
static std::string honly_regime(double jH, double nalpha) {
  return jH > nalpha ? "ionized-side" : "neutral-side";
}

// clauses on a returned set of ionic fractions
static void check_fractions(const char *path, const Case &c, uint64_t idx, const std::string &regime,
                            const IonizationVariables &v, const std::string &desc) {
  double f[NUMBER_OF_IONNAMES];
  for (int ion = 0; ion < NUMBER_OF_IONNAMES; ++ion) {
    f[ion] = v.get_ionic_fraction(ion);
    inc(C_fractions_checked);
    const std::string tail = std::string(ion_label(ion)) + "/" + regime;
    if (!std::isfinite(f[ion])) {
      viol(std::string(path) + "nonfinite/" + tail, idx, "fraction %s = %g | %s", ion_label(ion), f[ion], desc.c_str());
    } else if (f[ion] < -EPS_RANGE) {
      maxd(D_max_fraction_below_zero, -f[ion]);
      viol(std::string(path) + "range/" + tail, idx, "fraction %s = %.17g < 0 | %s", ion_label(ion), f[ion], desc.c_str());
    } else if (f[ion] > 1. + EPS_RANGE) {
      maxd(D_max_fraction_excess_above_one, f[ion] - 1.);
      viol(std::string(path) + "range/" + tail, idx, "fraction %s = 1 + %.6g > 1 | %s", ion_label(ion), f[ion] - 1., desc.c_str());
    } else {
      if (f[ion] > 1.) maxd(D_max_fraction_excess_above_one, f[ion] - 1.);
      if (f[ion] < 0.) maxd(D_max_fraction_below_zero, -f[ion]);
    }
  }
  struct { const char *el; int n; int ions[3]; } groups[5] = {
      {"C", 2, {ION_C_p1, ION_C_p2, 0}}, {"N", 3, {ION_N_n, ION_N_p1, ION_N_p2}},
      {"O", 2, {ION_O_n, ION_O_p1, 0}}, {"Ne", 2, {ION_Ne_n, ION_Ne_p1, 0}},
      {"S", 3, {ION_S_p1, ION_S_p2, ION_S_p3}}};
  for (auto &g : groups) {
    long double s = 0;
    bool fin = true;
    for (int i = 0; i < g.n; ++i) { s += f[g.ions[i]]; fin = fin && std::isfinite(f[g.ions[i]]); }
    if (!fin) continue;  // reported by the nonfinite clause
    inc(C_metal_sums_checked);
    if (s > 1.L) maxd(D_max_metal_sum_excess, (double)(s - 1.L));
    if (s > 1.L + EPS_RANGE)
      viol(std::string(path) + "sum/" + g.el + "/" + regime, idx, "tracked %s stages sum to 1 + %.6Lg | %s", g.el, s - 1.L, desc.c_str());
  }
}

// run the real state calculator on a fresh cell
static void run_state(const Case &c, const Abundances &ab, double jscale, double n, double T,
                      IonizationVariables &v, double &jH) {
  IonizationStateCalculator calc(1., ab, W->rr, W->ctr);
  double jfac, hfac;
  fill_estimators(c, ab, jscale, v, jfac, hfac);
  v.set_number_density(n);
  v.set_temperature(T);
  jH = jfac * v.get_mean_intensity(ION_H_n);
  calc.calculate_ionization_state(jfac, hfac, v);
}

// hydrogen-only clauses.  x is the neutral fraction the real code returned for
// (jH, n, T); real_x(jscale, n, T, jHout) runs the real code again on the same
// field scaled by jscale and another gas state.
struct HonlyProbe { double rJ, rN, n2, T2; bool nalpha_by_T; };
static void check_honly(uint64_t idx, double jH, double n, double T, double x, const HonlyProbe &pr,
                        const std::string &desc, bool verbose,
                        const std::function<double(double, double, double, double &)> &real_x) {
  inc(C_honly_cases);
  const double alphaH = W->rr.get_recombination_rate(ION_H_n, T);
  const std::string hreg = honly_regime(jH, n * alphaH);
  inc(hreg == "ionized-side" ? C_honly_ionized_side : C_honly_neutral_side);
  if (!(std::isfinite(x) && x >= 0. && x <= 1.)) return;  // reported by the range clauses
  const long double J = jH, na = (long double)n * alphaH, X = x;
  const long double a = J / (2.L * na);
  // independent evaluation of the physical root: conjugate form, no cancellation
  const long double xtrue = 1.L / (1.L + a + sqrtl(a * a + 2.L * a));
  if (2. / (0.5 * jH / (n * alphaH)) < 1e-10) inc(C_honly_series_branch);
  if (x == 1e-14) {
    inc(C_honly_floor_active);
    if (xtrue > 1e-14L * (1.L + 1e-9L)) {
      inc(C_honly_floor_active_true_root_above_floor);
      maxd(D_honly_max_floor_true_root_over_floor, (double)(xtrue / 1e-14L));
    }
  } else {
    inc(C_honly_residual_checked);
    const long double lhs = na * (1.L - X) * (1.L - X), rhs = X * J;
    const long double res = fabsl(lhs - rhs), scale = fmaxl(lhs, rhs);
    const long double d = 4.L * ulp(x);
    // change of the residual when x moves by d (exact, both terms)
    const long double allowance = na * (2.L * (1.L - X) * d + d * d) + J * d;
    const double rel = (double)(res / scale);
    maxd(D_honly_max_rel_residual, rel);
    if (res > 1e-9L * scale + allowance) {
      viol("honly/residual/" + hreg, idx,
           "x=%.17g leaves relative residual %.3g in n(1-x)^2 alpha = x J (J=%.17g n=%.17g alpha=%.17g, J/(n alpha)=%.6g); "
           "root of the balance equation is %.17Lg (relative error of x %.3Lg) | %s",
           x, rel, jH, n, alphaH, jH / (n * alphaH), xtrue, fabsl(X - xtrue) / xtrue, desc.c_str());
    } else {
      maxd(D_honly_max_rel_residual_within_allowance, (double)((res - fminl(res, allowance)) / scale));
    }
  }
  // monotone in J: larger field, same gas
  {
    double jH2;
    const double x2 = real_x(1. + pr.rJ, n, T, jH2);
    if (jH2 > jH && std::isfinite(x2)) {
      inc(C_honly_monoJ_pairs);
      if (x2 < x) inc(C_honly_monoJ_strict_decrease);
      const double tol = 8. * ulp(std::fmax(x, x2));
      if (x2 > x) maxd(D_honly_max_monoJ_increase_ulps, (x2 - x) / ulp(std::fmax(x, x2)));
      const long double a2 = jH2 / (2.L * na);
      if (x2 > x + tol)
        viol("honly/monotone-J/" + hreg, idx,
             "x(J=%.17g)=%.17g but x(J=%.17g)=%.17g is larger (n=%.17g alpha=%.17g, true roots %.17Lg -> %.17Lg) | %s",
             jH, x, jH2, x2, n, alphaH, xtrue, 1.L / (1.L + a2 + sqrtl(a2 * a2 + 2.L * a2)), desc.c_str());
    }
    if (verbose) std::printf("CASE   honly: x=%.17g xtrue=%.17Lg | J*(1+%.3g): x=%.17g\n", x, xtrue, pr.rJ, x2);
  }
  // monotone in n*alpha: same field, different gas
  {
    double n2, T2;
    if (pr.nalpha_by_T) { n2 = pr.n2; T2 = pr.T2; inc(C_honly_monoNA_by_temperature); }
    else { n2 = std::fmin(n * (1. + pr.rN), 1e12); T2 = T; }
    double jH3;
    const double x3 = real_x(1., n2, T2, jH3);
    const long double na3 = (long double)n2 * W->rr.get_recombination_rate(ION_H_n, T2);
    if (jH3 == jH && std::isfinite(x3) && fabsl(na3 - na) > 1e-13L * na) {
      inc(C_honly_monoNA_pairs);
      const bool up = na3 > na;
      const double xl = up ? x : x3, xh = up ? x3 : x;  // xh belongs to the larger n*alpha
      if (xh > xl) inc(C_honly_monoNA_strict_increase);
      const double tol = 8. * ulp(std::fmax(xl, xh));
      if (xh < xl) maxd(D_honly_max_monoNA_decrease_ulps, (xl - xh) / ulp(std::fmax(xl, xh)));
      if (xh < xl - tol)
        viol("honly/monotone-nalpha/" + hreg, idx,
             "J=%.17g: x=%.17g at n*alpha=%.17Lg (n=%.17g T=%.17g) but x=%.17g at n*alpha=%.17Lg (n=%.17g T=%.17g) | %s",
             jH, x, na, n, T, x3, na3, n2, T2, desc.c_str());
    }
  }
}

// ---------------------------------------------------------------------------
// pinned witnesses: fixed inputs handed directly to the real routines (the
// same oracle clauses apply).  Case ids start at PINNED_BASE.
// ---------------------------------------------------------------------------
static const uint64_t PINNED_BASE = 1ull << 62;
static const int NPINNED = 6;
static void eval_pinned(uint64_t idx, bool verbose) {
  const int k = (int)(idx - PINNED_BASE);
  inc(C_pinned_cases);
  Case c = Case();  // only n, T, A are used by the clause helpers
  char desc[600];
  if (k == 0 || k == 1) {
    // He0 > 1: the H/He routine as the thermal balance calls it (static member)
    const double AHe = k == 0 ? 0.1 : 8.9846608985922572e-08;
    const double n = k == 0 ? 2072669859.5437543 : 3191605237.3154993;
    const double T = k == 0 ? 418.96490043329158 : 87225.756895227125;
    const double jH = k == 0 ? 1.0972939033740674e-18 : 9.0392739143651545e-20;
    const double jHe = k == 0 ? 1.7948601874548217e-26 : 2.0042280902509689e-28;
    const double aH = W->rr.get_recombination_rate(ION_H_n, T), aHe = W->rr.get_recombination_rate(ION_He_n, T);
    double h0 = -1., he0 = -1.;
    IonizationStateCalculator::compute_ionization_states_hydrogen_helium(aH, aHe, jH, jHe, n, AHe, T, h0, he0);
    inc(C_state_evals);
    IonizationVariables v;
    v.set_ionic_fraction(ION_H_n, h0);
    v.set_ionic_fraction(ION_He_n, he0);
    c.n = n; c.T = T; c.A[0] = AHe;
    std::snprintf(desc, sizeof desc,
                  "pinned: IonizationStateCalculator::compute_ionization_states_hydrogen_helium(alphaH=%.17g, alphaHe=%.17g, jH=%.17g, "
                  "jHe=%.17g, nH=%.17g, AHe=%.17g, T=%.17g) -> h0=%.17g he0=%.17g", aH, aHe, jH, jHe, n, AHe, T, h0, he0);
    check_fractions("", c, idx, regime_of(c, jH), v, desc);
  } else if (k == 4 || k == 5) {
    // k=4: negative C_H (helium recombination radiation outweighs hydrogen recombination at the 10 K cooling floor, constant
    //      rates of the benchmark parameter files): NaN hydrogen fraction, then NaN temperature and an out-of-bounds cooling
    //      table index in the RHD driver.  k=5: C_H ~ 5e15, discriminant lost to cancellation: NaN.
    const double aH = k == 4 ? 2.7e-19 : 6.782093365075869e-17, aHe = k == 4 ? 0. : 5.41338e-17;
    const double jH = k == 4 ? 7.2004140367771444e-10 : 1e-20, jHe = k == 4 ? 0. : 1e-21;
    const double n = k == 4 ? 251016496.62402427 : 7.27423e+11, AHe = k == 4 ? 0.1 : 0.15, T = k == 4 ? 12.869776466479774 : 10.;
    double h0 = -1., he0 = -1.;
    IonizationStateCalculator::compute_ionization_states_hydrogen_helium(aH, aHe, jH, jHe, n, AHe, T, h0, he0);
    inc(C_state_evals);
    IonizationVariables v;
    v.set_ionic_fraction(ION_H_n, h0);
    v.set_ionic_fraction(ION_He_n, he0);
    c.n = n; c.T = T; c.A[0] = AHe;
    std::snprintf(desc, sizeof desc,
                  "pinned: IonizationStateCalculator::compute_ionization_states_hydrogen_helium(alphaH=%.17g, alphaHe=%.17g, jH=%.17g, "
                  "jHe=%.17g, nH=%.17g, AHe=%.17g, T=%.17g) -> h0=%.17g he0=%.17g", aH, aHe, jH, jHe, n, AHe, T, h0, he0);
    check_fractions("", c, idx, regime_of(c, jH), v, desc);
  } else if (k == 2) {
    // NaN metals: 0 < jH < 1e-20 with gas and helium present (estimators given directly, jfac = 1)
    const Abundances ab(0.1, 2.2e-4, 4.e-5, 3.3e-4, 5.e-5, 9.e-6);
    IonizationStateCalculator calc(1., ab, W->rr, W->ctr);
    IonizationVariables v;
    v.increase_mean_intensity(ION_H_n, 5e-21);
    for (int ion = 1; ion < NUMBER_OF_IONNAMES; ++ion) v.increase_mean_intensity(ion, 1e-21);
    v.set_number_density(1e8);
    v.set_temperature(8000.);
    calc.calculate_ionization_state(1., 1., v);
    inc(C_state_evals);
    c.n = 1e8; c.T = 8000.; c.A[0] = 0.1;
    std::snprintf(desc, sizeof desc,
                  "pinned: calculate_ionization_state(jfac=1, hfac=1) on a cell with n=1e8 m^-3, T=8000 K, J_H=5e-21 s^-1, all other "
                  "J_ion=1e-21 s^-1, abundances (0.1, 2.2e-4, 4e-5, 3.3e-4, 5e-5, 9e-6)");
    check_fractions("", c, idx, regime_of(c, 5e-21), v, desc);
  } else {
    // hydrogen-only closed form in the cancellation band
    const double T = 8000., n = 1e5, jH = 1e-6;
    const double aH = W->rr.get_recombination_rate(ION_H_n, T);
    const double x = IonizationStateCalculator::compute_ionization_state_hydrogen(aH, jH, n);
    inc(C_state_evals);
    std::snprintf(desc, sizeof desc, "pinned: IonizationStateCalculator::compute_ionization_state_hydrogen(alphaH=%.17g, jH=%.17g, nH=%.17g)", aH, jH, n);
    HonlyProbe pr = {0.1, 0.1, 0., 0., false};
    check_honly(idx, jH, n, T, x, pr, desc, verbose, [&](double jscale, double n2, double T2, double &jHout) {
      jHout = jH * jscale;
      inc(C_state_evals);
      return IonizationStateCalculator::compute_ionization_state_hydrogen(W->rr.get_recombination_rate(ION_H_n, T2), jHout, n2);
    });
  }
  if (verbose) std::printf("CASE %s\n", desc);
}

// ---------------------------------------------------------------------------
// direct probes of the coupled H/He balance with generated coefficients.  The driver cases above always take the
// recombination rates from the Verner fits; parameter files (all benchmarks of the repository) can also prescribe
// constant rates (RecombinationRates: FixedValue, hydrogen 2.7e-13 cm^3/s, helium 0), and the RHD driver hands over cells
// at the 10 K floor of its radiative cooling.  Same clauses: finite, in [0,1], never aborts.
// ---------------------------------------------------------------------------
static const uint64_t DIRECT_BASE = 1ull << 61;
struct Direct { double aH, aHe, jH, jHe, n, AHe, T; bool fixed; };
static Direct gen_direct(uint64_t seed, uint64_t idx) {
  vh::Rng master(seed * 1000003ull + 61);
  vh::Rng r = master.fork(idx);
  Direct d;
  d.T = r.chance(0.4) ? r.loguniform(10., 1e2) : r.loguniform(1e2, 1e5);
  d.fixed = r.chance(0.5);
  d.aH = d.fixed ? (r.chance(0.5) ? 2.7e-19 : 4.e-19) : W->rr.get_recombination_rate(ION_H_n, d.T);
  d.aHe = d.fixed ? 0. : W->rr.get_recombination_rate(ION_He_n, d.T);
  d.n = r.loguniform(1e4, 1e12);
  d.AHe = r.chance(0.5) ? 0.1 : r.uniform(0.01, 0.15);
  // field relative to n alpha over 24 decades, but never below the routine's own "neutral" shortcut
  d.jH = std::max(1.0000001e-20, d.n * d.aH * r.loguniform(1e-12, 1e12));
  d.jHe = (d.fixed || r.chance(0.3)) ? 0. : d.jH * r.loguniform(1e-6, 10.);
  return d;
}
static std::string describe_direct(const Direct &d) {
  char b[500];
  std::snprintf(b, sizeof b, "direct: compute_ionization_states_hydrogen_helium(alphaH=%.17g, alphaHe=%.17g, jH=%.17g, jHe=%.17g, nH=%.17g, AHe=%.17g, T=%.17g)%s",
                d.aH, d.aHe, d.jH, d.jHe, d.n, d.AHe, d.T, d.fixed ? " [FixedValue rates as in the repository's benchmark parameter files]" : "");
  return b;
}
static void eval_direct(uint64_t seed, uint64_t idx) {
  const Direct d = gen_direct(seed, idx);
  inc(C_direct_cases);
  if (d.fixed) inc(C_direct_fixed_value_rates);
  if (d.T < 100.) inc(C_direct_below_100K);
  if (d.aHe == 0. && d.jHe == 0.) inc(C_direct_helium_inert);
  double h0 = -1., he0 = -1.;
  IonizationStateCalculator::compute_ionization_states_hydrogen_helium(d.aH, d.aHe, d.jH, d.jHe, d.n, d.AHe, d.T, h0, he0);
  inc(C_state_evals);
  const std::string desc = describe_direct(d) + " -> h0=" + std::to_string(h0) + " he0=" + std::to_string(he0);
  const char *reg = d.jH > d.n * d.aH ? "ionized-side" : "neutral-side";
  const double f[2] = {h0, he0};
  static const char *lab[2] = {"H0", "He0"};
  for (int i = 0; i < 2; ++i) {
    inc(C_fractions_checked);
    if (!std::isfinite(f[i])) viol(std::string("direct/nonfinite/") + lab[i] + "/" + reg, idx, "fraction %s = %g | %s", lab[i], f[i], desc.c_str());
    else if (f[i] < -EPS_RANGE || f[i] > 1. + EPS_RANGE) viol(std::string("direct/range/") + lab[i] + "/" + reg, idx, "fraction %s = %.17g | %s", lab[i], f[i], desc.c_str());
  }
}

static void eval_case(uint64_t seed, uint64_t idx, bool verbose, std::unordered_set<uint64_t> &seen) {
  if (idx >= PINNED_BASE) { eval_pinned(idx, verbose); return; }
  if (idx >= DIRECT_BASE) { eval_direct(seed, idx); return; }
  if ((int64_t)idx == g_inject_abort) {  // monitor self-test only (--inject-abort N)
    std::fprintf(stderr, "selftest.cpp:injected_function():1: Error:\n     Injected abort number 7 for the self test!\n");
    std::abort();
  }
  const Case c = gen_case(seed, idx);
  const Abundances ab(c.A[0], c.A[1], c.A[2], c.A[3], c.A[4], c.A[5]);
  const std::string desc = describe(c);
  inc(C_cases);

  // ---- coverage of the input regimes
  bool he_phot = false, hard = false;
  for (int k = 0; k < c.K; ++k) {
    if (c.w[k] > 0. && W->xs.get_cross_section(ION_He_n, c.nu[k]) > 0.) he_phot = true;
    if (c.w[k] > 0. && c.nu[k] > 4. * 3.288e15) hard = true;
  }
  if (c.n == 0.) inc(C_n_zero);
  if (c.F == 0.) inc(C_flux_zero);
  inc(he_phot ? C_with_He_ionizing_photons : C_no_He_ionizing_photons);
  if (hard) inc(C_hard_photons_above_4nuH);
  inc(c.A[0] == 0. ? C_AHe_zero : C_AHe_positive);
  for (int e = 1; e < 6; ++e) if (c.A[e] == 0.) { inc(C_metal_abundance_zero); break; }
  if (c.taskbased) inc(C_pipeline_taskbased);
  if (c.stress) inc(C_stress_trace_He_cases);

  // ---- A: ionization state at fixed temperature
  IonizationVariables v;
  double jH;
  run_state(c, ab, 1., c.n, c.T, v, jH);
  inc(C_state_evals);
  const std::string regime = regime_of(c, jH);
  const double alphaH = W->rr.get_recombination_rate(ION_H_n, c.T);
  if (jH > 0.) inc(C_jH_positive);
  if (jH > 0. && c.n > 0.) {
    if (regime == "negligible-field") inc(C_regime_negligible_field);
    else if (regime == "neutral-side") inc(C_regime_neutral_side);
    else inc(C_regime_ionized_side);
    if (jH >= 1e-20 && jH < 1e-8 * c.n * alphaH) inc(C_weak_field_below_1em8_nalpha);
    if (jH > 1e3 * c.n * alphaH) inc(C_strong_field_above_1e3_nalpha);
    const double jHe_n = c.jfac * v.get_mean_intensity(ION_He_n);
    if (jHe_n > 0. && jHe_n < 1e-6 * jH) inc(C_trace_He_field);
    const uint64_t h = vh::bits(jH) * 0x9E3779B97F4A7C15ull ^ vh::bits(c.n) * 0xBF58476D1CE4E5B9ull ^ vh::bits(c.T);
    if (seen.insert(h).second) inc(C_distinct_nontrivial);
  } else {
    inc(C_state_neutral_or_vacuum_branch);
  }
  const double h0 = v.get_ionic_fraction(ION_H_n), he0 = v.get_ionic_fraction(ION_He_n);
  if (h0 == 1.) inc(C_state_h0_exactly_one);
  if (he0 == 1.) inc(C_state_he0_exactly_one);
  if (c.n > 0. && jH > 0. && c.n * (1. - h0 + c.A[0] * (1. - he0)) == 0.) inc(C_state_ne_zero);
  check_fractions("", c, idx, regime, v, desc);
  if (verbose) {
    std::printf("CASE %" PRIu64 " %s\n", idx, desc.c_str());
    std::printf("CASE   normalised jH=%.17g jHe=%.17g hH=%.17g hHe=%.17g alphaH=%.17g regime=%s\n", jH,
                c.jfac * v.get_mean_intensity(ION_He_n), v.get_heating(HEATINGTERM_H), v.get_heating(HEATINGTERM_He), alphaH, regime.c_str());
    std::printf("CASE   state:");
    for (int ion = 0; ion < NUMBER_OF_IONNAMES; ++ion) std::printf(" %s=%.17g", ion_label(ion), v.get_ionic_fraction(ion));
    std::printf("\n");
  }

  // ---- hydrogen only: balance residual and monotonicity
  if (c.A[0] == 0. && c.n > 0. && jH > 0.) {
    HonlyProbe pr = {c.rJ, c.rN, c.n2, c.T2, c.nalpha_by_T};
    const double x0 = g_reference_honly ? reference_honly(alphaH, jH, c.n) : h0;
    check_honly(idx, jH, c.n, c.T, x0, pr, desc, verbose, [&](double jscale, double n, double T, double &jHout) {
      IonizationVariables v2;
      run_state(c, ab, jscale, n, T, v2, jHout);
      inc(C_state_evals);
      if (g_reference_honly) return reference_honly(W->rr.get_recombination_rate(ION_H_n, T), jHout, n);
      return v2.get_ionic_fraction(ION_H_n);
    });
  }

  // ---- B: thermal balance
  {
    TemperatureCalculator tc(true, 3, 1., ab, 1.e-3, 100, c.pahfac, c.crfac, 0.75, c.crscale, 4000., W->lcd, W->rr, W->ctr);
    IonizationVariables vt;
    double jfac, hfac;
    fill_estimators(c, ab, 1., vt, jfac, hfac);
    vt.set_number_density(c.n);
    vt.set_temperature(c.T);
    const bool trivial = (jfac * vt.get_mean_intensity(ION_H_n) == 0. && jfac * vt.get_mean_intensity(ION_He_n) == 0.) || c.n == 0.;
    tc.calculate_temperature(vt, jfac, hfac, CoordinateVector<>(0., 0., c.z));
    inc(C_tbal_evals);
    if (trivial) inc(C_tbal_trivial_neutral);
    if (c.pahfac > 0.) inc(C_tbal_pah_on);
    if (c.crfac > 0.) inc(C_tbal_cr_on);
    const double Tn = vt.get_temperature();
    const std::string tregime = regime;
    const uint64_t nviol_before = S->nviol;
    if (!std::isfinite(Tn))
      viol("tbal/T-nonfinite/" + tregime, idx, "temperature %g | %s", Tn, desc.c_str());
    else if (Tn < 500. || Tn > 30000.)
      viol("tbal/T-bounds/" + tregime, idx, "temperature %.17g outside [500 K, 30000 K] | %s", Tn, desc.c_str());
    else if (Tn == 500.) inc(C_tbal_T_500);
    else if (Tn == 30000.) inc(C_tbal_T_30000);
    else inc(C_tbal_T_interior);
    if (vt.get_ionic_fraction(ION_H_n) == 1.) inc(C_tbal_h0_exactly_one);
    if (vt.get_ionic_fraction(ION_H_n) == 1. && Tn == 30000.) inc(C_tbal_T_30000_with_h0_one);
    check_fractions("tbal/", c, idx, tregime, vt, desc);
    if (S->nviol > nviol_before) inc((c.crfac > 0. || c.pahfac > 0.) ? C_tbal_viol_with_pah_or_cr : C_tbal_viol_default_config);
    if (verbose) {
      std::printf("CASE   tbal: T=%.17g", Tn);
      for (int ion = 0; ion < NUMBER_OF_IONNAMES; ++ion) std::printf(" %s=%.17g", ion_label(ion), vt.get_ionic_fraction(ion));
      std::printf("\n");
    }
    if (S->samples < 4 && c.n > 0. && jH > 0. && idx % 7 == 3) {
      ++S->samples;
      std::printf("SAMPLE case=%" PRIu64 " jH=%.6g n=%.6g T=%.6g AHe=%.6g K=%d He-photons=%d -> state H0=%.9g He0=%.9g O_n=%.6g O_p1=%.6g | tbal T=%.9g H0=%.9g\n",
                  idx, jH, c.n, c.T, c.A[0], c.K, (int)he_phot, h0, he0, v.get_ionic_fraction(ION_O_n),
                  v.get_ionic_fraction(ION_O_p1), Tn, vt.get_ionic_fraction(ION_H_n));
    }
  }
}

// ---------------------------------------------------------------------------
// forked batches
// ---------------------------------------------------------------------------
// returns: 0 child finished, otherwise the terminating signal (or -1 for a bad exit)
static int run_child(uint64_t seed, uint64_t lo, uint64_t hi, bool verbose, bool quiet, int err_fd, unsigned alarm_s) {
  std::fflush(stdout);
  std::fflush(stderr);
  const pid_t pid = fork();
  if (pid < 0) { std::perror("fork"); std::exit(3); }
  if (pid == 0) {
    if (quiet) { if (!std::freopen("/dev/null", "w", stdout)) _exit(4); }
    if (err_fd >= 0) dup2(err_fd, 2);
    alarm(alarm_s);
    std::unordered_set<uint64_t> seen;
    for (uint64_t i = lo; i < hi; ++i) {
      S->cur_case = i;
      eval_case(seed, i, verbose, seen);
    }
    S->cur_case = hi;
    std::fflush(stdout);
    _exit(0);
  }
  int status = 0;
  while (waitpid(pid, &status, 0) < 0) {}
  if (WIFEXITED(status) && WEXITSTATUS(status) == 0) return 0;
  if (WIFSIGNALED(status)) return WTERMSIG(status);
  return -1;
}

static std::string slugify(const std::string &s, size_t maxwords) {
  std::string out;
  size_t words = 0;
  bool inword = false;
  for (char ch : s) {
    if (std::isalpha((unsigned char)ch)) {
      out += (char)std::tolower((unsigned char)ch);
      inword = true;
    } else if (inword) {
      inword = false;
      if (++words >= maxwords) break;
      out += '-';
    }
  }
  while (!out.empty() && out.back() == '-') out.pop_back();
  return out;
}

// run one case in isolation with stderr captured; returns terminating signal (0: survived)
static int isolate(uint64_t seed, uint64_t idx, std::string &key_tail, std::string &msg) {
  int fds[2];
  if (pipe(fds)) { std::perror("pipe"); std::exit(3); }
  // snapshot so that the isolated replay does not count twice
  Shared snap = *S;
  const int sig = run_child(seed, idx, idx + 1, false, true, fds[1], 120);
  *S = snap;
  close(fds[1]);
  char buf[4096];
  std::string err;
  ssize_t nr;
  while ((nr = read(fds[0], buf, sizeof buf)) > 0) err.append(buf, (size_t)nr);
  close(fds[0]);
  // "<file>:<function>():<line>: Error:\n     <message>"
  std::string func = "signal", text;
  const size_t pe = err.find("(): Error:");
  if (pe == std::string::npos) {
    const size_t ln = err.find(':');
    (void)ln;
  }
  const size_t p2 = err.find("():");
  if (p2 != std::string::npos) {
    size_t b = err.rfind(':', p2);
    func = err.substr(b == std::string::npos ? 0 : b + 1, p2 - (b == std::string::npos ? 0 : b + 1));
    const size_t nl = err.find('\n', p2);
    if (nl != std::string::npos) text = err.substr(nl + 1, 200);
  }
  for (char &ch : text) if (ch == '\n') ch = ' ';
  while (!text.empty() && text.front() == ' ') text.erase(text.begin());
  while (!text.empty() && text.back() == ' ') text.pop_back();
  msg = text.empty() ? err.substr(0, 200) : text;
  for (char &ch : msg) if (ch == '\n') ch = ' ';
  key_tail = func + (text.empty() ? "" : "-" + slugify(text, 6));
  return sig;
}

static void run_range(uint64_t seed, uint64_t lo, uint64_t hi, bool verbose, unsigned alarm_s) {
  while (lo < hi) {
    inc(C_batches);
    const int sig = run_child(seed, lo, hi, verbose, false, -1, alarm_s);
    if (sig == 0) return;
    inc(C_children_died);
    uint64_t suspect = S->cur_case;
    if (suspect < lo || suspect >= hi) suspect = lo;
    std::string tail, msg;
    int s1 = isolate(seed, suspect, tail, msg);
    if (s1 == 0) {
      // not reproducible in isolation: bisect [lo, suspect] on "a child running the range dies"
      uint64_t a = lo, b = suspect + 1;
      while (b - a > 1) {
        const uint64_t m = a + (b - a) / 2;
        Shared snap = *S;
        const int sl = run_child(seed, a, m, false, true, -1, alarm_s);
        *S = snap;
        if (sl != 0) b = m; else a = m;
      }
      suspect = a;
      s1 = isolate(seed, suspect, tail, msg);
      if (s1 == 0) {
        viol("abort/context-dependent", suspect, "a child running cases [%" PRIu64 ",%" PRIu64 ") died with signal %d but no single case reproduces it", lo, hi, sig);
        lo = suspect + 1;
        continue;
      }
    }
    inc(C_aborts_isolated);
    const std::string desc = suspect >= PINNED_BASE ? std::string("pinned witness ") + std::to_string(suspect - PINNED_BASE)
                             : suspect >= DIRECT_BASE ? describe_direct(gen_direct(seed, suspect))
                                                    : describe(gen_case(seed, suspect));
    if (s1 == SIGALRM)
      viol("hang/" + tail, suspect, "case did not finish within the per-case watchdog | %s", desc.c_str());
    else if (s1 == SIGABRT)
      viol("abort/" + tail, suspect, "process aborted: %s | %s", msg.c_str(), desc.c_str());
    else
      viol("abort/signal-" + std::to_string(s1) + "-" + tail, suspect, "process killed by signal %d: %s | %s", s1, msg.c_str(), desc.c_str());
    lo = suspect + 1;
  }
}

int main(int argc, char **argv) {
  const uint64_t seed = vh::arg_u64(argc, argv, "--seed", 1);
  const uint64_t ncases = vh::arg_u64(argc, argv, "--cases", 10000);
  const uint64_t batch = vh::arg_u64(argc, argv, "--batch", 2000);
  const int64_t only = (int64_t)vh::arg_u64(argc, argv, "--only", (uint64_t)-1);
  g_print_per_key = vh::arg_u64(argc, argv, "--print-per-key", 3);
  g_reference_honly = vh::arg_flag(argc, argv, "--reference-honly");
  g_inject_abort = (int64_t)vh::arg_u64(argc, argv, "--inject-abort", (uint64_t)-1);

  S = (Shared *)mmap(nullptr, sizeof(Shared), PROT_READ | PROT_WRITE, MAP_SHARED | MAP_ANONYMOUS, -1, 0);
  if (S == MAP_FAILED) { std::perror("mmap"); return 3; }
  std::memset((void *)S, 0, sizeof(Shared));
  W = new World();

  if (only >= 0) {
    run_range(seed, (uint64_t)only, (uint64_t)only + 1, true, 600);
  } else if (vh::arg_flag(argc, argv, "--pinned")) {
    run_range(seed, PINNED_BASE, PINNED_BASE + NPINNED, false, 600);
  } else {
    for (uint64_t lo = 0; lo < ncases; lo += batch)
      run_range(seed, lo, std::min(ncases, lo + batch), false, 3600);
    const uint64_t ndirect = 4 * ncases;
    for (uint64_t lo = 0; lo < ndirect; lo += 20 * batch)
      run_range(seed, DIRECT_BASE + lo, DIRECT_BASE + std::min(ndirect, lo + 20 * batch), false, 3600);
  }

  for (int i = 0; i < NCTR; ++i) std::printf("STAT %s=%" PRIu64 "\n", ctr_names[i], S->ctr[i]);
  for (int k = 0; k < S->nkeys; ++k) std::printf("STAT viol:%s=%" PRIu64 "\n", S->keys[k], S->keycount[k]);
  for (int i = 0; i < NMAXD; ++i)
    if (S->maxd_set[i]) std::printf("STATD %s=%.17g\n", maxd_names[i], S->maxd[i]);
  std::printf("DONE violations=%" PRIu64 "\n", S->nviol);
  return S->nviol ? 1 : 0;
}
