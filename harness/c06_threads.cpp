// C06 (thread invariance): one IonizationStateCalculator, one VernerRecombinationRates and one ChargeTransferRates object are
// shared by all worker threads of the drivers, which hand them cells of different temperatures at the same moment.  Every
// thread owns a sequence of cells (temperature, density, mean intensities), computes their states once alone and once
// concurrently with the other threads on the SAME shared objects; the two passes must agree bit for bit, and for helium-free
// gas the neutral fraction must solve the hydrogen balance equation with the rate of the cell's OWN temperature (computed
// before the threads start).  Built for the hooks and the TSan variant.
#include "Abundances.hpp"
#include "ChargeTransferRates.hpp"
#include "IonizationStateCalculator.hpp"
#include "IonizationVariables.hpp"
#include "VernerRecombinationRates.hpp"
#include "vh.hpp"
#include <thread>
#include <vector>

struct GasCell {
  double n, T, jH, jHe;
};

int main(int argc, char **argv) {
  const uint64_t seed = vh::arg_u64(argc, argv, "--seed", 1);
  const uint64_t K = vh::arg_u64(argc, argv, "--cells", 100000);
  const int T = (int)vh::arg_u64(argc, argv, "--threads", 8);
  vh::Stats st;
  VernerRecombinationRates rr;
  ChargeTransferRates ctr;
  for (int he = 0; he < 2; ++he) {
    const Abundances ab(he ? 0.1 : 0., 2.2e-4, 4.e-5, 3.3e-4, 5.e-5, 9.e-6);
    IonizationStateCalculator calc(1., ab, rr, ctr);
    std::vector< std::vector< GasCell > > cells(T);
    std::vector< std::vector< double > > alphaH(T);
    for (int t = 0; t < T; ++t) {
      vh::Rng r(seed * 9176 + 31 * t + he);
      cells[t].resize(K);
      alphaH[t].resize(K);
      // every thread stays at "its" temperature for a few cells and then moves on (cells of a subgrid are similar)
      double Tcur = 8000.;
      for (uint64_t k = 0; k < K; ++k) {
        if (k % 5 == 0) Tcur = (t % 2) ? r.loguniform(3e3, 3e4) : 4000. + 1000. * ((t * 7 + k / 5) % 17);
        GasCell &c = cells[t][k];
        c.T = Tcur;
        c.n = r.loguniform(1e6, 1e10);
        const double a = rr.get_recombination_rate(ION_H_n, c.T);
        alphaH[t][k] = a;
        c.jH = c.n * a * r.loguniform(1e-4, 1e4);
        c.jHe = he ? c.jH * r.loguniform(1e-3, 1.) : 0.;
      }
    }
    auto worker = [&](int t, std::vector< double > &out) {
      out.resize(2 * K);
      for (uint64_t k = 0; k < K; ++k) {
        const GasCell &c = cells[t][k];
        IonizationVariables v;
        v.set_number_density(c.n);
        v.set_temperature(c.T);
        v.set_mean_intensity(ION_H_n, c.jH);
        v.set_mean_intensity(ION_He_n, c.jHe);
        calc.calculate_ionization_state(1., 1., v);
        out[2 * k] = v.get_ionic_fraction(ION_H_n);
        out[2 * k + 1] = v.get_ionic_fraction(ION_He_n);
      }
    };
    std::vector< std::vector< double > > ref(T), conc(T);
    for (int t = 0; t < T; ++t) worker(t, ref[t]);
    std::vector< std::thread > th;
    for (int t = 0; t < T; ++t) th.emplace_back(worker, t, std::ref(conc[t]));
    for (auto &x : th) x.join();
    uint64_t differ = 0, resid = 0;
    for (int t = 0; t < T; ++t)
      for (uint64_t k = 0; k < K; ++k) {
        for (int j = 0; j < 2; ++j)
          if (vh::bits(ref[t][2 * k + j]) != vh::bits(conc[t][2 * k + j])) {
            if (differ < 3)
              VH_VIOL(he ? "threads/result-differs/with-helium" : "threads/result-differs/hydrogen-only", t * K + k,
                      "thread %d cell %" PRIu64 " (T=%.17g n=%.17g jH=%.17g): neutral fraction of %s alone %a, with %d other threads at other temperatures %a", t, k, cells[t][k].T,
                      cells[t][k].n, cells[t][k].jH, j ? "He" : "H", ref[t][2 * k + j], conc[t][2 * k + j], T - 1);
            ++differ;
          }
        if (!he) {
          // n alpha(T) (1-x)^2 = jH x with the rate of the cell's own temperature
          const long double x = conc[t][2 * k], na = (long double)cells[t][k].n * alphaH[t][k], j = cells[t][k].jH;
          const long double lhs = na * (1 - x) * (1 - x), rhs = j * x;
          const long double scale = std::max(lhs, rhs);
          if (x > 1e-13L && std::fabs((double)(lhs - rhs)) > 1e-6L * scale) {
            if (resid < 3)
              VH_VIOL("threads/balance-residual/hydrogen-only", t * K + k, "thread %d cell %" PRIu64 " (T=%.17g): x=%.17Lg leaves a relative residual %.3Lg of the balance equation with alpha_H(T)", t, k,
                      cells[t][k].T, x, (lhs - rhs) / scale);
            ++resid;
          }
        }
      }
    st.inc("cells_compared", (uint64_t)T * K);
    st.inc("values_differing", differ);
    st.inc(he ? "cells_with_helium" : "cells_hydrogen_only", (uint64_t)T * K);
  }
  st.inc("threads", T);
  st.print();
  std::printf("DONE violations=%" PRIu64 "\n", vh::g_nviol);
  return vh::g_nviol ? 1 : 0;
}
