// C08: stress the real scheduler containers from many threads and check every hand-out against atomic shadow
// state kept by the harness (history + tiny sequential model, unique tokens everywhere).
//
// Scenarios (each "history" draws one with its parameters from the seed):
//  pool    ThreadSafeVector<Task>: get/get_safe/free; a slot has at most one owner, occupancy == slots held at
//          quiescent barriers, a drained pool hands out every slot again
//  queue   TaskQueue + Task + ThreadLock: every enqueued task id is handed out exactly once, and only together with
//          exclusive ownership of its declared locks; nothing lockable is left behind at quiescence
//  lock    ThreadLock: one holder at a time, protected plain counter is exact
//  atomic  AtomicValue / LockFree: no lost update
//  memory  MemorySpace::add_photons: tokens are neither lost nor duplicated across the overflow copy
#include "AtomicValue.hpp"
#include "LockFree.hpp"
#include "MemorySpace.hpp"
#include "PhotonBuffer.hpp"
#include "Task.hpp"
#include "TaskQueue.hpp"
#include "ThreadLock.hpp"
#include "ThreadSafeVector.hpp"
#include "vh.hpp"

#include <algorithm>
#include <atomic>
#include <mutex>
#include <set>
#include <thread>
#include <vector>

static std::mutex g_viol_mutex;
#define TVIOL(key, c, ...)                                                                                             \
  do {                                                                                                                 \
    std::lock_guard< std::mutex > g(g_viol_mutex);                                                                     \
    VH_VIOL(key, c, __VA_ARGS__);                                                                                      \
  } while (0)

struct Barrier {
  std::atomic< int > count;
  std::atomic< int > gen;
  int n;
  explicit Barrier(int nn) : count(0), gen(0), n(nn) {}
  void wait() {
    const int g = gen.load();
    if (count.fetch_add(1) + 1 == n) {
      count.store(0);
      gen.fetch_add(1);
    } else {
      while (gen.load() == g) std::this_thread::yield();
    }
  }
};

static vh::Stats g_st;
static std::mutex g_st_mutex;
static void stat(const std::string &k, uint64_t n = 1) {
  std::lock_guard< std::mutex > g(g_st_mutex);
  g_st.inc(k, n);
}

// ---------------------------------------------------------------------------------------------------------------
static void scenario_pool(uint64_t cid, vh::Rng r) {
  // Capacity proviso of the property: the threads together never want more slots than the pool has (a request on an
  // exhausted pool legitimately spins until somebody frees a slot, which nobody would do at a barrier).  The pool does
  // become exactly full (every thread at its maximum), and the full/reuse behaviour is probed single-threaded below.
  const size_t S = 2 + r.below(r.chance(0.5) ? 7 : 63);
  const int T = 2 + r.below(std::min< size_t >(15, S - 1));
  const uint64_t K = 2000 + r.below(6000);
  const size_t maxhold = std::max< size_t >(1, S / T);
  const bool use_unsafe_get = r.chance(0.5);
  const uint64_t barrier_every = 200 + r.below(800);
  ThreadSafeVector< Task > pool(S, "c08 pool");
  std::vector< std::atomic< int > > owner(S);
  for (auto &o : owner) o.store(-1);
  std::atomic< uint64_t > held_total(0), full_events(0), gets(0), cas_conflicts(0);
  std::atomic< bool > bad(false);
  Barrier bar(T);
  std::vector< std::thread > th;
  for (int t = 0; t < T; ++t) {
    th.emplace_back([&, t]() {
      vh::Rng rr = r.fork(1000 + t);
      std::vector< size_t > mine;
      for (uint64_t k = 0; k < K; ++k) {
        if (k % barrier_every == barrier_every - 1) {
          bar.wait();
          if (t == 0) {
            const size_t occ = pool.get_number_of_active_elements();
            if (occ != held_total.load()) {
              TVIOL("pool/occupancy", cid, "at a quiescent point the pool reports %zu taken slots, %" PRIu64 " are held (size %zu, %d threads)", occ,
                    held_total.load(), S, T);
              bad = true;
            }
            stat("pool_quiescent_checks");
          }
          bar.wait();
        }
        const bool want_get = mine.size() < maxhold && (mine.empty() || rr.chance(0.55));
        if (want_get) {
          size_t idx;
          if (use_unsafe_get) {
            idx = pool.get_free_element();
          } else {
            idx = pool.get_free_element_safe();
          }
          if (idx >= S) {
            full_events.fetch_add(1);
            if (idx > S) {
              TVIOL("pool/index-out-of-range", cid, "get returned index %zu for a pool of size %zu", idx, S);
              bad = true;
            }
            continue;
          }
          gets.fetch_add(1);
          int expect = -1;
          if (!owner[idx].compare_exchange_strong(expect, t)) {
            TVIOL("pool/two-owners", cid, "slot %zu handed to thread %d while thread %d still owns it (size %zu, %d threads)", idx, t, expect, S, T);
            bad = true;
            continue;
          }
          held_total.fetch_add(1);
          // touch the payload: a double hand-out is also a data race TSan can see
          pool[idx].set_buffer(t);
          pool[idx].set_subgrid(k);
          mine.push_back(idx);
        } else {
          const size_t j = rr.below(mine.size());
          const size_t idx = mine[j];
          mine[j] = mine.back();
          mine.pop_back();
          if (pool[idx].get_buffer() != (size_t)t) {
            TVIOL("pool/payload-overwritten", cid, "payload of slot %zu owned by thread %d was overwritten (now %zu)", idx, t, pool[idx].get_buffer());
            bad = true;
          }
          owner[idx].store(-1);
          held_total.fetch_sub(1);
          pool.free_element(idx);
        }
      }
      for (size_t idx : mine) {
        owner[idx].store(-1);
        held_total.fetch_sub(1);
        pool.free_element(idx);
      }
    });
  }
  for (auto &x : th) x.join();
  if (pool.get_number_of_active_elements() != 0) {
    TVIOL("pool/occupancy", cid, "after every slot was released the pool reports %zu taken slots", pool.get_number_of_active_elements());
  } else if (!bad) {
    // a released slot becomes available again: a drained pool hands out all S slots, each once
    std::set< size_t > seen;
    for (size_t i = 0; i < S; ++i) {
      const size_t idx = pool.get_free_element_safe();
      if (idx >= S || !seen.insert(idx).second) {
        TVIOL("pool/slot-not-reusable", cid, "drained pool of size %zu: request %zu returned %zu (%s)", S, i, idx, idx >= S ? "pool claims to be full" : "duplicate");
        break;
      }
    }
    if (seen.size() == S) {
      if (pool.get_free_element_safe() != S) TVIOL("pool/overcommitted", cid, "pool of size %zu handed out more than %zu slots", S, S);
      stat("pool_full_events");
      // free one slot of the full pool: exactly that slot must come back, whatever the cursor position
      const size_t victim = r.below(S);
      pool.free_element(victim);
      const size_t again = pool.get_free_element_safe();
      if (again != victim) TVIOL("pool/slot-not-reusable", cid, "full pool of size %zu: freed slot %zu, next request returned %zu", S, victim, again);
      if (pool.get_number_of_active_elements() != S) TVIOL("pool/occupancy", cid, "full pool reports %zu taken slots of %zu", pool.get_number_of_active_elements(), S);
    }
  }
  stat("pool_histories");
  stat("pool_gets", gets.load());
  stat("pool_full_events", full_events.load());
  if (S <= (size_t)T) stat("pool_histories_smaller_than_threads");
}

// ---------------------------------------------------------------------------------------------------------------
// A pool that IS full while requests keep coming: holders (quotas summing to the pool size) free a slot and ask for it
// again, probers ask with get_free_element_safe() and give the slot straight back.  Requests may be refused, never
// granted twice; when everything has been released the occupancy must be zero and every slot obtainable again.
static void scenario_pool_full(uint64_t cid, vh::Rng r) {
  const size_t S = 2 + r.below(15);
  const int H = 1 + r.below(std::min< size_t >(4, S));
  const int P = 1 + r.below(4);
  const uint64_t K = 3000 + r.below(6000);
  ThreadSafeVector< Task > pool(S, "c08 full pool");
  std::vector< std::atomic< int > > owner(S);
  for (auto &o : owner) o.store(-1);
  std::atomic< uint64_t > refused(0), granted(0);
  std::vector< std::thread > th;
  for (int t = 0; t < H + P; ++t) {
    th.emplace_back([&, t]() {
      vh::Rng rr = r.fork(7000 + t);
      const bool holder = t < H;
      const size_t quota = holder ? (S / H + ((size_t)t < S % H ? 1 : 0)) : 1;
      std::vector< size_t > mine;
      for (uint64_t k = 0; k < K; ++k) {
        const bool want = mine.size() < quota && (mine.empty() || !holder || rr.chance(0.6));
        if (want) {
          const size_t idx = pool.get_free_element_safe();
          if (idx >= S) {
            refused.fetch_add(1);
            continue;
          }
          granted.fetch_add(1);
          int expect = -1;
          if (!owner[idx].compare_exchange_strong(expect, t)) {
            TVIOL("pool/two-owners", cid, "full-pool scenario: slot %zu handed to thread %d while thread %d owns it (size %zu)", idx, t, expect, S);
            continue;
          }
          mine.push_back(idx);
          if (!holder) {  // probers give the slot straight back
            owner[idx].store(-1);
            pool.free_element(idx);
            mine.pop_back();
          }
        } else if (!mine.empty()) {
          const size_t idx = mine.back();
          mine.pop_back();
          owner[idx].store(-1);
          pool.free_element(idx);
        }
      }
      for (size_t idx : mine) {
        owner[idx].store(-1);
        pool.free_element(idx);
      }
    });
  }
  for (auto &x : th) x.join();
  if (pool.get_number_of_active_elements() != 0)
    TVIOL("pool/occupancy", cid, "after every slot of a pool that had been full was released the pool reports %zu taken slots (size %zu, %d holders, %d probers)",
          pool.get_number_of_active_elements(), S, H, P);
  std::set< size_t > seen;
  for (size_t i = 0; i < S; ++i) {
    const size_t idx = pool.get_free_element_safe();
    if (idx >= S || !seen.insert(idx).second) {
      TVIOL("pool/slot-not-reusable", cid, "pool of size %zu that had been full: request %zu after everything was released returned %zu (%zu slots obtained)", S, i, idx, seen.size());
      break;
    }
  }
  stat("poolfull_histories");
  stat("poolfull_refused_requests", refused.load());
  stat("poolfull_granted_requests", granted.load());
}

// ---------------------------------------------------------------------------------------------------------------
// The pattern of the RHD driver: a prefix of permanently held slots (hydro tasks), per step many short-lived slots taken
// and freed by several threads -- enough for the cursor to wrap around the pool -- some of which are still held when,
// at the quiescent end of the step, clear_after(prefix) releases everything behind the prefix.  Afterwards the occupancy
// count is the prefix, every slot behind it can be obtained again (exactly once), and none in front of it.
static void scenario_pool_clear(uint64_t cid, vh::Rng r) {
  const size_t S = 8 + r.below(120);
  const size_t prefix = r.below(S / 2);
  const int T = 1 + (int)r.below(4);
  const int steps = 2 + (int)r.below(4);
  ThreadSafeVector< Task > pool(S, "c08 clear pool");
  for (size_t i = 0; i < prefix; ++i) {
    const size_t idx = pool.get_free_element();
    if (idx != i) TVIOL("pool/clear/prefix", cid, "fresh pool: request %zu returned slot %zu", i, idx);
  }
  const size_t room = S - prefix;
  for (int step = 0; step < steps; ++step) {
    std::vector< std::vector< size_t > > left(T);
    std::vector< std::thread > th;
    // every thread may hold at most room/T slots at a time, and takes 1..3 x room slots in total: the cursor wraps
    const size_t quota = std::max< size_t >(1, room / T);
    for (int t = 0; t < T; ++t) {
      th.emplace_back([&, t, step]() {
        vh::Rng rr = r.fork(100 * step + t);
        std::vector< size_t > mine;
        const uint64_t K = room * (1 + rr.below(3)) + rr.below(7);
        for (uint64_t k = 0; k < K; ++k) {
          if (mine.size() < quota && (mine.empty() || rr.chance(0.6))) {
            const size_t idx = pool.get_free_element();
            if (idx < prefix || idx >= S) TVIOL("pool/clear/prefix", cid, "slot %zu handed out although the first %zu slots are held", idx, prefix);
            mine.push_back(idx);
          } else if (!mine.empty()) {
            const size_t j = rr.below(mine.size());
            pool.free_element(mine[j]);
            mine[j] = mine.back();
            mine.pop_back();
          }
        }
        left[t] = mine;  // still held at the end of the step
      });
    }
    for (auto &x : th) x.join();
    size_t held = prefix;
    for (auto &m : left) held += m.size();
    if (pool.get_number_of_active_elements() != held)
      TVIOL("pool/occupancy", cid, "end of step %d: pool reports %zu taken slots, %zu are held (size %zu, prefix %zu)", step, pool.get_number_of_active_elements(), held, S, prefix);
    stat("poolclear_slots_held_at_clear", held - prefix);
    pool.clear_after(prefix);
    stat("poolclear_clears");
    if (pool.get_number_of_active_elements() != prefix)
      TVIOL("pool/occupancy", cid, "after clear_after(%zu) the pool reports %zu taken slots (size %zu)", prefix, pool.get_number_of_active_elements(), S);
    // every slot behind the prefix is available again, exactly once.  The requests run in a helper thread: if the count
    // says "free slots exist" while every flag is still set, a request never returns (bounded wait: 2e8 yields, the
    // whole loop normally takes microseconds)
    std::vector< char > seen(S, 0);
    std::atomic< size_t > got(0);
    std::atomic< int > done(0);
    std::thread verifier([&]() {
      for (size_t i = 0; i < room; ++i) {
        const size_t idx = pool.get_free_element_safe();
        if (idx >= S) break;
        if (idx < prefix || seen[idx]) { TVIOL("pool/two-owners", cid, "after clear_after(%zu): slot %zu handed out %s", prefix, idx, idx < prefix ? "although it belongs to the held prefix" : "twice"); break; }
        seen[idx] = 1;
        got.fetch_add(1);
      }
      done.store(1);
    });
    uint64_t waited = 0;
    while (!done.load() && ++waited < 200000000ull) std::this_thread::yield();
    if (!done.load()) {
      TVIOL("pool/slot-not-reusable", cid, "after clear_after(%zu) on a pool of %zu (occupancy count %zu): a request for one of the %zu released slots never returned after %zu were obtained (step %d, %zu were held at the clear)",
            prefix, S, pool.get_number_of_active_elements(), room, got.load(), step, held - prefix);
      g_st.print();
      std::printf("DONE violations=%" PRIu64 "\n", vh::g_nviol);
      std::fflush(stdout);
      _exit(1);  // the helper thread cannot be stopped
    }
    verifier.join();
    if (got.load() != room) {
      TVIOL("pool/slot-not-reusable", cid, "after clear_after(%zu) on a pool of %zu only %zu of the %zu released slots could be obtained again (step %d, %zu were held at the clear)", prefix, S, got.load(), room,
            step, held - prefix);
      stat("poolclear_histories");
      return;  // the next step would block for ever on the slots that were lost
    } else if (pool.get_free_element_safe() < S)
      TVIOL("pool/overcommitted", cid, "after clear_after(%zu): more than %zu slots handed out", prefix, room);
    pool.clear_after(prefix);  // back to the state at the start of a step
  }
  stat("poolclear_histories");
}

// ---------------------------------------------------------------------------------------------------------------
// The blocking request on a FULL pool (what a worker does when the task pool is momentarily exhausted): it may wait, but
// what it finally returns must be a slot that was released, never one that somebody still holds.  The main thread holds
// every slot, R requesters block in get_free_element(), then exactly R slots are released one by one.
static void scenario_pool_blocking(uint64_t cid, vh::Rng r) {
  const size_t S = 2 + r.below(12);
  const int R = 1 + (int)r.below(std::min< size_t >(3, S));
  ThreadSafeVector< Task > pool(S, "c08 blocking pool");
  std::vector< std::atomic< int > > owner(S);
  for (size_t i = 0; i < S; ++i) {
    const size_t idx = pool.get_free_element();
    if (idx >= S) { TVIOL("pool/two-owners", cid, "fresh pool returned slot %zu of %zu", idx, S); return; }
    owner[idx].store(1000);  // held by the main thread
  }
  std::atomic< int > waiting(0), served(0);
  std::vector< std::thread > th;
  for (int t = 0; t < R; ++t) {
    th.emplace_back([&, t]() {
      waiting.fetch_add(1);
      const size_t idx = pool.get_free_element();
      if (idx >= S) { TVIOL("pool/two-owners", cid, "blocking request on a full pool of %zu returned %zu", S, idx); served.fetch_add(1); return; }
      int expect = -1;
      if (!owner[idx].compare_exchange_strong(expect, t))
        TVIOL("pool/two-owners", cid, "blocking request on a full pool of %zu returned slot %zu, which %s still holds", S, idx, expect == 1000 ? "the main thread" : "another requester");
      served.fetch_add(1);
    });
  }
  while (waiting.load() < R) std::this_thread::yield();
  // let the requesters sweep the full pool a few times before anything is released
  for (int k = 0; k < 2000; ++k) std::this_thread::yield();
  std::vector< size_t > order(S);
  for (size_t i = 0; i < S; ++i) order[i] = i;
  for (size_t i = S - 1; i > 0; --i) std::swap(order[i], order[r.below(i + 1)]);
  for (int k = 0; k < R; ++k) {
    owner[order[k]].store(-1);
    pool.free_element(order[k]);
    const int want = k + 1;
    uint64_t spins = 0;
    while (served.load() < want && ++spins < 400000000ull) std::this_thread::yield();
    if (served.load() < want) { TVIOL("pool/slot-not-reusable", cid, "slot %zu of a full pool of %zu was released but no blocked requester obtained it", order[k], S); break; }
  }
  // a requester that was never served would block for ever: release everything so that the threads can end
  if (served.load() < R) for (size_t i = 0; i < S; ++i) if (owner[i].load() == 1000) { owner[i].store(-1); pool.free_element(i); }
  for (auto &x : th) x.join();
  stat("poolblocking_histories");
  stat("poolblocking_requests_served", (uint64_t)served.load());
}

// ---------------------------------------------------------------------------------------------------------------
static void scenario_queue(uint64_t cid, vh::Rng r) {
  const int L = 1 + r.below(8);
  const int P = 1 + r.below(4), C = 1 + r.below(12);
  const uint64_t per_producer = 100 + r.below(500);
  const uint64_t total = per_producer * P;
  const int nq = 1 + r.below(3);
  ThreadSafeVector< Task > tasks(total + 16, "c08 tasks");
  std::vector< TaskQueue * > queues;
  for (int i = 0; i < nq; ++i) queues.push_back(new TaskQueue(total + 16, "c08 queue"));
  std::vector< ThreadLock > locks(L);
  std::vector< std::atomic< int > > lock_owner(L);
  for (auto &o : lock_owner) o.store(-1);
  std::vector< std::atomic< int > > popped(total + 16);
  for (auto &p : popped) p.store(0);
  std::vector< std::atomic< int > > enq(total + 16);
  for (auto &p : enq) p.store(0);
  std::atomic< uint64_t > produced(0), consumed(0), contended(0), same_twice(0), steals(0);
  std::atomic< int > producers_left(P);
  std::atomic< bool > giveup(false);
  auto lock_index = [&](const ThreadLock *l) { return (int)(l - &locks[0]); };
  std::vector< std::thread > th;
  for (int p = 0; p < P; ++p) {
    th.emplace_back([&, p]() {
      vh::Rng rr = r.fork(2000 + p);
      for (uint64_t k = 0; k < per_producer; ++k) {
        const size_t id = tasks.get_free_element();
        Task &t = tasks[id];
        t.set_type(TASKTYPE_PHOTON_TRAVERSAL);
        t.set_subgrid(id);
        t.set_buffer(0);
        const int nd = rr.below(3);
        if (nd >= 1) {
          const int a = rr.below(L);
          t.set_dependency(&locks[a]);
          if (nd == 2) {
            int b = rr.below(L);
            if (rr.chance(0.15)) b = a;  // the hydro graph produces this for a subgrid that is its own neighbour
            if (b == a) same_twice.fetch_add(1);
            // sorted order avoids dining philosophers, exactly as the real code does
            if (b < a) {
              t.set_dependency(&locks[b]);
              t.set_extra_dependency(&locks[a]);
            } else {
              t.set_extra_dependency(&locks[b]);
            }
          }
        }
        enq[id].fetch_add(1);
        queues[rr.below(nq)]->add_task(id);
        produced.fetch_add(1);
        if (rr.chance(0.05)) std::this_thread::yield();
      }
      producers_left.fetch_sub(1);
    });
  }
  // fruitless polls completed by every consumer: "nothing is obtainable" is only concluded when EVERY consumer kept polling
  // in vain during the observation -- a consumer that is descheduled in the middle of a queue operation holds the queue lock
  // or a task's resources, does not poll, and makes the others starve legitimately (a per-thread poll count alone is a
  // wall-clock verdict in disguise: it fired once in 72000 thorough histories on a loaded machine, never on replay)
  std::vector< std::atomic< uint64_t > > polls(C);
  for (auto &x : polls) x.store(0);
  for (int c = 0; c < C; ++c) {
    th.emplace_back([&, c]() {
      vh::Rng rr = r.fork(3000 + c);
      uint64_t fruitless = 0;
      uint64_t consumed_seen = 0;
      std::vector< uint64_t > snap(C, 0);
      while (consumed.load() < total && !giveup.load()) {
        TaskQueue *q = queues[rr.below(nq)];
        const bool steal = rr.chance(0.4);
        const size_t id = steal ? q->try_get_task(tasks) : q->get_task(tasks);
        if (id == NO_TASK) {
          polls[c].fetch_add(1, std::memory_order_relaxed);
          if (fruitless == 0 || consumed.load() != consumed_seen) {
            consumed_seen = consumed.load();
            for (int k = 0; k < C; ++k) snap[k] = polls[k].load(std::memory_order_relaxed);
            fruitless = 0;
          }
          ++fruitless;
          if (producers_left.load() == 0 && fruitless > 300000 && (fruitless & 1023) == 0) {
            bool all = true;
            for (int k = 0; k < C; ++k) all = all && polls[k].load(std::memory_order_relaxed) - snap[k] >= 1000;
            // nothing obtainable by anybody although work remains and nobody is in the middle of an operation: decide at
            // quiescence below
            if (all && consumed.load() == consumed_seen) giveup = true;
          }
          if ((fruitless & 63) == 0) std::this_thread::yield();
          continue;
        }
        fruitless = 0;
        if (steal) steals.fetch_add(1);
        if (id >= total + 16) {
          TVIOL("queue/bad-id", cid, "queue returned task id %zu", id);
          continue;
        }
        if (popped[id].fetch_add(1) != 0) {
          TVIOL("queue/handed-out-twice", cid, "task %zu was handed out %d times", id, popped[id].load());
          continue;
        }
        if (enq[id].load() != 1) TVIOL("queue/never-enqueued", cid, "task %zu handed out but enqueued %d times", id, enq[id].load());
        Task &t = tasks[id];
        const ThreadLock *d0 = t.verif_get_dependency(0), *d1 = t.verif_get_dependency(1);
        int held[2] = {-1, -1};
        int nh = 0;
        if (d0) held[nh++] = lock_index(d0);
        if (d1 && d1 != d0) held[nh++] = lock_index(d1);
        for (int k = 0; k < nh; ++k) {
          int expect = -1;
          if (!lock_owner[held[k]].compare_exchange_strong(expect, c)) {
            TVIOL("queue/resource-not-exclusive", cid, "task %zu handed to consumer %d although its lock %d is held by consumer %d", id, c, held[k], expect);
            held[k] = -1;
          }
        }
        if (nh) contended.fetch_add(0);
        // "work"
        if (rr.chance(0.3)) std::this_thread::yield();
        for (int k = 0; k < nh; ++k)
          if (held[k] >= 0) lock_owner[held[k]].store(-1);
        t.unlock_dependency();
        tasks.free_element(id);
        consumed.fetch_add(1);
      }
    });
  }
  for (auto &x : th) x.join();
  // quiescence: no operation in progress, nobody holds a lock
  uint64_t left = 0;
  for (auto q : queues) left += q->size();
  if (consumed.load() + left != total)
    TVIOL("queue/lost-or-duplicated", cid, "%" PRIu64 " tasks enqueued, %" PRIu64 " handed out, %" PRIu64 " still queued", total, consumed.load(), left);
  if (left > 0) {
    // every lock is free now: a queued task must be obtainable
    uint64_t got = 0;
    for (auto q : queues) {
      size_t id;
      while ((id = q->get_task(tasks)) != NO_TASK) {
        if (popped[id].fetch_add(1) != 0) TVIOL("queue/handed-out-twice", cid, "task %zu was handed out twice (drain)", id);
        tasks[id].unlock_dependency();
        tasks.free_element(id);
        ++got;
      }
    }
    if (got != left)
      TVIOL("queue/not-obtainable-at-quiescence", cid, "%" PRIu64 " tasks are queued and no lock is held, but only %" PRIu64 " could be obtained (%d locks, %" PRIu64 " tasks list one lock twice)",
            left, got, L, same_twice.load());
    else if (giveup.load())
      TVIOL("queue/starved", cid, "no consumer could obtain any of %" PRIu64 " queued tasks (every consumer polled >= 1000 times in vain while one of them polled 3e5 times and nothing was handed out) although they were obtainable at quiescence", left);
  }
  for (size_t i = 0; i < total + 16; ++i)
    if (enq[i].load() == 1 && popped[i].load() != 1) {
      TVIOL("queue/never-handed-out", cid, "task %zu enqueued once but handed out %d times", i, popped[i].load());
      break;
    }
  if (tasks.get_number_of_active_elements() != 0) TVIOL("pool/occupancy", cid, "task pool reports %zu taken slots after all tasks were freed", tasks.get_number_of_active_elements());
  for (int l = 0; l < L; ++l) {
    if (!locks[l].try_lock()) {
      TVIOL("queue/lock-left-held", cid, "lock %d is still held at quiescence", l);
    } else
      locks[l].unlock();
  }
  for (auto q : queues) delete q;
  stat("queue_histories");
  stat("queue_tasks", total);
  stat("queue_steals", steals.load());
  stat("queue_tasks_same_lock_twice", same_twice.load());
}

// ---------------------------------------------------------------------------------------------------------------
static void scenario_lock(uint64_t cid, vh::Rng r) {
  const int T = 2 + r.below(15);
  const uint64_t K = 500 + r.below(3000);
  ThreadLock lock;
  std::atomic< int > inside(0);
  uint64_t plain = 0;
  std::atomic< uint64_t > trysucc(0);
  std::vector< std::thread > th;
  for (int t = 0; t < T; ++t)
    th.emplace_back([&, t]() {
      vh::Rng rr = r.fork(4000 + t);
      for (uint64_t k = 0; k < K; ++k) {
        bool got = true;
        if (rr.chance(0.3)) {
          got = lock.try_lock();
          if (got) trysucc.fetch_add(1);
        } else
          lock.lock();
        if (!got) continue;
        if (inside.fetch_add(1) != 0) TVIOL("lock/two-holders", cid, "two threads inside the ThreadLock at the same time");
        ++plain;
        if (rr.chance(0.01)) std::this_thread::yield();
        inside.fetch_sub(1);
        lock.unlock();
      }
    });
  for (auto &x : th) x.join();
  stat("lock_histories");
  stat("lock_acquisitions", plain);
}

// ---------------------------------------------------------------------------------------------------------------
static void scenario_atomic(uint64_t cid, vh::Rng r) {
  const int T = 2 + r.below(15);
  const uint64_t K = 1000 + r.below(4000);
  AtomicValue< uint_fast32_t > post(0), pre(0), add(0), sub((uint_fast32_t)(T * K)), mx(0);
  double lf = 0.;
  uint64_t lfi = 0;
  std::vector< std::vector< uint_fast32_t > > seen(T);
  std::vector< uint64_t > addsum(T, 0);
  std::vector< uint_fast32_t > localmax(T, 0);
  std::vector< std::thread > th;
  for (int t = 0; t < T; ++t)
    th.emplace_back([&, t]() {
      vh::Rng rr = r.fork(5000 + t);
      seen[t].reserve(K);
      for (uint64_t k = 0; k < K; ++k) {
        seen[t].push_back(post.post_increment());
        pre.pre_increment();
        const uint_fast32_t inc = rr.below(7);
        add.pre_add(inc);
        addsum[t] += inc;
        sub.pre_decrement();
        const uint_fast32_t v = rr.below(1u << 30);
        localmax[t] = std::max(localmax[t], v);
        mx.max(v);
        LockFree::add(lf, 1.);
        LockFree::add(lfi, (uint64_t)3);
      }
    });
  for (auto &x : th) x.join();
  const uint64_t n = (uint64_t)T * K;
  std::vector< uint_fast32_t > all;
  for (auto &s : seen) all.insert(all.end(), s.begin(), s.end());
  std::sort(all.begin(), all.end());
  bool perm = all.size() == n;
  for (uint64_t i = 0; perm && i < n; ++i) perm = all[i] == i;
  if (!perm) TVIOL("atomic/post-increment", cid, "values returned by post_increment are not exactly 0..%" PRIu64 " (lost or duplicated update)", n - 1);
  if (post.value() != n) TVIOL("atomic/post-increment", cid, "final value %" PRIuFAST32 " after %" PRIu64 " increments", post.value(), n);
  if (pre.value() != n) TVIOL("atomic/pre-increment", cid, "final value %" PRIuFAST32 " after %" PRIu64 " increments", pre.value(), n);
  uint64_t as = 0;
  uint_fast32_t m = 0;
  for (int t = 0; t < T; ++t) {
    as += addsum[t];
    m = std::max(m, localmax[t]);
  }
  if (add.value() != as) TVIOL("atomic/add", cid, "final value %" PRIuFAST32 ", sum of increments %" PRIu64, add.value(), as);
  if (sub.value() != 0) TVIOL("atomic/decrement", cid, "final value %" PRIuFAST32 " after as many decrements as the initial value", sub.value());
  if (mx.value() != m) TVIOL("atomic/max", cid, "atomic maximum %" PRIuFAST32 ", true maximum %" PRIuFAST32, mx.value(), m);
  if (lf != (double)n) TVIOL("atomic/lockfree-double", cid, "lock free double sum %g, expected %" PRIu64, lf, n);
  if (lfi != 3 * n) TVIOL("atomic/lockfree-int", cid, "lock free integer sum %" PRIu64 ", expected %" PRIu64, lfi, 3 * n);
  stat("atomic_histories");
  stat("atomic_updates", 7 * n);
}

// ---------------------------------------------------------------------------------------------------------------
// Parent counter protocol of the task graph: N finishing parents decrement the child's counter; the values they get
// back must be exactly N-1..0, i.e. exactly one of them sees zero and releases the child (exactly-once release).
static void scenario_countdown(uint64_t cid, vh::Rng r) {
  const int T = 2 + r.below(3);
  const uint64_t rounds = 5000 + r.below(10000);
  Task child;
  std::atomic< int > go(0), done(0);
  std::atomic< uint64_t > zero_seen(0), bad_rounds(0);
  std::vector< std::atomic< int > > got(T);
  std::vector< std::thread > th;
  std::atomic< uint64_t > round(0);
  for (int t = 0; t < T; ++t)
    th.emplace_back([&, t]() {
      for (uint64_t k = 1; k <= rounds; ++k) {
        uint64_t w = 0;
        while (round.load() < k) {
          if ((++w & 255) == 0) std::this_thread::yield();
        }
        got[t].store((int)child.decrement_number_of_unfinished_parents());
        done.fetch_add(1);
      }
    });
  for (uint64_t k = 1; k <= rounds; ++k) {
    child.set_number_of_unfinished_parents((uint_fast8_t)T);
    done.store(0);
    round.store(k);
    uint64_t w = 0;
    while (done.load() < T) {
      if ((++w & 255) == 0) std::this_thread::yield();
    }
    std::vector< int > v;
    int zeros = 0;
    for (int t = 0; t < T; ++t) {
      v.push_back(got[t].load());
      zeros += (v.back() == 0);
    }
    std::sort(v.begin(), v.end());
    bool perm = true;
    for (int t = 0; t < T; ++t) perm = perm && v[t] == t;
    if (!perm) {
      if (bad_rounds.fetch_add(1) < 3)
        TVIOL("atomic/parent-countdown", cid, "%d parents decremented a counter of %d: %d of them saw zero (the child would be released %d times); returned values not a permutation of %d..0",
              T, T, zeros, zeros, T - 1);
    }
    zero_seen.fetch_add(zeros);
  }
  for (auto &x : th) x.join();
  stat("countdown_histories");
  stat("countdown_rounds", rounds);
  (void)go;
}

// ---------------------------------------------------------------------------------------------------------------
static void scenario_memory(uint64_t cid, vh::Rng r) {
  const int T = 1 + r.below(8);
  const size_t nbuf = 6 * T + 4;
  MemorySpace space(nbuf);
  std::atomic< uint64_t > overflows(0), adds(0);
  std::vector< std::thread > th;
  for (int t = 0; t < T; ++t)
    th.emplace_back([&, t]() {
      vh::Rng rr = r.fork(6000 + t);
      uint64_t token = ((uint64_t)(t + 1) << 40);
      for (int rep = 0; rep < 60; ++rep) {
        size_t target = space.get_free_buffer();
        space[target].set_subgrid_index(1000 + t);
        space[target].set_direction(rep % 27);
        // pre-fill
        const uint32_t pre = rr.chance(0.5) ? PHOTONBUFFER_SIZE - 1 - rr.below(30) : rr.below(PHOTONBUFFER_SIZE);
        std::vector< uint64_t > expect;
        for (uint32_t i = 0; i < pre; ++i) {
          const uint32_t k = space[target].get_next_free_photon();
          space[target][k].set_energy((double)(++token));
          expect.push_back(token);
        }
        PhotonBuffer local;
        local.reset();
        const uint32_t nadd = 1 + rr.below(rr.chance(0.3) ? PHOTONBUFFER_SIZE : 40);
        for (uint32_t i = 0; i < nadd; ++i) {
          const uint32_t k = local.get_next_free_photon();
          local[k].set_energy((double)(++token));
          expect.push_back(token);
        }
        const size_t out = space.add_photons(target, local);
        adds.fetch_add(1);
        std::vector< uint64_t > got;
        for (uint32_t i = 0; i < space[target].size(); ++i) got.push_back((uint64_t)space[target][i].get_energy());
        if (out != target) {
          overflows.fetch_add(1);
          if (space[target].size() != PHOTONBUFFER_SIZE)
            TVIOL("memory/overflow-before-full", cid, "add_photons returned a new buffer although the target holds %u of %u packets", space[target].size(), PHOTONBUFFER_SIZE);
          if (space[out].get_subgrid_index() != (size_t)(1000 + t) || space[out].get_direction() != rep % 27)
            TVIOL("memory/overflow-properties", cid, "overflow buffer does not carry the target's subgrid/direction");
          for (uint32_t i = 0; i < space[out].size(); ++i) got.push_back((uint64_t)space[out][i].get_energy());
        } else if (pre + nadd >= PHOTONBUFFER_SIZE) {
          TVIOL("memory/no-overflow-buffer", cid, "target full after the copy (%u+%u packets) but no new buffer was returned", pre, nadd);
        }
        if (got != expect) {
          std::multiset< uint64_t > a(got.begin(), got.end()), b(expect.begin(), expect.end());
          TVIOL(a == b ? "memory/reordered" : "memory/lost-or-duplicated", cid, "add_photons(%u held + %u added): %zu tokens found, %zu expected", pre, nadd, got.size(), expect.size());
        }
        if (out != target) space.free_buffer(out);
        space.free_buffer(target);
      }
    });
  for (auto &x : th) x.join();
  if (space.get_number_of_active_buffers() != 0) TVIOL("pool/occupancy", cid, "memory space reports %zu active buffers after everything was freed", space.get_number_of_active_buffers());
  stat("memory_histories");
  stat("memory_add_calls", adds.load());
  stat("memory_overflows", overflows.load());
}

int main(int argc, char **argv) {
  const uint64_t seed = vh::arg_u64(argc, argv, "--seed", 1);
  const uint64_t nhist = vh::arg_u64(argc, argv, "--histories", 20);
  const int64_t only = (int64_t)vh::arg_u64(argc, argv, "--only", (uint64_t)-1);
  const char *kinds = vh::arg_str(argc, argv, "--kinds", "pool,queue,lock,atomic,memory");
  vh::Rng master(seed * 7777777ull + 8);
  const char *names[5] = {"pool", "queue", "lock", "atomic", "memory"};
  for (uint64_t h = 0; h < nhist; ++h) {
    vh::Rng r = master.fork(h);
    if (only >= 0 && (int64_t)h != only) continue;
    int k = h % 5 < 2 ? (int)(h % 5) : (int)r.below(5);
    if (h % 5 < 2) k = h % 5;  // pools and queues in every block of five
    if (!std::strstr(kinds, names[k])) continue;
    switch (k) {
    case 0:
      switch ((h / 5) % 4) {
      case 0: scenario_pool(h, r); break;
      case 1: scenario_pool_full(h, r); break;
      case 2: scenario_pool_clear(h, r); break;
      default: scenario_pool_blocking(h, r); break;
      }
      break;
    case 1: scenario_queue(h, r); break;
    case 2: scenario_lock(h, r); break;
    case 3:
      if (r.chance(0.5)) scenario_atomic(h, r);
      else scenario_countdown(h, r);
      break;
    default: scenario_memory(h, r); break;
    }
    if (h < 2) std::printf("SAMPLE history=%" PRIu64 " kind=%s\n", h, names[k]);
  }
#ifdef CMACIONIZE_VERIF
  g_st.inc("jitter_yields", cmi_verif::global().yields.load());
#endif
  g_st.print();
  std::printf("DONE violations=%" PRIu64 "\n", vh::g_nviol);
  return vh::g_nviol ? 1 : 0;
}
