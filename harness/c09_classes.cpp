// C09 (b): class level restart round trips.
//
// For every restartable component that can be built stand-alone: write its state with
// RestartWriter, read it back through its restart constructor / restart factory with
// RestartReader, write the restored object again and require identical bytes; then let
// the original and the restored object answer the same questions / perform the same
// operations and require bitwise identical answers ("continues as if never stopped").
//
// Monitor design
//  * every case runs in a forked child with its own working directory under --tmp
//    (several classes write side files into the cwd); a child that dies gives
//    VIOL key=<class>/abort, printed by the parent with the child's stderr tail;
//  * operator new fills fresh memory with 0xAA, so a restart constructor that leaves a
//    member uninitialised cannot accidentally look right (correct code cannot depend on
//    the content of fresh memory; --no-poison switches this off for diagnosis);
//  * restored objects always live on the heap (new T(reader) / factory).
//
// Protocol: --seed N --cases M --tmp DIR [--only CASE] [--strict-refusal] [--no-poison]
#include "AlveliusTurbulenceForcing.hpp"
#include "Box.hpp"
#include "CoordinateVector.hpp"
#include "DensityFunction.hpp"
#include "DensitySubGrid.hpp"
#include "DensitySubGridCreator.hpp"
#include "Hydro.hpp"
#include "HydroBoundary.hpp"
#include "HydroDensitySubGrid.hpp"
#include "HydroMaskFactory.hpp"
#include "LiveOutputManager.hpp"
#include "ParameterFile.hpp"
#include "PhotonPacket.hpp"
#include "PhotonSourceDistributionFactory.hpp"
#include "PhysicalConstants.hpp"
#include "RandomGenerator.hpp"
#include "RestartReader.hpp"
#include "RestartWriter.hpp"
#include "TimeLine.hpp"
#include "YAMLDictionary.hpp"
#include "vh.hpp"

#include <algorithm>
#include <cerrno>
#include <cstdarg>
#include <dirent.h>
#include <fcntl.h>
#include <new>
#include <omp.h>
#include <signal.h>
#include <sstream>
#include <sys/resource.h>
#include <sys/stat.h>
#include <sys/wait.h>
#include <unistd.h>
#include <vector>

// ---------------------------------------------------------------------------------
// poisoning allocator
// ---------------------------------------------------------------------------------
static volatile int g_poison = 1;
static void *poison_alloc(std::size_t n) {
  if (n == 0) n = 1;
  void *p = std::malloc(n);
  if (!p) throw std::bad_alloc();
  if (g_poison) std::memset(p, 0xAA, n);
  return p;
}
void *operator new(std::size_t n) { return poison_alloc(n); }
void *operator new[](std::size_t n) { return poison_alloc(n); }
void operator delete(void *p) noexcept { std::free(p); }
void operator delete[](void *p) noexcept { std::free(p); }
void operator delete(void *p, std::size_t) noexcept { std::free(p); }
void operator delete[](void *p, std::size_t) noexcept { std::free(p); }

// ---------------------------------------------------------------------------------
// child <-> parent plumbing
// ---------------------------------------------------------------------------------
static int g_pipe = -1; // write end, valid in the child

static void pipe_line(const char *fmt, ...) {
  if (g_pipe < 0) return;
  char buf[2048];
  va_list ap;
  va_start(ap, fmt);
  int n = vsnprintf(buf, sizeof buf - 1, fmt, ap);
  va_end(ap);
  if (n < 0) return;
  if (n > (int)sizeof buf - 2) n = sizeof buf - 2;
  for (int i = 0; i < n; ++i)
    if (buf[i] == '\n') buf[i] = ' ';
  buf[n] = '\n';
  ssize_t w = write(g_pipe, buf, n + 1);
  (void)w;
}

struct Ctx {
  uint64_t id;
  const char *cls;
  vh::Rng r;
  vh::Stats st;
  std::string desc; // witness description of the generated object
  bool behaviour_failed;
  Ctx(uint64_t i, const char *c, vh::Rng rr) : id(i), cls(c), r(rr), behaviour_failed(false) {}
  void describe(const std::string &d) {
    desc = d;
    pipe_line("D %s", d.c_str());
  }
};

// at most PER_KEY_PRINTED lines are printed per key and process (the count is exact); the parent keeps the
// per-key counts and the children inherit them at fork
static std::map< std::string, int > g_keycount;
static const int PER_KEY_PRINTED = 6;
#define VIOL_KEY(key, caseid, ...)                                             \
  do {                                                                         \
    if (g_keycount[key]++ < PER_KEY_PRINTED) {                                 \
      VH_VIOL((key).c_str(), caseid, __VA_ARGS__);                             \
    } else {                                                                   \
      ++vh::g_nviol;                                                           \
    }                                                                          \
    pipe_line("K %s", (key).c_str());                                          \
    pipe_line("V %llu", (unsigned long long)vh::g_nviol);                      \
  } while (0)
#define VIOL(c, clause, ...)                                                   \
  do {                                                                         \
    const std::string k_ = std::string((c).cls) + "/" + (clause);              \
    VIOL_KEY(k_, (c).id, __VA_ARGS__);                                         \
  } while (0)

static std::string sfmt(const char *fmt, ...) {
  char buf[4096];
  va_list ap;
  va_start(ap, fmt);
  vsnprintf(buf, sizeof buf, fmt, ap);
  va_end(ap);
  return std::string(buf);
}

static std::string slurp(const std::string &fn) {
  std::string s;
  FILE *f = fopen(fn.c_str(), "rb");
  if (!f) return s;
  char buf[65536];
  size_t n;
  while ((n = fread(buf, 1, sizeof buf, f)) > 0) s.append(buf, n);
  fclose(f);
  return s;
}
static void spit(const std::string &fn, const std::string &content) {
  FILE *f = fopen(fn.c_str(), "wb");
  if (!f) return;
  fwrite(content.data(), 1, content.size(), f);
  fclose(f);
}
static void rm_rf(const std::string &path) {
  DIR *d = opendir(path.c_str());
  if (d) {
    struct dirent *e;
    while ((e = readdir(d))) {
      if (!strcmp(e->d_name, ".") || !strcmp(e->d_name, "..")) continue;
      std::string p = path + "/" + e->d_name;
      struct stat sb;
      if (lstat(p.c_str(), &sb) == 0 && S_ISDIR(sb.st_mode)) rm_rf(p);
      else unlink(p.c_str());
    }
    closedir(d);
  }
  rmdir(path.c_str());
}

template < class F > static std::string dump_with(const char *fn, F f) {
  {
    RestartWriter w(fn);
    f(w);
  }
  return slurp(fn);
}
template < class T > static std::string dump_obj(const char *fn, const T &o) {
  {
    RestartWriter w(fn);
    o.write_restart_file(w);
  }
  return slurp(fn);
}
template < class T > static T *restore_obj(const char *fn) {
  RestartReader rd(fn);
  return new T(rd);
}

// second dump must equal the first
static bool same_bytes(Ctx &c, const std::string &a, const std::string &b) {
  c.st.inc("roundtrips");
  if (a == b) return true;
  size_t i = 0;
  while (i < a.size() && i < b.size() && a[i] == b[i]) ++i;
  const size_t w = i & ~(size_t)7;
  uint64_t wa = 0, wb = 0;
  if (w + 8 <= a.size()) memcpy(&wa, a.data() + w, 8);
  if (w + 8 <= b.size()) memcpy(&wb, b.data() + w, 8);
  VIOL(c, "bytes",
       "dump of the restored object differs from the dump it was restored from: %zu vs %zu bytes, first "
       "difference at byte %zu, 8-byte word there %016llx (%a) vs %016llx (%a) | %s",
       a.size(), b.size(), i, (unsigned long long)wa, vh::from_bits(wa), (unsigned long long)wb,
       vh::from_bits(wb), c.desc.c_str());
  return false;
}

// recorded observations of an object's public behaviour
struct Trace {
  std::vector< uint64_t > v;
  std::vector< const char * > tag;
  std::vector< uint32_t > idx;
  uint32_t cur;
  Trace() : cur(0) {}
  void u(const char *t, uint64_t x) {
    v.push_back(x);
    tag.push_back(t);
    idx.push_back(cur);
  }
  void d(const char *t, double x) { u(t, vh::bits(x)); }
  void cv(const char *t, const CoordinateVector<> &x) {
    d(t, x.x());
    d(t, x.y());
    d(t, x.z());
  }
  void s(const char *t, const std::string &x) {
    uint64_t h = 1469598103934665603ull;
    for (size_t i = 0; i < x.size(); ++i) h = (h ^ (unsigned char)x[i]) * 1099511628211ull;
    u(t, h ^ (x.size() << 1));
  }
};

static bool same_behaviour(Ctx &c, const Trace &a, const Trace &b, const char *phase = "") {
  c.st.inc("behaviour_comparisons");
  c.st.inc("behaviour_observations", a.v.size());
  const size_t n = std::min(a.v.size(), b.v.size());
  for (size_t i = 0; i < n; ++i) {
    if (a.v[i] != b.v[i] || strcmp(a.tag[i], b.tag[i])) {
      size_t ndiff = 0;
      for (size_t j = i; j < n; ++j) ndiff += a.v[j] != b.v[j];
      c.behaviour_failed = true;
      VIOL(c, "behaviour",
           "%s restored object behaves differently: observation #%zu '%s'[%u]: original %016llx (%a), restored "
           "%016llx (%a); %zu of %zu observations differ | %s",
           phase, i, a.tag[i], a.idx[i], (unsigned long long)a.v[i], vh::from_bits(a.v[i]),
           (unsigned long long)b.v[i], vh::from_bits(b.v[i]), ndiff, n, c.desc.c_str());
      return false;
    }
  }
  if (a.v.size() != b.v.size()) {
    c.behaviour_failed = true;
    VIOL(c, "behaviour", "%s restored object gives %zu observations, original %zu | %s", phase, b.v.size(),
         a.v.size(), c.desc.c_str());
    return false;
  }
  return true;
}

// after the original and the restored object went through the same continuation their dumps must agree
// (part of the behaviour clause: it compares states that were reached, not the round trip itself)
static void same_end_state(Ctx &c, const std::string &a, const std::string &b) {
  if (c.behaviour_failed) return;
  c.st.inc("end_state_dumps_compared");
  if (a == b) return;
  size_t i = 0;
  while (i < a.size() && i < b.size() && a[i] == b[i]) ++i;
  c.behaviour_failed = true;
  VIOL(c, "behaviour",
       "[state dumped after the same continuation] dumps of original and restored object differ: %zu vs %zu bytes, first difference at byte %zu | %s",
       a.size(), b.size(), i, c.desc.c_str());
}

// ---------------------------------------------------------------------------------
// generators
// ---------------------------------------------------------------------------------
static double any_double(vh::Rng &r) {
  switch (r.below(10)) {
  case 0: return vh::from_bits(r.next()); // arbitrary bit pattern (NaN payloads, denormals...)
  case 1: return 0.;
  case 2: return -0.;
  case 3: return r.chance(0.5) ? INFINITY : -INFINITY;
  case 4: return 4.9406564584124654e-324 * (double)r.below(1000);
  case 5: return r.loguniform(1e-300, 1e300) * (r.chance(0.5) ? 1 : -1);
  default: return r.uniform(-10., 10.);
  }
}

struct Geo {
  double anchor[3], side[3];
  int nsub[3], ncs[3]; // subgrids per axis, cells per subgrid per axis
  bool per[3];
  int ntot(int a) const { return nsub[a] * ncs[a]; }
  int nsubtot() const { return nsub[0] * nsub[1] * nsub[2]; }
  // box of one subgrid, computed the way DensitySubGridCreator::create_subgrid does
  void subbox(int idx, double box[6]) const {
    const int ix = idx / (nsub[1] * nsub[2]);
    const int iy = (idx - ix * nsub[1] * nsub[2]) / nsub[2];
    const int iz = idx - ix * nsub[1] * nsub[2] - iy * nsub[2];
    const int ii[3] = {ix, iy, iz};
    for (int a = 0; a < 3; ++a) {
      const double ss = side[a] / nsub[a];
      box[a] = anchor[a] + ii[a] * ss;
      box[3 + a] = ss;
    }
  }
  // coverage counter only: is the inverse cell size not the rounded inverse of the cell size?
  bool inv_regime() const {
    for (int a = 0; a < 3; ++a) {
      const double ss = side[a] / nsub[a];
      const double cs = ss / ncs[a];
      if (vh::bits(ncs[a] / ss) != vh::bits(1. / cs)) return true;
    }
    return false;
  }
  std::string str() const {
    std::string s = sfmt("anchor=[%.17g,%.17g,%.17g] sides=[%.17g,%.17g,%.17g] ncell=[%d,%d,%d] nsub=[%d,%d,%d] "
                         "periodic=[%d,%d,%d]",
                         anchor[0], anchor[1], anchor[2], side[0], side[1], side[2], ntot(0), ntot(1), ntot(2),
                         nsub[0], nsub[1], nsub[2], (int)per[0], (int)per[1], (int)per[2]);
    for (int a = 0; a < 3; ++a) {
      const double ss = side[a] / nsub[a];
      s += sfmt(" axis%d: cell=%a n/side=%a 1/cell=%a;", a, ss / ncs[a], ncs[a] / ss, 1. / (ss / ncs[a]));
    }
    return s;
  }
};

static Geo gen_geo(vh::Rng &r, bool cube = false, int maxsub = 3, int maxcs = 4) {
  static const double S[] = {1.3, 1.1, 0.7, 2.3, 3.1, 0.9, 1.7, 2.9, 0.3, 0.1, 10., 1., 3., 7., 5., 2., 1e16};
  Geo g;
  const int kind = r.below(10);
  if (kind < 2 && !cube && maxsub >= 3 && maxcs >= 4) {
    // the geometry named in the property discussion: side 1.3 with 12 cells over 3 subgrids
    const double sd[3] = {1.3, 0.9, 3.1};
    const int nc[3] = {12, 6, 10};
    const int ns[3] = {3, (int)(r.chance(0.5) ? 3 : 2), (int)(r.chance(0.5) ? 2 : 1)};
    for (int a = 0; a < 3; ++a) {
      g.side[a] = sd[a];
      g.nsub[a] = ns[a];
      g.ncs[a] = nc[a] / ns[a];
    }
  } else {
    const double scale = r.chance(0.1) ? 3.0856775814913673e16 : 1.;
    for (int a = 0; a < 3; ++a) {
      double s = r.chance(0.25) ? r.loguniform(1e-3, 1e3) : S[r.below(sizeof S / sizeof S[0])];
      g.side[a] = s * scale;
      g.nsub[a] = 1 + (int)r.below(maxsub);
      g.ncs[a] = (maxcs >= 3 && r.chance(0.35)) ? 3 : 1 + (int)r.below(maxcs);
    }
    // keep the objects small
    while ((long)g.ntot(0) * g.ntot(1) * g.ntot(2) > 2500) {
      int big = 0;
      for (int a = 1; a < 3; ++a)
        if (g.ntot(a) > g.ntot(big)) big = a;
      if (g.ncs[big] > 1) --g.ncs[big];
      else --g.nsub[big];
    }
    if (cube) {
      g.side[1] = g.side[2] = g.side[0];
    }
  }
  for (int a = 0; a < 3; ++a) {
    switch (r.below(4)) {
    case 0: g.anchor[a] = 0.; break;
    case 1: g.anchor[a] = -0.5 * g.side[a]; break;
    case 2: g.anchor[a] = 2.2 * g.side[a]; break;
    default: g.anchor[a] = r.uniform(-3., 3.) * g.side[a]; break;
    }
    g.per[a] = r.chance(0.5);
  }
  return g;
}

static void fill_ion(vh::Rng &r, IonizationVariables &iv, bool wild = false) {
  iv.set_number_density(wild ? any_double(r) : r.loguniform(1., 100.));
  iv.set_temperature(wild ? any_double(r) : r.loguniform(10., 1e5));
  for (int i = 0; i < NUMBER_OF_IONNAMES; ++i) {
    iv.set_ionic_fraction(i, wild ? any_double(r) : r.uniform());
    iv.set_mean_intensity(i, wild ? any_double(r) : (r.chance(0.3) ? 0. : r.loguniform(1e-30, 1e-5)));
#ifdef DO_OUTPUT_COOLING
    iv.set_cooling(i, wild ? any_double(r) : r.loguniform(1e-40, 1e-20));
#endif
  }
  for (int i = 0; i < NUMBER_OF_REEMISSIONPROBABILITIES; ++i)
    iv.set_reemission_probability(i, wild ? any_double(r) : r.uniform());
  for (int i = 0; i < NUMBER_OF_HEATINGTERMS; ++i) iv.set_heating(i, wild ? any_double(r) : r.loguniform(1e-30, 1e-10));
  iv.set_cosmic_ray_factor(wild ? any_double(r) : (r.chance(0.5) ? -1. : r.loguniform(1e-20, 1e-10)));
}
static void trace_ion(Trace &t, const IonizationVariables &iv) {
  t.d("ion.number_density", iv.get_number_density());
  t.d("ion.temperature", iv.get_temperature());
  for (int i = 0; i < NUMBER_OF_IONNAMES; ++i) {
    t.d("ion.ionic_fraction", iv.get_ionic_fraction(i));
    t.d("ion.mean_intensity", iv.get_mean_intensity(i));
#ifdef DO_OUTPUT_COOLING
    t.d("ion.cooling", iv.get_cooling(i));
#endif
  }
  for (int i = 0; i < NUMBER_OF_REEMISSIONPROBABILITIES; ++i) t.d("ion.reemission", iv.get_reemission_probability(i));
  for (int i = 0; i < NUMBER_OF_HEATINGTERMS; ++i) t.d("ion.heating", iv.get_heating(i));
  t.d("ion.cosmic_ray_factor", iv.get_cosmic_ray_factor());
}

static void fill_hydro_wild(vh::Rng &r, HydroVariables &hv) {
  for (int i = 0; i < 5; ++i) {
    hv.primitives(i) = any_double(r);
    hv.conserved(i) = any_double(r);
    hv.delta_conserved(i) = any_double(r);
    hv.primitive_gradients(i) = CoordinateVector<>(any_double(r), any_double(r), any_double(r));
  }
  hv.set_gravitational_acceleration(CoordinateVector<>(any_double(r), any_double(r), any_double(r)));
  hv.set_energy_rate_term(any_double(r));
  hv.set_energy_term(any_double(r));
}
// physically sensible primitive variables (conserved ones are derived by the code)
static void fill_hydro_phys(vh::Rng &r, HydroVariables &hv, bool gravity) {
  hv.set_primitives_density(r.uniform(0.5, 2.));
  hv.set_primitives_velocity(CoordinateVector<>(r.uniform(-0.3, 0.3), r.uniform(-0.3, 0.3), r.uniform(-0.3, 0.3)));
  hv.set_primitives_pressure(r.uniform(0.5, 2.));
  if (gravity) hv.set_gravitational_acceleration(CoordinateVector<>(r.uniform(-.01, .01), r.uniform(-.01, .01), r.uniform(-.01, .01)));
}
static void trace_hv(Trace &t, const HydroVariables &hv) {
  for (int i = 0; i < 5; ++i) {
    t.d("hydro.primitive", hv.primitives(i));
    t.d("hydro.conserved", hv.conserved(i));
    t.d("hydro.delta_conserved", hv.delta_conserved(i));
    t.cv("hydro.primitive_gradient", const_cast< HydroVariables & >(hv).primitive_gradients(i));
  }
  t.cv("hydro.gravity", hv.get_gravitational_acceleration());
  t.d("hydro.energy_rate_term", hv.get_energy_rate_term());
  t.d("hydro.energy_term", hv.get_energy_term());
}

// ---------------------------------------------------------------------------------
// value classes
// ---------------------------------------------------------------------------------
static void case_coordinatevector(Ctx &c) {
  vh::Rng &r = c.r;
  {
    CoordinateVector<> o(any_double(r), any_double(r), any_double(r));
    c.describe(sfmt("CoordinateVector<double>(%a,%a,%a)", o.x(), o.y(), o.z()));
    const std::string d1 = dump_obj("a.dump", o);
    CoordinateVector<> *q = restore_obj< CoordinateVector<> >("a.dump");
    same_bytes(c, d1, dump_obj("b.dump", *q));
    Trace a, b;
    a.cv("xyz", o);
    b.cv("xyz", *q);
    same_behaviour(c, a, b);
    delete q;
    c.st.inc("distinct_objects");
  }
  {
    CoordinateVector< int_fast32_t > o((int_fast32_t)r.next(), (int_fast32_t)r.range(-5, 5), (int_fast32_t)r.below(1u << 31));
    c.describe(sfmt("CoordinateVector<int_fast32_t>(%ld,%ld,%ld)", (long)o.x(), (long)o.y(), (long)o.z()));
    const std::string d1 = dump_obj("a.dump", o);
    CoordinateVector< int_fast32_t > *q = restore_obj< CoordinateVector< int_fast32_t > >("a.dump");
    same_bytes(c, d1, dump_obj("b.dump", *q));
    Trace a, b;
    for (int i = 0; i < 3; ++i) {
      a.u("int", (uint64_t)o[i]);
      b.u("int", (uint64_t)(*q)[i]);
    }
    same_behaviour(c, a, b);
    delete q;
    c.st.inc("distinct_objects");
  }
  {
    CoordinateVector< bool > o(r.chance(.5), r.chance(.5), r.chance(.5));
    c.describe(sfmt("CoordinateVector<bool>(%d,%d,%d)", (int)o.x(), (int)o.y(), (int)o.z()));
    const std::string d1 = dump_obj("a.dump", o);
    CoordinateVector< bool > *q = restore_obj< CoordinateVector< bool > >("a.dump");
    same_bytes(c, d1, dump_obj("b.dump", *q));
    Trace a, b;
    for (int i = 0; i < 3; ++i) {
      a.u("bool", o[i] ? 1 : 0);
      b.u("bool", (*q)[i] ? 1 : 0);
    }
    same_behaviour(c, a, b);
    delete q;
    c.st.inc("distinct_objects");
  }
}

static void case_box(Ctx &c) {
  vh::Rng &r = c.r;
  Box<> o(CoordinateVector<>(any_double(r), any_double(r), any_double(r)),
          CoordinateVector<>(any_double(r), any_double(r), any_double(r)));
  c.describe(sfmt("Box anchor=(%a,%a,%a) sides=(%a,%a,%a)", o.get_anchor().x(), o.get_anchor().y(), o.get_anchor().z(),
                  o.get_sides().x(), o.get_sides().y(), o.get_sides().z()));
  const std::string d1 = dump_obj("a.dump", o);
  Box<> *q = restore_obj< Box<> >("a.dump");
  same_bytes(c, d1, dump_obj("b.dump", *q));
  Trace a, b;
  a.cv("anchor", o.get_anchor());
  a.cv("sides", o.get_sides());
  b.cv("anchor", q->get_anchor());
  b.cv("sides", q->get_sides());
  same_behaviour(c, a, b);
  delete q;
  c.st.inc("distinct_objects");
}

static void case_timeline(Ctx &c) {
  vh::Rng &r = c.r;
  const double total = r.loguniform(1e-6, 1e18);
  double start;
  switch (r.below(4)) {
  case 0: start = 0.; break;
  case 1: start = r.loguniform(1e-9, 1e15); break;
  case 2: start = -r.loguniform(1e-9, 1e15); break;
  default: start = total * r.uniform(-3, 3); break;
  }
  const double end = start + total;
  if (!(end > start)) {
    c.st.inc("timeline_degenerate_skipped");
    return;
  }
  const double T = end - start;
  double tmin = 0., tmax = 0.;
  switch (r.below(4)) {
  case 1: tmax = T * r.loguniform(1e-4, 2.); break;
  case 2: tmin = T * r.loguniform(1e-12, 1e-6); break;
  case 3:
    tmin = T * r.loguniform(1e-12, 1e-6);
    tmax = tmin * r.loguniform(1e3, 1e6);
    break;
  default: break;
  }
  TimeLine o(start, end, tmin, tmax);
  const uint64_t pre = r.below(60);
  const double base = T * std::ldexp(r.uniform(0.5, 1.0), -(int)(4 + r.below(10)));
  c.describe(sfmt("TimeLine start=%a end=%a min=%a max=%a base request=%a steps before dump=%llu", start, end, tmin, tmax,
                  base, (unsigned long long)pre));
  bool alive = true;
  for (uint64_t i = 0; i < pre && alive; ++i) {
    double dt, t;
    alive = o.advance(base * r.loguniform(0.2, 5.), dt, t);
  }
  c.st.inc("timeline_steps_before_dump", pre);
  const std::string d1 = dump_obj("a.dump", o);
  TimeLine *q = restore_obj< TimeLine >("a.dump");
  same_bytes(c, d1, dump_obj("b.dump", *q));
  Trace a, b;
  for (int i = 0; i < 40; ++i) {
    const double req = base * r.loguniform(0.2, 5.);
    double dt1 = -1, t1 = -1, dt2 = -1, t2 = -1;
    const bool m1 = o.advance(req, dt1, t1);
    const bool m2 = q->advance(req, dt2, t2);
    a.u("advance.more", m1); a.d("advance.dt", dt1); a.d("advance.t", t1);
    b.u("advance.more", m2); b.d("advance.dt", dt2); b.d("advance.t", t2);
    if (!m1 && !m2) break;
  }
  same_behaviour(c, a, b);
  // the state after the continuation must agree as well
  same_end_state(c, dump_obj("a.dump", o), dump_obj("b.dump", *q));
  delete q;
  c.st.inc("distinct_objects");
}

static void case_randomgenerator(Ctx &c) {
  vh::Rng &r = c.r;
  const int_fast32_t seed = r.chance(0.1) ? (int_fast32_t)r.below(3) : (int_fast32_t)r.below(1ull << 31);
  RandomGenerator o(seed);
  const uint64_t pre = r.chance(0.2) ? r.below(13) : r.below(3000);
  c.describe(sfmt("RandomGenerator seed=%ld numbers drawn before dump=%llu", (long)seed, (unsigned long long)pre));
  for (uint64_t i = 0; i < pre; ++i) o.get_uniform_random_double();
  c.st.inc("random_numbers_before_dump", pre);
  const std::string d1 = dump_obj("a.dump", o);
  RandomGenerator *q = restore_obj< RandomGenerator >("a.dump");
  same_bytes(c, d1, dump_obj("b.dump", *q));
  Trace a, b;
  for (int i = 0; i < 500; ++i) {
    if (i % 7 == 3) {
      a.u("integer", (uint64_t)o.get_random_integer());
      b.u("integer", (uint64_t)q->get_random_integer());
    } else {
      a.d("double", o.get_uniform_random_double());
      b.d("double", q->get_uniform_random_double());
    }
  }
  same_behaviour(c, a, b);
  same_end_state(c, dump_obj("a.dump", o), dump_obj("b.dump", *q));
  delete q;
  c.st.inc("distinct_objects");
}

// generated YAML text + the list of keys it defines
struct YamlDoc {
  std::string text;
  std::vector< std::string > keys;  // full keys
  std::vector< int > kind;          // 0 int, 1 double, 2 string, 3 length, 4 bool, 5 vector
};
static void yaml_value(vh::Rng &r, std::string &val, int &kind) {
  kind = r.below(6);
  switch (kind) {
  case 0: val = sfmt("%lld", (long long)r.range(-1000, 100000)); break;
  case 1: val = sfmt("%.17g", r.chance(.5) ? r.uniform(-5, 5) : r.loguniform(1e-30, 1e30)); break;
  case 2: {
    static const char *W[] = {"SingleStar", "HLLC", "a b c", "file_name.txt", "None", "x"};
    val = W[r.below(6)];
    break;
  }
  case 3: val = sfmt("%.17g %s", r.uniform(0.1, 50.), r.chance(.5) ? "m" : (r.chance(.5) ? "pc" : "cm")); break;
  case 4: val = r.chance(.5) ? "true" : "false"; break;
  default: val = sfmt("[%.17g, %.17g, %.17g]", r.uniform(-1, 1), r.uniform(-1, 1), r.uniform(-1, 1)); break;
  }
}
static void yaml_group(vh::Rng &r, YamlDoc &doc, const std::string &prefix, int depth, int &counter) {
  const int n = 1 + r.below(4);
  for (int i = 0; i < n; ++i) {
    const std::string name = sfmt("%s%d", r.chance(.5) ? "key" : "some name ", counter++);
    if (depth < 3 && r.chance(0.3)) {
      doc.text += std::string(2 * depth, ' ') + name + ":\n";
      yaml_group(r, doc, prefix + name + ":", depth + 1, counter);
    } else {
      std::string val;
      int kind;
      yaml_value(r, val, kind);
      doc.text += std::string(2 * depth, ' ') + name + ": " + val + (r.chance(.1) ? " # comment" : "") + "\n";
      doc.keys.push_back(prefix + name);
      doc.kind.push_back(kind);
    }
  }
}
static YamlDoc gen_yaml(vh::Rng &r) {
  YamlDoc doc;
  int counter = 0;
  doc.text = "# generated\n";
  const int ng = 1 + r.below(4);
  for (int g = 0; g < ng; ++g) {
    if (r.chance(0.3)) {
      std::string val;
      int kind;
      yaml_value(r, val, kind);
      const std::string name = sfmt("top%d", counter++);
      doc.text += name + ": " + val + "\n";
      doc.keys.push_back(name);
      doc.kind.push_back(kind);
    } else {
      const std::string name = sfmt("Group%d", counter++);
      doc.text += name + ":\n";
      yaml_group(r, doc, name + ":", 1, counter);
      if (r.chance(.3)) doc.text += "\n";
    }
  }
  return doc;
}
// one query on a dictionary-like object, recorded
template < class D > static void yaml_query(D &d, Trace &t, const YamlDoc &doc, uint64_t pick, uint64_t how) {
  const size_t nk = doc.keys.size();
  if (how % 5 == 0) { // a key that does not exist, with default
    const std::string key = sfmt("Missing:key%llu", (unsigned long long)(pick % 4));
    if (how % 2) t.d("get(default double)", d.template get_value< double >(key, 1.5 + (double)(pick % 3)));
    else t.s("get(default string)", d.template get_value< std::string >(key, "fallback"));
    return;
  }
  if (how % 5 == 1) {
    d.add_value(sfmt("Added:key%llu", (unsigned long long)(pick % 3)), sfmt("v%llu", (unsigned long long)pick));
    return;
  }
  const size_t i = pick % nk;
  const std::string &key = doc.keys[i];
  switch (doc.kind[i]) {
  case 0: t.u("get<int>", (uint64_t)d.template get_value< int_fast32_t >(key)); break;
  case 1: t.d("get<double>", d.template get_value< double >(key)); break;
  case 3: t.d("get<length>", d.template get_physical_value< QUANTITY_LENGTH >(key)); break;
  case 4: t.u("get<bool>", d.template get_value< bool >(key)); break;
  case 5: t.cv("get<vector>", d.template get_value< CoordinateVector<> >(key)); break;
  default: t.s("get<string>", d.template get_value< std::string >(key)); break;
  }
}

static void case_yamldictionary(Ctx &c) {
  vh::Rng &r = c.r;
  const YamlDoc doc = gen_yaml(r);
  std::istringstream in(doc.text);
  YAMLDictionary o(in);
  const int pre = r.below(12);
  c.describe(sfmt("YAMLDictionary with %zu keys, %d queries before dump", doc.keys.size(), pre));
  Trace dummy;
  for (int i = 0; i < pre; ++i) yaml_query(o, dummy, doc, r.next(), r.next());
  const std::string d1 = dump_obj("a.dump", o);
  YAMLDictionary *q = restore_obj< YAMLDictionary >("a.dump");
  same_bytes(c, d1, dump_obj("b.dump", *q));
  Trace a, b;
  for (int round = 0; round < 2; ++round) {
    std::ostringstream pa0, pa1, pb0, pb1;
    o.print_contents(pa0, false); o.print_contents(pa1, true);
    q->print_contents(pb0, false); q->print_contents(pb1, true);
    a.s("print", pa0.str()); a.s("print used", pa1.str());
    b.s("print", pb0.str()); b.s("print used", pb1.str());
    for (size_t i = 0; i < doc.keys.size(); ++i) {
      a.u("has_value", o.has_value(doc.keys[i]));
      b.u("has_value", q->has_value(doc.keys[i]));
    }
    a.u("has_value(missing)", o.has_value("Missing:key1")); b.u("has_value(missing)", q->has_value("Missing:key1"));
    for (auto it = o.get_begin_used_values(); it != o.get_end_used_values(); ++it) { a.s("used key", it->first); a.s("used value", it->second); }
    for (auto it = q->get_begin_used_values(); it != q->get_end_used_values(); ++it) { b.s("used key", it->first); b.s("used value", it->second); }
    if (round == 0)
      for (int i = 0; i < 10; ++i) {
        const uint64_t p = r.next(), h = r.next();
        yaml_query(o, a, doc, p, h);
        yaml_query(*q, b, doc, p, h);
      }
  }
  same_behaviour(c, a, b);
  same_end_state(c, dump_obj("a.dump", o), dump_obj("b.dump", *q));
  delete q;
  c.st.inc("distinct_objects");
}

static std::string strip_first_line(const std::string &s) {
  const size_t p = s.find('\n');
  return p == std::string::npos ? std::string() : s.substr(p + 1);
}
static void case_parameterfile(Ctx &c) {
  vh::Rng &r = c.r;
  const YamlDoc doc = gen_yaml(r);
  spit("params.yml", doc.text);
  ParameterFile o("params.yml");
  const int pre = r.below(12);
  c.describe(sfmt("ParameterFile with %zu keys, %d queries before dump", doc.keys.size(), pre));
  Trace dummy;
  for (int i = 0; i < pre; ++i) yaml_query(o, dummy, doc, r.next(), r.next());
  const std::string d1 = dump_obj("a.dump", o);
  ParameterFile *q = restore_obj< ParameterFile >("a.dump");
  same_bytes(c, d1, dump_obj("b.dump", *q));
  Trace a, b;
  for (int round = 0; round < 2; ++round) {
    std::ostringstream pa, pb;
    o.print_contents(pa);
    q->print_contents(pb);
    a.s("print", strip_first_line(pa.str()));
    b.s("print", strip_first_line(pb.str()));
    for (size_t i = 0; i < doc.keys.size(); ++i) {
      a.u("has_value", o.has_value(doc.keys[i]));
      b.u("has_value", q->has_value(doc.keys[i]));
    }
    for (auto it = o.begin(); it != o.end(); ++it) { a.s("used key", it.get_key()); a.s("used value", it.get_value()); }
    for (auto it = q->begin(); it != q->end(); ++it) { b.s("used key", it.get_key()); b.s("used value", it.get_value()); }
    if (round == 0)
      for (int i = 0; i < 10; ++i) {
        const uint64_t p = r.next(), h = r.next();
        yaml_query(o, a, doc, p, h);
        yaml_query(*q, b, doc, p, h);
      }
  }
  same_behaviour(c, a, b);
  same_end_state(c, dump_obj("a.dump", o), dump_obj("b.dump", *q));
  delete q;
  c.st.inc("distinct_objects");
}

static void case_ionizationvariables(Ctx &c) {
  vh::Rng &r = c.r;
  IonizationVariables o;
  const bool wild = r.chance(0.5);
  fill_ion(r, o, wild);
  c.describe(sfmt("IonizationVariables %s n=%a T=%a", wild ? "(arbitrary bit patterns)" : "(physical)", o.get_number_density(),
                  o.get_temperature()));
  const std::string d1 = dump_obj("a.dump", o);
  IonizationVariables *q = restore_obj< IonizationVariables >("a.dump");
  same_bytes(c, d1, dump_obj("b.dump", *q));
  Trace a, b;
  trace_ion(a, o);
  trace_ion(b, *q);
  a.u("tracker", (uint64_t)(uintptr_t)o.get_tracker());
  b.u("tracker", (uint64_t)(uintptr_t)q->get_tracker());
  same_behaviour(c, a, b);
  delete q;
  c.st.inc("distinct_objects");
}

static void case_hydrovariables(Ctx &c) {
  vh::Rng &r = c.r;
  HydroVariables o;
  const bool wild = r.chance(0.5);
  if (wild) fill_hydro_wild(r, o);
  else {
    fill_hydro_phys(r, o, true);
    const Hydro hydro(5. / 3., 100., 1.e4, 1.e99, false);
    hydro.set_conserved_variables(o, r.loguniform(1e-3, 1e3));
    for (int i = 0; i < 5; ++i) o.primitive_gradients(i) = CoordinateVector<>(r.uniform(-1, 1), r.uniform(-1, 1), r.uniform(-1, 1));
    o.set_energy_term(r.uniform(0, 1));
  }
  c.describe(sfmt("HydroVariables %s rho=%a P=%a", wild ? "(arbitrary bit patterns)" : "(physical)", o.primitives(0), o.primitives(4)));
  const std::string d1 = dump_obj("a.dump", o);
  HydroVariables *q = restore_obj< HydroVariables >("a.dump");
  same_bytes(c, d1, dump_obj("b.dump", *q));
  Trace a, b;
  trace_hv(a, o);
  trace_hv(b, *q);
  same_behaviour(c, a, b);
  delete q;
  c.st.inc("distinct_objects");
}

// ---------------------------------------------------------------------------------
// subgrids
// ---------------------------------------------------------------------------------
static const int FACE_P[3] = {TRAVELDIRECTION_FACE_X_P, TRAVELDIRECTION_FACE_Y_P, TRAVELDIRECTION_FACE_Z_P};
static const int FACE_N[3] = {TRAVELDIRECTION_FACE_X_N, TRAVELDIRECTION_FACE_Y_N, TRAVELDIRECTION_FACE_Z_N};

static void random_neighbours(vh::Rng &r, DensitySubGrid &g) {
  for (int i = 0; i < TRAVELDIRECTION_NUMBER; ++i) {
    g.set_neighbour(i, r.chance(0.4) ? NEIGHBOUR_OUTSIDE : (uint_fast32_t)r.below(1000));
    g.set_active_buffer(i, NEIGHBOUR_OUTSIDE);
  }
  g.set_owning_thread((int_fast32_t)r.below(16));
}

// geometry and bookkeeping a subgrid answers about itself
static void trace_subgrid_geom(Trace &t, DensitySubGrid &g) {
  t.cur = 0;
  t.u("number_of_cells", g.get_number_of_cells());
  double m[3], box[6];
  g.get_midpoint(m);
  g.get_grid_box(box);
  for (int i = 0; i < 3; ++i) t.d("subgrid.midpoint", m[i]);
  for (int i = 0; i < 6; ++i) t.d("subgrid.box", box[i]);
  t.u("owning_thread", (uint64_t)g.get_owning_thread());
  for (int i = 0; i < TRAVELDIRECTION_NUMBER; ++i) t.u("neighbour", g.get_neighbour(i));
  const size_t n = g.get_number_of_cells();
  for (size_t i = 0; i < n; ++i) {
    t.cur = i;
    t.cv("cell.midpoint", g.get_cell_midpoint(i));
    t.d("cell.volume", (g.begin() + i).get_volume());
  }
  t.cur = 0;
}
static void trace_subgrid_ion(Trace &t, DensitySubGrid &g) {
  const size_t n = g.get_number_of_cells();
  for (size_t i = 0; i < n; ++i) {
    t.cur = i;
    trace_ion(t, (g.begin() + i).get_ionization_variables());
  }
  t.cur = 0;
}
static void trace_subgrid_hydro(Trace &t, HydroDensitySubGrid &g) {
  const size_t n = g.get_number_of_cells();
  for (size_t i = 0; i < n; ++i) {
    t.cur = i;
    trace_hv(t, (g.hydro_begin() + i).get_hydro_variables());
    t.d("hydrocell.volume", (g.hydro_begin() + i).get_volume());
  }
  t.cur = 0;
}

// positions at which the cell index computation is probed: a few ulps around every cell boundary
// (k * cell size and k / inverse cell size as the harness computes them - any values would do, these are just dense
// where an ulp of the inverse cell size decides the answer) and random interior points
static std::vector< CoordinateVector<> > probe_positions(vh::Rng &r, const double box[6], const int ncs[3]) {
  std::vector< CoordinateVector<> > P;
  double cs[3];
  for (int a = 0; a < 3; ++a) cs[a] = box[3 + a] / ncs[a];
  for (int a = 0; a < 3; ++a) {
    for (int k = 1; k < ncs[a]; ++k) {
      for (int variant = 0; variant < 2; ++variant) {
        const double x0 = variant ? k / (ncs[a] / box[3 + a]) : k * cs[a];
        for (int d = -8; d <= 8; ++d) {
          double x = x0;
          for (int s = 0; s < std::abs(d); ++s) x = std::nextafter(x, d > 0 ? INFINITY : -INFINITY);
          double p[3];
          for (int b = 0; b < 3; ++b) p[b] = box[b] + ((int)r.below(ncs[b]) + 0.5) * cs[b];
          p[a] = box[a] + x;
          P.push_back(CoordinateVector<>(p[0], p[1], p[2]));
        }
      }
    }
  }
  for (int i = 0; i < 30; ++i)
    P.push_back(CoordinateVector<>(box[0] + r.uniform(0.001, 0.999) * box[3], box[1] + r.uniform(0.001, 0.999) * box[4],
                                   box[2] + r.uniform(0.001, 0.999) * box[5]));
  return P;
}
static void trace_probes(Trace &t, DensitySubGrid &g, const std::vector< CoordinateVector<> > &P) {
  for (size_t i = 0; i < P.size(); ++i) {
    t.cur = i;
    t.u("get_cell(position).index", g.get_cell(P[i]).get_index());
    t.u("is_in_box(position)", g.is_in_box(P[i]));
  }
  t.cur = 0;
}

struct PhotonSpec {
  CoordinateVector<> pos, dir;
  double tau, sigma[NUMBER_OF_IONNAMES], weight, energy;
};
static std::vector< PhotonSpec > gen_photons(vh::Rng &r, const double box[6], int n) {
  std::vector< PhotonSpec > v;
  const double L = std::max(box[3], std::max(box[4], box[5]));
  for (int i = 0; i < n; ++i) {
    PhotonSpec p;
    p.pos = CoordinateVector<>(box[0] + r.uniform(0.05, 0.95) * box[3], box[1] + r.uniform(0.05, 0.95) * box[4],
                               box[2] + r.uniform(0.05, 0.95) * box[5]);
    double d[3], nrm;
    do {
      for (int a = 0; a < 3; ++a) d[a] = r.uniform(-1, 1);
      nrm = std::sqrt(d[0] * d[0] + d[1] * d[1] + d[2] * d[2]);
    } while (nrm < 0.1 || nrm > 1.);
    p.dir = CoordinateVector<>(d[0] / nrm, d[1] / nrm, d[2] / nrm);
    for (int ion = 0; ion < NUMBER_OF_IONNAMES; ++ion) p.sigma[ion] = r.loguniform(1e-4, 1e-1) / L;
    p.tau = r.loguniform(1e-2, 30.);
    p.weight = r.uniform(0.5, 2.);
    p.energy = r.uniform(3.3e15, 9e15);
    v.push_back(p);
  }
  return v;
}
static void trace_photons(Trace &t, DensitySubGrid &g, const std::vector< PhotonSpec > &v) {
  for (size_t i = 0; i < v.size(); ++i) {
    t.cur = i;
    PhotonPacket ph;
    ph.set_position(v[i].pos);
    ph.set_direction(v[i].dir);
    for (int ion = 0; ion < NUMBER_OF_IONNAMES; ++ion) ph.set_photoionization_cross_section(ion, v[i].sigma[ion]);
    ph.set_weight(v[i].weight);
    ph.set_energy(v[i].energy);
    ph.set_type(PHOTONTYPE_PRIMARY);
    ph.set_scatter_counter(0);
    ph.set_target_optical_depth(v[i].tau);
    const int_fast32_t out = g.interact(ph, TRAVELDIRECTION_INSIDE);
    t.u("interact.output_direction", (uint64_t)out);
    t.cv("interact.position", ph.get_position());
    t.d("interact.tau_left", ph.get_target_optical_depth());
  }
  t.cur = 0;
}

static void case_densitysubgrid(Ctx &c) {
  vh::Rng &r = c.r;
  Geo geo = gen_geo(r, false, 3, 7);
  int idx = r.below(geo.nsubtot());
  if (r.chance(0.6)) {
    // subgrid anchored at the origin: positions relative to the anchor are exact, which makes the cell index of
    // positions next to a cell boundary sensitive to the last bit of the inverse cell size
    geo.anchor[0] = geo.anchor[1] = geo.anchor[2] = 0.;
    idx = 0;
  }
  double box[6];
  geo.subbox(idx, box);
  const CoordinateVector< int_fast32_t > ncell(geo.ncs[0], geo.ncs[1], geo.ncs[2]);
  DensitySubGrid o(box, ncell);
  random_neighbours(r, o);
  for (auto it = o.begin(); it != o.end(); ++it) fill_ion(r, it.get_ionization_variables());
  c.describe("DensitySubGrid subgrid " + sfmt("%d of ", idx) + geo.str());
  if (geo.inv_regime()) c.st.inc(std::string(c.cls) + "_cases_where_n_over_side_differs_from_1_over_cellsize");
  const std::vector< CoordinateVector<> > P = probe_positions(r, box, geo.ncs);
  const std::vector< PhotonSpec > photons = gen_photons(r, box, 6);
  // some photon packets before the dump so that the counters are not trivial
  {
    Trace dummy;
    if (r.chance(0.5)) trace_photons(dummy, o, gen_photons(r, box, 4));
  }
  const std::string d1 = dump_obj("a.dump", o);
  DensitySubGrid *q = restore_obj< DensitySubGrid >("a.dump");
  same_bytes(c, d1, dump_obj("b.dump", *q));
  Trace a, b;
  trace_subgrid_geom(a, o); trace_subgrid_geom(b, *q);
  trace_subgrid_ion(a, o); trace_subgrid_ion(b, *q);
  trace_probes(a, o, P); trace_probes(b, *q, P);
  trace_photons(a, o, photons); trace_photons(b, *q, photons);
  trace_subgrid_ion(a, o); trace_subgrid_ion(b, *q);
  same_behaviour(c, a, b);
  same_end_state(c, dump_obj("a.dump", o), dump_obj("b.dump", *q));
  delete q;
  c.st.inc("distinct_objects");
  c.st.inc("cell_index_probes", P.size());
}

struct Boundaries {
  InflowHydroBoundary inflow;
  ReflectiveHydroBoundary reflective;
  OutflowHydroBoundary outflow;
  const HydroBoundary *face[6]; // X_P X_N Y_P Y_N Z_P Z_N
  explicit Boundaries(vh::Rng &r) {
    for (int i = 0; i < 6; ++i) {
      switch (r.below(3)) {
      case 0: face[i] = &inflow; break;
      case 1: face[i] = &reflective; break;
      default: face[i] = &outflow; break;
      }
    }
  }
  const HydroBoundary &pos(int axis) const { return *face[2 * axis]; }
  const HydroBoundary &neg(int axis) const { return *face[2 * axis + 1]; }
};

// one hydro step of an isolated subgrid (all faces are box boundaries), in the order of the simulation:
// gradients -> slope limiter -> half step prediction -> fluxes -> conserved update -> primitives
static void single_step(HydroDensitySubGrid &g, const Hydro &hydro, const Boundaries &bnd, double dt, Trace *after_gradients) {
  g.inner_gradient_sweep(hydro);
  for (int a = 0; a < 3; ++a) {
    g.outer_ghost_gradient_sweep(FACE_P[a], hydro, bnd.pos(a));
    g.outer_ghost_gradient_sweep(FACE_N[a], hydro, bnd.neg(a));
  }
  if (after_gradients) trace_subgrid_hydro(*after_gradients, g);
  g.apply_slope_limiter(hydro);
  g.predict_primitive_variables(hydro, 0.5 * dt);
  g.inner_flux_sweep(hydro, dt);
  for (int a = 0; a < 3; ++a) {
    g.outer_ghost_flux_sweep(FACE_P[a], hydro, bnd.pos(a), dt);
    g.outer_ghost_flux_sweep(FACE_N[a], hydro, bnd.neg(a), dt);
  }
  g.update_conserved_variables(dt);
  g.update_primitive_variables(hydro);
}

static double safe_dt(const double *cellsize3) {
  // |v| <= 0.52, sound speed <= sqrt(5/3*2/0.5) = 2.6
  return 0.1 * std::min(cellsize3[0], std::min(cellsize3[1], cellsize3[2])) / 3.2;
}

static void fill_hydro_subgrid(vh::Rng &r, HydroDensitySubGrid &g, const Hydro &hydro, bool gravity) {
  for (auto it = g.hydro_begin(); it != g.hydro_end(); ++it) {
    fill_ion(r, it.get_ionization_variables());
    fill_hydro_phys(r, it.get_hydro_variables(), gravity);
  }
  g.initialize_hydrodynamic_variables(hydro, false);
}

static void case_hydrodensitysubgrid(Ctx &c) {
  vh::Rng &r = c.r;
  const Geo geo = gen_geo(r, false, 3, 7);
  const int idx = r.below(geo.nsubtot());
  double box[6];
  geo.subbox(idx, box);
  const CoordinateVector< int_fast32_t > ncell(geo.ncs[0], geo.ncs[1], geo.ncs[2]);
  const double gamma = r.chance(0.5) ? 5. / 3. : 1.4;
  const Hydro hydro(gamma, 100., 1.e4, 1.e99, false);
  const Boundaries bnd(r);
  HydroDensitySubGrid o(box, ncell);
  random_neighbours(r, o);
  fill_hydro_subgrid(r, o, hydro, r.chance(0.3));
  const double cs3[3] = {box[3] / geo.ncs[0], box[4] / geo.ncs[1], box[5] / geo.ncs[2]};
  const double dt = safe_dt(cs3);
  const int pre = r.below(4);
  c.describe("HydroDensitySubGrid subgrid " + sfmt("%d, gamma=%g, dt=%a, %d hydro steps before the dump, of ", idx, gamma, dt, pre) + geo.str());
  if (geo.inv_regime()) c.st.inc(std::string(c.cls) + "_cases_where_n_over_side_differs_from_1_over_cellsize");
  for (int i = 0; i < pre; ++i) single_step(o, hydro, bnd, dt, nullptr);
  c.st.inc("hydro_steps_before_dump", pre);
  const std::vector< CoordinateVector<> > P = probe_positions(r, box, geo.ncs);
  const std::string d1 = dump_obj("a.dump", o);
  HydroDensitySubGrid *q = restore_obj< HydroDensitySubGrid >("a.dump");
  same_bytes(c, d1, dump_obj("b.dump", *q));
  {
    Trace a, b;
    trace_subgrid_geom(a, o); trace_subgrid_geom(b, *q);
    trace_subgrid_ion(a, o); trace_subgrid_ion(b, *q);
    trace_subgrid_hydro(a, o); trace_subgrid_hydro(b, *q);
    trace_probes(a, o, P); trace_probes(b, *q, P);
    for (size_t i = 0; i < P.size(); ++i) {
      a.u("get_hydro_cell(position).index", o.get_hydro_cell(P[i]).get_index());
      b.u("get_hydro_cell(position).index", q->get_hydro_cell(P[i]).get_index());
    }
    if (!same_behaviour(c, a, b, "[restored state]")) { delete q; return; }
  }
  const int post = 1 + r.below(2);
  for (int s = 0; s < post; ++s) {
    Trace ga, gb, a, b;
    single_step(o, hydro, bnd, dt, &ga);
    single_step(*q, hydro, bnd, dt, &gb);
    if (!same_behaviour(c, ga, gb, "[gradient sweeps of the next hydro step]")) break;
    trace_subgrid_hydro(a, o); trace_subgrid_hydro(b, *q);
    trace_subgrid_ion(a, o); trace_subgrid_ion(b, *q);
    if (!same_behaviour(c, a, b, "[state after the next hydro step]")) break;
    c.st.inc("hydro_steps_compared");
  }
  same_end_state(c, dump_obj("a.dump", o), dump_obj("b.dump", *q));
  delete q;
  c.st.inc("distinct_objects");
  c.st.inc("cell_index_probes", P.size());
}

// ---------------------------------------------------------------------------------
// DensitySubGridCreator< HydroDensitySubGrid >
// ---------------------------------------------------------------------------------
typedef DensitySubGridCreator< HydroDensitySubGrid > Creator;

class HashDensityFunction : public DensityFunction {
  uint64_t _salt;

public:
  explicit HashDensityFunction(uint64_t salt) : _salt(salt) {}
  virtual DensityValues operator()(const Cell &cell) {
    const CoordinateVector<> p = cell.get_cell_midpoint();
    vh::Rng r(_salt ^ vh::bits(p.x()) ^ (vh::bits(p.y()) * 3) ^ (vh::bits(p.z()) * 7));
    r.next();
    DensityValues v;
    v.set_number_density(r.loguniform(1., 100.));
    v.set_temperature(r.loguniform(10., 1e4));
    for (int i = 0; i < NUMBER_OF_IONNAMES; ++i) v.set_ionic_fraction(i, r.uniform());
    v.set_velocity(CoordinateVector<>(r.uniform(-.3, .3), r.uniform(-.3, .3), r.uniform(-.3, .3)));
    return v;
  }
};

// one hydro step of the whole grid: every pair of neighbouring subgrids is handled once from its
// negative side, box faces get the boundary condition
static void creator_step(Creator &cr, const Hydro &hydro, const Boundaries &bnd, double dt) {
  const size_t n = cr.number_of_original_subgrids();
  for (size_t i = 0; i < n; ++i) (*cr.get_subgrid(i)).inner_gradient_sweep(hydro);
  for (size_t i = 0; i < n; ++i) {
    HydroDensitySubGrid &g = *cr.get_subgrid(i);
    for (int a = 0; a < 3; ++a) {
      const uint_fast32_t np = g.get_neighbour(FACE_P[a]);
      if (np == NEIGHBOUR_OUTSIDE) g.outer_ghost_gradient_sweep(FACE_P[a], hydro, bnd.pos(a));
      else g.outer_gradient_sweep(FACE_P[a], hydro, *cr.get_subgrid(np));
      if (g.get_neighbour(FACE_N[a]) == NEIGHBOUR_OUTSIDE) g.outer_ghost_gradient_sweep(FACE_N[a], hydro, bnd.neg(a));
    }
  }
  for (size_t i = 0; i < n; ++i) {
    (*cr.get_subgrid(i)).apply_slope_limiter(hydro);
    (*cr.get_subgrid(i)).predict_primitive_variables(hydro, 0.5 * dt);
  }
  for (size_t i = 0; i < n; ++i) (*cr.get_subgrid(i)).inner_flux_sweep(hydro, dt);
  for (size_t i = 0; i < n; ++i) {
    HydroDensitySubGrid &g = *cr.get_subgrid(i);
    for (int a = 0; a < 3; ++a) {
      const uint_fast32_t np = g.get_neighbour(FACE_P[a]);
      if (np == NEIGHBOUR_OUTSIDE) g.outer_ghost_flux_sweep(FACE_P[a], hydro, bnd.pos(a), dt);
      else g.outer_flux_sweep(FACE_P[a], hydro, *cr.get_subgrid(np), dt);
      if (g.get_neighbour(FACE_N[a]) == NEIGHBOUR_OUTSIDE) g.outer_ghost_flux_sweep(FACE_N[a], hydro, bnd.neg(a), dt);
    }
  }
  for (size_t i = 0; i < n; ++i) {
    (*cr.get_subgrid(i)).update_conserved_variables(dt);
    (*cr.get_subgrid(i)).update_primitive_variables(hydro);
  }
}

static void trace_creator(Trace &t, Creator &cr, const std::vector< CoordinateVector<> > &P, bool geometry) {
  t.u("number_of_original_subgrids", cr.number_of_original_subgrids());
  t.u("number_of_actual_subgrids", cr.number_of_actual_subgrids());
  t.u("number_of_cells", cr.number_of_cells());
  for (int a = 0; a < 3; ++a) {
    t.u("subgrid_layout", (uint64_t)cr.get_subgrid_layout()[a]);
    t.u("subgrid_cell_layout", (uint64_t)cr.get_subgrid_cell_layout()[a]);
  }
  t.cv("box.anchor", cr.get_box().get_anchor());
  t.cv("box.sides", cr.get_box().get_sides());
  const size_t nall = cr.number_of_actual_subgrids(), norig = cr.number_of_original_subgrids();
  for (size_t i = 0; i < nall; ++i) {
    HydroDensitySubGrid &g = *cr.get_subgrid(i);
    if (geometry) trace_subgrid_geom(t, g);
    trace_subgrid_ion(t, g);
    trace_subgrid_hydro(t, g);
  }
  if (!geometry) return;
  for (size_t i = 0; i < norig; ++i) {
    t.cur = i;
    auto cp = cr.get_subgrid(i).get_copies();
    t.u("copies.first", cp.first.get_index());
    t.u("copies.last", cp.second.get_index());
    size_t ngb[6];
    const uint_fast8_t nn = cr.get_neighbours(i, ngb);
    t.u("get_neighbours.count", nn);
    for (int k = 0; k < nn; ++k) t.u("get_neighbours.index", ngb[k]);
    const CoordinateVector< int_fast32_t > gp = cr.get_grid_position(i);
    for (int a = 0; a < 3; ++a) t.u("grid_position", (uint64_t)gp[a]);
  }
  for (size_t i = 0; i < P.size(); ++i) {
    t.cur = i;
    t.u("get_subgrid(position).index", cr.get_subgrid(P[i]).get_index());
  }
  t.cur = 0;
}

static void case_creator(Ctx &c) {
  vh::Rng &r = c.r;
  const Geo geo = gen_geo(r, false, 3, 5);
  const Box<> box(CoordinateVector<>(geo.anchor[0], geo.anchor[1], geo.anchor[2]), CoordinateVector<>(geo.side[0], geo.side[1], geo.side[2]));
  const CoordinateVector< int_fast32_t > ncell(geo.ntot(0), geo.ntot(1), geo.ntot(2)), nsub(geo.nsub[0], geo.nsub[1], geo.nsub[2]);
  const CoordinateVector< bool > per(geo.per[0], geo.per[1], geo.per[2]);
  const double gamma = r.chance(0.5) ? 5. / 3. : 1.4;
  const Hydro hydro(gamma, 100., 1.e4, 1.e99, false);
  const Boundaries bnd(r);
  Creator o(box, ncell, nsub, per);
  HashDensityFunction df(r.next());
  o.initialize(df);
  const size_t norig = o.number_of_original_subgrids();
  for (size_t i = 0; i < norig; ++i) {
    HydroDensitySubGrid &g = *o.get_subgrid(i);
    g.set_owning_thread((int_fast32_t)r.below(16));
    for (auto it = g.hydro_begin(); it != g.hydro_end(); ++it) {
      IonizationVariables &iv = it.get_ionization_variables();
      for (int k = 0; k < NUMBER_OF_IONNAMES; ++k) iv.set_mean_intensity(k, r.loguniform(1e-30, 1e-5));
      it.get_hydro_variables().set_primitives_density(r.uniform(0.5, 2.));
      it.get_hydro_variables().set_primitives_pressure(r.uniform(0.5, 2.));
    }
    g.initialize_hydrodynamic_variables(hydro, false);
  }
  const double cs3[3] = {geo.side[0] / geo.ntot(0), geo.side[1] / geo.ntot(1), geo.side[2] / geo.ntot(2)};
  const double dt = safe_dt(cs3);
  const int pre = r.below(3);
  for (int i = 0; i < pre; ++i) creator_step(o, hydro, bnd, dt);
  // copies (made for the radiation step of an RHD run; they are part of the dump)
  const int copymode = r.below(3);
  std::vector< uint_fast8_t > levels(norig, 0);
  if (copymode) {
    for (size_t i = 0; i < norig; ++i) levels[i] = copymode == 1 ? (uint_fast8_t)r.below(3) : (uint_fast8_t)(r.chance(0.3) ? 1 + r.below(2) : 0);
    o.create_copies(levels);
    if (r.chance(0.3)) {
      for (size_t i = 0; i < norig; ++i) levels[i] = (uint_fast8_t)r.below(3);
      o.update_copies(levels);
    }
    c.st.inc("creator_cases_with_copies");
  }
  if (geo.per[0] || geo.per[1] || geo.per[2]) c.st.inc("creator_cases_periodic");
  if (geo.inv_regime()) c.st.inc(std::string(c.cls) + "_cases_where_n_over_side_differs_from_1_over_cellsize");
  c.describe("DensitySubGridCreator<HydroDensitySubGrid> " + sfmt("gamma=%g dt=%a, %d hydro steps before the dump, copies=%zu, ", gamma, dt, pre,
                                                                  (size_t)(o.number_of_actual_subgrids() - norig)) + geo.str());
  std::vector< CoordinateVector<> > P;
  for (int i = 0; i < 40; ++i)
    P.push_back(CoordinateVector<>(geo.anchor[0] + r.uniform(0.001, 0.999) * geo.side[0], geo.anchor[1] + r.uniform(0.001, 0.999) * geo.side[1],
                                   geo.anchor[2] + r.uniform(0.001, 0.999) * geo.side[2]));
  const std::string d1 = dump_obj("a.dump", o);
  Creator *q = restore_obj< Creator >("a.dump");
  same_bytes(c, d1, dump_obj("b.dump", *q));
  {
    Trace a, b;
    trace_creator(a, o, P, true);
    trace_creator(b, *q, P, true);
    if (!same_behaviour(c, a, b, "[restored state]")) { delete q; return; }
  }
  const int post = 1 + r.below(2);
  for (int s = 0; s < post; ++s) {
    creator_step(o, hydro, bnd, dt);
    creator_step(*q, hydro, bnd, dt);
    if (copymode) {
      o.update_copy_properties();
      q->update_copy_properties();
    }
    Trace a, b;
    trace_creator(a, o, P, false);
    trace_creator(b, *q, P, false);
    if (!same_behaviour(c, a, b, "[state after the next hydro step of the whole grid]")) break;
    c.st.inc("hydro_steps_compared");
  }
  same_end_state(c, dump_obj("a.dump", o), dump_obj("b.dump", *q));
  delete q;
  c.st.inc("distinct_objects");
}

// ---------------------------------------------------------------------------------
// AlveliusTurbulenceForcing
// ---------------------------------------------------------------------------------
static void case_alvelius(Ctx &c) {
  vh::Rng &r = c.r;
  const Geo geo = gen_geo(r, true, 2, 3);
  const Box<> box(CoordinateVector<>(geo.anchor[0], geo.anchor[1], geo.anchor[2]), CoordinateVector<>(geo.side[0], geo.side[1], geo.side[2]));
  const CoordinateVector< int_fast32_t > nsub(geo.nsub[0], geo.nsub[1], geo.nsub[2]), ncs(geo.ncs[0], geo.ncs[1], geo.ncs[2]);
  const double kmin = 1., kmax = r.chance(0.5) ? 2. : 3., kforcing = r.uniform(1., 3.), conc = r.uniform(0.2, 1.5);
  const double power = r.loguniform(1e-4, 1e2);
  const int_fast32_t seed = (int_fast32_t)r.below(1ull << 31);
  const double dtfor = r.loguniform(1e-3, 1e3);
  const double tstart = r.chance(0.5) ? 0. : dtfor * r.uniform(0., 6.);
  AlveliusTurbulenceForcing *o = new AlveliusTurbulenceForcing(nsub, ncs, box, kmin, kmax, kforcing, conc, power, seed, dtfor, tstart);
  const int pre = r.below(6);
  c.describe(sfmt("AlveliusTurbulenceForcing kmax=%g kforcing=%a concentration=%a power=%a seed=%ld dtfor=%a starting time=%a, %d updates before the dump, ",
                  kmax, kforcing, conc, power, (long)seed, dtfor, tstart, pre) + geo.str());
  double t = 0.;
  for (int i = 0; i < pre; ++i) {
    t += dtfor * r.uniform(0.2, 2.5);
    o->update_turbulence(t);
  }
  c.st.inc("turbulence_updates_before_dump", pre);
  // template subgrids the forcing is applied to
  const Hydro hydro(5. / 3., 100., 1.e4, 1.e99, false);
  std::vector< HydroDensitySubGrid * > tmpl;
  for (int i = 0; i < geo.nsubtot(); ++i) {
    double sb[6];
    geo.subbox(i, sb);
    HydroDensitySubGrid *g = new HydroDensitySubGrid(sb, ncs);
    random_neighbours(r, *g);
    fill_hydro_subgrid(r, *g, hydro, false);
    tmpl.push_back(g);
  }
  const std::string d1 = dump_obj("a.dump", *o);
  const int post = 2 + r.below(4);
  std::vector< double > times;
  for (int i = 0; i < post; ++i) {
    t += dtfor * r.uniform(0.2, 2.5);
    times.push_back(t);
  }
  Trace tr[2];
  std::string d_end[2];
  AlveliusTurbulenceForcing *q = nullptr;
  for (int who = 0; who < 2; ++who) {
    AlveliusTurbulenceForcing *f = o;
    if (who == 1) {
      q = restore_obj< AlveliusTurbulenceForcing >("a.dump");
      same_bytes(c, d1, dump_obj("b.dump", *q));
      f = q;
    }
    for (int i = 0; i < post; ++i) {
      f->update_turbulence(times[i]);
      for (size_t k = 0; k < tmpl.size(); ++k) {
        HydroDensitySubGrid g(*tmpl[k]);
        f->add_turbulent_forcing(k, g);
        trace_subgrid_hydro(tr[who], g);
      }
    }
    d_end[who] = dump_obj(who ? "b.dump" : "a2.dump", *f);
  }
  same_behaviour(c, tr[0], tr[1], "[forcing applied after further updates]");
  same_end_state(c, d_end[0], d_end[1]);
  for (size_t k = 0; k < tmpl.size(); ++k) delete tmpl[k];
  delete o;
  delete q;
  c.st.inc("distinct_objects");
}

// ---------------------------------------------------------------------------------
// LiveOutputManager
// ---------------------------------------------------------------------------------
static void trace_directory(Trace &t, const std::string &dir) {
  std::vector< std::string > names;
  DIR *d = opendir(dir.c_str());
  if (d) {
    struct dirent *e;
    while ((e = readdir(d)))
      if (e->d_name[0] != '.') names.push_back(e->d_name);
    closedir(d);
  }
  std::sort(names.begin(), names.end());
  t.u("files.count", names.size());
  for (size_t i = 0; i < names.size(); ++i) {
    t.cur = i;
    t.s("file.name", names[i]);
    t.s("file.content", slurp(dir + "/" + names[i]));
  }
  t.cur = 0;
}

static void case_liveoutput(Ctx &c) {
  vh::Rng &r = c.r;
  const Geo geo = gen_geo(r, false, 2, 3);
  const Box<> box(CoordinateVector<>(geo.anchor[0], geo.anchor[1], geo.anchor[2]), CoordinateVector<>(geo.side[0], geo.side[1], geo.side[2]));
  const CoordinateVector< int_fast32_t > nsub(geo.nsub[0], geo.nsub[1], geo.nsub[2]), ncs(geo.ncs[0], geo.ncs[1], geo.ncs[2]);
  const bool enabled = !r.chance(0.1);
  const bool sd = r.chance(0.7), isd = r.chance(0.5), dpdf = r.chance(0.7), vpdf = r.chance(0.7);
  const uint_fast32_t nd = 5 + r.below(20), nv = 5 + r.below(20);
  const double interval = r.loguniform(1e-2, 1e2);
  const Hydro hydro(5. / 3., 100., 1.e4, 1.e99, false);
  std::vector< HydroDensitySubGrid * > grids;
  for (int i = 0; i < geo.nsubtot(); ++i) {
    double sb[6];
    geo.subbox(i, sb);
    HydroDensitySubGrid *g = new HydroDensitySubGrid(sb, ncs);
    random_neighbours(r, *g);
    fill_hydro_subgrid(r, *g, hydro, false);
    grids.push_back(g);
  }
  const int pre = r.below(8), post = 3 + r.below(6);
  c.describe(sfmt("LiveOutputManager enabled=%d surface=%d ionized=%d densityPDF=%d(%lu bins) velocityPDF=%d(%lu bins) interval=%a, %d time steps before the dump, ",
                  (int)enabled, (int)sd, (int)isd, (int)dpdf, (unsigned long)nd, (int)vpdf, (unsigned long)nv, interval, pre) + geo.str());
  std::vector< double > times;
  double t = r.chance(0.5) ? 0. : interval * r.uniform(0, 3);
  for (int i = 0; i < pre + post; ++i) {
    times.push_back(t);
    t += interval * r.loguniform(0.1, 3.);
  }
  mkdir("pre", 0777); mkdir("orig", 0777); mkdir("rest", 0777);
  LiveOutputManager *o = new LiveOutputManager(nsub, ncs, enabled, sd, isd, dpdf, 0.4, 2.5, nd, vpdf, 0.6, nv, interval);
  Trace tr[2];
  LiveOutputManager *q = nullptr;
  std::string d1;
  for (int who = 0; who < 2; ++who) {
    LiveOutputManager *m = o;
    int first = 0;
    if (who == 0) {
      if (chdir("pre")) return;
      for (int i = 0; i < pre; ++i)
        if (m->do_output(times[i])) {
          for (size_t k = 0; k < grids.size(); ++k) m->compute_output(k, *grids[k]);
          m->write_output(box);
          c.st.inc("live_outputs_before_dump");
        }
      if (chdir("..")) return;
      d1 = dump_with("a.dump", [&](RestartWriter &w) { o->write_restart_info(w); });
      if (chdir("orig")) return;
    } else {
      // the way the simulation does it: same parameters, then read_restart_info
      q = new LiveOutputManager(nsub, ncs, enabled, sd, isd, dpdf, 0.4, 2.5, nd, vpdf, 0.6, nv, interval);
      {
        RestartReader rd("a.dump");
        q->read_restart_info(rd);
      }
      same_bytes(c, d1, dump_with("b.dump", [&](RestartWriter &w) { q->write_restart_info(w); }));
      m = q;
      if (chdir("rest")) return;
    }
    first = pre;
    for (int i = first; i < pre + post; ++i) {
      const bool doit = m->do_output(times[i]);
      tr[who].u("do_output", doit);
      if (doit) {
        for (size_t k = 0; k < grids.size(); ++k) m->compute_output(k, *grids[k]);
        m->write_output(box);
      }
    }
    if (chdir("..")) return;
    trace_directory(tr[who], who ? "rest" : "orig");
  }
  same_behaviour(c, tr[0], tr[1], "[outputs written after the dump]");
  same_end_state(c, dump_with("a.dump", [&](RestartWriter &w) { o->write_restart_info(w); }),
                 dump_with("b.dump", [&](RestartWriter &w) { q->write_restart_info(w); }));
  for (size_t k = 0; k < grids.size(); ++k) delete grids[k];
  delete o;
  delete q;
  c.st.inc("distinct_objects");
}

// ---------------------------------------------------------------------------------
// photon source distributions (through PhotonSourceDistributionFactory, as the simulation does)
// ---------------------------------------------------------------------------------
static void trace_distribution(Trace &t, PhotonSourceDistribution &d) {
  const photonsourcenumber_t n = d.get_number_of_sources();
  t.u("number_of_sources", n);
  t.d("total_luminosity", d.get_total_luminosity());
  for (photonsourcenumber_t i = 0; i < n; ++i) {
    t.cur = i;
    t.cv("source.position", d.get_position(i));
    t.d("source.weight", d.get_weight(i));
  }
  t.cur = 0;
}
// what the simulation does with a distribution during one step at time t
static void distribution_step(Trace &t, PhotonSourceDistribution &d, double time) {
  const bool fb = d.do_stellar_feedback(time);
  t.u("do_stellar_feedback", fb);
  if (fb) d.done_stellar_feedback();
  t.u("update", d.update(time));
  trace_distribution(t, d);
}

struct DistSpec {
  int kind; // 0 SingleStar 1 SingleSupernova 2 AsciiFile 3 UniformRandom 4 DiscPatch 5 Caproni
  bool output;
  double p[16];
  int_fast32_t seed;
  uint_fast32_t n;
  const char *outfile;
};
static PhotonSourceDistribution *make_distribution(const DistSpec &s) {
  switch (s.kind) {
  case 0: return new SingleStarPhotonSourceDistribution(CoordinateVector<>(s.p[0], s.p[1], s.p[2]), s.p[3]);
  case 1: return new SingleSupernovaPhotonSourceDistribution(CoordinateVector<>(s.p[0], s.p[1], s.p[2]), s.p[3], s.p[4], s.p[5]);
  case 2: return new AsciiFilePhotonSourceDistribution("sources.yml");
  case 3:
    return new UniformRandomPhotonSourceDistribution(s.p[0], s.p[1], s.n, CoordinateVector<>(s.p[2], s.p[3], s.p[4]),
                                                     CoordinateVector<>(s.p[5], s.p[6], s.p[7]), s.seed, s.p[8], s.p[9], s.output);
  case 4:
    return new DiscPatchPhotonSourceDistribution(s.p[0], s.p[1], s.n, s.p[2], s.p[3], s.p[4], s.p[5], s.p[6], s.p[7], s.seed, s.p[8], s.p[9], s.output);
  default: {
    const double Msol = PhysicalConstants::get_physical_constant(PHYSICALCONSTANT_SOLAR_MASS);
    return new CaproniPhotonSourceDistribution(s.p[0], s.p[1], s.p[2] * Msol, s.p[3] * Msol, s.p[4] * Msol, s.p[5], s.seed, s.p[8], s.p[9], s.p[6], s.output);
  }
  }
}

static void case_distribution(Ctx &c, int kind, bool output) {
  vh::Rng &r = c.r;
  DistSpec s;
  memset(&s, 0, sizeof s);
  s.kind = kind;
  s.output = output;
  s.seed = (int_fast32_t)r.below(1ull << 31);
  s.outfile = nullptr;
  double interval = 1., tscale = 1.;
  std::string desc;
  switch (kind) {
  case 0:
    for (int i = 0; i < 3; ++i) s.p[i] = any_double(r);
    s.p[3] = r.loguniform(1e40, 1e52);
    desc = sfmt("SingleStar position=(%a,%a,%a) luminosity=%a", s.p[0], s.p[1], s.p[2], s.p[3]);
    break;
  case 1:
    for (int i = 0; i < 3; ++i) s.p[i] = r.uniform(-1, 1);
    s.p[3] = r.loguniform(1., 1e15);
    s.p[4] = r.chance(0.2) ? 0. : r.loguniform(1e40, 1e52);
    s.p[5] = r.loguniform(1e40, 1e45);
    tscale = s.p[3] / 3.;
    desc = sfmt("SingleSupernova lifetime=%a luminosity=%a energy=%a", s.p[3], s.p[4], s.p[5]);
    break;
  case 2: {
    s.n = 1 + r.below(6);
    std::string y = sfmt("number of sources: %lu\n", (unsigned long)s.n);
    for (uint_fast32_t i = 0; i < s.n; ++i)
      y += sfmt("source[%lu]:\n  position: [%.17g m, %.17g m, %.17g m]\n  luminosity: %.17g s^-1\n", (unsigned long)i, r.uniform(-5, 5), r.uniform(-5, 5),
                r.uniform(-5, 5), r.loguniform(1e45, 1e50));
    spit("sources.yml", y);
    desc = sfmt("AsciiFile with %lu sources", (unsigned long)s.n);
    break;
  }
  case 3:
    interval = r.loguniform(1e-2, 1e13);
    s.p[0] = interval * r.uniform(2., 30.); // lifetime
    s.p[1] = r.loguniform(1e45, 1e50);
    s.n = 1 + r.below(15);
    for (int i = 0; i < 3; ++i) { s.p[2 + i] = r.uniform(-5, 5); s.p[5 + i] = r.uniform(0.1, 10.); }
    s.p[8] = interval;
    s.p[9] = r.chance(0.5) ? 0. : interval * r.uniform(0, 8);
    tscale = interval;
    s.outfile = "UniformRandom_source_positions.txt";
    desc = sfmt("UniformRandom lifetime=%a luminosity=%a n=%lu seed=%ld update interval=%a starting time=%a output=%d", s.p[0], s.p[1], (unsigned long)s.n,
                (long)s.seed, s.p[8], s.p[9], (int)output);
    break;
  case 4:
    interval = r.loguniform(1e-2, 1e13);
    s.p[0] = interval * r.uniform(2., 30.);
    s.p[1] = r.loguniform(1e45, 1e50);
    s.n = 1 + r.below(15);
    s.p[2] = r.uniform(-5, 5); s.p[3] = r.uniform(0.1, 10); s.p[4] = r.uniform(-5, 5); s.p[5] = r.uniform(0.1, 10);
    s.p[6] = r.uniform(-1, 1); s.p[7] = r.uniform(0.01, 1.);
    s.p[8] = interval;
    s.p[9] = r.chance(0.5) ? 0. : interval * r.uniform(0, 8);
    tscale = interval;
    s.outfile = "DiscPatch_source_positions.txt";
    desc = sfmt("DiscPatch lifetime=%a luminosity=%a average n=%lu seed=%ld update interval=%a starting time=%a output=%d", s.p[0], s.p[1],
                (unsigned long)s.n, (long)s.seed, s.p[8], s.p[9], (int)output);
    break;
  default:
    s.p[0] = r.loguniform(0.02, 0.4);  // number function norm -> 8..170 stars
    s.p[1] = r.loguniform(0.1, 10.);   // UV luminosity norm
    s.p[2] = 8.;                       // SN mass limit (Msol)
    s.p[3] = r.uniform(8., 25.);       // OB mass limit
    s.p[4] = r.uniform(60., 120.);     // stellar mass limit
    s.p[5] = -r.uniform(2., 2.7);      // IMF slope
    s.p[6] = r.uniform(0.5, 2.);       // boost factor
    interval = r.uniform(1e13, 9.9e13);
    s.p[8] = interval;
    s.p[9] = r.chance(0.5) ? 0. : interval * r.uniform(0, 20);
    tscale = interval;
    s.outfile = "Caproni_source_positions.txt";
    desc = sfmt("Caproni number norm=%a UV norm=%a OB limit=%a Msol mass limit=%a Msol IMF slope=%a seed=%ld update interval=%a starting time=%a output=%d",
                s.p[0], s.p[1], s.p[3], s.p[4], s.p[5], (long)s.seed, s.p[8], s.p[9], (int)output);
    break;
  }
  PhotonSourceDistribution *o = make_distribution(s);
  const int pre = r.below(8), post = 3 + r.below(8);
  c.describe(desc + sfmt(", %d update steps before the dump", pre));
  double t = (kind >= 3) ? s.p[9] : 0.;
  std::vector< double > times;
  for (int i = 0; i < pre + post; ++i) {
    t += tscale * r.uniform(0.2, 2.7);
    times.push_back(t);
  }
  Trace dummy;
  for (int i = 0; i < pre; ++i) distribution_step(dummy, *o, times[i]);
  c.st.inc("source_updates_before_dump", pre);
  const std::string d1 = dump_with("a.dump", [&](RestartWriter &w) { PhotonSourceDistributionFactory::write_restart_file(w, *o); });
  // the original carries on ...
  Trace tr[2];
  std::string file_end[2], d_end[2];
  trace_distribution(tr[0], *o);
  for (int i = pre; i < pre + post; ++i) distribution_step(tr[0], *o, times[i]);
  d_end[0] = dump_with("a2.dump", [&](RestartWriter &w) { PhotonSourceDistributionFactory::write_restart_file(w, *o); });
  delete o; // closes its output file
  if (output && s.outfile) file_end[0] = slurp(s.outfile);
  // ... and a run restarted from the dump must do the same (the output file on disk is now "ahead" of the dump,
  // as it is when a run is killed some time after its last dump)
  PhotonSourceDistribution *q;
  {
    RestartReader rd("a.dump");
    q = PhotonSourceDistributionFactory::restart(rd);
  }
  same_bytes(c, d1, dump_with("b.dump", [&](RestartWriter &w) { PhotonSourceDistributionFactory::write_restart_file(w, *q); }));
  trace_distribution(tr[1], *q);
  for (int i = pre; i < pre + post; ++i) distribution_step(tr[1], *q, times[i]);
  d_end[1] = dump_with("b2.dump", [&](RestartWriter &w) { PhotonSourceDistributionFactory::write_restart_file(w, *q); });
  delete q;
  if (output && s.outfile) file_end[1] = slurp(s.outfile);
  same_behaviour(c, tr[0], tr[1], "[sources after the same further updates]");
  same_end_state(c, d_end[0], d_end[1]);
  if (output && s.outfile) {
    c.st.inc("source_output_files_compared");
    if (file_end[0] != file_end[1]) {
      size_t i = 0;
      while (i < file_end[0].size() && i < file_end[1].size() && file_end[0][i] == file_end[1][i]) ++i;
      VIOL(c, "output-file", "source output file %s of the restarted distribution differs from the uninterrupted one: %zu vs %zu bytes, first difference at byte %zu | %s",
           s.outfile, file_end[0].size(), file_end[1].size(), i, c.desc.c_str());
    }
  }
  c.st.inc("distinct_objects");
}

// ---------------------------------------------------------------------------------
// hydro masks (through HydroMaskFactory)
// ---------------------------------------------------------------------------------
static void case_rescaledmask(Ctx &c) {
  vh::Rng &r = c.r;
  const Geo geo = gen_geo(r, false, 2, 4);
  const CoordinateVector< int_fast32_t > ncs(geo.ncs[0], geo.ncs[1], geo.ncs[2]);
  const Hydro hydro(5. / 3., 100., 1.e4, 1.e99, false);
  std::vector< HydroDensitySubGrid * > grids;
  for (int i = 0; i < geo.nsubtot(); ++i) {
    double sb[6];
    geo.subbox(i, sb);
    HydroDensitySubGrid *g = new HydroDensitySubGrid(sb, ncs);
    random_neighbours(r, *g);
    fill_hydro_subgrid(r, *g, hydro, false);
    grids.push_back(g);
  }
  const CoordinateVector<> center(geo.anchor[0] + r.uniform(0.2, 0.8) * geo.side[0], geo.anchor[1] + r.uniform(0.2, 0.8) * geo.side[1],
                                  geo.anchor[2] + r.uniform(0.2, 0.8) * geo.side[2]);
  const double radius = r.uniform(0.3, 1.2) * std::max(geo.side[0], std::max(geo.side[1], geo.side[2]));
  const double sf[3] = {r.loguniform(1e-3, 1.), r.uniform(0.1, 2.), r.loguniform(1e-3, 1.)};
  HydroMask *o = new RescaledICHydroMask(center, radius, sf[0], sf[1], sf[2], r.chance(0.5) ? 0. : r.loguniform(1., 1e3));
  for (size_t i = 0; i < grids.size(); ++i) o->initialize_mask(i, *grids[i]);
  for (size_t i = 0; i < grids.size(); ++i) o->apply_mask(i, *grids[i], 0., 0.);
  c.describe(sfmt("RescaledICHydroMask center=(%a,%a,%a) radius=%a scale factors=(%a,%a,%a), ", center.x(), center.y(), center.z(), radius, sf[0], sf[1], sf[2]) + geo.str());
  const std::string d1 = dump_with("a.dump", [&](RestartWriter &w) { HydroMaskFactory::write_restart_file(w, *o); });
  HydroMask *q;
  {
    RestartReader rd("a.dump");
    q = HydroMaskFactory::restart(rd);
  }
  same_bytes(c, d1, dump_with("b.dump", [&](RestartWriter &w) { HydroMaskFactory::write_restart_file(w, *q); }));
  // the gas evolves, then the mask is applied again (once per step)
  Trace tr[2];
  size_t masked = 0;
  for (int step = 0; step < 2; ++step) {
    for (size_t i = 0; i < grids.size(); ++i) {
      for (auto it = grids[i]->hydro_begin(); it != grids[i]->hydro_end(); ++it) fill_hydro_phys(r, it.get_hydro_variables(), false);
      grids[i]->initialize_hydrodynamic_variables(hydro, false);
      HydroDensitySubGrid ga(*grids[i]), gb(*grids[i]);
      Trace before;
      trace_subgrid_hydro(before, ga);
      o->apply_mask(i, ga, 0.01, 0.01 * (step + 1));
      q->apply_mask(i, gb, 0.01, 0.01 * (step + 1));
      trace_subgrid_hydro(tr[0], ga); trace_subgrid_ion(tr[0], ga);
      trace_subgrid_hydro(tr[1], gb); trace_subgrid_ion(tr[1], gb);
      Trace after;
      trace_subgrid_hydro(after, ga);
      for (size_t k = 0; k < after.v.size(); ++k) masked += after.v[k] != before.v[k];
    }
  }
  if (masked) c.st.inc("mask_cases_with_masked_cells");
  same_behaviour(c, tr[0], tr[1], "[mask applied to the same gas]");
  for (size_t k = 0; k < grids.size(); ++k) delete grids[k];
  delete o;
  delete q;
  c.st.inc("distinct_objects");
}

static void case_blocksyntaxmask(Ctx &c) {
  vh::Rng &r = c.r;
  std::string y = "number of blocks: 2\n";
  for (int i = 0; i < 2; ++i)
    y += sfmt("block[%d]:\n  origin: [%.17g m, %.17g m, %.17g m]\n  sides: [%.17g m, %.17g m, %.17g m]\n  type: %s\n  number density: %.17g m^-3\n"
              "  initial temperature: %.17g K\n  initial velocity: [%.17g m s^-1, 0. m s^-1, 0. m s^-1]\n",
              i, r.uniform(0, 1), r.uniform(0, 1), r.uniform(0, 1), r.uniform(0.1, 1), r.uniform(0.1, 1), r.uniform(0.1, 1), i ? "sphere" : "cube",
              r.loguniform(1, 100), r.loguniform(10, 1e4), r.uniform(-1, 1));
  spit("mask.yml", y);
  ParameterFile params;
  params.add_value("HydroMask:type", "BlockSyntax");
  params.add_value("HydroMask:filename", "mask.yml");
  HydroMask *o = HydroMaskFactory::generate(params);
  c.describe("BlockSyntaxHydroMask with 2 blocks from a generated file");
  const std::string d1 = dump_with("a.dump", [&](RestartWriter &w) { HydroMaskFactory::write_restart_file(w, *o); });
  HydroMask *q;
  {
    RestartReader rd("a.dump");
    q = HydroMaskFactory::restart(rd);
  }
  same_bytes(c, d1, dump_with("b.dump", [&](RestartWriter &w) { HydroMaskFactory::write_restart_file(w, *q); }));
  delete o;
  delete q;
  c.st.inc("distinct_objects");
}

// ---------------------------------------------------------------------------------
// schedule and driver
// ---------------------------------------------------------------------------------
struct ClassEntry {
  const char *name;
  int kind;
};
// one cycle of the schedule; simple classes first, classes with side effects last
static const ClassEntry SCHEDULE[] = {
    {"CoordinateVector", 0},      {"Box", 1},                   {"TimeLine", 2},          {"RandomGenerator", 3},
    {"YAMLDictionary", 4},        {"ParameterFile", 5},         {"IonizationVariables", 6}, {"HydroVariables", 7},
    {"DensitySubGrid", 8},        {"HydroDensitySubGrid", 9},   {"DensitySubGridCreator", 10}, {"DensitySubGrid", 8},
    {"HydroDensitySubGrid", 9},   {"AlveliusTurbulenceForcing", 11}, {"LiveOutputManager", 12}, {"SingleStar", 13},
    {"SingleSupernova", 14},      {"AsciiFile", 15},            {"HydroDensitySubGrid", 9}, {"DensitySubGridCreator", 10},
    {"RescaledICHydroMask", 16},  {"UniformRandom", 17},        {"UniformRandomWithOutput", 18}, {"DiscPatch", 19},
    {"DiscPatchWithOutput", 20},  {"Caproni", 21},              {"CaproniWithOutput", 22}, {"BlockSyntaxHydroMask", 23}};
static const int NSCHED = sizeof SCHEDULE / sizeof SCHEDULE[0];

static void run_case(Ctx &c, int kind) {
  switch (kind) {
  case 0: case_coordinatevector(c); break;
  case 1: case_box(c); break;
  case 2: case_timeline(c); break;
  case 3: case_randomgenerator(c); break;
  case 4: case_yamldictionary(c); break;
  case 5: case_parameterfile(c); break;
  case 6: case_ionizationvariables(c); break;
  case 7: case_hydrovariables(c); break;
  case 8: case_densitysubgrid(c); break;
  case 9: case_hydrodensitysubgrid(c); break;
  case 10: case_creator(c); break;
  case 11: case_alvelius(c); break;
  case 12: case_liveoutput(c); break;
  case 13: case_distribution(c, 0, false); break;
  case 14: case_distribution(c, 1, false); break;
  case 15: case_distribution(c, 2, false); break;
  case 16: case_rescaledmask(c); break;
  case 17: case_distribution(c, 3, false); break;
  case 18: case_distribution(c, 3, true); break;
  case 19: case_distribution(c, 4, false); break;
  case 20: case_distribution(c, 4, true); break;
  case 21: case_distribution(c, 5, false); break;
  case 22: case_distribution(c, 5, true); break;
  case 23: case_blocksyntaxmask(c); break;
  }
}

static const char *signame(int s) {
  switch (s) {
  case SIGABRT: return "SIGABRT";
  case SIGSEGV: return "SIGSEGV";
  case SIGBUS: return "SIGBUS";
  case SIGFPE: return "SIGFPE";
  case SIGALRM: return "SIGALRM (120 s watchdog)";
  case SIGKILL: return "SIGKILL";
  default: return "signal";
  }
}

int main(int argc, char **argv) {
  const uint64_t seed = vh::arg_u64(argc, argv, "--seed", 1);
  const uint64_t ncases = vh::arg_u64(argc, argv, "--cases", 300);
  const int64_t only = (int64_t)vh::arg_u64(argc, argv, "--only", (uint64_t)-1);
  const std::string tmp = vh::arg_str(argc, argv, "--tmp", "/tmp");
  const bool strict_refusal = vh::arg_flag(argc, argv, "--strict-refusal");
  if (vh::arg_flag(argc, argv, "--no-poison")) g_poison = 0;
  vh::g_viol_print_limit = 1000;
  omp_set_num_threads(1); // inherited by the forked children; the repo classes open parallel regions
  vh::Stats st;
  vh::Rng master(seed * 1000003ull + 9);
  std::map< std::string, int > sampled;
  std::map< std::string, std::string > samples;

  for (uint64_t n = 0; n < ncases; ++n) {
    vh::Rng cr = master.fork(n);
    if (only >= 0 && (int64_t)n != only) continue;
    const ClassEntry &ce = SCHEDULE[n % NSCHED];
    // the refusal of BlockSyntaxHydroMask is deterministic: a few probes per run are enough
    if (ce.kind == 23 && (n / NSCHED) % 8 != 0 && only < 0) continue;
    const std::string dir = sfmt("%s/c09cls_%d_%llu_%llu", tmp.c_str(), (int)getpid(), (unsigned long long)seed, (unsigned long long)n);
    mkdir(tmp.c_str(), 0777);
    if (mkdir(dir.c_str(), 0777) != 0 && errno != EEXIST) {
      std::fprintf(stderr, "cannot create %s\n", dir.c_str());
      return 3;
    }
    int pfd[2];
    if (pipe(pfd) != 0) return 3;
    std::fflush(stdout);
    const bool want_sample = sampled[ce.name]++ == 0;
    const pid_t pid = fork();
    if (pid < 0) return 3;
    if (pid == 0) {
      close(pfd[0]);
      g_pipe = pfd[1];
      struct rlimit rl = {0, 0};
      setrlimit(RLIMIT_CORE, &rl);
      alarm(120);
      if (chdir(dir.c_str()) != 0) _exit(3);
      const int efd = open("stderr.txt", O_WRONLY | O_CREAT | O_TRUNC, 0666);
      if (efd >= 0) { dup2(efd, 2); close(efd); }
      Ctx c(n, ce.name, cr);
      run_case(c, ce.kind);
      c.st.inc(std::string("class_") + ce.name);
      if (want_sample) pipe_line("P class=%s case=%llu %s", ce.name, (unsigned long long)n, c.desc.c_str());
      std::fflush(stdout);
      for (auto &kv : c.st.c) pipe_line("S %s %llu", kv.first.c_str(), (unsigned long long)kv.second);
      pipe_line("V %llu", (unsigned long long)vh::g_nviol);
      pipe_line("E");
      _exit(0);
    }
    close(pfd[1]);
    std::string msg;
    {
      char buf[4096];
      ssize_t k;
      while ((k = read(pfd[0], buf, sizeof buf)) > 0) msg.append(buf, k);
      close(pfd[0]);
    }
    int status = 0;
    waitpid(pid, &status, 0);
    std::string desc;
    bool ended = false;
    {
      std::istringstream in(msg);
      std::string line;
      while (std::getline(in, line)) {
        if (line.size() > 2 && line[0] == 'S') {
          const size_t sp = line.rfind(' ');
          st.inc(line.substr(2, sp - 2), std::strtoull(line.c_str() + sp + 1, nullptr, 10));
        } else if (line.size() > 2 && line[0] == 'V') {
          vh::g_nviol = std::max< uint64_t >(vh::g_nviol, std::strtoull(line.c_str() + 2, nullptr, 10));
        } else if (line.size() > 2 && line[0] == 'K') {
          ++g_keycount[line.substr(2)];
        } else if (line.size() > 2 && line[0] == 'D') {
          desc = line.substr(2);
        } else if (line.size() > 2 && line[0] == 'P') {
          samples[ce.name] = line.substr(2);
        } else if (line == "E") {
          ended = true;
        }
      }
    }
    if (!(WIFEXITED(status) && WEXITSTATUS(status) == 0 && ended)) {
      std::string err = slurp(dir + "/stderr.txt");
      for (size_t i = 0; i < err.size(); ++i)
        if (err[i] == '\n' || err[i] == '\r') err[i] = ' ';
      if (err.size() > 400) err = "..." + err.substr(err.size() - 400);
      const int sig = WIFSIGNALED(status) ? WTERMSIG(status) : 0;
      const bool refusal = sig == SIGABRT && (err.find("Restarting not supported") != std::string::npos ||
                                              err.find("Restarting is not supported") != std::string::npos);
      if (refusal && !strict_refusal) {
        // the component states explicitly that it cannot be dumped: not restartable, outside the clause
        st.inc(std::string("dump_refused_") + ce.name);
        if (want_sample) samples[ce.name] = sfmt("class=%s case=%llu refuses to be dumped: %s", ce.name, (unsigned long long)n, err.c_str());
      } else {
        const std::string key = std::string(ce.name) + "/abort";
        VIOL_KEY(key, n, "the process handling this object died: %s %d, exit status %d; stderr: %s | %s", signame(sig), sig,
                WIFEXITED(status) ? WEXITSTATUS(status) : -1, err.c_str(), desc.c_str());
        st.inc("aborted_cases");
      }
    }
    rm_rf(dir);
  }
  {
    static const char *FIRST[] = {"HydroDensitySubGrid", "DensitySubGridCreator", "AlveliusTurbulenceForcing", "DensitySubGrid", "CaproniWithOutput"};
    for (size_t i = 0; i < sizeof FIRST / sizeof FIRST[0]; ++i)
      if (samples.count(FIRST[i])) {
        std::printf("SAMPLE %s\n", samples[FIRST[i]].c_str());
        samples.erase(FIRST[i]);
      }
    for (auto &kv : samples) std::printf("SAMPLE %s\n", kv.second.c_str());
  }
  st.print();
  std::printf("DONE violations=%" PRIu64 "\n", vh::g_nviol);
  return vh::g_nviol ? 1 : 0;
}
