// C11: the exact Riemann solver returns the solution of the Riemann problem.
//
// Drives the real ExactRiemannSolver::solve(rhoL,uL,PL,rhoR,uR,PR, ..., dx/dt) and judges what it returns with
//   pstar-residual   the Euler pressure function f(p) = fL + fR + uR - uL evaluated (long double) at the returned p*
//   pstar-ref        p*, u*, rho*L, rho*R against an independent reference (monotone bisection in long double)
//   rankine-hugoniot mass / momentum / energy jump conditions across every shock, from the sampled states
//   rarefaction      entropy P/rho^gamma, the Riemann invariant u +- 2a/(gamma-1) and the characteristic
//                    dx/dt = u -+ a for states sampled inside fans and behind them
//   reference        sampled states against textbook sampling (Toro ch. 4.5) of the reference solution
//   outer            the undisturbed states are returned unchanged
//   at-wave          at (within 1e-9 of) a shock / the contact the answer is one of the two one-sided limits
//   continuity       no jump across rarefaction heads and tails and where vacuum joins the fans
//   finite           finite, rho >= 0, P >= 0
//   toro             Toro's five test problems (table 4.3 values)
// Violation keys: <clause>/<regime>, regime in non-vacuum, left-vacuum, right-vacuum, both-vacuum,
// vacuum-generation, underflow (p* below the smallest double: numerically a vacuum).
#include "ExactRiemannSolver.hpp"
#include "vh.hpp"
#include <cstdarg>
#include <string>
#include <vector>

typedef long double LD;
static const double EPS = 2.220446049250313e-16;
static inline LD maxl(LD a, LD b) { return a > b ? a : b; }
static inline LD minl(LD a, LD b) { return a < b ? a : b; }

enum Regime { NONVAC = 0, LVAC, RVAC, BVAC, VGEN, UNDER, THRESH };
static const char *RNAME[] = {"non-vacuum", "left-vacuum", "right-vacuum", "both-vacuum", "vacuum-generation", "underflow", "threshold"};
static const char *RSTAT[] = {"non_vacuum", "left_vacuum", "right_vacuum", "both_vacuum", "vacuum_generation", "underflow", "threshold"};

static vh::Stats st;
static bool g_replay = false;
static std::map<std::string, uint64_t> g_keycount;

struct Prob {
  double g, rL, uL, pL, rR, uR, pR;
};
static std::string describe(const Prob &q) {
  char b[400];
  std::snprintf(b, sizeof b, "gamma=%.17g L=(rho %.17g u %.17g P %.17g) R=(rho %.17g u %.17g P %.17g)", q.g, q.rL, q.uL, q.pL, q.rR,
                q.uR, q.pR);
  return b;
}
static const Prob *g_prob = nullptr;
static uint64_t g_id = 0;
static int g_regime = 0;

static void viol(const std::string &clause, const char *fmt, ...) {
  const std::string key = clause + "/" + RNAME[g_regime];
  ++vh::g_nviol;
  const uint64_t k = ++g_keycount[key];
  st.inc("viol_" + key);
  if (k <= 3 || g_replay) {
    std::printf("VIOL key=%s case=%" PRIu64 " ", key.c_str(), g_id);
    va_list ap;
    va_start(ap, fmt);
    std::vprintf(fmt, ap);
    va_end(ap);
    std::printf(" ; %s\n", describe(*g_prob).c_str());
    std::fflush(stdout);
  }
}

// ---------------------------------------------------------------- the code under test
struct W {
  double r, u, p;
  int flag;
};
static const ExactRiemannSolver *g_solver = nullptr;
static bool g_nonfinite_reported = false;
static W sample(double xi) {
  const Prob &q = *g_prob;
  W w;
  w.r = w.p = -1.;
  w.u = 0.;
  w.flag = (int)g_solver->solve(q.rL, q.uL, q.pL, q.rR, q.uR, q.pR, w.r, w.u, w.p, xi);
  st.inc("solve_calls");
  return w;
}
// finite clause; returns false (and reports once per problem) when the sampled state is unusable
static bool usable(const W &w, double xi) {
  st.inc("n_finite");
  if (std::isfinite(w.r) && std::isfinite(w.u) && std::isfinite(w.p) && w.r >= 0. && w.p >= 0.) return true;
  if (!g_nonfinite_reported) {
    g_nonfinite_reported = true;
    viol("finite", "solve() sampled at dx/dt=%.17g returned rho=%g u=%g P=%g flag=%d", xi, w.r, w.u, w.p, w.flag);
  }
  return false;
}

// ---------------------------------------------------------------- reference solution (long double, from the equations)
static LD fK(LD p, LD pK, LD rK, LD aK, LD g) {
  if (p > pK) return (p - pK) * sqrtl((2 / ((g + 1) * rK)) / (p + (g - 1) / (g + 1) * pK)); // shock branch (Toro 4.6)
  return 2 * aK / (g - 1) * (powl(p / pK, (g - 1) / (2 * g)) - 1);                          // rarefaction branch (4.7)
}
static LD fKp(LD p, LD pK, LD rK, LD aK, LD g) {
  if (p > pK) {
    const LD A = 2 / ((g + 1) * rK), B = (g - 1) / (g + 1) * pK;
    return sqrtl(A / (B + p)) * (1 - (p - pK) / (2 * (B + p)));
  }
  return powl(p / pK, -(g + 1) / (2 * g)) / (rK * aK);
}
struct Ref {
  int regime;
  LD g, rL, uL, pL, aL, rR, uR, pR, aR;
  // non-vacuum
  LD ps, us, rsL, rsR, as_L, as_R, fprime;
  bool shL, shR;
  LD SL, STL, SR, STR; // shock speed or head ; tail (== shock speed for a shock)
  // vacuum
  LD frontL, frontR; // uL + 2aL/(g-1), uR - 2aR/(g-1)
};
struct WL3 {
  LD r, u, p;
};

static Ref make_ref(const Prob &q) {
  Ref R;
  R.g = q.g;
  R.rL = q.rL;
  R.uL = q.uL;
  R.pL = q.pL;
  R.rR = q.rR;
  R.uR = q.uR;
  R.pR = q.pR;
  const LD g = R.g;
  const bool vL = q.rL == 0. || q.pL == 0., vR = q.rR == 0. || q.pR == 0.;
  R.aL = vL ? 0 : sqrtl(g * R.pL / R.rL);
  R.aR = vR ? 0 : sqrtl(g * R.pR / R.rR);
  R.frontL = R.uL + 2 * R.aL / (g - 1);
  R.frontR = R.uR - 2 * R.aR / (g - 1);
  R.ps = R.us = R.rsL = R.rsR = R.as_L = R.as_R = R.fprime = 0;
  R.shL = R.shR = false;
  R.SL = R.STL = R.SR = R.STR = 0;
  if (vL && vR) {
    R.regime = BVAC;
    return R;
  }
  if (vL) {
    R.regime = LVAC;
    return R;
  }
  if (vR) {
    R.regime = RVAC;
    return R;
  }
  const LD du = R.uR - R.uL, crit = 2 * (R.aL + R.aR) / (g - 1);
  if (fabsl(du - crit) <= 1e-9L * crit) {
    R.regime = THRESH;
    return R;
  }
  if (du > crit) {
    R.regime = VGEN;
    return R;
  }
  R.regime = NONVAC;
  // f is increasing and concave, f(0) = du - crit < 0: bracket and bisect
  LD lo = 0, hi = maxl(R.pL, R.pR);
  while (fK(hi, R.pL, R.rL, R.aL, g) + fK(hi, R.pR, R.rR, R.aR, g) + du < 0) {
    lo = hi;
    hi *= 2;
  }
  for (int it = 0; it < 20000; ++it) {
    const LD mid = 0.5L * (lo + hi);
    if (!(mid > lo && mid < hi)) break;
    if (fK(mid, R.pL, R.rL, R.aL, g) + fK(mid, R.pR, R.rR, R.aR, g) + du < 0) lo = mid;
    else hi = mid;
  }
  R.ps = 0.5L * (lo + hi);
  R.us = 0.5L * (R.uL + R.uR) + 0.5L * (fK(R.ps, R.pR, R.rR, R.aR, g) - fK(R.ps, R.pL, R.rL, R.aL, g));
  R.fprime = fKp(R.ps, R.pL, R.rL, R.aL, g) + fKp(R.ps, R.pR, R.rR, R.aR, g);
  if (R.ps < 1e-290L * minl(R.pL, R.pR)) R.regime = UNDER; // p* not representable next to the input pressures
  R.shL = R.ps > R.pL;
  R.shR = R.ps > R.pR;
  const LD mu = (g - 1) / (g + 1);
  if (R.shL) {
    R.rsL = R.rL * (R.ps / R.pL + mu) / (mu * R.ps / R.pL + 1); // Hugoniot density (4.50)
    // shock speed from mass conservation across the shock
    R.SL = R.STL = R.uL - R.aL * sqrtl((g + 1) / (2 * g) * R.ps / R.pL + (g - 1) / (2 * g));
  } else {
    R.rsL = R.rL * powl(R.ps / R.pL, 1 / g); // isentropic
    R.SL = R.uL - R.aL;
  }
  if (R.shR) {
    R.rsR = R.rR * (R.ps / R.pR + mu) / (mu * R.ps / R.pR + 1);
    R.SR = R.STR = R.uR + R.aR * sqrtl((g + 1) / (2 * g) * R.ps / R.pR + (g - 1) / (2 * g));
  } else {
    R.rsR = R.rR * powl(R.ps / R.pR, 1 / g);
    R.SR = R.uR + R.aR;
  }
  R.as_L = sqrtl(g * R.ps / R.rsL);
  R.as_R = sqrtl(g * R.ps / R.rsR);
  if (!R.shL) R.STL = R.us - R.as_L;
  if (!R.shR) R.STR = R.us + R.as_R;
  return R;
}

// state inside a fan at speed xi, from  u -+ a = xi  and the Riemann invariant of the fan
static WL3 fan_left(const Ref &R, LD xi) {
  const LD g = R.g;
  LD a = 2 / (g + 1) * (R.aL + (g - 1) / 2 * (R.uL - xi));
  if (a < 0) a = 0;
  WL3 w;
  w.u = xi + a;
  w.r = R.rL * powl(a / R.aL, 2 / (g - 1));
  w.p = R.pL * powl(a / R.aL, 2 * g / (g - 1));
  return w;
}
static WL3 fan_right(const Ref &R, LD xi) {
  const LD g = R.g;
  LD a = 2 / (g + 1) * (R.aR - (g - 1) / 2 * (R.uR - xi));
  if (a < 0) a = 0;
  WL3 w;
  w.u = xi - a;
  w.r = R.rR * powl(a / R.aR, 2 / (g - 1));
  w.p = R.pR * powl(a / R.aR, 2 * g / (g - 1));
  return w;
}
// region codes: 0 left state, 1 left fan, 2 star left, 3 star right, 4 right fan, 5 right state, 6 vacuum
static WL3 ref_sample(const Ref &R, LD xi, int &region) {
  WL3 w;
  const WL3 wl = {R.rL, R.uL, R.pL}, wr = {R.rR, R.uR, R.pR}, vac = {0, 0, 0};
  if (R.regime == BVAC) {
    region = 6;
    return vac;
  }
  if (R.regime == NONVAC || R.regime == UNDER) {
    if (xi <= R.us) {
      if (R.shL) {
        if (xi < R.SL) {
          region = 0;
          return wl;
        }
        region = 2;
        w.r = R.rsL;
      } else {
        if (xi < R.SL) {
          region = 0;
          return wl;
        }
        if (xi < R.STL) {
          region = 1;
          return fan_left(R, xi);
        }
        region = 2;
        w.r = R.rsL;
      }
    } else {
      if (R.shR) {
        if (xi > R.SR) {
          region = 5;
          return wr;
        }
        region = 3;
        w.r = R.rsR;
      } else {
        if (xi > R.SR) {
          region = 5;
          return wr;
        }
        if (xi > R.STR) {
          region = 4;
          return fan_right(R, xi);
        }
        region = 3;
        w.r = R.rsR;
      }
    }
    w.u = R.us;
    w.p = R.ps;
    return w;
  }
  const bool left_gas = R.regime == RVAC || R.regime == VGEN, right_gas = R.regime == LVAC || R.regime == VGEN;
  if (left_gas && xi < R.frontL) {
    if (xi <= R.uL - R.aL) {
      region = 0;
      return wl;
    }
    region = 1;
    return fan_left(R, xi);
  }
  if (right_gas && xi > R.frontR) {
    if (xi >= R.uR + R.aR) {
      region = 5;
      return wr;
    }
    region = 4;
    return fan_right(R, xi);
  }
  region = 6;
  return vac;
}

// ---------------------------------------------------------------- tolerances
struct Tol {
  LD r, u, p;
};
// closed-form regions (outer states, fans): round-off only.  An error ev in a velocity moves the sampled point
// of a fan of width ~aK: |d rho| <= rhoK (2/(g+1)) ev/aK etc.; kap = largest exponent of the closed forms.
static Tol tol_fan(const Ref &R, bool left, LD xi) {
  const LD kap = 1 + 2 * R.g / (R.g - 1);
  const LD aK = left ? R.aL : R.aR, rK = left ? R.rL : R.rR, pK = left ? R.pL : R.pR, uK = left ? R.uL : R.uR;
  const LD ev = 64 * EPS * (fabsl(uK) + kap * aK + fabsl(xi));
  Tol t;
  t.u = ev;
  t.r = rK * kap * ev / aK;
  t.p = pK * kap * ev / aK;
  return t;
}
// star region: the solver finds p* to 1e-8 relative (stated); compared at 1e-7 as designed; u* = average of the two
// wave relations, off by f(p*)/2 <= f'(p*) dp / 2
static LD tol_ustar(const Ref &R, LD rel) {
  const LD kap = 1 + 2 * R.g / (R.g - 1);
  return rel * R.ps * R.fprime + 64 * EPS * (fabsl(R.uL) + fabsl(R.uR) + kap * (R.aL + R.aR));
}
static Tol tol_star(const Ref &R, bool left) {
  Tol t;
  // conditioning of the problem itself: the inputs are doubles, and the round-off of forming uR - uL and the two
  // f_K (64 eps of their magnitudes, the same noise term as in the residual clause) moves the root of the pressure
  // equation by noise / f'(p*).  Close to the vacuum limit f'(p*) p* -> 0 and this dominates the solver's 1e-8.
  const LD kap = 1 + 2 * R.g / (R.g - 1);
  const LD cond = 64 * EPS * (fabsl(R.uL) + fabsl(R.uR) + kap * (R.aL + R.aR)) / (R.ps * R.fprime);
  t.p = (1e-7L + cond) * R.ps;
  t.r = (1e-7L + cond) * (left ? R.rsL : R.rsR);
  t.u = tol_ustar(R, 1e-7L);
  return t;
}
static Tol tol_region(const Ref &R, int region, LD xi) {
  switch (region) {
  case 2: return tol_star(R, true);
  case 3: return tol_star(R, false);
  case 0:
  case 1: return tol_fan(R, true, xi);
  case 4:
  case 5: return tol_fan(R, false, xi);
  default: {
    Tol t = {0, 0, 0};
    return t;
  }
  }
}
static double errratio(const W &w, const WL3 &x, const Tol &t, bool with_u) {
  LD e = 0;
  e = maxl(e, fabsl((LD)w.r - x.r) / maxl(t.r, 1e-4000L));
  e = maxl(e, fabsl((LD)w.p - x.p) / maxl(t.p, 1e-4000L));
  if (with_u) e = maxl(e, fabsl((LD)w.u - x.u) / maxl(t.u, 1e-4000L));
  if (!(e == e)) return INFINITY;
  return (double)minl(e, 1e300L);
}
static void note(const std::string &clause, double ratio) {
  st.inc("n_" + clause);
  st.maxd("maxratio_" + clause + "_" + RSTAT[g_regime], ratio);
}

// ---------------------------------------------------------------- clauses
static void check_reference_at(const Ref &R, double xi, const char *what) {
  const W w = sample(xi);
  if (!usable(w, xi)) return;
  int region;
  const WL3 x = ref_sample(R, xi, region);
  const Tol t = tol_region(R, region, xi);
  st.inc(std::string("region_") + std::to_string(region));
  if (region == 6) { // vacuum: density and pressure exactly zero (velocity has no meaning)
    note("reference", (w.r == 0. && w.p == 0.) ? 0. : INFINITY);
    if (w.r != 0. || w.p != 0.) viol("reference", "%s: dx/dt=%.17g lies in the vacuum but solve() returned rho=%.17g P=%.17g", what, xi, w.r, w.p);
    return;
  }
  if (region == 0 || region == 5) { // undisturbed state must come back unchanged
    const bool same = w.r == (double)x.r && w.u == (double)x.u && w.p == (double)x.p;
    note("outer", same ? 0. : INFINITY);
    if (!same) viol("outer", "%s: dx/dt=%.17g lies in the undisturbed %s state but solve() returned rho=%.17g u=%.17g P=%.17g", what, xi,
                     region ? "right" : "left", w.r, w.u, w.p);
    return;
  }
  const double e = errratio(w, x, t, true);
  note("reference", e);
  if (!(e <= 1.))
    viol("reference", "%s: dx/dt=%.17g (region %d) solve() returned rho=%.17g u=%.17g P=%.17g, reference rho=%.17Lg u=%.17Lg P=%.17Lg (error/tolerance %.3g)",
         what, xi, region, w.r, w.u, w.p, x.r, x.u, x.p, e);
  // wave relations of a rarefaction, from the sampled state alone
  if (region == 1 || region == 4) {
    const bool left = region == 1;
    const LD g = R.g, kap = 1 + 2 * g / (g - 1);
    const LD rK = left ? R.rL : R.rR, pK = left ? R.pL : R.pR, aK = left ? R.aL : R.aR, uK = left ? R.uL : R.uR;
    if (w.r > 1e-280 * (double)rK && w.p > 1e-280 * (double)pK) {
      const LD a = sqrtl(g * (LD)w.p / w.r);
      const LD ent = ((LD)w.p / pK) / powl((LD)w.r / rK, g) - 1;               // entropy
      const LD inv = left ? ((LD)w.u + 2 * a / (g - 1)) - (uK + 2 * aK / (g - 1)) // Riemann invariant
                          : ((LD)w.u - 2 * a / (g - 1)) - (uK - 2 * aK / (g - 1));
      const LD chr = left ? ((LD)w.u - a) - xi : ((LD)w.u + a) - xi;            // characteristic
      const LD ev = 64 * EPS * (fabsl(uK) + kap * aK + fabsl((LD)xi));
      // rho and P come from one number `base`: P/rho^g carries only the rounding of two pow calls and of their
      // arguments, amplified by the exponents
      const LD tol_ent = 256 * EPS * kap;
      const LD tol_a = kap * ev + 64 * EPS * kap * aK; // a is recovered from rho, P: relative error ~ kap eps / 2
      LD e2 = fabsl(ent) / tol_ent;
      e2 = maxl(e2, fabsl(inv) / (kap * tol_a));
      e2 = maxl(e2, fabsl(chr) / (tol_a + ev));
      note("rarefaction", (double)minl(e2, 1e300L));
      if (!(e2 <= 1.))
        viol("rarefaction", "%s: state sampled at dx/dt=%.17g inside the %s fan (rho=%.17g u=%.17g P=%.17g) violates the fan relations: "
                            "P/rho^gamma off by %.3Lg (rel), Riemann invariant off by %.3Lg, u%sa - dx/dt = %.3Lg (a=%.9Lg; error/tolerance %.3Lg)",
             what, xi, left ? "left" : "right", w.r, w.u, w.p, ent, inv, left ? "-" : "+", chr, a, e2);
    }
  }
}

// jump of the sampled state between two nearby speeds, normalised by the local Lipschitz bound + noise
static void check_continuity(const Ref &R, double xw, bool left, const char *wave, LD noise_u, bool exact_position, bool with_u,
                             LD room = 1e4000L) {
  const LD g = R.g, kap = 1 + 2 * g / (g - 1);
  const LD aK = left ? R.aL : R.aR, rK = left ? R.rL : R.rR, pK = left ? R.pL : R.pR;
  const LD floor_ = 64 * EPS * maxl(fabsl((LD)xw), aK);
  std::vector<std::pair<double, double> > pairs;
  if (exact_position) { // head / vacuum front: position known to round-off
    pairs.push_back(std::make_pair(xw - (double)maxl(1e-9L * aK, floor_), xw + (double)maxl(1e-9L * aK, floor_)));
    pairs.push_back(std::make_pair(xw - (double)floor_, xw + (double)floor_));
  } else { // tail: the code's tail follows its own p* (1e-8): track the largest jump inside +-1e-6 a
    // room: distance to the contact, where the density legitimately jumps: the window must not reach it
    if (maxl(1e-6L * aK, floor_) >= 0.25L * room) {
      st.inc("tail_skipped_thin_star_region");
      return;
    }
    double a = xw - (double)maxl(1e-6L * aK, floor_), b = xw + (double)maxl(1e-6L * aK, floor_);
    W wa = sample(a), wb = sample(b);
    if (!usable(wa, a) || !usable(wb, b)) return;
    for (int it = 0; it < 6; ++it) {
      const double m = 0.5 * (a + b);
      const W wm = sample(m);
      if (!usable(wm, m)) return;
      const double dl = std::fabs(wm.u - wa.u) + std::fabs(wm.p - wa.p) / (double)pK + std::fabs(wm.r - wa.r) / (double)rK;
      const double dr = std::fabs(wb.u - wm.u) + std::fabs(wb.p - wm.p) / (double)pK + std::fabs(wb.r - wm.r) / (double)rK;
      if (dl >= dr) {
        b = m;
        wb = wm;
      } else {
        a = m;
        wa = wm;
      }
    }
    pairs.push_back(std::make_pair(a, b));
  }
  for (size_t i = 0; i < pairs.size(); ++i) {
    const double a = pairs[i].first, b = pairs[i].second;
    const W wa = sample(a), wb = sample(b);
    if (!usable(wa, a) || !usable(wb, b)) return;
    const LD d = (LD)b - a;
    // inside a fan |du/dxi| <= 1, |drho/dxi| <= rhoK/aK, |dP/dxi| <= 2 PK/aK ; noise: velocity-like error noise_u
    const LD tu = 4 * d + noise_u;
    const LD tr = rK * (4 * d + kap * noise_u) / aK;
    const LD tp = pK * (8 * d + kap * noise_u) / aK;
    LD e = maxl(fabsl((LD)wb.r - wa.r) / tr, fabsl((LD)wb.p - wa.p) / tp);
    if (with_u && wa.r > 0. && wb.r > 0.) e = maxl(e, fabsl((LD)wb.u - wa.u) / tu);
    note(std::string("continuity"), (double)minl(e, 1e300L));
    st.inc(std::string("n_continuity_") + wave);
    if (!(e <= 1.))
      viol("continuity", "sampled state jumps across the %s of the %s wave at %.17g: dx/dt=%.17g -> (rho %.17g u %.17g P %.17g), dx/dt=%.17g -> "
                         "(rho %.17g u %.17g P %.17g) (jump/allowed %.3Lg)",
           wave, left ? "left" : "right", xw, a, wa.r, wa.u, wa.p, b, wb.r, wb.u, wb.p, e);
  }
}

// at a discontinuity: the answer is one of the two one-sided limits
static void check_at_wave(const Ref &R, LD xw, const WL3 &lim1, const Tol &t1, const WL3 &lim2, const Tol &t2, LD aK, const char *wave,
                          LD room) {
  // room: distance to the nearest other wave; the probes must stay inside the two adjacent regions
  if (1e-9L * maxl(fabsl(xw), aK) >= 0.25L * room) {
    st.inc("at_wave_skipped_thin_region");
    return;
  }
  for (int k = -1; k <= 1; ++k) {
    const double xi = (double)(xw + k * 1e-9L * maxl(fabsl(xw), aK));
    const W w = sample(xi);
    if (!usable(w, xi)) return;
    const double e1 = errratio(w, lim1, t1, true), e2 = errratio(w, lim2, t2, true);
    const double e = std::min(e1, e2);
    note("at-wave", e);
    st.inc(std::string("n_at_") + wave);
    if (!(e <= 1.))
      viol("at-wave", "dx/dt=%.17g is within 1e-9 of the %s (%.17Lg): solve() returned rho=%.17g u=%.17g P=%.17g which is neither "
                      "(rho %.17Lg u %.17Lg P %.17Lg) nor (rho %.17Lg u %.17Lg P %.17Lg) (error/tolerance %.3g, %.3g)",
           xi, wave, xw, w.r, w.u, w.p, lim1.r, lim1.u, lim1.p, lim2.r, lim2.u, lim2.p, e1, e2);
  }
}

static void run_problem(const Prob &q, vh::Rng &r, bool sample_out) {
  const Ref R = make_ref(q);
  g_regime = R.regime;
  g_nonfinite_reported = false;
  st.inc(std::string("regime_") + RSTAT[R.regime]);
  if (R.regime == THRESH) return;
  const ExactRiemannSolver solver(q.g);
  g_solver = &solver;
  const LD g = R.g, kap = 1 + 2 * g / (g - 1);
  const LD amax = maxl(R.aL, R.aR);
  W star_l = {0, 0, 0, 0}, star_r = {0, 0, 0, 0};

  if (R.regime == NONVAC) {
    st.inc(std::string("pattern_") + (R.shL ? "S" : "R") + (R.shR ? "S" : "R"));
    // --- star states: sampled in the middle of the two star regions
    const double xl = (double)(0.5L * (R.STL + R.us)), xr = (double)(0.5L * (R.us + R.STR));
    star_l = sample(xl);
    star_r = sample(xr);
    const bool okl = usable(star_l, xl), okr = usable(star_r, xr);
    if (okl && okr) {
      // pressure function at the returned p*
      const LD pc = star_l.p;
      const LD res = fK(pc, R.pL, R.rL, R.aL, g) + fK(pc, R.pR, R.rR, R.aR, g) + (R.uR - R.uL);
      const LD fp = fKp(pc, R.pL, R.rL, R.aL, g) + fKp(pc, R.pR, R.rR, R.aR, g);
      const LD tolres = 4e-8L * pc * fp + 64 * EPS * (fabsl(R.uL) + fabsl(R.uR) + kap * (R.aL + R.aR));
      note("pstar-residual", (double)(fabsl(res) / tolres));
      st.maxd("max_pstar_relative_error", (double)(fabsl(pc - R.ps) / R.ps));
      if (!(fabsl(res) <= tolres))
        viol("pstar-residual", "pressure function at the returned p*=%.17g is %.3Lg, allowed %.3Lg (f' p* = %.3Lg; reference p*=%.17Lg)", star_l.p, res,
             tolres, fp * pc, R.ps);
      if (star_l.p != star_r.p || star_l.u != star_r.u)
        viol("pstar-ref", "the two sides of the contact disagree: left (u %.17g P %.17g) right (u %.17g P %.17g)", star_l.u, star_l.p, star_r.u, star_r.p);
      const WL3 sl = {R.rsL, R.us, R.ps}, sr = {R.rsR, R.us, R.ps};
      const double e = std::max(errratio(star_l, sl, tol_star(R, true), true), errratio(star_r, sr, tol_star(R, false), true));
      note("pstar-ref", e);
      if (!(e <= 1.))
        viol("pstar-ref", "star states (rho*L %.17g rho*R %.17g u* %.17g p* %.17g) differ from the reference (rho*L %.17Lg rho*R %.17Lg u* %.17Lg p* "
                          "%.17Lg) (error/tolerance %.3g)",
             star_l.r, star_r.r, star_l.u, star_l.p, R.rsL, R.rsR, R.us, R.ps, e);
      // --- Rankine-Hugoniot across shocks (pre-shock state = input, post-shock = sampled star state, speed = reference)
      for (int side = 0; side < 2; ++side) {
        if (!(side ? R.shR : R.shL)) continue;
        const LD rK = side ? R.rR : R.rL, uK = side ? R.uR : R.uL, pK = side ? R.pR : R.pL, S = side ? R.SR : R.SL;
        const W &s = side ? star_r : star_l;
        const LD w0 = uK - S, w1 = (LD)s.u - S; // velocities in the shock frame
        const LD mass = ((LD)s.r * w1 - rK * w0) / (rK * fabsl(w0));
        const LD mom = ((LD)s.r * w1 * w1 + s.p - rK * w0 * w0 - pK) / (rK * w0 * w0 + pK + s.p);
        const LD h0 = g / (g - 1) * pK / rK + 0.5L * w0 * w0, h1 = g / (g - 1) * (LD)s.p / s.r + 0.5L * w1 * w1;
        const LD ene = (h1 - h0) / h0;
        // p* relative error 1e-8 and the matching error of the shock speed enter with O(1) factors; w1 = w0 rhoK/rho* is
        // formed from u* - S, whose absolute error eps(|u|+|S|) is amplified by 1/|w1|
        const LD tol = 1e-6L + 256 * EPS * (fabsl(uK) + fabsl(S)) / fabsl(w1);
        const LD e3 = maxl(fabsl(mass), maxl(fabsl(mom), fabsl(ene))) / tol;
        note("rankine-hugoniot", (double)minl(e3, 1e300L));
        if (!(e3 <= 1.))
          viol("rankine-hugoniot", "%s shock (speed %.17Lg): relative residuals mass %.3Lg momentum %.3Lg energy %.3Lg (allowed %.3Lg); post-shock "
                                   "state rho=%.17g u=%.17g P=%.17g",
               side ? "right" : "left", S, mass, mom, ene, tol, s.r, s.u, s.p);
      }
      // --- star state behind a rarefaction: isentropic, Riemann invariant
      for (int side = 0; side < 2; ++side) {
        if (side ? R.shR : R.shL) continue;
        const LD rK = side ? R.rR : R.rL, uK = side ? R.uR : R.uL, pK = side ? R.pR : R.pL, aK = side ? R.aR : R.aL;
        const W &s = side ? star_r : star_l;
        if (!(s.r > 1e-280 * (double)rK)) continue;
        const LD a = sqrtl(g * (LD)s.p / s.r);
        const LD ent = ((LD)s.p / pK) / powl((LD)s.r / rK, g) - 1;
        const LD inv = side ? ((LD)s.u - 2 * a / (g - 1)) - (uK - 2 * aK / (g - 1)) : ((LD)s.u + 2 * a / (g - 1)) - (uK + 2 * aK / (g - 1));
        // u* is the average of the two wave relations: off the invariant by f(p*)/2 (solver accuracy), plus the rounding of a
        const LD e4 = maxl(fabsl(ent) / (256 * EPS * kap), fabsl(inv) / (tol_ustar(R, 1e-7L) + 64 * EPS * kap * kap * aK));
        note("rarefaction", (double)minl(e4, 1e300L));
        if (!(e4 <= 1.))
          viol("rarefaction", "star state behind the %s rarefaction (rho=%.17g u=%.17g P=%.17g): P/rho^gamma off by %.3Lg (rel), Riemann invariant off "
                              "by %.3Lg (error/tolerance %.3Lg)",
               side ? "right" : "left", s.r, s.u, s.p, ent, inv, e4);
      }
    }
    // --- at the discontinuities
    {
      const WL3 sl = {R.rsL, R.us, R.ps}, sr = {R.rsR, R.us, R.ps}, wl = {R.rL, R.uL, R.pL}, wr = {R.rR, R.uR, R.pR};
      check_at_wave(R, R.us, sl, tol_star(R, true), sr, tol_star(R, false), minl(R.as_L, R.as_R), "contact", minl(R.us - R.STL, R.STR - R.us));
      if (R.shL) check_at_wave(R, R.SL, wl, tol_fan(R, true, R.SL), sl, tol_star(R, true), R.aL, "shock", R.us - R.SL);
      if (R.shR) check_at_wave(R, R.SR, wr, tol_fan(R, false, R.SR), sr, tol_star(R, false), R.aR, "shock", R.SR - R.us);
    }
    // --- heads and tails
    if (!R.shL) {
      check_continuity(R, (double)R.SL, true, "head", 64 * EPS * (fabsl(R.uL) + kap * R.aL), true, true);
      check_continuity(R, (double)R.STL, true, "tail", 2 * tol_ustar(R, 1e-7L), false, true, R.us - R.STL);
    }
    if (!R.shR) {
      check_continuity(R, (double)R.SR, false, "head", 64 * EPS * (fabsl(R.uR) + kap * R.aR), true, true);
      check_continuity(R, (double)R.STR, false, "tail", 2 * tol_ustar(R, 1e-7L), false, true, R.STR - R.us);
    }
    // --- sampled states against the reference, away from the waves whose position depends on p*
    std::vector<double> xis;
    xis.push_back((double)(R.SL - amax * r.loguniform(1e-3, 10.)));
    xis.push_back((double)(R.SR + amax * r.loguniform(1e-3, 10.)));
    if (!R.shL) {
      xis.push_back((double)(R.SL + (R.STL - R.SL) * (LD)r.uniform(0., 1.)));
      xis.push_back((double)(R.SL + (R.STL - R.SL) * (LD)r.uniform(0., 1.)));
    }
    if (!R.shR) {
      xis.push_back((double)(R.STR + (R.SR - R.STR) * (LD)r.uniform(0., 1.)));
      xis.push_back((double)(R.STR + (R.SR - R.STR) * (LD)r.uniform(0., 1.)));
    }
    xis.push_back((double)(R.SL + (R.SR - R.SL) * (LD)r.uniform(0., 1.)));
    xis.push_back(0.);
    for (size_t i = 0; i < xis.size(); ++i) {
      const LD xi = xis[i];
      const LD ws[3] = {R.us, R.STL, R.STR};
      const LD wa[3] = {minl(R.as_L, R.as_R), R.aL, R.aR};
      bool near_ = false;
      for (int j = 0; j < 3; ++j)
        if (fabsl(xi - ws[j]) <= 1e-6L * maxl(fabsl(ws[j]), wa[j])) near_ = true;
      if (near_) {
        st.inc("reference_skipped_near_wave");
        continue;
      }
      check_reference_at(R, xis[i], "random speed");
    }
  } else if (R.regime == UNDER) {
    // numerically a vacuum between the fans: only finiteness and (rho, P) of the would-be star region ~ 0 are demanded
    for (int k = 0; k < 12; ++k) {
      const double xi = (double)(R.frontR + (R.frontL - R.frontR) * (LD)r.uniform(-0.5, 1.5));
      const W w = sample(xi);
      usable(w, xi);
    }
    const double xm = (double)R.us;
    const W w = sample(xm);
    if (usable(w, xm)) {
      const bool tiny = w.p <= 1e-250 * (double)minl(R.pL, R.pR) && w.r <= 1e-100 * (double)maxl(R.rL, R.rR);
      note("reference", tiny ? 0. : INFINITY);
      if (!tiny) viol("reference", "p* is below the smallest double (reference %.3Lg) but the state sampled at u* has rho=%.17g P=%.17g", R.ps, w.r, w.p);
    }
  } else {
    // --- vacuum problems: closed forms everywhere, continuity where the vacuum joins the fans
    std::vector<double> xis;
    const bool lg = R.regime == RVAC || R.regime == VGEN, rg = R.regime == LVAC || R.regime == VGEN;
    const double span = (double)(amax > 0 ? amax : 1);
    if (lg) {
      const LD head = R.uL - R.aL;
      xis.push_back((double)(head - span * r.loguniform(1e-3, 10.)));
      for (int k = 0; k < 3; ++k) xis.push_back((double)(head + (R.frontL - head) * (LD)r.uniform(0., 1.)));
      xis.push_back((double)(R.frontL - (R.frontL - head) * (LD)r.loguniform(1e-12, 1e-2))); // just inside the front
      xis.push_back((double)(R.frontL + span * r.loguniform(1e-9, 1.)));
      check_continuity(R, (double)head, true, "head", 64 * EPS * (fabsl(R.uL) + kap * R.aL), true, true);
      check_continuity(R, (double)R.frontL, true, "front", 64 * EPS * (fabsl(R.uL) + kap * R.aL), true, false);
      for (int k = -8; k <= 8; ++k) { // the front within ulps of the sampling speed
        const double xi = (double)R.frontL + k * 0.5 * EPS * (double)maxl(fabsl(R.frontL), R.aL);
        usable(sample(xi), xi);
      }
    }
    if (rg) {
      const LD head = R.uR + R.aR;
      xis.push_back((double)(head + span * r.loguniform(1e-3, 10.)));
      for (int k = 0; k < 3; ++k) xis.push_back((double)(head + (R.frontR - head) * (LD)r.uniform(0., 1.)));
      xis.push_back((double)(R.frontR + (head - R.frontR) * (LD)r.loguniform(1e-12, 1e-2)));
      xis.push_back((double)(R.frontR - span * r.loguniform(1e-9, 1.)));
      check_continuity(R, (double)head, false, "head", 64 * EPS * (fabsl(R.uR) + kap * R.aR), true, true);
      check_continuity(R, (double)R.frontR, false, "front", 64 * EPS * (fabsl(R.uR) + kap * R.aR), true, false);
      for (int k = -8; k <= 8; ++k) {
        const double xi = (double)R.frontR + k * 0.5 * EPS * (double)maxl(fabsl(R.frontR), R.aR);
        usable(sample(xi), xi);
      }
    }
    if (R.regime == VGEN) xis.push_back((double)(R.frontL + (R.frontR - R.frontL) * (LD)r.uniform(0., 1.)));
    if (R.regime == BVAC) {
      xis.push_back(0.);
      xis.push_back(r.uniform(-10., 10.));
    }
    xis.push_back(0.);
    for (size_t i = 0; i < xis.size(); ++i) check_reference_at(R, xis[i], "vacuum problem");
  }
  if (sample_out)
    std::printf("SAMPLE case=%" PRIu64 " regime=%s %s reference p*=%.12Lg u*=%.12Lg ; solve() in the star region: p*=%.12g u*=%.12g rho*L=%.12g rho*R=%.12g\n", g_id,
                RNAME[R.regime], describe(q).c_str(), R.ps, R.us, star_l.p, star_l.u, star_l.r, star_r.r);
  g_solver = nullptr;
}

// ---------------------------------------------------------------- generation
static double pick_gamma(vh::Rng &r) {
  switch (r.below(8)) {
  case 0: return 5. / 3.;
  case 1: return 1.4;
  case 2: return 2.;
  case 3: return 1.1;
  case 4: return 1.01;
  default: return r.uniform(1.02, 2.);
  }
}
static Prob gen(vh::Rng &r) {
  Prob q;
  q.g = pick_gamma(r);
  const double g = q.g;
  const uint64_t k = r.below(100);
  const int regime = k < 70 ? NONVAC : k < 78 ? LVAC : k < 86 ? RVAC : k < 88 ? BVAC : VGEN;
  q.rL = r.loguniform(1e-3, 1e3);
  q.pL = r.loguniform(1e-3, 1e3);
  switch (r.below(4)) {
  case 0:
    q.rR = r.loguniform(1e-3, 1e3);
    q.pR = r.loguniform(1e-3, 1e3);
    break;
  case 1:
    q.rR = q.rL;
    q.pR = q.pL;
    break;
  case 2:
    q.rR = q.rL * r.uniform(0.5, 2.);
    q.pR = q.pL * r.uniform(0.5, 2.);
    break;
  default:
    q.rR = q.rL * r.loguniform(1e-2, 1e2);
    q.pR = q.pL * r.loguniform(1e-2, 1e2);
    break;
  }
  if (regime == LVAC || regime == BVAC) {
    q.rL = 0.;
    q.pL = 0.;
    if (r.chance(0.2)) q.rL = r.loguniform(1e-3, 1e3); // pressureless: vacuum for the solver
  }
  if (regime == RVAC || regime == BVAC) {
    q.rR = 0.;
    q.pR = 0.;
    if (r.chance(0.2)) q.pR = r.loguniform(1e-3, 1e3); // no mass: vacuum
  }
  const double aL = (q.rL > 0 && q.pL > 0) ? std::sqrt(g * q.pL / q.rL) : 0., aR = (q.rR > 0 && q.pR > 0) ? std::sqrt(g * q.pR / q.rR) : 0.;
  const double amax = std::max(std::max(aL, aR), 1e-3);
  const double crit = 2. / (g - 1.) * (aL + aR);
  const double drift = r.chance(0.3) ? 0. : (r.chance(0.5) ? 1. : -1.) * amax * r.loguniform(1e-3, 100.);
  double du;
  if (regime == VGEN) du = crit * (1. + r.loguniform(1e-6, 10.));
  else if (regime != NONVAC) du = (r.chance(0.5) ? 1. : -1.) * amax * r.loguniform(1e-3, 100.);
  else {
    switch (r.below(6)) {
    case 0: du = 0.; break;
    case 1: du = crit * (1. - r.loguniform(r.chance(0.5) ? 1e-6 : 1e-13, 0.9)); break;          // strong double rarefaction up to vacuum generation
    case 2: du = -amax * r.loguniform(1e-2, 100.); break;                // colliding
    case 3: du = r.uniform(-1., 1.) * 1e-3 * std::min(aL, aR); break;    // weak waves
    case 4: du = r.uniform(-2., 2.) * amax; break;
    default: du = (r.chance(0.5) ? 1. : -1.) * amax * r.loguniform(1e-3, 10.); break;
    }
    if (du >= crit * (1. - 1e-13)) du = crit * r.uniform(0., 0.9);
  }
  q.uL = drift - 0.5 * du;
  q.uR = drift + 0.5 * du;
  if (regime == LVAC && r.chance(0.2)) q.uR = 0.; // the tabulated situation: gas at rest next to vacuum
  if (regime == RVAC && r.chance(0.2)) q.uL = 0.;
  return q;
}

// Toro, Riemann Solvers and Numerical Methods for Fluid Dynamics, tables 4.1 / 4.3 (gamma = 1.4)
static const double TORO[5][8] = {{1.0, 0.0, 1.0, 0.125, 0.0, 0.1, 0.30313, 0.92745},
                                  {1.0, -2.0, 0.4, 1.0, 2.0, 0.4, 0.00189, 0.00000},
                                  {1.0, 0.0, 1000.0, 1.0, 0.0, 0.01, 460.894, 19.5975},
                                  {1.0, 0.0, 0.01, 1.0, 0.0, 100.0, 46.0950, -6.19633},
                                  {5.99924, 19.5975, 460.894, 5.99242, -6.19633, 46.0950, 1691.64, 8.68975}};

int main(int argc, char **argv) {
  const uint64_t seed = vh::arg_u64(argc, argv, "--seed", 1);
  const uint64_t n = vh::arg_u64(argc, argv, "--problems", 10000);
  const int64_t only = (int64_t)vh::arg_u64(argc, argv, "--only", (uint64_t)-1);
  g_replay = only >= 0;
  vh::Rng master(seed * 1000003ull + 11);
  for (uint64_t h = 0; h < n; ++h) {
    vh::Rng r = master.fork(h);
    if (only >= 0 && (int64_t)h != only) continue;
    Prob q;
    if (h < 5) {
      q.g = 1.4;
      q.rL = TORO[h][0];
      q.uL = TORO[h][1];
      q.pL = TORO[h][2];
      q.rR = TORO[h][3];
      q.uR = TORO[h][4];
      q.pR = TORO[h][5];
    } else
      q = gen(r);
    g_prob = &q;
    g_id = h;
    run_problem(q, r, h < 7 || g_replay);
    if (h < 5) { // anchors: table values have 6 significant digits (test 2: p* to 3)
      const Ref R = make_ref(q);
      const ExactRiemannSolver solver(q.g);
      g_solver = &solver;
      g_regime = R.regime;
      const W s = sample((double)(0.5L * (R.STL + R.us)));
      const double tp = h == 1 ? 5e-3 : 2e-5, tu = 2e-5 * std::max(1., std::fabs(TORO[h][7]));
      const bool ok_code = std::fabs(s.p - TORO[h][6]) <= tp * TORO[h][6] && std::fabs(s.u - TORO[h][7]) <= tu;
      const bool ok_ref = fabsl(R.ps - TORO[h][6]) <= tp * TORO[h][6] && fabsl(R.us - TORO[h][7]) <= tu;
      st.inc("toro_anchors");
      if (!ok_ref) viol("toro-oracle", "the reference solver gives p*=%.9Lg u*=%.9Lg for Toro's test %d (table: %.9g %.9g)", R.ps, R.us, (int)h + 1, TORO[h][6], TORO[h][7]);
      if (!ok_code) viol("toro", "solve() gives p*=%.9g u*=%.9g for Toro's test %d (table: %.9g %.9g)", s.p, s.u, (int)h + 1, TORO[h][6], TORO[h][7]);
      g_solver = nullptr;
    }
    st.inc("problems");
  }
  st.print();
  std::printf("DONE violations=%" PRIu64 "\n", vh::g_nviol);
  return vh::g_nviol ? 1 : 0;
}
