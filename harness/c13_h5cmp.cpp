// C13 (part B helper): logical comparison of two HDF5 snapshot files.
//
// No h5diff/h5dump/h5py is installed here, and raw HDF5 files are not byte comparable
// (object headers carry modification times), so this walks both files with the HDF5 C
// library: every group, every attribute (type class, element size, shape, raw values)
// and every dataset (type class, element size, shape, raw values) is compared.  The only
// thing ignored is the wall-clock attribute /RuntimePars@"Creation time".
//
// Output:  DIFF <object> <reason>      one line per differing/missing object
//          IGNORED <object> a=<..> b=<..>
//          COMPARED groups=<n> attributes=<n> datasets=<n> bytes=<n>
// exit 0: equal, 1: different, 2: error.
#include <cstdio>
#include <cstdlib>
#include <cstring>
#include <hdf5.h>
#include <map>
#include <string>
#include <vector>

struct Item {
  std::string kind; // "group", "attr", "dataset"
  std::string meta; // class/size/shape
  std::vector<unsigned char> data;
};
typedef std::map<std::string, Item> Items;

static bool g_error = false;
#define FAIL(...)                                                              \
  do {                                                                         \
    std::printf("ERROR ");                                                     \
    std::printf(__VA_ARGS__);                                                  \
    std::printf("\n");                                                         \
    g_error = true;                                                            \
  } while (0)

static std::string describe(hid_t type, hid_t space) {
  char buf[256];
  const int nd = H5Sget_simple_extent_ndims(space);
  hsize_t dims[32] = {0};
  if (nd > 0 && nd <= 32) H5Sget_simple_extent_dims(space, dims, NULL);
  std::string shape = "[";
  for (int i = 0; i < nd; ++i) {
    std::snprintf(buf, sizeof buf, "%s%llu", i ? "," : "", (unsigned long long)dims[i]);
    shape += buf;
  }
  shape += "]";
  std::snprintf(buf, sizeof buf, "class=%d size=%zu sign=%d order=%d shape=%s", (int)H5Tget_class(type),
                H5Tget_size(type), H5Tget_class(type) == H5T_INTEGER ? (int)H5Tget_sign(type) : -1,
                (int)H5Tget_order(type), shape.c_str());
  return buf;
}

// read all elements in the FILE's own type (no conversion: what is stored is what is compared)
static void read_all(bool is_attr, hid_t obj, hid_t type, hid_t space, Item &it, const std::string &name) {
  const hssize_t n = H5Sget_simple_extent_npoints(space);
  if (n < 0) { FAIL("npoints %s", name.c_str()); return; }
  if (H5Tis_variable_str(type) > 0) {
    std::vector<char *> p((size_t)n, nullptr);
    const herr_t s = is_attr ? H5Aread(obj, type, p.data()) : H5Dread(obj, type, H5S_ALL, H5S_ALL, H5P_DEFAULT, p.data());
    if (s < 0) { FAIL("read %s", name.c_str()); return; }
    for (char *c : p) {
      if (c) it.data.insert(it.data.end(), c, c + std::strlen(c));
      it.data.push_back(0);
    }
    H5Dvlen_reclaim(type, space, H5P_DEFAULT, p.data());
    return;
  }
  it.data.assign((size_t)n * H5Tget_size(type), 0);
  if (n == 0) return;
  const herr_t s = is_attr ? H5Aread(obj, type, it.data.data())
                           : H5Dread(obj, type, H5S_ALL, H5S_ALL, H5P_DEFAULT, it.data.data());
  if (s < 0) FAIL("read %s", name.c_str());
}

struct AttrCtx {
  Items *items;
  std::string owner;
};

static herr_t attr_cb(hid_t loc, const char *name, const H5A_info_t *, void *op) {
  AttrCtx *ctx = (AttrCtx *)op;
  const hid_t a = H5Aopen(loc, name, H5P_DEFAULT);
  if (a < 0) { FAIL("open attribute %s", name); return 0; }
  const hid_t type = H5Aget_type(a), space = H5Aget_space(a);
  Item it;
  it.kind = "attr";
  it.meta = describe(type, space);
  const std::string key = ctx->owner + "@" + name;
  read_all(true, a, type, space, it, key);
  (*ctx->items)[key] = it;
  H5Tclose(type);
  H5Sclose(space);
  H5Aclose(a);
  return 0;
}

static void walk(hid_t grp, const std::string &path, Items &items);

struct LinkCtx {
  Items *items;
  std::string path;
  hid_t grp;
};

static herr_t link_cb(hid_t g, const char *name, const H5L_info_t *info, void *op) {
  LinkCtx *ctx = (LinkCtx *)op;
  const std::string p = (ctx->path == "/" ? "" : ctx->path) + "/" + name;
  if (info->type != H5L_TYPE_HARD) {
    Item it;
    it.kind = "link";
    it.meta = "non-hard link type " + std::to_string((int)info->type);
    (*ctx->items)[p] = it;
    return 0;
  }
  const hid_t o = H5Oopen(g, name, H5P_DEFAULT);
  if (o < 0) { FAIL("open %s", p.c_str()); return 0; }
  const H5I_type_t t = H5Iget_type(o);
  if (t == H5I_GROUP) {
    walk(o, p, *ctx->items);
  } else if (t == H5I_DATASET) {
    const hid_t type = H5Dget_type(o), space = H5Dget_space(o);
    Item it;
    it.kind = "dataset";
    it.meta = describe(type, space);
    read_all(false, o, type, space, it, p);
    (*ctx->items)[p] = it;
    AttrCtx ac{ctx->items, p};
    H5Aiterate2(o, H5_INDEX_NAME, H5_ITER_INC, NULL, attr_cb, &ac);
    H5Tclose(type);
    H5Sclose(space);
  } else {
    Item it;
    it.kind = "other";
    it.meta = "object type " + std::to_string((int)t);
    (*ctx->items)[p] = it;
  }
  H5Oclose(o);
  return 0;
}

static void walk(hid_t grp, const std::string &path, Items &items) {
  Item it;
  it.kind = "group";
  items[path] = it;
  AttrCtx ac{&items, path};
  if (H5Aiterate2(grp, H5_INDEX_NAME, H5_ITER_INC, NULL, attr_cb, &ac) < 0) FAIL("attribute iteration %s", path.c_str());
  LinkCtx lc{&items, path, grp};
  if (H5Literate(grp, H5_INDEX_NAME, H5_ITER_INC, NULL, link_cb, &lc) < 0) FAIL("link iteration %s", path.c_str());
}

static bool load(const char *fn, Items &items) {
  const hid_t f = H5Fopen(fn, H5F_ACC_RDONLY, H5P_DEFAULT);
  if (f < 0) { FAIL("cannot open %s", fn); return false; }
  const hid_t root = H5Gopen2(f, "/", H5P_DEFAULT);
  walk(root, "/", items);
  H5Gclose(root);
  H5Fclose(f);
  return true;
}

static std::string printable(const std::vector<unsigned char> &d) {
  std::string s;
  for (size_t i = 0; i < d.size() && i < 60; ++i) s += (d[i] >= 32 && d[i] < 127) ? (char)d[i] : '.';
  return s;
}

int main(int argc, char **argv) {
  if (argc < 3) {
    std::printf("usage: c13_h5cmp a.hdf5 b.hdf5\n");
    return 2;
  }
  H5Eset_auto2(H5E_DEFAULT, NULL, NULL);
  Items a, b;
  if (!load(argv[1], a) || !load(argv[2], b) || g_error) return 2;
  const std::string ignored = "/RuntimePars@Creation time";
  unsigned long ndiff = 0, ngroups = 0, nattr = 0, ndata = 0, nbytes = 0;
  for (auto &kv : a) {
    auto jt = b.find(kv.first);
    if (jt == b.end()) {
      std::printf("DIFF %s only in first file\n", kv.first.c_str());
      ++ndiff;
      continue;
    }
    const Item &x = kv.second, &y = jt->second;
    if (kv.first == ignored) {
      std::printf("IGNORED %s a=%s b=%s\n", kv.first.c_str(), printable(x.data).c_str(), printable(y.data).c_str());
      continue;
    }
    if (x.kind == "group") ++ngroups;
    if (x.kind == "attr") ++nattr;
    if (x.kind == "dataset") ++ndata;
    nbytes += x.data.size();
    if (x.kind != y.kind || x.meta != y.meta) {
      std::printf("DIFF %s kind/type/shape: %s %s | %s %s\n", kv.first.c_str(), x.kind.c_str(), x.meta.c_str(),
                  y.kind.c_str(), y.meta.c_str());
      ++ndiff;
    } else if (x.data != y.data) {
      size_t i = 0;
      while (i < x.data.size() && i < y.data.size() && x.data[i] == y.data[i]) ++i;
      std::printf("DIFF %s values differ first at byte %zu of %zu\n", kv.first.c_str(), i, x.data.size());
      ++ndiff;
    }
  }
  for (auto &kv : b)
    if (!a.count(kv.first)) {
      std::printf("DIFF %s only in second file\n", kv.first.c_str());
      ++ndiff;
    }
  std::printf("COMPARED groups=%lu attributes=%lu datasets=%lu bytes=%lu differences=%lu\n", ngroups, nattr, ndata,
              nbytes, ndiff);
  return ndiff ? 1 : 0;
}
