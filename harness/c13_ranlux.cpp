// C13 (part A): the random stream of the real RandomGenerator is RANLUX (ranlxd2).
//
// Every output of RandomGenerator is compared bit for bit against two references:
//   (1) GSL's gsl_rng_ranlxd2 (library code, independent of the repository)
//   (2) RefRanlxd2 below: an integer implementation written from the published
//       algorithm (Luescher 1994; James 1994; GSL manual): subtract-with-borrow
//       x_n = x_{n-5} - x_{n-12} - c_{n-1}  (mod 2^48), luxury p = 397 (of every 397
//       generated values the last 12 are delivered), seeding by the 31-bit linear
//       shift register b_n = b_{n-31} xor b_{n-13} whose complemented bits fill the
//       twelve 48-bit start values most significant bit first.
// The two references are cross-checked first; if THEY disagree the oracle is broken
// and the harness says so (STAT oracle_disagreements) instead of blaming the code.
//
// Other clauses: range [0,1); seed 0 == seed 1; distinct seeds -> distinct first 24
// outputs; restart write/read continues identically; write(read(write(x))) bytes equal.
#include "RandomGenerator.hpp"
#include "vh.hpp"
#include <algorithm>
#include <fstream>
#include <gsl/gsl_rng.h>
#include <iterator>
#include <set>
#include <string>
#include <unistd.h>
#include <unordered_map>
#include <vector>

// ---------------------------------------------------------------------------
// independent integer reference
// ---------------------------------------------------------------------------
struct RefRanlxd2 {
  static const int R = 12, S = 5, P = 397;
  uint64_t buf[R + P]; // buf[0..11]: the 12 most recent values, oldest first
  unsigned borrow;
  int next; // index of the next value to deliver in buf[0..11]; R == exhausted

  explicit RefRanlxd2(uint64_t seed) {
    if (seed == 0) seed = 1;
    seed &= 0x7fffffffull; // documented seed range 0..2^31-1
    unsigned char b[R * 48];
    for (int n = 0; n < 31; ++n) b[n] = (seed >> n) & 1u;
    for (int n = 31; n < R * 48; ++n) b[n] = b[n - 31] ^ b[n - 13];
    for (int k = 0; k < R; ++k) {
      uint64_t x = 0;
      for (int m = 0; m < 48; ++m) x = (x << 1) | (uint64_t)(1u - b[48 * k + m]);
      buf[k] = x;
    }
    borrow = 0;
    next = R;
  }
  void advance() {
    for (int i = R; i < R + P; ++i) {
      int64_t d = (int64_t)buf[i - S] - (int64_t)buf[i - R] - (int64_t)borrow;
      if (d < 0) {
        d += (int64_t)1 << 48;
        borrow = 1;
      } else {
        borrow = 0;
      }
      buf[i] = (uint64_t)d;
    }
    for (int i = 0; i < R; ++i) buf[i] = buf[P + i];
    next = 0;
  }
  uint64_t next48() {
    if (next == R) advance();
    return buf[next++];
  }
  double next_double() { return std::ldexp((double)next48(), -48); } // exact
};

// ---------------------------------------------------------------------------
static vh::Stats st;
static std::string g_tmp;
static uint64_t g_shard_seed;
static gsl_rng *g_gsl;
static std::set<uint64_t> g_case_seeds; // seeds whose full stream was compared (0 counted as 1)

static std::vector<char> slurp(const std::string &fn) {
  std::ifstream f(fn, std::ios::binary);
  return std::vector<char>((std::istreambuf_iterator<char>(f)), std::istreambuf_iterator<char>());
}

struct Twin {
  RandomGenerator *gen;
  uint64_t saved_at;
  int remaining;
};

static const int TWIN_LEN = 50; // outputs compared after a restore (> 4 refills)

// One seed: stream equality, range, restart at the given positions (sorted, unique).
static void run_case(uint64_t caseid, uint64_t seed, uint64_t nout, const std::vector<uint64_t> &savepos,
                     bool sample) {
  RandomGenerator real((int_fast32_t)seed);
  RefRanlxd2 ref(seed);
  gsl_rng_set(g_gsl, (unsigned long)seed);
  g_case_seeds.insert(seed == 0 ? 1 : seed);
  std::vector<Twin> twins;
  size_t isave = 0;
  bool reported_stream = false, reported_oracle = false, reported_restart = false;
  double vmax = -1., vmin = 2.;
  uint64_t n_out = 0, n_refill = 0, n_twin = 0, n_oracle_bad = 0, n_mismatch = 0;
  char fa[600], fb[600];
  std::snprintf(fa, sizeof fa, "%s/c13_%" PRIu64 "_%d_a.bin", g_tmp.c_str(), g_shard_seed, (int)getpid());
  std::snprintf(fb, sizeof fb, "%s/c13_%" PRIu64 "_%d_b.bin", g_tmp.c_str(), g_shard_seed, (int)getpid());

  for (uint64_t pos = 0; pos <= nout; ++pos) {
    // --- save/restore at this position (pos outputs drawn so far) ---
    if (isave < savepos.size() && savepos[isave] == pos) {
      ++isave;
      {
        RestartWriter w(fa);
        real.write_restart_file(w);
      }
      RandomGenerator *restored;
      {
        RestartReader r(fa);
        restored = new RandomGenerator(r);
      }
      {
        RestartWriter w(fb);
        restored->write_restart_file(w);
      }
      const std::vector<char> ba = slurp(fa), bb = slurp(fb);
      st.inc("restart_saves");
      st.inc(pos <= 40 ? "restart_saves_pos_0_40" : "restart_saves_random_pos");
      if (pos % 12 == 0) st.inc("restart_saves_at_refill_boundary");
      st.maxd("restart_file_bytes", (double)ba.size());
      if (ba.empty() || ba != bb) {
        VH_VIOL("restart/bytes", caseid, "seed=%" PRIu64 " pos=%" PRIu64 " write(read(write(x))) differs: %zu vs %zu bytes",
                seed, pos, ba.size(), bb.size());
      } else {
        st.inc("restart_byte_roundtrips_equal");
      }
      twins.push_back(Twin{restored, pos, TWIN_LEN});
    }
    if (pos == nout) break;

    // --- next output of everybody ---
    const double v = real.get_uniform_random_double();
    const double g = gsl_rng_uniform(g_gsl);
    const double r = ref.next_double();
    ++n_out;
    if (pos % 12 == 0) ++n_refill;
    if (vh::bits(g) != vh::bits(r)) {
      ++n_oracle_bad;
      if (!reported_oracle) {
        reported_oracle = true;
        std::printf("SAMPLE ORACLE-DISAGREE seed=%" PRIu64 " pos=%" PRIu64 " gsl=%.17g ref=%.17g\n", seed, pos, g, r);
      }
    } else if (vh::bits(v) != vh::bits(g)) {
      if (!reported_stream) {
        reported_stream = true;
        VH_VIOL("stream/mismatch", caseid, "seed=%" PRIu64 " first differing position=%" PRIu64
                " RandomGenerator=%.17g ranlxd2(GSL and integer reference)=%.17g", seed, pos, v, g);
      }
      ++n_mismatch;
    }
    if (!(v >= 0.) || !(v < 1.)) {
      VH_VIOL("range/outside-unit-interval", caseid, "seed=%" PRIu64 " pos=%" PRIu64 " value=%.17g", seed, pos, v);
    }
    if (v > vmax) vmax = v;
    if (v < vmin) vmin = v;

    // --- restored generators must continue like the original ---
    for (size_t t = 0; t < twins.size();) {
      const double tv = twins[t].gen->get_uniform_random_double();
      ++n_twin;
      if (vh::bits(tv) != vh::bits(v) && !reported_restart) {
        reported_restart = true;
        VH_VIOL("restart/continuation", caseid, "seed=%" PRIu64 " saved at pos=%" PRIu64 ": output %" PRIu64
                " of the restored generator=%.17g, original=%.17g", seed, twins[t].saved_at, pos, tv, v);
      }
      if (--twins[t].remaining == 0) {
        delete twins[t].gen;
        twins[t] = twins.back();
        twins.pop_back();
      } else {
        ++t;
      }
    }
  }
  for (auto &t : twins) delete t.gen;
  st.inc("seeds_compared");
  st.inc("outputs_compared", n_out);
  st.inc("refill_boundaries_crossed", n_refill);
  st.inc("restart_outputs_compared", n_twin);
  st.inc("oracle_disagreements", n_oracle_bad);
  st.inc("stream_mismatches", n_mismatch);
  st.maxd("max_value", vmax);
  st.maxd("minus_min_value", -vmin);
  if (sample)
    std::printf("SAMPLE seed=%" PRIu64 " outputs=%" PRIu64 " saves=%zu min=%.6g max=%.17g all equal to gsl_rng_ranlxd2 and the integer reference: %s\n",
                seed, nout, savepos.size(), vmin, vmax, (reported_stream || reported_oracle) ? "NO" : "yes");
  unlink(fa);
  unlink(fb);
}

static std::vector<uint64_t> uniq_sorted(std::vector<uint64_t> v) {
  std::sort(v.begin(), v.end());
  v.erase(std::unique(v.begin(), v.end()), v.end());
  return v;
}

// first 24 outputs of the REAL generator as 48-bit integers (exact: outputs are k/2^48)
static void prefix_of(uint64_t seed, double out[24]) {
  RandomGenerator g((int_fast32_t)seed);
  for (int i = 0; i < 24; ++i) out[i] = g.get_uniform_random_double();
}
static uint64_t hash_prefix(const double p[24]) {
  uint64_t h = 0xcbf29ce484222325ull;
  for (int i = 0; i < 24; ++i) {
    h ^= vh::bits(p[i]);
    h *= 0x100000001b3ull;
    h ^= h >> 29;
  }
  return h;
}

int main(int argc, char **argv) {
  const uint64_t seed = vh::arg_u64(argc, argv, "--seed", 1);
  const uint64_t nrandom = vh::arg_u64(argc, argv, "--random-seeds", 100);
  const uint64_t nout = vh::arg_u64(argc, argv, "--outputs", 10000);
  const uint64_t nlong = vh::arg_u64(argc, argv, "--long-seeds", 1);
  const uint64_t nlongout = vh::arg_u64(argc, argv, "--long-outputs", 10000000);
  // long streams only in one shard out of `--long-every` (a function of --seed, so replays agree)
  const uint64_t longevery = vh::arg_u64(argc, argv, "--long-every", 1);
  const uint64_t nprefix = vh::arg_u64(argc, argv, "--prefix-seeds", 50000);
  const int64_t only = (int64_t)vh::arg_u64(argc, argv, "--only", (uint64_t)-1);
  g_tmp = vh::arg_str(argc, argv, "--tmp", "/tmp");
  g_shard_seed = seed;
  g_gsl = gsl_rng_alloc(gsl_rng_ranlxd2);
  vh::Rng master(seed * 1000003ull + 13);

  // ---- the seed list: structured seeds first, then random ones ----
  std::vector<uint64_t> seeds;
  for (uint64_t s = 0; s <= 64; ++s) seeds.push_back(s);
  for (int k = 7; k <= 30; ++k) {
    seeds.push_back((1ull << k) - 1);
    seeds.push_back(1ull << k);
    seeds.push_back((1ull << k) + 1);
  }
  seeds.push_back((1ull << 31) - 2);
  seeds.push_back((1ull << 31) - 1);
  const uint64_t nstruct = seeds.size();
  {
    vh::Rng r = master.fork(1);
    for (uint64_t i = 0; i < nrandom; ++i) {
      // uniform in [0,2^31), sometimes with few bits set / few bits clear
      uint64_t s = r.below(1ull << 31);
      const int kind = r.below(8);
      if (kind == 0) s = (1ull << r.below(31)) | (1ull << r.below(31));
      if (kind == 1) s = 0x7fffffffull & ~((1ull << r.below(31)) | (1ull << r.below(31)));
      seeds.push_back(s);
    }
  }
  const uint64_t ncases = seeds.size();

  std::vector<uint64_t> pos0_40;
  for (uint64_t p = 0; p <= 40; ++p) pos0_40.push_back(p);

  for (uint64_t c = 0; c < ncases; ++c) {
    if (only >= 0 && (int64_t)c != only) continue;
    vh::Rng r = master.fork(1000 + c);
    std::vector<uint64_t> sp;
    // every position 0..40 for the structured seeds and one random seed in eight
    if (c < nstruct || r.below(8) == 0) sp = pos0_40;
    // random positions, one adjacent to a refill boundary (multiples of 12)
    for (int i = 0; i < 3; ++i) sp.push_back(r.below(nout > TWIN_LEN ? nout - TWIN_LEN : 1));
    sp.push_back(12 * (1 + r.below(nout / 12 > 6 ? nout / 12 - 6 : 1)) + r.below(3) - 1); // 12k-1, 12k, 12k+1
    run_case(c, seeds[c], nout, uniq_sorted(sp),
             c == nstruct || ((c == 0 || c == nstruct - 1) && seed % 16 == 0)); // structured seeds repeat in every shard
    st.inc(c < nstruct ? "structured_seed_cases" : "random_seed_cases");
  }

  if (only < 0) {
    std::set<uint64_t> ss;
    for (uint64_t c = 0; c < nstruct; ++c) ss.insert(seeds[c] == 0 ? 1 : seeds[c]);
    st.inc("distinct_structured_seeds", ss.size());
  }

  // ---- a few long streams ----
  for (uint64_t l = 0; l < nlong && seed % (longevery ? longevery : 1) == 0; ++l) {
    const uint64_t c = 100000 + l;
    if (only >= 0 && (int64_t)c != only) continue;
    vh::Rng r = master.fork(c);
    const uint64_t s = r.below(1ull << 31);
    std::vector<uint64_t> sp;
    for (int i = 0; i < 20; ++i) sp.push_back(r.below(nlongout > TWIN_LEN ? nlongout - TWIN_LEN : 1));
    run_case(c, s, nlongout, uniq_sorted(sp), true);
    st.inc("long_stream_cases");
  }

  // ---- seed 0 behaves as seed 1 ----
  if (only < 0 || only == 200000) {
    RandomGenerator g0(0), g1(1);
    uint64_t n = 0;
    for (; n < nout; ++n) {
      const double a = g0.get_uniform_random_double(), b = g1.get_uniform_random_double();
      if (vh::bits(a) != vh::bits(b)) {
        VH_VIOL("seed0/not-seed1", 200000, "pos=%" PRIu64 " seed0=%.17g seed1=%.17g", n, a, b);
        break;
      }
    }
    st.inc("seed0_vs_seed1_outputs_compared", n);
  }

  // ---- re-seeding a generator that was already used gives the stream of the new seed (set_seed is how the
  //      simulations seed their per-thread generators; FractalDensityMask re-seeds used generators) ----
  if (only < 0 || only == 250000) {
    vh::Rng r = master.fork(25);
    uint64_t nreseed = 0, ncmp = 0;
    for (int rep = 0; rep < 400; ++rep) {
      RandomGenerator g((int_fast32_t)r.below(1ull << 31));
      const uint64_t used = r.below(60);
      for (uint64_t k = 0; k < used; ++k) g.get_uniform_random_double();
      // the new seed: random, 0 (documented to mean 1), or the very seed the generator already carries (a re-seed must
      // rewind to the start of that stream whatever the generator did before; also set_seed(0) on a seed-1 generator)
      const uint64_t s1 = (rep % 7 == 3) ? 1 : r.below(1ull << 31);
      if (rep % 7 == 3 || rep % 5 == 2) { g.set_seed((int_fast32_t)s1); for (uint64_t k = 0; k < used; ++k) g.get_uniform_random_double(); }
      const uint64_t s2 = (rep % 7 == 3) ? 0 : (rep % 5 == 2) ? s1 : (rep % 9 == 0) ? 0 : r.below(1ull << 31);
      if (rep % 7 == 3 || rep % 5 == 2) st.inc("reseeded_with_the_seed_already_carried");
      g.set_seed((int_fast32_t)s2);
      gsl_rng_set(g_gsl, (unsigned long)(s2 == 0 ? 1 : s2));
      for (int k = 0; k < 40; ++k) {
        const double a = g.get_uniform_random_double(), b = gsl_rng_uniform(g_gsl);
        ++ncmp;
        if (vh::bits(a) != vh::bits(b)) {
          VH_VIOL("reseed/not-fresh-stream", 250000, "generator used for %" PRIu64 " draws then set_seed(%" PRIu64 "): output %d is %.17g, ranlxd2 gives %.17g", used, s2, k, a, b);
          break;
        }
      }
      ++nreseed;
    }
    st.inc("reseeded_generators", nreseed);
    st.inc("reseed_outputs_compared", ncmp);
  }

  // ---- distinct seeds give distinct first-24-output prefixes (sampled seed set) ----
  if (only < 0 || only == 300000) {
    std::vector<uint64_t> pseeds(seeds);
    vh::Rng r = master.fork(3);
    for (uint64_t i = 0; i < nprefix; ++i) {
      // half uniform, half in a dense window (neighbouring seeds)
      if (i & 1) pseeds.push_back(r.below(1ull << 31));
      else pseeds.push_back(((seed * 2654435761ull) + i / 2) & 0x7fffffffull);
    }
    pseeds = uniq_sorted(pseeds);
    std::unordered_map<uint64_t, uint64_t> seen;
    seen.reserve(pseeds.size() * 2);
    double p[24], q[24], gp[24];
    for (uint64_t s : pseeds) {
      prefix_of(s, p);
      // the prefix itself is also compared with the references (covers seeding of many more seeds)
      gsl_rng_set(g_gsl, (unsigned long)s);
      RefRanlxd2 ref(s);
      bool okref = true, okreal = true;
      for (int i = 0; i < 24; ++i) {
        gp[i] = gsl_rng_uniform(g_gsl);
        if (vh::bits(gp[i]) != vh::bits(ref.next_double())) okref = false;
        if (vh::bits(gp[i]) != vh::bits(p[i])) okreal = false;
        if (!(p[i] >= 0.) || !(p[i] < 1.))
          VH_VIOL("range/outside-unit-interval", 300000, "seed=%" PRIu64 " pos=%d value=%.17g", s, i, p[i]);
      }
      if (!okref) st.inc("oracle_disagreements");
      else if (!okreal) VH_VIOL("stream/mismatch", 300000, "seed=%" PRIu64 " differs from ranlxd2 within the first 24 outputs", s);
      st.inc("prefix_seeds");
      const uint64_t h = hash_prefix(p);
      auto it = seen.find(h);
      if (it == seen.end()) {
        seen[h] = s;
        continue;
      }
      // hash collision: decide on the actual prefixes
      st.inc("prefix_hash_collisions_resolved");
      const uint64_t o = it->second;
      prefix_of(o, q);
      bool same = true;
      for (int i = 0; i < 24; ++i) same = same && vh::bits(p[i]) == vh::bits(q[i]);
      const bool zero_one = (s <= 1 && o <= 1);
      if (same && !zero_one)
        VH_VIOL("seeds/prefix-collision", 300000, "seeds %" PRIu64 " and %" PRIu64 " give the same first 24 outputs (first=%.17g)", o, s, p[0]);
      if (same && zero_one) st.inc("prefix_seed0_equals_seed1_seen");
    }
    st.inc("prefix_distinct_hashes", seen.size());
  }

  gsl_rng_free(g_gsl);
  st.inc("distinct_case_seeds", g_case_seeds.size());
  st.print();
  std::printf("DONE violations=%" PRIu64 "\n", vh::g_nviol);
  return vh::g_nviol ? 1 : 0;
}
