// C14: small driver around the REAL RestartManager / RestartWriter.
//
// Takes N restart dumps in a given folder with a given number of backups, the
// same way TaskBasedRadiationHydrodynamicsSimulation.cpp does it:
//   RestartManager restart_manager(*params);            (ParameterFile ctor)
//   RestartWriter *w = restart_manager.get_restart_writer(log);
//   ... many w->write(...) calls ...
//   delete w;
// Every dump carries its own identity so that the completeness of any file
// found on disk is decidable offline (see oracle/c14_model.py):
//   u64 magic "C14DUMP1" | u64 n | u64 nwords | u64 nstr |
//   nwords x u64 word(n,j) | u64 nstr (written by write(std::string)) |
//   nstr bytes byte(n,j) | u64 FNV-1a of everything before | u64 "C14TRAIL"
// This program does not decide anything: it only exercises the real code and
// reports progress (DUMP_BEGIN n / DUMP_END n on stderr, unbuffered).  An
// optional preloaded fault injector (shim/fsfault.c) is told about the dump
// boundaries through the weak symbol fsfault_mark().
#include "ParameterFile.hpp"
#include "RestartManager.hpp"
#include "RestartWriter.hpp"

#include <cinttypes>
#include <cstdint>
#include <cstdio>
#include <cstdlib>
#include <cstring>
#include <string>
#include <unistd.h>

extern "C" void fsfault_mark(const char *what, unsigned long n)
    __attribute__((weak));

static const uint64_t MAGIC = 0x31504d5544343143ull;   // "C14DUMP1"
static const uint64_t TRAILER = 0x4c49415254343143ull; // "C14TRAIL"

static uint64_t mix(uint64_t z) {
  z += 0x9E3779B97F4A7C15ull;
  z = (z ^ (z >> 30)) * 0xBF58476D1CE4E5B9ull;
  z = (z ^ (z >> 27)) * 0x94D049BB133111EBull;
  return z ^ (z >> 31);
}
static uint64_t word_of(uint64_t n, uint64_t j) { return mix(n * 1000003ull + j); }
static unsigned char byte_of(uint64_t n, uint64_t j) {
  return (unsigned char)(mix(n * 7919ull + j + 0x5bd1e995ull) & 0xff);
}

struct Fnv {
  uint64_t h = 0xcbf29ce484222325ull;
  void add(const void *p, size_t len) {
    const unsigned char *c = (const unsigned char *)p;
    for (size_t i = 0; i < len; ++i) {
      h ^= c[i];
      h *= 0x100000001b3ull;
    }
  }
  void add64(uint64_t v) { add(&v, 8); }
};

static void progress(const char *what, uint64_t n) {
  char buf[64];
  const int len = std::snprintf(buf, sizeof(buf), "%s %" PRIu64 "\n", what, n);
  if (fsfault_mark) fsfault_mark(what, (unsigned long)n);
  if (::write(2, buf, len) < 0) { /* nothing we can do */ }
}

static const char *arg(int argc, char **argv, const char *name, const char *def) {
  for (int i = 1; i + 1 < argc; ++i)
    if (!std::strcmp(argv[i], name)) return argv[i + 1];
  return def;
}

int main(int argc, char **argv) {
  const std::string dir = arg(argc, argv, "--dir", "");
  const uint64_t backups = std::strtoull(arg(argc, argv, "--backups", "1"), nullptr, 10);
  const uint64_t ndump = std::strtoull(arg(argc, argv, "--dumps", "1"), nullptr, 10);
  // identity of the first dump taken by this process (a resumed run continues
  // the numbering of the run it resumes)
  const uint64_t first = std::strtoull(arg(argc, argv, "--first", "1"), nullptr, 10);
  // payload size: nwords = words + (n % 3) * wstep ; nstr = str + (n % 5) * sstep
  const uint64_t words = std::strtoull(arg(argc, argv, "--words", "1500"), nullptr, 10);
  const uint64_t wstep = std::strtoull(arg(argc, argv, "--wstep", "211"), nullptr, 10);
  const uint64_t str = std::strtoull(arg(argc, argv, "--str", "9000"), nullptr, 10);
  const uint64_t sstep = std::strtoull(arg(argc, argv, "--sstep", "1021"), nullptr, 10);
  const std::string via = arg(argc, argv, "--via", "params");
  if (dir.empty()) {
    std::fprintf(stderr, "usage: c14_driver --dir D --backups B --dumps N [--first n0] [--via params|ctor]\n");
    return 2;
  }

  RestartManager *manager;
  if (via == "ctor") {
    manager = new RestartManager(dir, 0., backups, 1.e9, "");
  } else {
    // what the simulation does: RestartManager restart_manager(*params);
    ParameterFile params;
    params.add_value("RestartManager:path", dir);
    params.add_value("RestartManager:output interval", "0. s");
    params.add_value("RestartManager:maximum number of backups", std::to_string(backups));
    manager = new RestartManager(params);
  }
  progress("MANAGER_READY", backups);

  for (uint64_t n = first; n < first + ndump; ++n) {
    progress("DUMP_BEGIN", n);
    RestartWriter *writer = manager->get_restart_writer(nullptr);
    const uint64_t nwords = words + (n % 3) * wstep;
    const uint64_t nstr = str + (n % 5) * sstep;
    Fnv f;
    writer->write(MAGIC);  f.add64(MAGIC);
    writer->write(n);      f.add64(n);
    writer->write(nwords); f.add64(nwords);
    writer->write(nstr);   f.add64(nstr);
    for (uint64_t j = 0; j < nwords; ++j) {
      const uint64_t w = word_of(n, j);
      writer->write(w);
      f.add64(w);
    }
    std::string s(nstr, '\0');
    for (uint64_t j = 0; j < nstr; ++j) s[j] = (char)byte_of(n, j);
    writer->write(s); // writes the size as a u64 first
    f.add64(nstr);
    f.add(s.data(), s.size());
    const uint64_t sum = f.h;
    writer->write(sum);
    writer->write(TRAILER);
    delete writer;
    progress("DUMP_END", n);
  }
  delete manager;
  progress("ALL_DONE", ndump);
  return 0;
}
