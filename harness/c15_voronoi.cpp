// C15: Voronoi grids are valid tessellations; the two constructions agree.
//
// Drives the REAL NewVoronoiGrid / OldVoronoiGrid on generated generator sets
// (each grid is built in a forked child, so an abort or hang inside a construction
// is observed as a violation and does not hide the other cases) and judges the
// returned cells with an oracle that never looks at how the cells were built:
//   * planes are recomputed here (long double) from generator pairs / the box,
//   * partition: volumes > 0, sum of volumes == box volume, wall faces tile the walls,
//   * every non-negligible face has its twin in the neighbour (area, midpoint),
//     lies on the bisector plane / wall, inside the box, generator on the inner side,
//   * closed polyhedra: sum A_f n_f = 0 and V = 1/3 sum A_f dist(generator, plane_f)
//     (with the planes above: convex supersets of the true cells that sum to the box
//     volume ARE the Voronoi diagram),
//   * get_index(x) == brute force nearest generator,
//   * old == new (volume, centroid, neighbour sets with non-negligible faces).
//
// Violation keys: <group>/<construction>/<family>, group = crash (abort, hang,
// abort-locate) | tessellation (all validity clauses) | locate | agree (old-vs-new);
// the clause, the regime of the family and a replay command are in the text.
//
//   c15_voronoi --seed S --grids N --stride SHARDS [--slowcap n --wallcap n --cpufactor f]
//               [--only CASE] [--pinned K | --pinned-count]
//   exploration / debugging: --family F --regime R --n N --aspect A --xparam X --ctor 0|1
//               --onlyfam F --nofork --verbose --dump FILE --cellA i --cellB j --selftest K
#include "NewVoronoiGrid.hpp"
#include "OldVoronoiCell.hpp" // OLDVORONOI_TOLERANCE (documented vertex tolerance of the old construction)
#include "OldVoronoiGrid.hpp"
#include "vh.hpp"

#include <algorithm>
#include <cfloat>
#include <map>
#include <set>
#include <signal.h>
#include <string>
#include <sys/resource.h>
#include <sys/time.h>
#include <sys/wait.h>
#include <unistd.h>
#include <vector>

typedef long double LD;
typedef CoordinateVector<> CV;

enum { UNIFORM = 0, CLUSTER, COPLANAR, COSPHERE, LATTICE, PLATTICE, WALL, NFAM };
static const char *FAMNAME[NFAM] = {"uniform", "clustered",         "coplanar", "cospherical",
                                    "lattice", "perturbed-lattice", "wall"};
static const char *CTOR[2] = {"new", "old"};
static const uint32_t WALL0 = 0xfffffffau; // ids of the six walls (both constructions)

struct Case {
  uint64_t id;
  int fam;
  int reg;          // stratified sub-regime of the family (0..2)
  std::string famkey;  // family as used in violation keys
  std::string regname; // family.regime (text, counters)
  std::string sub;
  double a[3], s[3];
  std::vector< CV > pos;
  std::vector< CV > samples;
  int worksize;
  double param; // family specific (sigma, amplitude, ...)
  int lattice_kind; // 0 cubic, 1 rectangular, 2 bcc, 3 fcc (lattice families)
  double amp_abs;   // perturbed lattice: displacement amplitude (length)
  bool moved_by_rule_B;
};

struct FaceRec {
  double area;
  double mid[3];
  uint32_t ngb;
  std::vector< double > v; // 3*nv
};
struct CellRec {
  double vol;
  double cen[3];
  std::vector< FaceRec > faces;
};
struct GridRec {
  int status; // 0 ok, 1 died in construction, 2 died in locate, 3 protocol error
  int sig;
  bool timeout;
  std::string err;
  std::vector< CellRec > cells;
  double wn[6][3];
  std::vector< uint32_t > idx;
  GridRec() : status(3), sig(0), timeout(false) {}
};

static vh::Stats st;
static bool g_verbose = false;
static bool g_nofork = false; // debugging aid: run the construction in this process
// Only uniform and perturbed-lattice sets cost O(n) (2.4 CPU s for 2000 generators).  Wherever cells span a large part of the box
// (coplanar, cospherical, tight blobs, slab lattices, generators on the walls only) the new construction is quadratic: measured
// 156 s (cospherical) and 57 s (1x7x196 lattice) for 2000 / 1372 generators.  Those families are capped in size, and their watchdog is
// quadratic as well, so that a slow but correct construction is never reported as a hang.
static uint64_t g_slowcap = 400;
static uint64_t g_wallcap = 150; // wall family: its genuine hangs are frequent, each costs a full watchdog
static double g_cpu_factor = 1.;  // watchdog scale (sanitizer builds are slower)
// Input rules (see main): regimes that are diagnosed as broken in the code under test and not repaired are kept out of the
// RANDOM part by a rule on the generated input (never on the outcome); the pinned witnesses keep exercising them.
//   A  new construction only for boxes whose rescaled big-tetrahedron corners are inside [1,2)
//   B  every generator at least 1e-5 x (largest box side) away from every wall (the loss is eps h (h/distance), h up to the box size)
//   C  no bcc lattice in a box with three equal sides for the new construction
//   O  old construction only if the smallest generator separation is >= 20 sqrt(OLDVORONOI_TOLERANCE) |box sides|
//      (below sqrt(tol)|S| the documented vertex tolerance eps_old/|p| exceeds the half separation |p| itself: whole cells
//      are "in the plane", the construction runs off its edge lists; c = 20 keeps the tolerance below 1% of |p|)
//   D  old construction only on lattices displaced by >= 10 delta (delta = its allowed vertex displacement): a set that is
//      degenerate within the documented tolerance is a degenerate set for the old construction, and exactly degenerate input
//      is only demanded of the new one
static std::string g_avoid;
static int64_t g_pinned = -1;
static bool avoid(char r) { return g_pinned < 0 && g_avoid.find(r) != std::string::npos; }
static int g_selftest = 0;      // oracle self-test: corrupt the data returned by the real code before judging it (see --selftest)
static double g_xparam = 0.;  // exploration aid: overrides sigma / amplitude / wall distance

// ---------------------------------------------------------------------------
// workload
// ---------------------------------------------------------------------------

static double gauss(vh::Rng &r) {
  double u1 = r.uniform(), u2 = r.uniform();
  if (u1 < 1e-300) u1 = 1e-300;
  return std::sqrt(-2. * std::log(u1)) * std::cos(6.283185307179586 * u2);
}

// force strictly inside the box (at least margin x side away from a wall)
static double clampin(double x, double a, double s, double margin) {
  const double lo = a + s * margin, hi = a + s * (1. - margin);
  if (!(x > lo)) x = lo;
  if (!(x < hi)) x = hi;
  return x;
}

static const char *REGNAME[NFAM][3] = {{"", "", ""},
                                       {".tight", ".medium", ".loose"},
                                       {".axis", ".tilted", ".axis"},
                                       {".centre", ".hollow", ".centre"},
                                       {".cubic", ".bcc", ".fcc-rect"},
                                       {".tiny", ".small", ".large"},
                                       {".all", ".some", ".single"}};

// idx = id * stride + seed % stride enumerates the cases of all shards of a run (the shard seeds are consecutive): families,
// regimes and the few large grids are stratified over idx, everything else is drawn from the PRNG stream of the case.
static void make_case(Case &c, uint64_t id, uint64_t idx, vh::Rng r, uint64_t forced_n, int forced_fam, int forced_reg, double forced_aspect) {
  c.id = id;
  c.fam = forced_fam >= 0 ? forced_fam : (int)(idx % NFAM);
  c.reg = forced_reg >= 0 ? forced_reg % 3 : (int)((idx / NFAM) % 3);
  c.famkey = FAMNAME[c.fam];
  c.regname = std::string(FAMNAME[c.fam]) + REGNAME[c.fam][c.reg];
  c.param = 0.;
  c.lattice_kind = -1;
  c.amp_abs = -1.;
  c.moved_by_rule_B = false;
  // independent streams: forcing the family / regime / size of a case (pinned witnesses) does not change its box or positions
  vh::Rng rbox = r.fork(11), rsize = r.fork(12), rpos = r.fork(13), rsmp = r.fork(14);
  // ---- box ----
  const double scale = rbox.chance(0.5) ? 1. : rbox.loguniform(1e-6, 1e20);
  double asp = rbox.chance(0.3) ? 1. : rbox.loguniform(1., 100.);
  if (forced_aspect > 0.) asp = forced_aspect;
  double rel[3] = {1., std::pow(asp, rbox.uniform()), asp};
  const int rot = (int)rbox.below(3);
  for (int k = 0; k < 3; ++k) c.s[(k + rot) % 3] = rel[k] * scale;
  if (rbox.chance(0.5)) std::swap(c.s[0], c.s[1]);
  const int akind = (int)rbox.below(4);
  for (int k = 0; k < 3; ++k) {
    if (akind == 0) c.a[k] = 0.;
    else if (akind == 1) c.a[k] = c.s[k] * rbox.uniform(-3., 3.);
    else if (akind == 2) c.a[k] = -0.5 * c.s[k];
    else c.a[k] = c.s[k] * (rbox.chance(0.34) ? (rbox.chance(0.5) ? 100. : -101.) : rbox.uniform(-1., 1.));
  }
  const double smin = std::min(c.s[0], std::min(c.s[1], c.s[2]));
  const double smax = std::max(c.s[0], std::max(c.s[1], c.s[2]));
  // ---- size ----
  uint64_t n;
  if (forced_n) n = forced_n;
  else {
    const bool big = (idx % 21) == 0 || (idx % 21) == 5; // 1000..2000 generators: uniform and perturbed-lattice sets only (O(n) cost)
    const double u = rsize.uniform();
    if (big) n = rsize.chance(0.5) ? 2000 : (uint64_t)rsize.range(1000, 2000);
    else if (u < 0.03) n = 2;
    else if (u < 0.15) n = (uint64_t)rsize.range(3, 12);
    else if (u < 0.85) n = (uint64_t)rsize.range(13, 300);
    else n = (uint64_t)rsize.range(301, 800);
  }
  if (!forced_n && c.fam != UNIFORM && c.fam != PLATTICE) {
    const uint64_t cap = (c.fam == WALL) ? g_wallcap : g_slowcap;
    if (n > cap) n = cap - rpos.below(cap / 4);
  }
  std::vector< CV > &p = c.pos;
  p.clear();
  char buf[256];
  switch (c.fam) {
  case UNIFORM: {
    c.sub = "uniform";
    for (uint64_t i = 0; i < n; ++i)
      p.push_back(CV(c.a[0] + c.s[0] * rpos.uniform(), c.a[1] + c.s[1] * rpos.uniform(), c.a[2] + c.s[2] * rpos.uniform()));
    break;
  }
  case CLUSTER: {
    const int nb = (int)rpos.range(1, 4);
    double cen[4][3], sig[4];
    double smallest = 1.;
    for (int b = 0; b < nb; ++b) {
      for (int k = 0; k < 3; ++k) cen[b][k] = c.a[k] + c.s[k] * rpos.uniform(0.05, 0.95);
      static const double slo[3] = {1e-4, 3e-4, 3e-3}, shi[3] = {3e-4, 3e-3, 3e-2};
      double sr = (b == 0) ? rpos.loguniform(slo[c.reg], shi[c.reg]) : rpos.loguniform(slo[c.reg], 3e-2);
      if (g_xparam > 0.) sr = g_xparam;
      smallest = std::min(smallest, sr);
      sig[b] = sr * smin;
    }
    c.param = smallest;
    const double bg = rpos.chance(0.5) ? 0. : rpos.uniform(0., 0.3);
    std::snprintf(buf, sizeof buf, "blobs=%d min_sigma=%.3g background=%.2f", nb, smallest, bg);
    c.sub = buf;
    while (p.size() < n) {
      if (rpos.chance(bg)) {
        p.push_back(CV(c.a[0] + c.s[0] * rpos.uniform(), c.a[1] + c.s[1] * rpos.uniform(), c.a[2] + c.s[2] * rpos.uniform()));
        continue;
      }
      const int b = (int)rpos.below(nb);
      double x[3];
      bool in = true;
      for (int k = 0; k < 3; ++k) {
        x[k] = cen[b][k] + sig[b] * gauss(rpos);
        in &= (x[k] > c.a[k] && x[k] < c.a[k] + c.s[k]);
      }
      if (in) p.push_back(CV(x[0], x[1], x[2]));
    }
    break;
  }
  case COPLANAR: {
    const bool tilted = (c.reg == 1);
    const double amp = 1e-12;
    c.param = amp;
    if (!tilted) {
      const int ax = (int)rpos.below(3);
      const double z0 = rpos.uniform(0.1, 0.9);
      std::snprintf(buf, sizeof buf, "axis-plane axis=%d perturb=1e-12", ax);
      c.sub = buf;
      for (uint64_t i = 0; i < n; ++i) {
        double x[3];
        for (int k = 0; k < 3; ++k) x[k] = c.a[k] + c.s[k] * rpos.uniform();
        x[ax] = c.a[ax] + c.s[ax] * (z0 + amp * rpos.uniform(-1., 1.));
        p.push_back(CV(x[0], x[1], x[2]));
      }
    } else {
      // plane through a point near the centre with a random normal (in box units)
      double nn[3], nl = 0;
      for (int k = 0; k < 3; ++k) { nn[k] = gauss(rpos); nl += nn[k] * nn[k]; }
      nl = std::sqrt(nl);
      for (int k = 0; k < 3; ++k) nn[k] /= nl;
      int kmax = 0;
      for (int k = 1; k < 3; ++k) if (std::fabs(nn[k]) > std::fabs(nn[kmax])) kmax = k;
      const double c0[3] = {rpos.uniform(0.4, 0.6), rpos.uniform(0.4, 0.6), rpos.uniform(0.4, 0.6)};
      c.sub = "tilted-plane perturb=1e-12";
      uint64_t tries = 0;
      while (p.size() < n && tries < 100 * n + 1000) {
        ++tries;
        double t[3];
        for (int k = 0; k < 3; ++k) t[k] = rpos.uniform();
        // solve the dominant coordinate from the plane equation (unit box coordinates)
        double rest = 0;
        for (int k = 0; k < 3; ++k) if (k != kmax) rest += nn[k] * (t[k] - c0[k]);
        t[kmax] = c0[kmax] - rest / nn[kmax] + amp * rpos.uniform(-1., 1.);
        if (!(t[kmax] > 0. && t[kmax] < 1.)) continue;
        p.push_back(CV(c.a[0] + c.s[0] * t[0], c.a[1] + c.s[1] * t[1], c.a[2] + c.s[2] * t[2]));
      }
    }
    break;
  }
  case COSPHERE: {
    const bool centre = (c.reg != 1);
    const double R = rpos.uniform(0.2, 0.45) * smin;
    double cc[3];
    for (int k = 0; k < 3; ++k) cc[k] = c.a[k] + c.s[k] * rpos.uniform(0.47, 0.53);
    c.param = 1e-12;
    std::snprintf(buf, sizeof buf, "sphere R=%.3g*minside perturb=1e-12 centre_generator=%d", R / smin, (int)centre);
    c.sub = buf;
    if (centre && n > 2) p.push_back(CV(cc[0], cc[1], cc[2]));
    while (p.size() < n) {
      double d[3], dl = 0;
      for (int k = 0; k < 3; ++k) { d[k] = gauss(rpos); dl += d[k] * d[k]; }
      dl = std::sqrt(dl);
      if (dl < 1e-3) continue;
      const double rr = R * (1. + 1e-12 * rpos.uniform(-1., 1.));
      p.push_back(CV(cc[0] + rr * d[0] / dl, cc[1] + rr * d[1] / dl, cc[2] + rr * d[2] / dl));
    }
    break;
  }
  case LATTICE:
  case PLATTICE: {
    // 0 cubic, 1 rectangular, 2 bcc, 3 fcc
    const int kind = (c.fam == LATTICE) ? (c.reg == 0 ? 0 : (c.reg == 1 ? 2 : (rpos.chance(0.5) ? 3 : 1))) : 0;
    c.lattice_kind = kind;
    const uint64_t per = kind == 2 ? 2 : (kind == 3 ? 4 : 1);
    uint64_t m[3];
    if (kind == 1) {
      uint64_t m0 = (uint64_t)std::floor(std::cbrt((double)n));
      if (m0 < 1) m0 = 1;
      m[0] = (uint64_t)rpos.range(1, (int64_t)m0 + 1);
      m[1] = (uint64_t)rpos.range(1, (int64_t)m0 + 1);
      m[2] = std::max< uint64_t >(1, n / (m[0] * m[1]));
      if (m[0] * m[1] * m[2] < 2) m[2] = 2;
    } else {
      uint64_t m0 = (uint64_t)std::floor(std::cbrt((double)n / per) + 1e-9);
      if (m0 < 1) m0 = 1;
      if (per == 1 && m0 < 2) m0 = 2;
      m[0] = m[1] = m[2] = m0;
      if (c.fam == LATTICE && kind == 0 && rpos.chance(0.4) && m0 >= 2) { // power of two: exactly representable coordinates in dyadic boxes
        uint64_t q = 1;
        while (q * 2 <= m0) q *= 2;
        m[0] = m[1] = m[2] = q;
      }
    }
    static const double alo[3] = {1e-9, 1e-6, 1e-3}, ahi[3] = {1e-6, 1e-3, 0.4};
    double amp = (c.fam == PLATTICE) ? rpos.loguniform(alo[c.reg], ahi[c.reg]) : 0.;
    if (g_xparam > 0. && c.fam == PLATTICE) amp = g_xparam;
    c.param = amp;
    if (c.fam == PLATTICE) c.amp_abs = amp * std::min(c.s[0] / (double)m[0], std::min(c.s[1] / (double)m[1], c.s[2] / (double)m[2]));
    static const double off1[1][3] = {{0.5, 0.5, 0.5}};
    static const double off2[2][3] = {{0.25, 0.25, 0.25}, {0.75, 0.75, 0.75}};
    static const double off4[4][3] = {{0.25, 0.25, 0.25}, {0.75, 0.75, 0.25}, {0.75, 0.25, 0.75}, {0.25, 0.75, 0.75}};
    const double(*off)[3] = per == 1 ? off1 : (per == 2 ? off2 : off4);
    static const char *kn[4] = {"cubic", "rectangular", "bcc", "fcc"};
    std::snprintf(buf, sizeof buf, "%s %dx%dx%d amplitude=%.3g*spacing", kn[kind], (int)m[0], (int)m[1], (int)m[2], amp);
    c.sub = buf;
    for (uint64_t i = 0; i < m[0]; ++i)
      for (uint64_t j = 0; j < m[1]; ++j)
        for (uint64_t k = 0; k < m[2]; ++k)
          for (uint64_t q = 0; q < per; ++q) {
            const uint64_t ijk[3] = {i, j, k};
            double x[3];
            for (int d = 0; d < 3; ++d) {
              const double h = c.s[d] / (double)m[d];
              x[d] = c.a[d] + ((double)ijk[d] + off[q][d]) * h;
              if (amp > 0.) x[d] += amp * h * rpos.uniform(-1., 1.);
            }
            p.push_back(CV(x[0], x[1], x[2]));
          }
    break;
  }
  case WALL: {
    const double frac = c.reg == 0 ? 1. : (c.reg == 1 ? rpos.uniform(0.2, 0.6) : 0.);
    std::snprintf(buf, sizeof buf, "near-wall fraction=%.2f distance=%s*side", frac, g_xparam > 0. ? "xparam" : (avoid('B') ? "[1e-5,1e-3]*largest side, in units of" : "[1e-12,1e-9]"));
    c.sub = buf;
    c.param = frac;
    for (uint64_t i = 0; i < n; ++i) {
      double x[3];
      for (int k = 0; k < 3; ++k) x[k] = c.a[k] + c.s[k] * rpos.uniform();
      if (rpos.chance(frac) || (c.reg == 2 && i == 0)) {
        const int npin = (int)rpos.range(1, 2); // next to a face or an edge (corners would stack many generators within 1e-9 of each other)
        for (int q = 0; q < npin; ++q) {
          const int k = (int)rpos.below(3);
          double eps = rpos.loguniform(1e-12, 1e-9);
          if (avoid('B')) eps = std::min(0.4, std::pow(eps * 1e12, 2. / 3.) * 1e-5 * smax / c.s[k]); // rule B: same draw mapped to [1e-5, 1e-3] x largest side
          if (g_xparam > 0.) eps = g_xparam;
          x[k] = rpos.chance(0.5) ? c.a[k] + c.s[k] * eps : c.a[k] + c.s[k] * (1. - eps);
        }
      }
      p.push_back(CV(x[0], x[1], x[2]));
    }
    break;
  }
  }
  // strictly inside, distinct
  for (size_t i = 0; i < p.size(); ++i) {
    double mg[3];
    for (int k = 0; k < 3; ++k) mg[k] = avoid('B') ? std::min(0.25, 1e-5 * smax / c.s[k]) : 1e-12;
    const CV q(clampin(p[i].x(), c.a[0], c.s[0], mg[0]), clampin(p[i].y(), c.a[1], c.s[1], mg[1]), clampin(p[i].z(), c.a[2], c.s[2], mg[2]));
    if (avoid('B') && (q.x() != p[i].x() || q.y() != p[i].y() || q.z() != p[i].z())) c.moved_by_rule_B = true;
    p[i] = q;
  }
  {
    std::set< std::vector< double > > seen;
    std::vector< CV > q;
    for (size_t i = 0; i < p.size(); ++i) {
      std::vector< double > key(3);
      key[0] = p[i].x(); key[1] = p[i].y(); key[2] = p[i].z();
      if (seen.insert(key).second) q.push_back(p[i]);
      else st.inc("duplicate_generators_dropped");
    }
    p.swap(q);
  }
  while (p.size() < 2) // the domain starts at 2 generators
    p.push_back(CV(c.a[0] + c.s[0] * rpos.uniform(0.1, 0.9), c.a[1] + c.s[1] * rpos.uniform(0.1, 0.9), c.a[2] + c.s[2] * rpos.uniform(0.1, 0.9)));
  const size_t np = p.size();
  c.worksize = (np > 100 && rsmp.chance(0.6)) ? (int)rsmp.range(2, 4) : 1;
  if (np <= 100 && rsmp.chance(0.2)) c.worksize = (int)rsmp.range(2, 4);

  // ---- positions for get_index ----
  const size_t ns = std::min< size_t >(1500, 60 + 3 * np);
  c.samples.clear();
  for (size_t q = 0; q < ns; ++q) {
    double x[3];
    const int kind = (int)rsmp.below(5);
    if (kind <= 1) {
      for (int k = 0; k < 3; ++k) x[k] = c.a[k] + c.s[k] * rsmp.uniform();
    } else if (kind == 2) { // next to a generator
      const CV &g = p[rsmp.below(np)];
      const double e = rsmp.loguniform(1e-9, 1e-2);
      for (int k = 0; k < 3; ++k) x[k] = g[k] + c.s[k] * e * rsmp.uniform(-1., 1.);
    } else if (kind == 3) { // next to the bisector of two generators
      const CV &g = p[rsmp.below(np)], &h = p[rsmp.below(np)];
      const double t = 0.5 + rsmp.loguniform(1e-7, 1e-1) * (rsmp.chance(0.5) ? 1. : -1.);
      for (int k = 0; k < 3; ++k) x[k] = g[k] + t * (h[k] - g[k]);
    } else { // on / next to the walls (lower wall inclusive, upper wall exclusive)
      for (int k = 0; k < 3; ++k) {
        x[k] = c.a[k] + c.s[k] * rsmp.uniform();
        const int w = (int)rsmp.below(4);
        if (w == 0) x[k] = c.a[k];
        else if (w == 1) x[k] = c.a[k] + c.s[k] * (1. - 1e-12);
      }
    }
    for (int k = 0; k < 3; ++k) {
      if (!(x[k] >= c.a[k])) x[k] = c.a[k];
      const double hi = c.a[k] + c.s[k] * (1. - 1e-12);
      if (!(x[k] <= hi)) x[k] = hi;
    }
    c.samples.push_back(CV(x[0], x[1], x[2]));
  }
}

// ---------------------------------------------------------------------------
// running the real constructions in a child process
// ---------------------------------------------------------------------------

static void wd(FILE *f, double x) { std::fwrite(&x, sizeof x, 1, f); }

static void child_main(const Case &c, int ctor, FILE *out) {
  // watchdog: CPU seconds (robust against a loaded machine; ~100x the normal cost), wall clock as a backstop
  {
    const double nk = (double)c.pos.size() / 1000.;
    // >= 8x (linear families) / 15x (quadratic families) the measured normal cost, plus 20 s
    const bool slow = (c.fam != UNIFORM && c.fam != PLATTICE);
    const rlim_t lim = (rlim_t)(g_cpu_factor * (20. + (slow ? 600. * nk * nk : 10. * nk)));
    struct rlimit rl;
    rl.rlim_cur = lim;
    rl.rlim_max = lim + 5;
    setrlimit(RLIMIT_CPU, &rl);
    alarm((unsigned)(20 * lim));
  }
  const Box<> box(CV(c.a[0], c.a[1], c.a[2]), CV(c.s[0], c.s[1], c.s[2]));
  VoronoiGrid *g;
  if (ctor == 0) g = new NewVoronoiGrid(c.pos, box);
  else g = new OldVoronoiGrid(c.pos, box);
  g->compute_grid(c.worksize);
  const size_t n = c.pos.size();
  wd(out, 4242.);
  wd(out, (double)n);
  for (size_t i = 0; i < n; ++i) {
    wd(out, g->get_volume(i));
    const CV cen = g->get_centroid(i);
    wd(out, cen.x()); wd(out, cen.y()); wd(out, cen.z());
    const std::vector< VoronoiFace > faces = g->get_faces(i);
    wd(out, (double)faces.size());
    for (size_t f = 0; f < faces.size(); ++f) {
      wd(out, faces[f].get_surface_area());
      const CV m = faces[f].get_midpoint();
      wd(out, m.x()); wd(out, m.y()); wd(out, m.z());
      wd(out, (double)(uint32_t)faces[f].get_neighbour());
      const std::vector< CV > v = faces[f].get_vertices();
      wd(out, (double)v.size());
      for (size_t k = 0; k < v.size(); ++k) { wd(out, v[k].x()); wd(out, v[k].y()); wd(out, v[k].z()); }
    }
  }
  for (uint32_t w = 0; w < 6; ++w) {
    const CV nrm = g->get_wall_normal(WALL0 + w);
    wd(out, nrm.x()); wd(out, nrm.y()); wd(out, nrm.z());
  }
  wd(out, 12345.);
  std::fflush(out);
  for (size_t q = 0; q < c.samples.size(); ++q) wd(out, (double)g->get_index(c.samples[q]));
  wd(out, 67890.);
  std::fflush(out);
  _exit(0); // no destructors: the verdict is about construction and queries
}

struct Reader {
  std::vector< double > d;
  size_t p;
  bool ok;
  Reader() : p(0), ok(true) {}
  double get() {
    if (p >= d.size()) { ok = false; return 0.; }
    return d[p++];
  }
};

static void run_grid(const Case &c, int ctor, GridRec &g) {
  std::fflush(stdout);
  FILE *out = tmpfile();
  FILE *err = tmpfile();
  if (!out || !err) { std::fprintf(stderr, "tmpfile failed\n"); std::exit(3); }
  if (g_nofork) child_main(c, ctor, out);
  const pid_t pid = fork();
  if (pid < 0) { std::fprintf(stderr, "fork failed\n"); std::exit(3); }
  if (pid == 0) {
    dup2(fileno(err), 2);
    child_main(c, ctor, out);
    _exit(0);
  }
  int status = 0;
  struct rusage ru;
  std::memset(&ru, 0, sizeof ru);
  wait4(pid, &status, 0, &ru);
  {
    const double cpu = ru.ru_utime.tv_sec + 1e-6 * ru.ru_utime.tv_usec + ru.ru_stime.tv_sec + 1e-6 * ru.ru_stime.tv_usec;
    st.maxd(std::string("max_child_cpu_seconds_") + (c.pos.size() > 900 ? "n_above_900" : "n_upto_900"), cpu);
  }
  // stderr of the child
  {
    std::fseek(err, 0, SEEK_END);
    long len = std::ftell(err);
    long from = len > 600 ? len - 600 : 0;
    std::fseek(err, from, SEEK_SET);
    std::string s((size_t)(len - from), ' ');
    if (len - from > 0) { size_t got = std::fread(&s[0], 1, (size_t)(len - from), err); s.resize(got); }
    for (size_t i = 0; i < s.size(); ++i) if (s[i] == '\n' || s[i] == '\r') s[i] = ' ';
    g.err = s;
    std::fclose(err);
  }
  Reader rd;
  {
    std::fseek(out, 0, SEEK_END);
    long len = std::ftell(out);
    std::fseek(out, 0, SEEK_SET);
    rd.d.resize((size_t)len / sizeof(double));
    if (!rd.d.empty()) { size_t got = std::fread(&rd.d[0], sizeof(double), rd.d.size(), out); rd.d.resize(got); }
    std::fclose(out);
  }
  const bool clean = WIFEXITED(status) && WEXITSTATUS(status) == 0;
  g.sig = WIFSIGNALED(status) ? WTERMSIG(status) : (WIFEXITED(status) ? -WEXITSTATUS(status) : 0);
  g.timeout = WIFSIGNALED(status) && (WTERMSIG(status) == SIGALRM || WTERMSIG(status) == SIGXCPU || WTERMSIG(status) == SIGKILL);
  // parse whatever the child managed to write
  g.status = 1;
  if (rd.get() != 4242.) { if (clean) g.status = 3; return; }
  const size_t n = (size_t)rd.get();
  if (n != c.pos.size()) { g.status = clean ? 3 : 1; return; }
  g.cells.resize(n);
  for (size_t i = 0; i < n && rd.ok; ++i) {
    CellRec &cl = g.cells[i];
    cl.vol = rd.get();
    for (int k = 0; k < 3; ++k) cl.cen[k] = rd.get();
    const size_t nf = (size_t)rd.get();
    if (!rd.ok || nf > 100000) { rd.ok = false; break; }
    cl.faces.resize(nf);
    for (size_t f = 0; f < nf && rd.ok; ++f) {
      FaceRec &fr = cl.faces[f];
      fr.area = rd.get();
      for (int k = 0; k < 3; ++k) fr.mid[k] = rd.get();
      fr.ngb = (uint32_t)rd.get();
      const size_t nv = (size_t)rd.get();
      if (!rd.ok || nv > 100000) { rd.ok = false; break; }
      fr.v.resize(3 * nv);
      for (size_t k = 0; k < 3 * nv; ++k) fr.v[k] = rd.get();
    }
  }
  for (int w = 0; w < 6; ++w) for (int k = 0; k < 3; ++k) g.wn[w][k] = rd.get();
  if (!rd.ok || rd.get() != 12345.) { g.cells.clear(); g.status = clean ? 3 : 1; return; }
  g.status = 2;
  g.idx.resize(c.samples.size());
  for (size_t q = 0; q < g.idx.size(); ++q) g.idx[q] = (uint32_t)rd.get();
  if (!rd.ok || rd.get() != 67890. || !clean) { g.idx.clear(); g.status = clean ? 3 : 2; return; }
  g.status = 0;
}

// ---------------------------------------------------------------------------
// oracle
// ---------------------------------------------------------------------------
//
// Tolerance model (nothing here is tuned to the code under test):
//  * REL_LEN = 1e-9: the accuracy class the property itself states ("1e-9 relative to
//    cell size"): every plane / vertex position may be uncertain by 1e-9 * h_i, h_i the
//    largest generator-vertex distance of the cell.
//  * conditioning (c_i): (a) input rounding: the bisector plane of generators j,k has normal
//    (x_k-x_j)/d; coordinates are only defined to one quantum q = eps*max(|coord|, L), so the
//    plane is uncertain by q*h/d at lever arm h; (b) a cell vertex is the circumcentre of a
//    Delaunay tetrahedron; for a needle/sliver with longest edge ~h and shortest edge d the
//    standard double precision circumcentre formula has forward error ~eps*h*(h/d)^2.
//    c_i = 16 [ q (1 + h_i/dd_i) + eps h_i (h_i/dd_i)^2 ],  t_i = 1e-9 h_i + c_i,
//    dd_i = the smallest distance between any two of {generator i and its face neighbours}.
//    (c) a lattice displaced by a << spacing has Delaunay slivers of thickness ~a (four nearly
//    coplanar, nearly cocircular generators); their circumcentre moves by q*h/a when the input
//    moves by one quantum q: c_i += 16 q h_i / a (a is a parameter of the generated set).
//    Walls are exact planes and get no such allowance: a generator 1e-12 from a wall does
//    not make the Voronoi problem ill conditioned.
//  * a boundary displaced by t changes a face area by <= t * perimeter, a volume by <= t * surface,
//    a face midpoint by <= t * perimeter * diameter / area, a centroid by <= t * surface * h / volume.
//  * the OLD construction is approximate by design.  OldVoronoiCell documents an absolute
//    vertex tolerance: a vertex v (relative to the generator) with
//        |v.p - p.p| <= eps_old = OLDVORONOI_TOLERANCE * |box sides|^2      (p = half the separation vector)
//    "is considered to lie inside the plane", i.e. it is neither cut off nor moved, although
//    it is up to eps_old/|p| away from the bisector plane.  The smallest |p| of a cell is half
//    the distance nn_i to its nearest generator, so every plane bounding cell i may be
//    misplaced, as seen from a vertex, by
//        d_i = eps_old / (nn_i / 2) = 2 * OLDVORONOI_TOLERANCE * |S|^2 / nn_i .
//    A vertex is the intersection of three planes with unit normals n1,n2,n3; offsets uncertain
//    by d move it by <= sqrt(3) |N^-1| d, N = (n1;n2;n3), |N^-1| ~ 1/sin(smallest dihedral angle).
//    For compact cells (dihedral angles 60..120 degrees) sqrt(3)|N^-1| is 2..4; in a cell of
//    extent h_i whose nearest bounding plane is nn_i/2 away (elongated boxes, anisotropic
//    lattices) faces meet at angles down to ~nn_i/h_i, i.e. the factor grows to ~2 h_i/nn_i.
//    Allowed vertex displacement of the old construction (in addition to t_i):
//        delta_i = d_i * max(4, 2 h_i / nn_i)      (= 8 tol |S|^2 / nn_i for compact cells).
//    Consequences (boundary displaced by delta over the surface S_i of a cell of size h_i):
//        volume of a cell      |dV_i| <= delta_i S_i        (relative: kappa_i delta_i / h_i, kappa_i = S_i h_i / V_i >= 5)
//        sum of the volumes    |sum V - V_box| <= sum_i delta_i S_i
//        centroid              |dc_i| <= delta_i S_i h_i / V_i = kappa_i delta_i
//        area of a face        |dA_f| <= delta P_f  (P_f its perimeter; delta of the two cells sharing it, whichever is larger)
//        face midpoint         <= delta P_f diam_f / A_f ; vertices off their plane / outside the box: <= delta
//    These allowances are applied to every clause of the old construction and, with the
//    delta_i of the old cell, to the old-vs-new agreement.  nn_i comes from the INPUT (brute
//    force), not from the faces the construction reports.  Example: 1048 uniform generators in
//    a cube of side L: nn ~ 0.05 L, delta = 8*2e-10*3 L^2/(0.05 L) ~ 1e-7 L = 1e-6 h: a volume
//    difference of 1e-8 is far inside the design accuracy.  What the allowance never covers:
//    crashes and hangs, non-positive or non-finite volumes, faces towards invalid neighbours,
//    and errors above it (for separations below ~sqrt(tol)|S| delta exceeds the cell itself;
//    such inputs are outside what the old construction can resolve, see the input rules).
//  * areas: 1e-8 relative (stated), negligible faces: area <= 1e-10 * (box volume)^(2/3) (stated); area
//    differences below that threshold are negligible too (a sliver one cell resolves and its neighbour does not).

struct Geo {
  LD a[3], s[3];
  LD vbox, ascale, amin, lmax, diag, boxsurf, quantum, eps_old;
  LD sliver; // known thickness scale of the thinnest Delaunay tetrahedra (perturbed lattices: the displacement amplitude), else -1
  std::vector< LD > x;  // 3n generators
  std::vector< LD > nn; // distance of every generator to its nearest generator (brute force)
  LD nnmin;
};

// random part: <clause>/<construction>/<family>;  pinned witness k: pinned-<k>/<clause>/<construction>
static std::string gkey(const std::string &clause, int ctor, const std::string &famkey) {
  const std::string cn = ctor < 2 ? CTOR[ctor] : "old-vs-new";
  if (g_pinned >= 0) return "pinned-" + std::to_string(g_pinned) + "/" + clause + "/" + cn;
  return clause + "/" + cn + "/" + famkey;
}

// at most 2 printed violations per (case, construction, clause); all are counted
static std::map< std::string, int > g_clause_count;
static uint64_t g_all_viol = 0; // every violation, printed or not
static std::string g_replay;     // command line arguments that reproduce the run (the case is added per violation)
#define C15_VIOL(group, ctor, cs, clause, ...)                                                    \
  do {                                                                                             \
    const std::string cl_ = (clause);                                                              \
    (void)(group);                                                                                 \
    std::string k_ = gkey(cl_, ctor, (cs).famkey);                                                              \
    ++g_all_viol;                                                  \
    st.inc(std::string("violations_") + cl_ + "_" + (ctor < 2 ? CTOR[ctor] : "old-vs-new"));                                \
    if (g_clause_count[k_ + "/" + std::to_string((cs).id)]++ < 2) {                 \
      char b_[1400];                                                                               \
      std::snprintf(b_, sizeof b_, __VA_ARGS__);                                                   \
      VH_VIOL(k_.c_str(), (cs).id, "clause=%s n=%zu %s [%s: %s; sides %.4g %.4g %.4g] {replay: c15_voronoi%s --only %" PRIu64 "}",   \
              cl_.c_str(), (cs).pos.size(), b_, (cs).regname.c_str(), (cs).sub.c_str(), (cs).s[0], (cs).s[1], (cs).s[2],          \
              g_replay.c_str(), (cs).id);             \
    } else st.inc("violations_not_printed");                                                      \
  } while (0)

// per cell derived quantities (from the REPORTED faces + planes computed here)
struct CellGeo {
  LD h;    // largest distance generator -> face vertex
  LD surf; // total face area
  LD dmin; // smallest distance to a face neighbour (real generators only)
  LD dd;   // smallest distance between any two of {generator, face neighbours}
  LD cond; // conditioning allowance c_i
  LD t;    // position tolerance of the cell: 1e-9 h + c_i
  LD slack; // old construction only: largest documented vertex displacement among the planes bounding the cell
};

// plane of a face of cell i: unit outward normal nrm and distance dist (>0) of generator i to the plane.
// returns false if the neighbour id is not valid.
static bool face_plane(const Geo &G, size_t n, size_t i, uint32_t ngb, LD nrm[3], LD &dist) {
  if (ngb < WALL0) {
    if (ngb >= n || ngb == i) return false;
    LD d[3], l2 = 0;
    for (int k = 0; k < 3; ++k) { d[k] = G.x[3 * ngb + k] - G.x[3 * i + k]; l2 += d[k] * d[k]; }
    const LD l = sqrtl(l2);
    if (!(l > 0)) return false;
    for (int k = 0; k < 3; ++k) nrm[k] = d[k] / l;
    dist = 0.5L * l;
    return true;
  }
  const int w = (int)(ngb - WALL0); // left right front back bottom top
  const int ax = w / 2;
  const bool upper = (w & 1);
  for (int k = 0; k < 3; ++k) nrm[k] = 0;
  nrm[ax] = upper ? 1 : -1;
  dist = upper ? (G.a[ax] + G.s[ax] - G.x[3 * i + ax]) : (G.x[3 * i + ax] - G.a[ax]);
  return true;
}

static void polygon_metrics(const FaceRec &f, LD &perim, LD &diam) {
  const size_t nv = f.v.size() / 3;
  perim = 0; diam = 0;
  for (size_t a = 0; a < nv; ++a) {
    const size_t b = (a + 1) % nv;
    LD e2 = 0;
    for (int k = 0; k < 3; ++k) { const LD d = (LD)f.v[3 * a + k] - (LD)f.v[3 * b + k]; e2 += d * d; }
    if (std::isfinite((double)e2)) perim += sqrtl(e2);
    for (size_t q = a + 1; q < nv; ++q) {
      LD d2 = 0;
      for (int k = 0; k < 3; ++k) { const LD d = (LD)f.v[3 * a + k] - (LD)f.v[3 * q + k]; d2 += d * d; }
      if (std::isfinite((double)d2)) diam = std::max(diam, sqrtl(d2));
    }
  }
}

static const FaceRec *find_face(const CellRec &c, uint32_t ngb) {
  const FaceRec *best = nullptr;
  for (size_t f = 0; f < c.faces.size(); ++f)
    if (c.faces[f].ngb == ngb && (!best || c.faces[f].area > best->area)) best = &c.faces[f];
  return best;
}

static const LD REL_LEN = 1e-9L;
static const LD REL_AREA = 1e-8L;

// allowed vertex displacement delta_i of the old construction (see the derivation above; eps_old = tol |S|^2)
static LD old_slack(const Geo &G, int ctor, size_t i, LD h) {
  if (ctor != 1 || !(G.nn[i] > 0)) return 0;
  return 2.0L * G.eps_old / G.nn[i] * std::max((LD)4, 2 * h / G.nn[i]);
}

static bool eval_grid(const Case &c, const Geo &G, const GridRec &g, int ctor, std::vector< CellGeo > &cg) {
  const size_t n = c.pos.size();
  const std::string cn = CTOR[ctor];
  bool usable = true;
  cg.assign(n, CellGeo());
  // ---- partition: volumes ----
  LD vsum = 0;
  for (size_t i = 0; i < n; ++i) {
    const double v = g.cells[i].vol;
    if (!(v > 0.) || !std::isfinite(v)) {
      C15_VIOL("tessellation", ctor, c, "volume-positive", "cell %zu has volume %.17g (generator %.17g %.17g %.17g)", i, v, c.pos[i].x(), c.pos[i].y(),
               c.pos[i].z());
      usable = false;
    }
    vsum += v;
  }
  st.inc("cells_checked_" + cn, n);
  const LD relsum = fabsl(vsum - G.vbox) / G.vbox;
  if (std::isfinite((double)relsum)) {
    st.maxd("max_rel_volume_sum_error_" + cn, (double)relsum);
    st.maxd("max_rel_volume_sum_error_" + cn + "_" + FAMNAME[c.fam], (double)relsum);
  }
  // ---- per cell scales ----
  for (size_t i = 0; i < n; ++i) {
    const CellRec &cl = g.cells[i];
    CellGeo &q = cg[i];
    q.h = 0; q.surf = 0; q.dmin = -1; q.slack = 0;
    for (size_t f = 0; f < cl.faces.size(); ++f) {
      const FaceRec &fr = cl.faces[f];
      if (fr.area > 0 && std::isfinite(fr.area)) q.surf += fr.area;
      for (size_t k = 0; k < fr.v.size() / 3; ++k) {
        LD d2 = 0;
        for (int d = 0; d < 3; ++d) { const LD dd = (LD)fr.v[3 * k + d] - G.x[3 * i + d]; d2 += dd * dd; }
        if (std::isfinite((double)d2)) q.h = std::max(q.h, sqrtl(d2));
      }
      LD nrm[3], dist;
      if (face_plane(G, n, i, fr.ngb, nrm, dist)) {
        if (fr.ngb < WALL0 && (q.dmin < 0 || 2 * dist < q.dmin)) q.dmin = 2 * dist;
      }
    }
    // a convex cell of a tessellation of the box is not larger than the box: garbage output must not widen the tolerances
    if (q.h > G.diag) q.h = G.diag;
    if (q.surf > G.boxsurf) q.surf = G.boxsurf;
    q.slack = old_slack(G, ctor, i, q.h);
    q.dd = q.dmin;
    {
      std::vector< uint32_t > nb;
      for (size_t f = 0; f < cl.faces.size(); ++f)
        if (cl.faces[f].ngb < n && cl.faces[f].ngb != i) nb.push_back(cl.faces[f].ngb);
      for (size_t a = 0; a < nb.size(); ++a)
        for (size_t b = a + 1; b < nb.size(); ++b) {
          if (nb[a] == nb[b]) continue;
          LD d2 = 0;
          for (int k = 0; k < 3; ++k) { const LD d = G.x[3 * nb[a] + k] - G.x[3 * nb[b] + k]; d2 += d * d; }
          const LD d = sqrtl(d2);
          if (q.dd < 0 || d < q.dd) q.dd = d;
        }
    }
    const LD ratio = (q.dd > 0) ? q.h / q.dd : 0;
    q.cond = 16 * (G.quantum * (1 + ratio) + 2.220446049250313e-16L * q.h * ratio * ratio);
    if (G.sliver > 0) q.cond += 16 * G.quantum * q.h / G.sliver; // (c) see above
    q.t = REL_LEN * q.h + q.cond;
    st.maxd("max_conditioning_allowance_over_cellsize_" + cn, q.h > 0 ? (double)(q.cond / q.h) : 0.);
    if (q.cond > 0.1L * REL_LEN * q.h) st.inc("cells_with_conditioning_allowance_above_1e-10_cellsize_" + cn);
  }
  // ---- partition: the volumes sum to the box volume (1e-10 relative, stated) ----
  // plus the conditioning allowance of the cells (boundary displaced by c_i -> dV_i <= c_i * S_i)
  {
    LD condvol = 0;
    for (size_t i = 0; i < n; ++i) condvol += (cg[i].cond + cg[i].slack) * cg[i].surf;
    const LD tolrel = 1e-10L + (std::isfinite((double)condvol) ? condvol / G.vbox : 0);
    st.maxd("max_volume_sum_tolerance_" + cn, (double)tolrel);
    if (!(relsum <= tolrel)) {
      C15_VIOL("tessellation", ctor, c, "volume-sum", "sum of cell volumes %.17Lg vs box volume %.17Lg: rel. diff %.3Lg > %.3Lg (1e-10 + conditioning%s allowance)", vsum,
               G.vbox, relsum, tolrel, ctor == 1 ? " + documented vertex tolerance" : "");
      usable = false;
    }
  }
  // ---- per cell: faces, planes, closure ----
  LD wallarea[6] = {0, 0, 0, 0, 0, 0}, walltol[6] = {0, 0, 0, 0, 0, 0};
  for (size_t i = 0; i < n; ++i) {
    const CellRec &cl = g.cells[i];
    const CellGeo &q = cg[i];
    LD asum[3] = {0, 0, 0}, volfaces = 0, tolsum = 0, negarea = 0;
    std::set< uint32_t > seen;
    size_t nreal = 0;
    for (size_t f = 0; f < cl.faces.size(); ++f) {
      const FaceRec &fr = cl.faces[f];
      const bool negligible = !(fr.area > G.amin); // also NaN / zero area degenerate faces
      if (negligible) {
        if (fr.area > 0) negarea += fr.area;
        if (fr.ngb >= WALL0) walltol[fr.ngb - WALL0] += G.amin;
      }
      LD nrm[3], dist;
      const bool valid = face_plane(G, n, i, fr.ngb, nrm, dist);
      if (!valid || !(dist > 0)) {
        // a face towards nothing / towards itself: the generator is not strictly inside a half space
        if (!negligible)
          C15_VIOL("tessellation", ctor, c, "inside", "cell %zu lists a face of area %.6g (%.3Lg x box area scale) with neighbour id %#x: neither another generator "
                   "nor a wall, so the generator is not strictly on the inner side of a face plane", i, fr.area, (LD)fr.area / G.ascale, fr.ngb);
        else st.inc("negligible_faces_with_invalid_neighbour_" + cn);
        continue;
      }
      st.inc("generator_inside_halfspace_checks_" + cn);
      if (negligible) { st.inc("negligible_faces_" + cn); continue; }
      ++nreal;
      st.inc("faces_checked_" + cn);
      if (!seen.insert(fr.ngb).second)
        C15_VIOL("tessellation", ctor, c, "duplicate-face", "cell %zu has two non-negligible faces with the same neighbour %#x", i, fr.ngb);
      const LD tf = q.t + q.slack;
      LD pm, dm;
      polygon_metrics(fr, pm, dm);
      if (fr.ngb >= WALL0) {
        wallarea[fr.ngb - WALL0] += fr.area;
        walltol[fr.ngb - WALL0] += REL_AREA * fr.area + (q.t + q.slack) * pm + G.amin;
        // the grid's own wall normal must be the outward normal of that wall
        const double *wn = g.wn[fr.ngb - WALL0];
        if (!(wn[0] == (double)nrm[0] && wn[1] == (double)nrm[1] && wn[2] == (double)nrm[2]))
          C15_VIOL("tessellation", ctor, c, "wall-normal", "get_wall_normal(%#x) = (%g %g %g), expected (%g %g %g)", fr.ngb, wn[0], wn[1], wn[2], (double)nrm[0],
                   (double)nrm[1], (double)nrm[2]);
      }
      // the reported midpoint and vertices lie on the plane (bisector plane / wall) computed here,
      // i.e. the generator is at distance dist > 0 on the inner side of the reported face
      LD off = -dist;
      for (int k = 0; k < 3; ++k) off += ((LD)fr.mid[k] - G.x[3 * i + k]) * nrm[k];
      LD worst = fabsl(off);
      LD outside = 0;
      bool finite = std::isfinite(fr.mid[0]) && std::isfinite(fr.mid[1]) && std::isfinite(fr.mid[2]);
      for (size_t k = 0; k < fr.v.size() / 3; ++k) {
        LD o = -dist;
        for (int d = 0; d < 3; ++d) {
          const LD x = fr.v[3 * k + d];
          finite &= std::isfinite(fr.v[3 * k + d]);
          o += (x - G.x[3 * i + d]) * nrm[d];
          outside = std::max(outside, std::max(G.a[d] - x, x - (G.a[d] + G.s[d])));
        }
        worst = std::max(worst, fabsl(o));
      }
      if (!finite) {
        C15_VIOL("tessellation", ctor, c, "vertex-finite", "cell %zu face to %#x (area %.6g) has a non-finite midpoint or vertex", i, fr.ngb, fr.area);
        continue;
      }
      if (!(outside <= tf))
        C15_VIOL("tessellation", ctor, c, "vertex-in-box", "cell %zu face to %#x (area %.6g) has a vertex %.3Lg outside the box (tolerance %.3Lg)", i, fr.ngb, fr.area,
                 outside, tf);
      if (tf > 0) {
        st.maxd("max_plane_offset_over_tolerance_" + cn, (double)(worst / tf));
        st.maxd("max_plane_offset_over_tolerance_" + cn + "_" + FAMNAME[c.fam], (double)(worst / tf));
      }
      if (!(worst <= tf))
        C15_VIOL("tessellation", ctor, c, "face-plane", "cell %zu face to %#x (area %.6g): midpoint/vertices are %.3Lg off the %s plane computed from the generators; "
                 "tolerance %.3Lg (cell size %.3Lg, nearest neighbour %.3Lg); generator distance to plane %.6Lg", i, fr.ngb, fr.area, worst,
                 fr.ngb >= WALL0 ? "wall" : "bisector", tf, q.h, q.dmin, dist);
      for (int k = 0; k < 3; ++k) asum[k] += fr.area * nrm[k];
      volfaces += fr.area * dist / 3;
      // area uncertainty of this face: its edges are cut by the other planes of the cell; a negligible neighbour that one cell
      // resolves and the other does not changes the area by up to the negligible-face threshold
      tolsum += REL_AREA * fr.area + (q.t + q.slack) * pm + G.amin;
    }
    if (nreal == 0) { st.inc("cells_with_only_negligible_faces_" + cn); continue; }
    // closed polyhedron: the area vectors sum to zero and the divergence theorem reproduces the volume
    const LD tol_area = tolsum + negarea;
    const LD aclos = sqrtl(asum[0] * asum[0] + asum[1] * asum[1] + asum[2] * asum[2]);
    st.inc("closure_checks_" + cn);
    if (tol_area > 0) st.maxd("max_area_closure_over_tolerance_" + cn, (double)(aclos / tol_area));
    if (!(aclos <= tol_area))
      C15_VIOL("tessellation", ctor, c, "closure", "cell %zu: |sum A_f n_f| = %.6Lg > tolerance %.3Lg (surface %.6Lg, %zu faces): the faces do not close a polyhedron",
               i, aclos, tol_area, q.surf, cl.faces.size());
    const LD tol_vol = tol_area * q.h / 3 + (q.t + q.slack) * q.surf + 1e-12L * fabsl((LD)cl.vol);
    const LD dv = fabsl(volfaces - (LD)cl.vol);
    if (tol_vol > 0) st.maxd("max_volume_vs_faces_over_tolerance_" + cn, (double)(dv / tol_vol));
    if (!(dv <= tol_vol))
      C15_VIOL("tessellation", ctor, c, "volume-faces", "cell %zu: reported volume %.17g but 1/3 sum A_f d_f over its faces (planes from generator pairs) = %.17Lg, "
               "|diff| %.3Lg > tolerance %.3Lg", i, cl.vol, volfaces, dv, tol_vol);
  }
  // ---- partition: the wall faces tile the walls ----
  for (int w = 0; w < 6; ++w) {
    const int ax = w / 2;
    const LD aw = G.s[(ax + 1) % 3] * G.s[(ax + 2) % 3];
    const LD err = fabsl(wallarea[w] - aw);
    st.maxd("max_rel_wall_area_error_" + cn, (double)(err / aw));
    // per-face area uncertainties
    const LD tol = 1e-10L * aw + walltol[w];
    if (!(err <= tol))
      C15_VIOL("tessellation", ctor, c, "wall-area", "faces on wall %d sum to %.17Lg, wall area %.17Lg: rel. diff %.3Lg, tolerance %.3Lg", w, wallarea[w], aw,
               err / aw, tol / aw);
  }
  // ---- every non-negligible face has its twin in the neighbour cell ----
  for (size_t i = 0; i < n; ++i) {
    const CellRec &cl = g.cells[i];
    for (size_t f = 0; f < cl.faces.size(); ++f) {
      const FaceRec &fr = cl.faces[f];
      if (!(fr.area > G.amin) || fr.ngb >= WALL0 || fr.ngb >= n || fr.ngb == i) continue;
      const size_t j = fr.ngb;
      const FaceRec *tw = find_face(g.cells[j], (uint32_t)i);
      const LD aj = (tw && tw->area > 0) ? (LD)tw->area : 0;
      // both directions are visited; judge the pair from the side with the larger area
      if (aj > fr.area || (aj == fr.area && j < i)) continue;
      LD pm, dm, nrm[3], dist;
      polygon_metrics(fr, pm, dm);
      face_plane(G, n, i, fr.ngb, nrm, dist);
      const LD tt = std::max(cg[i].t + cg[i].slack, cg[j].t + cg[j].slack);
      const LD tol = REL_AREA * fr.area + tt * pm + G.amin; // differences below the negligible-face threshold are negligible
      const LD da = fr.area - aj;
      st.inc("face_pairs_checked_" + cn);
      if (tol > 0) st.maxd("max_pair_area_mismatch_over_tolerance_" + cn, (double)(da / tol));
      if (!(da <= tol)) {
        C15_VIOL("tessellation", ctor, c, "partner", "face %zu->%zu has area %.10g (%.3Lg x box area scale) but the twin %zu->%zu %s area %.10Lg: mismatch %.3Lg > "
                 "tolerance %.3Lg (1e-8 rel + position tolerance %.3Lg x perimeter %.3Lg + negligible area)", i, j, fr.area, (LD)fr.area / G.ascale, j, i,
                 tw ? "has" : "is missing,", aj, da, tol, tt, pm);
        continue;
      }
      if (!tw || !(aj > 0)) { st.inc("sliver_faces_below_resolution_without_twin_" + cn); continue; }
      // midpoints: boundary displacement t -> centroid shift <= t * P * diam / A
      const LD amp = tt * pm / aj;
      if (amp < 0.1L) {
        LD d2 = 0;
        for (int k = 0; k < 3; ++k) { const LD d = (LD)fr.mid[k] - (LD)tw->mid[k]; d2 += d * d; }
        const LD tolm = dm * (REL_AREA + amp) + tt;
        st.inc("face_midpoint_pairs_checked_" + cn);
        if (tolm > 0) st.maxd("max_pair_midpoint_mismatch_over_tolerance_" + cn, (double)(sqrtl(d2) / tolm));
        if (!(sqrtl(d2) <= tolm))
          C15_VIOL("tessellation", ctor, c, "partner-midpoint", "faces %zu<->%zu (areas %.10g / %.10Lg): midpoints differ by %.3Lg > %.3Lg (face diameter %.3Lg)", i, j,
                   fr.area, aj, sqrtl(d2), tolm, dm);
      }
    }
  }
  return usable;
}

static void eval_locate(const Case &c, const Geo &G, const GridRec &g, int ctor) {
  const size_t n = c.pos.size();
  for (size_t q = 0; q < c.samples.size(); ++q) {
    LD d1 = -1, d2 = -1;
    size_t i1 = 0;
    for (size_t i = 0; i < n; ++i) {
      LD r2 = 0;
      for (int k = 0; k < 3; ++k) { const LD d = (LD)c.samples[q][k] - G.x[3 * i + k]; r2 += d * d; }
      if (d1 < 0 || r2 < d1) { d2 = d1; d1 = r2; i1 = i; }
      else if (d2 < 0 || r2 < d2) d2 = r2;
    }
    const LD r1 = sqrtl(d1), r2 = sqrtl(d2);
    if (!(r2 - r1 > 1e-9L * r2 + 64 * G.quantum)) { st.inc("locate_samples_ambiguous_skipped"); continue; }
    st.inc(std::string("locate_samples_checked_") + CTOR[ctor]);
    if (g.idx[q] != i1)
      C15_VIOL("locate", ctor, c, "locate", "get_index(%.17g %.17g %.17g) = %u but the nearest generator is %zu (distance %.10Lg, runner-up %.10Lg%s)",
               c.samples[q].x(), c.samples[q].y(), c.samples[q].z(), g.idx[q], i1, r1, r2, g.idx[q] < n ? "" : "; returned index out of range");
  }
}

static void compare(const Case &c, const Geo &G, const GridRec &gn, const GridRec &go, const std::vector< CellGeo > &cgn,
                    const std::vector< CellGeo > &cgo) {
  const size_t n = c.pos.size();
  for (size_t i = 0; i < n; ++i) {
    const CellRec &a = gn.cells[i], &b = go.cells[i];
    const LD h = std::max(cgn[i].h, cgo[i].h);
    const LD surf = std::max(cgn[i].surf, cgo[i].surf);
    const LD t = std::max(cgn[i].t, cgo[i].t) + cgo[i].slack; // the old cell is only defined to its documented vertex tolerance
    const LD vmax = std::max((LD)a.vol, (LD)b.vol);
    // boundary displaced by t: dV <= t*S ; centroid shift <= t*S*h/V
    const LD tolv = t * surf + 1e-12L * vmax;
    const LD dv = fabsl((LD)a.vol - (LD)b.vol);
    st.inc("cells_compared_old_new");
    if (tolv > 0) st.maxd("max_volume_diff_old_new_over_tolerance", (double)(dv / tolv));
    if (vmax > 0) st.maxd("max_rel_volume_diff_old_new", (double)(dv / vmax));
    if (!(dv <= tolv))
      C15_VIOL("agree", 2, c, "agree-volume", "cell %zu: new volume %.17g, old volume %.17g, rel. diff %.3Lg > tolerance %.3Lg (position tolerance %.3Lg x surface "
               "/ volume; cell size %.3Lg)", i, a.vol, b.vol, dv / vmax, tolv / vmax, t, h);
    LD dc2 = 0;
    for (int k = 0; k < 3; ++k) { const LD d = (LD)a.cen[k] - (LD)b.cen[k]; dc2 += d * d; }
    const LD tolc = (vmax > 0 ? t * surf * h / vmax : 0) + 16 * G.quantum;
    if (tolc > 0) st.maxd("max_centroid_diff_old_new_over_tolerance", (double)(sqrtl(dc2) / tolc));
    if (!(sqrtl(dc2) <= tolc))
      C15_VIOL("agree", 2, c, "agree-centroid", "cell %zu: centroids differ by %.3Lg (cell size %.3Lg, tolerance %.3Lg): new (%.17g %.17g %.17g) old (%.17g "
               "%.17g %.17g)", i, sqrtl(dc2), h, tolc, a.cen[0], a.cen[1], a.cen[2], b.cen[0], b.cen[1], b.cen[2]);
    // neighbour relation restricted to non-negligible faces (both directions)
    for (int dir = 0; dir < 2; ++dir) {
      const CellRec &p = dir ? b : a, &q = dir ? a : b;
      for (size_t f = 0; f < p.faces.size(); ++f) {
        const FaceRec &fr = p.faces[f];
        if (!(fr.area > G.amin)) continue;
        const FaceRec *o = find_face(q, fr.ngb);
        const LD ao = (o && o->area > 0) ? (LD)o->area : 0;
        if (ao > fr.area) continue; // judged from the other direction
        LD pm, dm, nrm[3], dist = 0;
        polygon_metrics(fr, pm, dm);
        if (!face_plane(G, n, i, fr.ngb, nrm, dist)) continue; // reported by the faces clause
        LD tn = t;
        if (fr.ngb < n) tn = std::max(tn, std::max(cgn[fr.ngb].t, cgo[fr.ngb].t) + cgo[fr.ngb].slack); // the face is also bounded by the neighbour's planes
        const LD tol = REL_AREA * fr.area + tn * pm + G.amin;
        st.inc("faces_compared_old_new");
        if (!((LD)fr.area - ao <= tol))
          C15_VIOL("agree", 2, c, "agree-neighbours", "cell %zu neighbour %#x: face area %.10g in the %s grid, %.10Lg%s in the %s grid (tolerance %.3Lg; %.3Lg x "
                   "box area scale)", i, fr.ngb, fr.area, dir ? "old" : "new", ao, o ? "" : " (no such neighbour)", dir ? "new" : "old", tol,
                   (LD)fr.area / G.ascale);
      }
    }
  }
}

// ---------------------------------------------------------------------------

// Rule A: the corners of the all-encompassing tetrahedron as NewVoronoiGrid derives them for the exact predicates (rescaled
// box -> NewVoronoiBox), with the arithmetic of the unrepaired constructor.  A function of the box only.
static bool big_tetrahedron_in_range(const Case &c) {
  const Box<> box(CV(c.a[0], c.a[1], c.a[2]), CV(c.s[0], c.s[1], c.s[2]));
  const NewVoronoiBox vb(box);
  CV mn, mx;
  mn = vb.get_position(NEWVORONOICELL_BOX_CORNER0, mn);
  mx[0] = vb.get_position(NEWVORONOICELL_BOX_CORNER1, mx).x();
  mx[1] = vb.get_position(NEWVORONOICELL_BOX_CORNER2, mx).y();
  mx[2] = vb.get_position(NEWVORONOICELL_BOX_CORNER3, mx).z();
  mx -= mn;
  mx *= (1. + DBL_EPSILON);
  double b[3], t[3];
  for (int k = 0; k < 3; ++k) {
    b[k] = 1. + (box.get_anchor()[k] - mn[k]) / mx[k];
    t[k] = 1. + (box.get_anchor()[k] + box.get_sides()[k] - mn[k]) / mx[k];
  }
  const NewVoronoiBox rb(Box<>(CV(b[0], b[1], b[2]), CV(t[0] - b[0], t[1] - b[1], t[2] - b[2])));
  for (uint32_t q = 0; q < 4; ++q) {
    CV x;
    x = rb.get_position(NEWVORONOICELL_BOX_CORNER0 + q, x);
    for (int k = 0; k < 3; ++k) if (!(x[k] >= 1. && x[k] < 2.)) return false;
  }
  return true;
}

struct Pinned {
  uint64_t seed, id;
  int fam, reg;
  uint64_t n;
  double aspect, xparam;
  const char *what;
};
static const Pinned PINNED[] = {
    // seed, case, family, regime, n, aspect, xparam: the generator set is make_case(seed, case) with these parameters forced
    // (--stride 16; aspect / xparam 0: as drawn).  Violations of witness k get the keys pinned-<k>/<clause>/<construction>.
    {6, 32, WALL, 2, 60, 0., 1e-6, "60 uniform generators, one of them 1e-6 sides from a wall, box at the origin with sides 4.58e11 x 2.45e12 x 5.93e11"},
    {31, 1, WALL, 1, 12, 0., 0., "12 generators, 5 of them at 1e-12..1e-9 sides from a wall"},
    {600008, 12, LATTICE, 1, 54, 0., 0., "exact bcc lattice 3x3x3 (54 generators) in a cubic box"},
    {3, 1, PLATTICE, 0, 216, 100., 0., "6x6x6 lattice displaced by 7e-8 spacings, box sides 1 x 100 x 4.58"},
    {3, 30, PLATTICE, 0, 216, 100., 0., "6x6x6 lattice displaced by 9e-9 spacings, box sides 55506 x 2938 x 293820"},
    {600002, 38, CLUSTER, 0, 75, 0., 0., "75 generators in two blobs of sigma 2e-4 x the smallest side, box 1 x 5.2 x 39"},
    {300016, 3, WALL, 0, 245, 0., 0., "245 generators along the walls and edges of a 29 x 1 x 68 box"},
    {700001, 16, PLATTICE, 0, 1728, 0., 0., "12x12x12 lattice displaced by 1e-6 spacings (less than the old vertex tolerance) in the unit cube"},
    {600006, 32, UNIFORM, 2, 234, 0., 0., "regression: 234 uniform generators in a 1:55 box (old construction inside its documented accuracy)"},
    {100015, 3, UNIFORM, 0, 1048, 0., 0., "regression: 1048 uniform generators in a cube (old and new agree to the documented accuracy of the old one)"},
};
static const size_t NPINNED = sizeof(PINNED) / sizeof(PINNED[0]);

int main(int argc, char **argv) {
  uint64_t seed = vh::arg_u64(argc, argv, "--seed", 1);
  uint64_t ngrids = vh::arg_u64(argc, argv, "--grids", 4);
  int64_t only = (int64_t)vh::arg_u64(argc, argv, "--only", (uint64_t)-1);
  uint64_t forced_n = vh::arg_u64(argc, argv, "--n", 0);
  const int only_ctor = (int)vh::arg_u64(argc, argv, "--ctor", 2); // 0 new, 1 old, 2 both
  int forced_fam = (int)(int64_t)vh::arg_u64(argc, argv, "--family", (uint64_t)-1); // exploration aids / pinned witnesses
  int forced_reg = (int)(int64_t)vh::arg_u64(argc, argv, "--regime", (uint64_t)-1);
  double forced_aspect = vh::arg_f(argc, argv, "--aspect", 0.);
  g_verbose = vh::arg_flag(argc, argv, "--verbose") || only >= 0;
  g_nofork = vh::arg_flag(argc, argv, "--nofork");
  g_xparam = vh::arg_f(argc, argv, "--xparam", 0.);
  g_selftest = (int)vh::arg_u64(argc, argv, "--selftest", 0);
  const int onlyfam = (int)(int64_t)vh::arg_u64(argc, argv, "--onlyfam", (uint64_t)-1);
  uint64_t stride = vh::arg_u64(argc, argv, "--stride", 16); // number of shards of the run
  if (stride < 1) stride = 1;
  if (vh::arg_flag(argc, argv, "--pinned-count")) { std::printf("%zu\n", NPINNED); return 0; }
  g_slowcap = vh::arg_u64(argc, argv, "--slowcap", 400);
  g_wallcap = vh::arg_u64(argc, argv, "--wallcap", 150);
  g_cpu_factor = vh::arg_f(argc, argv, "--cpufactor", 1.);
  // pinned witnesses: fixed generator sets (fixed seed/case/family/regime/size/aspect/parameter) that are part of every
  // run, so that the findings they witness are reported under the same keys whatever VERIF_SEED is.
  const int64_t pinned = (int64_t)vh::arg_u64(argc, argv, "--pinned", (uint64_t)-1);
  g_pinned = pinned;
  g_avoid = vh::arg_str(argc, argv, "--avoid", "");
  if (pinned >= 0) {
    if (pinned >= (int64_t)NPINNED) { std::printf("DONE violations=0 (no such pinned case)\n"); return 0; }
    const Pinned &P = PINNED[pinned];
    seed = P.seed; only = (int64_t)P.id; ngrids = P.id + 1; stride = 16; forced_fam = P.fam; forced_reg = P.reg; forced_n = P.n; forced_aspect = P.aspect; g_xparam = P.xparam;
    st.inc("pinned_witnesses");
  }
  const char *dump = vh::arg_str(argc, argv, "--dump", nullptr);
  vh::g_viol_print_limit = 1000; // printing is limited per (case, clause) instead
  for (int i = 1; i < argc; ++i) {
    if (!std::strcmp(argv[i], "--only")) { ++i; continue; }
    g_replay += std::string(" ") + argv[i];
  }
  vh::Rng master(seed * 1000003ull + 15);
  uint64_t nsample = 0;

  for (uint64_t id = 0; id < ngrids; ++id) {
    if (only >= 0 && (int64_t)id != only) continue;
    if (onlyfam >= 0 && forced_fam < 0 && (int)((id * stride + seed % stride) % NFAM) != onlyfam) continue; // debugging aid
    Case c;
    make_case(c, id, id * stride + seed % stride, master.fork(id), forced_n, forced_fam, forced_reg, forced_aspect);
    if (pinned >= 0) c.sub += std::string("; pinned witness ") + std::to_string(pinned) + ": " + PINNED[pinned].what;
    const size_t n = c.pos.size();
    const int fam = c.fam;
    st.inc("grids");
    st.inc(std::string("family_") + FAMNAME[fam]);
    st.inc(std::string("regime_") + c.regname);
    st.inc(c.worksize > 1 ? "grids_threaded" : "grids_serial");
    if (n <= 12) st.inc("grids_n_2_to_12");
    else if (n <= 300) st.inc("grids_n_13_to_300");
    else if (n < 1000) st.inc("grids_n_301_to_999");
    else st.inc("grids_n_1000_to_2000");
    if (n == 2) st.inc("grids_n_equal_2");
    if (n == 2000) st.inc("grids_n_equal_2000");
    const double smax = std::max(c.s[0], std::max(c.s[1], c.s[2])), smin = std::min(c.s[0], std::min(c.s[1], c.s[2]));
    if (smax / smin > 10.) st.inc("grids_aspect_above_10");
    if (smax / smin == 1.) st.inc("grids_cubic_box");
    if (c.a[0] != 0. || c.a[1] != 0. || c.a[2] != 0.) st.inc("grids_box_not_at_origin");

    Geo G;
    LD mag = 0;
    for (int k = 0; k < 3; ++k) {
      G.a[k] = c.a[k]; G.s[k] = c.s[k];
      mag = std::max(mag, std::max(fabsl(G.a[k]), fabsl(G.a[k] + G.s[k])));
    }
    G.vbox = G.s[0] * G.s[1] * G.s[2];
    G.ascale = powl(G.vbox, 2.0L / 3.0L);
    G.amin = 1e-10L * G.ascale;
    G.lmax = smax;
    G.diag = sqrtl(G.s[0] * G.s[0] + G.s[1] * G.s[1] + G.s[2] * G.s[2]);
    G.boxsurf = 2 * (G.s[0] * G.s[1] + G.s[1] * G.s[2] + G.s[2] * G.s[0]);
    G.quantum = 2.220446049250313e-16L * std::max(mag, (LD)smax);
    G.sliver = (c.fam == PLATTICE && c.amp_abs > 0.) ? (LD)c.amp_abs : -1;
    G.eps_old = (LD)OLDVORONOI_TOLERANCE * (G.s[0] * G.s[0] + G.s[1] * G.s[1] + G.s[2] * G.s[2]);
    G.x.resize(3 * n);
    for (size_t i = 0; i < n; ++i) for (int k = 0; k < 3; ++k) G.x[3 * i + k] = c.pos[i][k];
    G.nn.assign(n, -1);
    for (size_t i = 0; i < n; ++i)
      for (size_t j = i + 1; j < n; ++j) {
        LD d2 = 0;
        for (int k = 0; k < 3; ++k) { const LD d = G.x[3 * i + k] - G.x[3 * j + k]; d2 += d * d; }
        const LD d = sqrtl(d2);
        if (G.nn[i] < 0 || d < G.nn[i]) G.nn[i] = d;
        if (G.nn[j] < 0 || d < G.nn[j]) G.nn[j] = d;
      }
    G.nnmin = G.nn[0];
    for (size_t i = 1; i < n; ++i) G.nnmin = std::min(G.nnmin, G.nn[i]);
    // ---- input rules (random part only) ----
    bool skip[2] = {false, false};
    if (c.moved_by_rule_B) st.inc("rule_B_cases_with_generators_moved_to_1e-5_largest_side_from_a_wall");
    if (avoid('B') && fam == WALL) st.inc("rule_B_wall_family_cases_generated_at_1e-5_to_1e-3_largest_side_from_the_walls");
    if (avoid('A') && !big_tetrahedron_in_range(c)) { skip[0] = true; st.inc("rule_A_new_skipped_rescaled_corners_outside_1_2"); }
    if (avoid('C') && c.fam == LATTICE && c.lattice_kind == 2 && c.s[0] == c.s[1] && c.s[1] == c.s[2]) {
      if (!skip[0]) st.inc("rule_C_new_skipped_bcc_lattice_in_cubic_box");
      skip[0] = true;
    }
    if (avoid('O') && fam != LATTICE && G.nnmin < 20 * sqrtl((LD)OLDVORONOI_TOLERANCE) * G.diag) { skip[1] = true; st.inc("rule_O_old_skipped_separation_below_20_sqrt_tol_box"); }
    if (avoid('D') && !skip[1] && fam == PLATTICE && c.amp_abs < 10 * 8 * (double)(G.eps_old / G.nnmin)) { skip[1] = true; st.inc("rule_D_old_skipped_lattice_displacement_below_10_delta"); }
    if (skip[0] && (skip[1] || fam == LATTICE)) st.inc("cases_skipped_by_the_input_rules_for_both_constructions");

    if (dump) {
      FILE *f = std::fopen(dump, "w");
      std::fprintf(f, "# case %" PRIu64 " seed %" PRIu64 " family %s [%s] box anchor %.17g %.17g %.17g sides %.17g %.17g %.17g worksize %d\n", id, seed,
                   FAMNAME[fam], c.sub.c_str(), c.a[0], c.a[1], c.a[2], c.s[0], c.s[1], c.s[2], c.worksize);
      for (size_t i = 0; i < n; ++i) std::fprintf(f, "%.17g %.17g %.17g\n", c.pos[i].x(), c.pos[i].y(), c.pos[i].z());
      std::fclose(f);
    }
    if (g_verbose)
      std::printf("INFO case=%" PRIu64 " family=%s n=%zu [%s] anchor=(%.6g %.6g %.6g) sides=(%.6g %.6g %.6g) worksize=%d\n", id, c.regname.c_str(), n, c.sub.c_str(),
                  c.a[0], c.a[1], c.a[2], c.s[0], c.s[1], c.s[2], c.worksize);

    GridRec gr[2];
    std::vector< CellGeo > cg[2];
    bool have[2] = {false, false};
    for (int ctor = 0; ctor < 2; ++ctor) {
      if (only_ctor != 2 && only_ctor != ctor) continue;
      if (skip[ctor]) continue;
      if (ctor == 1 && fam == LATTICE) { st.inc("old_skipped_exactly_degenerate"); continue; } // outside the stated domain of the old construction
      run_grid(c, ctor, gr[ctor]);
      GridRec &g = gr[ctor];
      st.inc(std::string("constructions_") + CTOR[ctor]);
      if (g.status == 3) {
        std::printf("HARNESS-ERROR case=%" PRIu64 " protocol error reading the child's output (%s)\n", id, g.err.c_str());
        std::printf("DONE violations=%" PRIu64 " (harness error)\n", vh::g_nviol);
        return 3;
      }
      if (g.status == 1) {
        C15_VIOL("crash", ctor, c, g.timeout ? "hang" : "abort", "%s construction %s (signal/exit %d) worksize=%d stderr: %s", CTOR[ctor],
                 g.timeout ? "did not finish within the CPU-time watchdog" : "died", g.sig, c.worksize, g.err.c_str());
        continue;
      }
      for (int dc = 0; dc < 2; ++dc) { // debugging aid: --cellA i --cellB j print the faces of these cells
        const uint64_t ci = vh::arg_u64(argc, argv, dc ? "--cellB" : "--cellA", (uint64_t)-1);
        if (ci < n) {
          std::printf("CELL %s %" PRIu64 " generator (%.17g %.17g %.17g) volume %.17g\n", CTOR[ctor], ci, c.pos[ci].x(), c.pos[ci].y(), c.pos[ci].z(), g.cells[ci].vol);
          for (size_t f = 0; f < g.cells[ci].faces.size(); ++f) {
            const FaceRec &fr = g.cells[ci].faces[f];
            std::printf("  face ngb=%#x area=%.10g mid=(%.10g %.10g %.10g) nv=%zu\n", fr.ngb, fr.area, fr.mid[0], fr.mid[1], fr.mid[2], fr.v.size() / 3);
          }
        }
      }
      st.inc(std::string("grids_built_") + CTOR[ctor] + "_" + FAMNAME[fam]);
      if (c.worksize > 1 && n > 100) st.inc(std::string("grids_built_multijob_threaded_") + CTOR[ctor]);
      if (g_selftest && ctor == 0 && g.cells.size() >= 2) {
        // the oracle must notice each of these corruptions of an otherwise valid answer
        size_t big = 0, bf = 0;
        for (size_t i = 0; i < n; ++i) if (g.cells[i].vol > g.cells[big].vol) big = i;
        CellRec &cl = g.cells[big];
        for (size_t f = 0; f < cl.faces.size(); ++f) if (cl.faces[f].area > cl.faces[bf].area) bf = f;
        if (g_selftest == 1) cl.vol *= 1. + 3e-10 * (double)n;                                  // volume sum / volume-faces
        if (g_selftest == 2) cl.faces.erase(cl.faces.begin() + (long)bf);                       // missing face: twin, closure
        if (g_selftest == 3) cl.faces[bf].area *= 1. + 1e-6;                                    // area: twin
        if (g_selftest == 4) for (int k = 0; k < 3; ++k) cl.faces[bf].mid[k] += 1e-6 * c.s[k];  // midpoint off the plane
        if (g_selftest == 5 && !g.idx.empty()) g.idx[g.idx.size() / 2] = (g.idx[g.idx.size() / 2] + 1) % (uint32_t)n; // locate
        if (g_selftest == 6) cl.vol = -cl.vol;                                                  // negative volume
        if (g_selftest == 7) for (int k = 0; k < 3; ++k) cl.cen[k] += 1e-6 * c.s[k];            // centroid: old vs new
        if (g_selftest == 8) cl.faces[bf].ngb = (uint32_t)big;                                  // face towards itself
      }
      const uint64_t before = g_all_viol;
      eval_grid(c, G, g, ctor, cg[ctor]);
      have[ctor] = (g_all_viol == before); // only valid tessellations are compared with each other
      if (have[ctor]) st.inc(std::string("grids_valid_") + CTOR[ctor] + "_" + FAMNAME[fam]);
      if (g.status == 2) {
        C15_VIOL("crash", ctor, c, "abort-locate", "get_index died (signal/exit %d) on a position inside the box; stderr: %s", g.sig, g.err.c_str());
      } else eval_locate(c, G, g, ctor);
    }
    if (have[0] && have[1]) {
      compare(c, G, gr[0], gr[1], cg[0], cg[1]);
      st.inc("grid_pairs_compared");
      st.inc(std::string("grid_pairs_compared_") + FAMNAME[fam]);
    }
    if (nsample < 2 && gr[0].status == 0) {
      ++nsample;
      LD vs = 0;
      size_t nf = 0;
      for (size_t i = 0; i < n; ++i) { vs += gr[0].cells[i].vol; nf += gr[0].cells[i].faces.size(); }
      std::printf("SAMPLE seed=%" PRIu64 " case=%" PRIu64 " family=%s n=%zu [%s] sides=(%.4g %.4g %.4g) worksize=%d: new grid %zu faces, sum V/Vbox-1=%.3Lg, old "
                  "grid %s\n", seed, id, FAMNAME[fam], n, c.sub.c_str(), c.s[0], c.s[1], c.s[2], c.worksize, nf, vs / G.vbox - 1,
                  fam == LATTICE ? "not required (exactly degenerate)" : (gr[1].status == 0 ? "built and compared" : "failed"));
    }
  }
  st.print();
  std::printf("DONE violations=%" PRIu64 "\n", vh::g_nviol);
  return vh::g_nviol ? 1 : 0;
}
