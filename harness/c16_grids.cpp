// C16: every position maps to exactly one cell; legacy grid traversal conserves
// path; neighbour searches return the brute-force answer.
//
// One harness, several families (--family cartesian|amr|amrgrid|voronoi|search).
// Every "case" (one grid / one point set and its battery of operations) runs in
// a forked child; batteries that can abort or hang run in grand-children that
// are restarted after the failing operation, so that an abort (cmac_error,
// SIGSEGV) or a hang on in-domain input becomes a violation with the witness
// input, and does not take the monitor down.
//
// Oracles (independent of the code under test): brute-force scans over all
// cells (box containment, nearest generator), slab intersection of the ray with
// every cell box (all periodic images), clipping of the ray against all
// bisector planes (Voronoi), an integer shadow tree for AMR refinement
// histories, O(n) scans per query for the search structures.
#include "AMRDensityGrid.hpp"
#include "AMRGrid.hpp"
#include "CartesianDensityGrid.hpp"
#include "MortonKeyGenerator.hpp"
#include "Octree.hpp"
#include "Photon.hpp"
#include "PointLocations.hpp"
#include "VoronoiDensityGrid.hpp"
#include "VoronoiGeneratorDistribution.hpp"
#include "vh.hpp"
#include <algorithm>
#include <cfloat>
#include <signal.h>
#include <fcntl.h>
#include <sys/mman.h>
#include <sys/resource.h>
#include <sys/wait.h>
#include <time.h>
#include <unistd.h>
#include <unordered_map>
#include <vector>
#ifdef _OPENMP
#include <omp.h>
#endif

typedef CoordinateVector<> CV;
static const double EPS = 2.220446049250313e-16;
static vh::Stats g_st;
static bool g_nofork = false;
static double g_tscale = 1.;
static int64_t g_debug_ray = -1;
static double g_inject = 0.; // self test of the monitor: relative error injected into the observed deposits

// ---------------------------------------------------------------------------
// process plumbing
// ---------------------------------------------------------------------------
struct Shared {
  volatile uint64_t nviol;
  volatile int64_t cur;
  volatile int phase;
  volatile int nw;
  volatile int regime; // index into g_regimes or -1
  volatile double w[16];
  uint64_t keyhash[128];
  uint32_t keycount[128];
};
static Shared *g_sh = nullptr;
// print at most g_key_print_limit lines per key and shard (all processes of the shard share the table); every
// violation is still counted (DONE total and the "violations[key]" counters)
static uint32_t g_key_print_limit = 1;
static bool c16_should_print(const char *key) {
  uint64_t h = 1469598103934665603ull;
  for (const char *c = key; *c; ++c) h = (h ^ (unsigned char)*c) * 1099511628211ull;
  if (!h) h = 1;
  for (int probe = 0; probe < 128; ++probe) {
    const int slot = (int)((h + probe) % 128);
    uint64_t cur = g_sh->keyhash[slot];
    if (cur == 0) cur = __sync_val_compare_and_swap(&g_sh->keyhash[slot], 0ull, h) ? g_sh->keyhash[slot] : h;
    if (cur == h) return __sync_fetch_and_add(&g_sh->keycount[slot], 1u) < g_key_print_limit;
  }
  return true;
}
#define C16_VIOL(key, caseid, ...)                                                                                                         \
  do {                                                                                                                                   \
    const std::string c16_k(key);                                                                                                        \
    g_st.inc("violations[" + c16_k + "]");                                                                                               \
    if (c16_should_print(c16_k.c_str())) {                                                                                               \
      const uint64_t c16_lim = vh::g_viol_print_limit;                                                                                   \
      vh::g_viol_print_limit = (uint64_t)-1;                                                                                             \
      VH_VIOL(c16_k.c_str(), caseid, __VA_ARGS__);                                                                                       \
      vh::g_viol_print_limit = c16_lim;                                                                                                  \
    } else {                                                                                                                             \
      ++vh::g_nviol;                                                                                                                     \
    }                                                                                                                                    \
  } while (0)
enum Phase { PH_CONSTRUCT = 0, PH_STRUCT, PH_NEIGHBOURS, PH_ENUM, PH_LOCATE, PH_RAY, PH_QUERY, PH_REFINE, PH_OTHER, PH_OCTREE_BUILD, PH_PL_BUILD, PH_OCTREE_QUERY, PH_PL_QUERY };
static const char *g_phase_names[] = {"construct", "structure", "neighbours", "enumerate", "locate", "ray", "query", "refine", "other", "octree-construct", "pointlocations-construct", "octree-query", "pointlocations-query"};

static const char *g_regimes[] = {"interior", "cell-face", "lower-wall", "upper-wall-ulp", "open", "periodic"};
static inline void set_phase(int ph) { g_sh->phase = ph; g_sh->nw = 0; g_sh->regime = -1; }
static inline void set_w(std::initializer_list< double > l) {
  int i = 0;
  for (double v : l) {
    if (i < 16) g_sh->w[i++] = v;
  }
  g_sh->nw = i;
}
static std::string w_string() {
  std::string s;
  char b[40];
  for (int i = 0; i < g_sh->nw; ++i) {
    std::snprintf(b, sizeof b, "%s%.17g", i ? "," : "", g_sh->w[i]);
    s += b;
  }
  return s;
}

static double now_s() {
  timespec ts;
  clock_gettime(CLOCK_MONOTONIC, &ts);
  return ts.tv_sec + 1e-9 * ts.tv_nsec;
}
// returns true on timeout (child killed).  The budget is CPU time of the child (robust against a loaded machine);
// wall time only as a backstop at 30 x the budget.
static bool wait_child(pid_t pid, double budget_s, int &status) {
  const double t0 = now_s();
  clockid_t cid;
  const bool have_cpu = clock_getcpuclockid(pid, &cid) == 0;
  useconds_t nap = 200;
  for (;;) {
    pid_t r = waitpid(pid, &status, WNOHANG);
    if (r == pid) return false;
    double cpu = -1.;
    if (have_cpu) {
      timespec ts;
      if (clock_gettime(cid, &ts) == 0) cpu = ts.tv_sec + 1e-9 * ts.tv_nsec;
    }
    const double wall = now_s() - t0;
    if ((cpu >= 0. && cpu > budget_s) || wall > std::fmax(30. * budget_s, 600.)) {
      kill(pid, SIGKILL);
      waitpid(pid, &status, 0);
      return true;
    }
    usleep(nap);
    if (nap < 5000) nap *= 2;
  }
}
static bool g_keep_stderr = false;
static void child_begin(uint64_t print_limit) {
  // backstops: bounded memory, and the library's diagnostics do not flood the parent
#if !defined(__SANITIZE_ADDRESS__) // (the sanitizer reserves terabytes of address space)
  struct rlimit rl;
  rl.rlim_cur = rl.rlim_max = (rlim_t)6 << 30;
  setrlimit(RLIMIT_AS, &rl);
#endif
  if (!g_keep_stderr) {
    const int fd = open("/dev/null", O_WRONLY);
    if (fd >= 0) {
      dup2(fd, 2);
      close(fd);
    }
  }
  vh::g_nviol = 0;
  vh::g_viol_print_limit = print_limit;
  g_st = vh::Stats();
}
static void child_end() {
  g_st.print();
  std::fflush(stdout);
  __sync_fetch_and_add(&g_sh->nviol, vh::g_nviol);
  _exit(0);
}
static std::string status_string(bool timed_out, int status) {
  char b[64];
  if (timed_out) return "no answer within the watchdog time";
  if (WIFSIGNALED(status)) {
    std::snprintf(b, sizeof b, "died with signal %d", WTERMSIG(status));
    return b;
  }
  std::snprintf(b, sizeof b, "exited with status %d", WEXITSTATUS(status));
  return b;
}

// run ops [0,nops) in a forked child; if the child dies/hangs in op i: report and restart at i+1
template < class F >
static void run_batch(const std::string &fam, int phase, uint64_t caseid, int64_t nops, double timeout_s, F op) {
  if (g_nofork) {
    g_sh->phase = phase;
    for (int64_t i = 0; i < nops; ++i) {
      g_sh->cur = i;
      op(i);
    }
    return;
  }
  int64_t start = 0;
  int failures = 0, hangs = 0;
  while (start < nops) {
    std::fflush(stdout);
    g_sh->cur = start;
    g_sh->phase = phase;
    g_sh->nw = 0;
    g_sh->regime = -1;
    pid_t pid = fork();
    if (pid < 0) {
      std::printf("FORKFAIL\n");
      std::exit(3);
    }
    if (pid == 0) {
      child_begin(6);
      for (int64_t i = start; i < nops; ++i) {
        g_sh->cur = i;
        op(i);
      }
      child_end();
    }
    int status = 0;
    const bool to = wait_child(pid, std::fmax(timeout_s, 0.6 + 0.004 * (double)(nops - start)) * g_tscale, status);
    if (!to && WIFEXITED(status) && WEXITSTATUS(status) == 0) break;
    const int64_t at = g_sh->cur;
    const int aph = g_sh->phase;
    std::string key = fam + (to ? "/hang/" : "/abort/") + g_phase_names[aph];
    if (g_sh->regime >= 0) key += std::string("@") + g_regimes[g_sh->regime];
    C16_VIOL(key.c_str(), caseid, "operation %" PRId64 " of the %s battery: process %s; input (%s)", at, g_phase_names[phase],
            status_string(to, status).c_str(), w_string().c_str());
    g_st.inc(std::string("crashes_") + g_phase_names[phase]);
    start = at + 1;
    if (to) ++hangs;
    if (++failures >= 300 || hangs >= 2) {
      g_st.inc("ops_skipped_after_repeated_crashes", (uint64_t)(nops - start));
      break;
    }
  }
}

template < class F > static void run_case(const std::string &fam, uint64_t caseid, double timeout_s, F fn) {
  if (g_nofork) {
    fn();
    return;
  }
  std::fflush(stdout);
  g_sh->phase = PH_CONSTRUCT;
  g_sh->nw = 0;
  pid_t pid = fork();
  if (pid < 0) {
    std::printf("FORKFAIL\n");
    std::exit(3);
  }
  if (pid == 0) {
    child_begin(12);
    fn();
    child_end();
  }
  int status = 0;
  const bool to = wait_child(pid, timeout_s * g_tscale, status);
  if (!to && WIFEXITED(status) && WEXITSTATUS(status) == 0) return;
  const int ph = g_sh->phase;
  const std::string key = fam + (to ? "/hang/" : "/abort/") + g_phase_names[ph];
  C16_VIOL(key.c_str(), caseid, "case process %s in phase %s; input (%s)", status_string(to, status).c_str(), g_phase_names[ph],
          w_string().c_str());
  g_st.inc("case_crashes");
}

// ---------------------------------------------------------------------------
// small helpers
// ---------------------------------------------------------------------------
static inline double dot(const CV &a, const CV &b) { return a.x() * b.x() + a.y() * b.y() + a.z() * b.z(); }
static inline double absmax3(const CV &a) { return std::fmax(std::fabs(a.x()), std::fmax(std::fabs(a.y()), std::fabs(a.z()))); }

struct Domain {
  double lo[3], hi[3], side[3];
  bool per[3];
  double L, P; // largest side, largest coordinate magnitude + L
  Box<> box() const { return Box<>(CV(lo[0], lo[1], lo[2]), CV(side[0], side[1], side[2])); }
  bool inside(const CV &p) const { return box().inside(p); }
};

static Domain random_domain(vh::Rng &r, bool allow_periodic, double max_aspect) {
  Domain D;
  const double L = r.chance(0.3) ? 1. : r.loguniform(1e-3, 1e3);
  const int akind = r.below(5);
  for (int i = 0; i < 3; ++i) {
    D.side[i] = L * (r.chance(0.4) ? 1. : r.uniform(1. / max_aspect, 1.));
    switch (akind) {
    case 0: D.lo[i] = 0.; break;
    case 1: D.lo[i] = -0.5 * D.side[i]; break;
    case 2: D.lo[i] = L * r.uniform(-2., 2.); break;
    case 3: D.lo[i] = L * r.uniform(-0.7, -0.3); break;
    default: D.lo[i] = L * (r.chance(0.5) ? 30. : -30.) * r.uniform(0.5, 1.); break;
    }
    D.per[i] = allow_periodic && r.chance(0.5);
  }
  if (allow_periodic && r.chance(0.45)) D.per[0] = D.per[1] = D.per[2] = false;
  if (allow_periodic && r.chance(0.1)) D.per[0] = D.per[1] = D.per[2] = true;
  const Box<> b = D.box();
  D.L = 0.;
  D.P = 0.;
  for (int i = 0; i < 3; ++i) {
    D.hi[i] = b.get_top_anchor()[i]; // the repo's own definition of the upper wall: fl(anchor+side)
    D.L = std::fmax(D.L, D.side[i]);
    D.P = std::fmax(D.P, std::fmax(std::fabs(D.lo[i]), std::fabs(D.hi[i])));
  }
  D.P += D.L;
  return D;
}

// cell boxes of a box-type grid (Cartesian cells, AMR leaves), from the grid's public accessors
struct BoxCells {
  std::vector< double > lo[3], hi[3];
  size_t size() const { return lo[0].size(); }
  void resize(size_t n) {
    for (int i = 0; i < 3; ++i) {
      lo[i].resize(n);
      hi[i].resize(n);
    }
  }
};

// brute-force containment scan. tol: absolute tolerance per axis.
// returns #cells whose box shrunk by tol contains p (strict), #cells whose box grown by tol contains p (loose);
// first_strict / whether `located` is in the loose set
struct ScanResult {
  size_t nstrict, nloose, first_strict;
  bool located_loose;
};
static ScanResult scan_cells(const BoxCells &C, const CV &p, const double tol[3], size_t located) {
  ScanResult R{0, 0, (size_t)-1, false};
  const size_t n = C.size();
  for (size_t c = 0; c < n; ++c) {
    bool strict = true, loose = true;
    for (int i = 0; i < 3; ++i) {
      const double x = p[i];
      if (!(x >= C.lo[i][c] - tol[i] && x <= C.hi[i][c] + tol[i])) {
        loose = false;
        break;
      }
      if (!(x > C.lo[i][c] + tol[i] && x < C.hi[i][c] - tol[i])) strict = false;
    }
    if (!loose) continue;
    ++R.nloose;
    if (c == located) R.located_loose = true;
    if (strict) {
      if (!R.nstrict) R.first_strict = c;
      ++R.nstrict;
    }
  }
  return R;
}

// ---------------------------------------------------------------------------
// opacities and the photon
// ---------------------------------------------------------------------------
struct Opacity {
  double sH, sHe, sC, weight;
  std::vector< double > n, xH, xHe, kappa;
  double kmin, kmean;
};
static Opacity random_opacity(vh::Rng &r, size_t ncell, double L, bool need_positive) {
  Opacity O;
  const double taubox = r.loguniform(0.1, 30.);
  O.sH = 2. * taubox / L;
  O.sHe = O.sH * r.uniform(0.2, 3.);
  O.sC = r.chance(0.5) ? 0. : O.sH * r.uniform(0.1, 0.5);
  O.weight = r.chance(0.5) ? 1. : r.uniform(0.1, 3.);
  O.n.resize(ncell);
  O.xH.resize(ncell);
  O.xHe.resize(ncell);
  O.kappa.resize(ncell);
  O.kmin = DBL_MAX;
  O.kmean = 0.;
  const double spread = need_positive ? 2.5 : 30.;
  for (size_t c = 0; c < ncell; ++c) {
    O.n[c] = r.loguniform(1. / spread, 1.) * 2.;
    O.xH[c] = need_positive ? r.uniform(0.4, 1.) : (r.chance(0.1) ? 0. : (r.chance(0.05) ? 1. : r.uniform(0., 1.)));
    O.xHe[c] = (need_positive || !r.chance(0.1)) ? r.uniform(0., 1.) : 0.;
    O.kappa[c] = O.n[c] * (O.sH * O.xH[c] + O.sC * O.xHe[c]);
    O.kmin = std::fmin(O.kmin, O.kappa[c]);
    O.kmean += O.kappa[c] / ncell;
  }
  return O;
}
static void apply_opacity(DensityGrid &grid, const Opacity &O) {
  for (auto it = grid.begin(); it != grid.end(); ++it) {
    IonizationVariables &iv = it.get_ionization_variables();
    const size_t c = it.get_index();
    iv.set_number_density(O.n[c]);
    iv.set_ionic_fraction(ION_H_n, O.xH[c]);
    iv.set_ionic_fraction(ION_He_n, O.xHe[c]);
    iv.set_mean_intensity(ION_H_n, 0.);
    iv.set_mean_intensity(ION_He_n, 0.);
  }
}
static Photon make_photon(const Opacity &O, const CV &o, const CV &d) {
  Photon ph(o, d, 4.e15);
  ph.set_cross_section(ION_H_n, O.sH);
  ph.set_cross_section(ION_He_n, O.sHe);
  ph.set_cross_section_He_corr(O.sC);
  ph.set_weight(O.weight);
  return ph;
}

// ---------------------------------------------------------------------------
// ray oracle bookkeeping shared by all grid types
// ---------------------------------------------------------------------------
struct Interval {
  double t0, t1;
  uint32_t c;
  double cosmin; // incidence cosine of the bounding planes (1 for unknown)
};
struct RayOracle {
  std::vector< Interval > iv; // sorted by t0
  double t_exit;              // parameter at which the ray leaves the domain (DBL_MAX if never)
  bool finite_exit;
};
struct RayObs {
  std::vector< double > pH, pHe; // per-cell path recovered from the two estimators
  bool escaped;
  size_t last;
  CV end;
};
struct RayTol {
  double eps_pos_step; // position round-off per step (absolute)
  double dmin;         // smallest non-zero |direction component| (box grids) / 1 (Voronoi: uses cosmin)
  double nudge_allow;  // allowed un-deposited forward displacement (Voronoi epsilon pushes)
  double base_delta;   // extra absolute slack on wall parameters
  double plane_tol;    // positional accuracy of the cell faces themselves (Voronoi construction tolerance), divided by the incidence cosine
};

static CV random_direction(vh::Rng &r) {
  for (;;) {
    const double ct = r.uniform(-1., 1.), phi = r.uniform(0., 2. * M_PI);
    const double st = std::sqrt(std::fmax(0., 1. - ct * ct));
    CV d(st * std::cos(phi), st * std::sin(phi), ct);
    if (std::fabs(d.x()) >= 1e-6 && std::fabs(d.y()) >= 1e-6 && std::fabs(d.z()) >= 1e-6) return d;
  }
}
static CV normalized(CV d) {
  const double n = d.norm();
  return CV(d.x() / n, d.y() / n, d.z() / n);
}

// read and reset the estimators; returns the per-cell deposits
static void harvest(DensityGrid &grid, const Opacity &O, RayObs &obs) {
  const size_t n = grid.get_number_of_cells();
  obs.pH.assign(n, 0.);
  obs.pHe.assign(n, 0.);
  for (auto it = grid.begin(); it != grid.end(); ++it) {
    IonizationVariables &iv = it.get_ionization_variables();
    const size_t c = it.get_index();
    if (c >= n) break;
    const double jH = iv.get_mean_intensity(ION_H_n), jHe = iv.get_mean_intensity(ION_He_n);
    if (jH != 0. || jHe != 0.) {
      obs.pH[c] = jH / (O.weight * O.sH) * (1. + g_inject);
      obs.pHe[c] = jHe / (O.weight * O.sHe);
      iv.set_mean_intensity(ION_H_n, 0.);
      iv.set_mean_intensity(ION_He_n, 0.);
    }
  }
}

// The judgement of one traced photon.  `regime` is appended to the keys.
static void check_ray(const std::string &fam, const std::string &regime, uint64_t caseid, int64_t rayid, const Domain &D,
                      const RayOracle &R, const Opacity &O, const RayObs &obs_in, const CV &o, const CV &d, double tau_target,
                      const RayTol &T, double min_cell_size, bool tiles) {
  RayObs obs = obs_in;
  const size_t ncell = obs.pH.size();
  bool skip_absorbing_cell = false;
  auto viol = [&](const char *clause, const char *fmt, double a, double b, double c) {
    // key groups: all geometric clauses (deposited chords, path sum, end point, absorbing cell) share ".../ray/path"
    std::string group = clause;
    if (group != "tau-used" && group != "flag" && group != "estimators-disagree") group = "path";
    const std::string key = fam + "/ray/" + group + ((D.per[0] || D.per[1] || D.per[2]) ? "@periodic" : "@open");
    char buf[300];
    const int pre = std::snprintf(buf, sizeof buf, "[%s] ", clause);
    std::snprintf(buf + pre, sizeof buf - pre, fmt, a, b, c);
    C16_VIOL(key.c_str(), caseid, "ray %" PRId64 " (%s): %s | start=(%.17g,%.17g,%.17g) dir=(%.17g,%.17g,%.17g) tau=%.17g %s", rayid, regime.c_str(), buf, o.x(), o.y(), o.z(), d.x(),
            d.y(), d.z(), tau_target, obs.escaped ? "reported-escaped" : "reported-absorbed");
  };
  auto viol_plain = [&](const char *clause, const char *fmt, double a, double b, double c) {
    const std::string key = fam + "/ray/" + clause;
    char buf[256];
    std::snprintf(buf, sizeof buf, fmt, a, b, c);
    C16_VIOL(key.c_str(), caseid, "ray %" PRId64 " (%s): %s | start=(%.17g,%.17g,%.17g) dir=(%.17g,%.17g,%.17g) tau=%.17g", rayid, regime.c_str(), buf, o.x(), o.y(), o.z(), d.x(), d.y(), d.z(),
            tau_target);
  };
  // totals
  double S = 0., tau_used = 0., ksum_path = 0.;
  size_t ndep = 0;
  for (size_t c = 0; c < ncell; ++c) {
    if (obs.pH[c] != 0. || obs.pHe[c] != 0.) {
      ++ndep;
      S += obs.pH[c];
      tau_used += O.kappa[c] * obs.pH[c];
      if (std::fabs(obs.pH[c] - obs.pHe[c]) > 1e-12 * (std::fabs(obs.pH[c]) + std::fabs(obs.pHe[c])) + 1e-300)
        viol("estimators-disagree", "cell %.0f: path from H estimator %.17g, from He estimator %.17g", (double)c, obs.pH[c], obs.pHe[c]);
    }
  }
  // number of oracle steps up to S
  size_t k = 0;
  for (const Interval &I : R.iv)
    if (I.t0 < S + 0.01 * min_cell_size) ++k;
  const double pos_err = (8. + 4. * k) * T.eps_pos_step;
  double cosmin = 1.;
  for (const Interval &I : R.iv)
    if (I.t0 < S + 0.01 * min_cell_size) cosmin = std::fmin(cosmin, I.cosmin);
  // unwrapped end position
  double dist = 0.;
  CV endu = obs.end;
  for (int i = 0; i < 3; ++i) {
    if (D.per[i]) {
      const double m = std::round((o[i] + S * d[i] - obs.end[i]) / D.side[i]);
      endu[i] = obs.end[i] + m * D.side[i];
    }
  }
  dist = dot(endu - o, d);
  const double nudge = dist - S;
  const double delta = 2. * pos_err / (T.dmin * cosmin) + T.plane_tol / cosmin + T.base_delta + std::fmax(0., nudge) + 4. * EPS * D.L;
  const double tolc = 2. * delta * (1 + 0.01 * k) + 8. * EPS * S * (k + 1); // tolerance of one deposited chord / of the total path
  const bool ill = !(delta < 0.05 * min_cell_size);
  g_st.maxd(fam + "_max_delta_over_L", delta / D.L);
  if (ill) g_st.inc(fam + "_rays_ill_conditioned_percell_skipped");
  if (g_debug_ray == rayid) {
    std::printf("DEBUG ray %" PRId64 " S=%.17g dist=%.17g delta=%.3g escaped=%d last=%zu end=(%.17g,%.17g,%.17g) t_exit=%.17g\n", rayid, S, dist, delta, obs.escaped, obs.last,
                obs.end.x(), obs.end.y(), obs.end.z(), R.t_exit);
    for (const Interval &I : R.iv) std::printf("DEBUG   oracle cell %u [%.17g,%.17g] kappa=%.6g cos=%.3g\n", I.c, I.t0, I.t1, O.kappa[I.c], I.cosmin);
    for (size_t c = 0; c < ncell; ++c)
      if (obs.pH[c] != 0.) std::printf("DEBUG   deposit cell %zu %.17g\n", c, obs.pH[c]);
  }
  // a photon reported as escaped must sit on a non-periodic wall of the box; if it is well inside, the flag is wrong
  // whatever the optical depths are: report that once (regime-free key) and judge the rest as an absorbed photon
  if (obs.escaped) {
    double wd = DBL_MAX;
    for (int i = 0; i < 3; ++i)
      if (!D.per[i]) wd = std::fmin(wd, std::fmin(std::fabs(obs.end[i] - D.lo[i]), std::fabs(obs.end[i] - D.hi[i])));
    const bool stopped_short = R.finite_exit && S < R.t_exit - (tolc + T.nudge_allow);
    if (wd > 4. * pos_err + 4. * EPS * D.P + 4. * delta || stopped_short) {
      viol_plain("escaped-inside-box", "reported as escaped, but the photon stopped inside the box at (%.17g,%.17g,%.17g)", obs.end.x(), obs.end.y(), obs.end.z());
      g_st.inc(fam + "_rays_escaped_inside_box");
      obs.escaped = false;
      skip_absorbing_cell = true;
    }
  }
  // (a) path sum == straight-line travel
  {
    const CV perp = endu - o - dist * d;
    const double ptol = 4. * pos_err + 4. * EPS * D.P;
    if (absmax3(perp) > ptol) viol("end-off-line", "end position is %.3g off the ray (tolerance %.3g), dist along ray %.17g", absmax3(perp), ptol, dist);
    // a wall crossing parameter is uncertain by delta: a step of that size can be taken (and deposited) in either direction,
    // e.g. the AMR grid deposits the absolute value of a round-off step backwards
    if (nudge < -(ptol + tolc) || nudge > T.nudge_allow + ptol + tolc)
      viol("path-sum", "sum of deposited paths %.17g but straight distance travelled %.17g (difference %.3g)", S, dist, nudge);
    for (int i = 0; i < 3; ++i)
      if (obs.end[i] < D.lo[i] - ptol || obs.end[i] > D.hi[i] + ptol)
        viol("end-outside-box", "end coordinate %.0f = %.17g outside the box (tolerance %.3g)", (double)i, obs.end[i], ptol);
  }
  // (c) per-cell chords given the observed total path, and the oracle's total optical depth
  static std::vector< double > expd;
  static std::vector< uint32_t > touched;
  if (expd.size() < ncell) expd.assign(ncell, 0.);
  touched.clear();
  double tau_total = 0., covered = 0., tau_touched = 0.;
  const double Seff = obs.escaped ? DBL_MAX : std::fmax(dist, S);
  for (const Interval &I : R.iv) {
    tau_total += O.kappa[I.c] * (I.t1 - I.t0);
    covered += I.t1 - I.t0;
    if (I.t0 < Seff + 2. * delta) {
      touched.push_back(I.c);
      expd[I.c] += std::fmax(0., std::fmin(I.t1, Seff) - I.t0);
      ksum_path += O.kappa[I.c];
      tau_touched += O.kappa[I.c] * (I.t1 - I.t0);
    }
  }
  // (b) optical depth used
  // round-off of the optical depth bookkeeping: relative to the target plus the full optical depth of the cells involved
  // (the surplus correction in the last cell cancels against that cell's full optical depth; a cell chord is < 2 L)
  double kdep = 0.;
  for (size_t c = 0; c < ncell; ++c)
    if (obs.pH[c] != 0.) kdep = std::fmax(kdep, O.kappa[c]);
  const double ttol = (64. + 8. * k) * EPS * (tau_target + tau_touched + 2. * kdep * D.L) + 1e-300;
  if (!obs.escaped) {
    if (std::fabs(tau_used - tau_target) > ttol) viol("tau-used", "absorbed, but sum opacity*path = %.17g differs from the target by %.3g (tolerance %.3g)", tau_used, tau_used - tau_target, ttol);
  } else {
    if (tau_used > tau_target + ttol) viol("tau-used", "escaped, but sum opacity*path = %.17g exceeds the target by %.3g (tolerance %.3g)", tau_used, tau_used - tau_target, ttol);
  }
  if (!ill) {
    size_t nbad = 0;
    for (size_t c = 0; c < ncell && nbad < 2; ++c) {
      const double e = expd[c];
      if (obs.pH[c] == 0. && e == 0.) continue;
      const double tol = tolc;
      if (std::fabs(obs.pH[c] - e) > tol) {
        ++nbad;
        viol("cell-path", "cell %.0f: deposited path %.17g, chord of the straight line %.17g", (double)c, obs.pH[c], e);
      }
    }
    g_st.inc(fam + "_ray_cells_compared", ndep);
  }
  for (uint32_t c : touched) expd[c] = 0.;
  // (d) absorbed / escaped flag
  const double dtau = std::fmax(1e-10 * tau_target, 2. * delta * ksum_path + ttol) + 1e-300;
  if (R.finite_exit) {
    const bool oracle_abs = tau_total > tau_target;
    if (std::fabs(tau_total - tau_target) <= dtau) {
      g_st.inc(fam + "_rays_flag_tie");
    } else if (oracle_abs && obs.escaped) {
      viol_plain("escaped-inside-box", "reported as escaped although the optical depth up to the box wall, %.17g, exceeds the target (tie width %.3g)", tau_total, dtau, 0.);
    } else if (!oracle_abs && !obs.escaped) {
      viol("flag", "reported as absorbed although the optical depth up to the box wall is only %.17g (tie width %.3g)", tau_total, dtau, 0.);
    }
    if (obs.escaped) {
      if (std::fabs(S - R.t_exit) > tolc + T.nudge_allow)
        viol("escape-path", "escaped after path %.17g but the box wall is at %.17g (tolerance %.3g)", S, R.t_exit, 2. * delta);
    }
    // oracle self check: the cells tile the ray
    if (tiles && std::fabs(covered - R.t_exit) > 2. * delta * (1 + 0.01 * R.iv.size()) && !ill)
      viol("cells-do-not-tile-ray", "sum of chords over all cells %.17g but ray length in the box %.17g (difference %.3g)", covered, R.t_exit, covered - R.t_exit);
  } else {
    if (obs.escaped) viol("flag", "photon cannot leave a domain that is periodic along its direction (oracle tau %.3g, tie %.3g)", tau_total, dtau, 0.);
  }
  // (e) absorbing cell
  if (!obs.escaped && !ill && !skip_absorbing_cell) {
    // a cell that the ray only clips within round-off (non-zero deposit <= 2 delta) is a legitimate answer
    bool ok = obs.last < ncell && obs.pH[obs.last] != 0. && std::fabs(obs.pH[obs.last]) <= 2. * delta;
    for (const Interval &I : R.iv)
      if (I.c == obs.last && dist >= I.t0 - 2. * delta && dist <= I.t1 + 2. * delta) ok = true;
    if (!ok) viol("absorbing-cell", "reported cell %.0f does not contain the point at distance %.17g along the ray", (double)obs.last, dist, 0.);
  }
  g_st.inc(fam + "_rays");
  g_st.inc(fam + (obs.escaped ? "_rays_escaped" : "_rays_absorbed"));
  g_st.inc(fam + "_rays_" + regime);
}

// slab intersection of the ray with all cell boxes in all needed periodic images
static void box_ray_oracle(const Domain &D, const BoxCells &C, const CV &o, const CV &d, double t_cap, RayOracle &R) {
  R.iv.clear();
  double texit = DBL_MAX;
  for (int i = 0; i < 3; ++i) {
    if (D.per[i] || d[i] == 0.) continue;
    const double t = ((d[i] > 0. ? D.hi[i] : D.lo[i]) - o[i]) / d[i];
    texit = std::fmin(texit, t);
  }
  R.finite_exit = texit < DBL_MAX;
  R.t_exit = texit;
  const double tlim = std::fmin(texit, t_cap);
  int K[3];
  for (int i = 0; i < 3; ++i) K[i] = (D.per[i] && d[i] != 0.) ? (int)std::floor(tlim * std::fabs(d[i]) / D.side[i]) + 2 : 0;
  const size_t n = C.size();
  for (int kx = 0; kx <= K[0]; ++kx)
    for (int ky = 0; ky <= K[1]; ++ky)
      for (int kz = 0; kz <= K[2]; ++kz) {
        const int kk[3] = {kx, ky, kz};
        double sh[3];
        // does the ray hit this image of the whole domain before tlim?
        double a = 0., b = tlim;
        for (int i = 0; i < 3; ++i) {
          sh[i] = (d[i] > 0. ? 1. : -1.) * kk[i] * D.side[i];
          const double lo = D.lo[i] + sh[i], hi = D.hi[i] + sh[i];
          if (d[i] == 0.) {
            if (!(o[i] >= lo && o[i] < hi)) b = -1.;
          } else {
            double ta = (lo - o[i]) / d[i], tb = (hi - o[i]) / d[i];
            if (ta > tb) std::swap(ta, tb);
            a = std::fmax(a, ta);
            b = std::fmin(b, tb);
          }
        }
        if (!(b > a)) continue;
        for (size_t c = 0; c < n; ++c) {
          double t0 = 0., t1 = tlim;
          for (int i = 0; i < 3 && t1 > t0; ++i) {
            const double lo = C.lo[i][c] + sh[i], hi = C.hi[i][c] + sh[i];
            if (d[i] == 0.) {
              if (!(o[i] >= lo && o[i] < hi)) t1 = -1.;
            } else {
              double ta = (lo - o[i]) / d[i], tb = (hi - o[i]) / d[i];
              if (ta > tb) std::swap(ta, tb);
              t0 = std::fmax(t0, ta);
              t1 = std::fmin(t1, tb);
            }
          }
          if (t1 > t0) R.iv.push_back(Interval{t0, t1, (uint32_t)c, 1.});
        }
      }
  std::sort(R.iv.begin(), R.iv.end(), [](const Interval &x, const Interval &y) { return x.t0 < y.t0 || (x.t0 == y.t0 && x.t1 < y.t1); });
}

// positions for box grids.  kind: 0 interior, 1 on a cell face/edge/corner, 2 on the lower box walls, 3 one ulp below the upper walls
static CV box_position(vh::Rng &r, const Domain &D, const BoxCells &C, int kind) {
  for (int attempt = 0; attempt < 100; ++attempt) {
    CV p;
    if (kind == 0) {
      for (int i = 0; i < 3; ++i) p[i] = D.lo[i] + D.side[i] * r.uniform();
    } else if (kind == 1) {
      const size_t c = r.below(C.size());
      const int forced = r.below(3);
      for (int i = 0; i < 3; ++i) {
        const int how = (i == forced) ? 1 + (int)r.below(2) : (int)r.below(3);
        p[i] = how == 0 ? C.lo[i][c] + (C.hi[i][c] - C.lo[i][c]) * r.uniform() : (how == 1 ? C.lo[i][c] : C.hi[i][c]);
      }
    } else if (kind == 2) {
      const int forced = r.below(3);
      for (int i = 0; i < 3; ++i) p[i] = (i == forced || r.chance(0.4)) ? D.lo[i] : D.lo[i] + D.side[i] * r.uniform();
    } else {
      const int forced = r.below(3);
      for (int i = 0; i < 3; ++i)
        p[i] = (i == forced || r.chance(0.4)) ? vh::nextdown(D.hi[i], 1 + (int)r.below(2)) : D.lo[i] + D.side[i] * r.uniform();
    }
    if (D.inside(p)) return p;
    if (kind == 1) {
      // a face on the upper wall is outside the half-open box: pull those coordinates inside
      for (int i = 0; i < 3; ++i)
        if (!(p[i] < D.hi[i])) p[i] = D.lo[i] + D.side[i] * r.uniform();
      if (D.inside(p)) return p;
    }
  }
  CV p;
  for (int i = 0; i < 3; ++i) p[i] = D.lo[i] + 0.5 * D.side[i];
  return p;
}
// within round-off (8 eps x coordinate scale) of the upper wall on some axis (the regime "upper-wall-ulp")
static bool near_upper_wall(const Domain &D, const CV &p) {
  for (int i = 0; i < 3; ++i)
    if (p[i] >= D.hi[i] - 8. * EPS * std::fmax(std::fabs(D.lo[i]), std::fabs(D.hi[i]))) return true;
  return false;
}
static inline int regime_index(const Domain &D, const CV &p, int kind) { return near_upper_wall(D, p) ? 3 : kind; }
static const char *g_poskind[] = {"interior", "cell-face", "lower-wall", "upper-wall-ulp"};

// ==== FAMILIES ====
// ---------------------------------------------------------------------------
// generic pieces for DensityGrid implementations with box cells
// ---------------------------------------------------------------------------
static void check_iteration(const std::string &fam, uint64_t caseid, DensityGrid &grid) {
  set_phase(PH_ENUM);
  const size_t n = grid.get_number_of_cells();
  std::vector< uint32_t > seen(n, 0);
  size_t steps = 0;
  bool bad = false;
  for (auto it = grid.begin(); it != grid.end(); ++it) {
    const size_t c = it.get_index();
    if (c >= n) {
      C16_VIOL((fam + "/iterate/index-out-of-range").c_str(), caseid, "iterator visits index %zu of %zu cells", c, n);
      bad = true;
      break;
    }
    ++seen[c];
    if (++steps > 4 * n + 16) {
      C16_VIOL((fam + "/iterate/does-not-end").c_str(), caseid, "begin()..end() made more than %zu steps for %zu cells", steps, n);
      bad = true;
      break;
    }
  }
  for (size_t c = 0; c < n && !bad; ++c)
    if (seen[c] != 1) {
      C16_VIOL((fam + "/iterate/not-exactly-once").c_str(), caseid, "cell %zu visited %u times", c, seen[c]);
      bad = true;
    }
  g_st.inc(fam + "_cells_iterated", steps);
}

static void check_volume(const std::string &fam, uint64_t caseid, DensityGrid &grid, const Domain &D, double reltol) {
  set_phase(PH_STRUCT);
  const size_t n = grid.get_number_of_cells();
  long double sum = 0.;
  double vmin = DBL_MAX;
  for (size_t c = 0; c < n; ++c) {
    const double v = grid.get_cell_volume(c);
    sum += v;
    vmin = std::fmin(vmin, v);
  }
  const double vbox = D.side[0] * D.side[1] * D.side[2];
  const double rel = std::fabs((double)sum - vbox) / vbox;
  g_st.maxd(fam + "_max_rel_volume_error", rel);
  if (!(rel <= reltol)) C16_VIOL((fam + "/volume-sum").c_str(), caseid, "sum of %zu cell volumes %.17g, box volume %.17g, rel. difference %.3g", n, (double)sum, vbox, rel);
  if (!(vmin > 0.)) C16_VIOL((fam + "/volume-not-positive").c_str(), caseid, "smallest cell volume %.17g", vmin);
  g_st.inc(fam + "_volume_sums");
}

// the location clause for grids with box cells
static void locate_battery(const std::string &fam, uint64_t caseid, DensityGrid &grid, const Domain &D, const BoxCells &C, vh::Rng rbase,
                           int64_t nloc) {
  for (int pass = 0; pass < 2; ++pass)
  run_batch(fam, PH_LOCATE, caseid, nloc, 0., [&](int64_t i) {
    vh::Rng r = rbase.fork(i);
    const int kr = r.below(100);
    const int kind = kr < 55 ? 0 : (kr < 85 ? 1 : (kr < 93 ? 2 : 3));
    const CV p = box_position(r, D, C, kind);
    // positions within round-off of the upper wall run in a pass of their own (they may abort)
    if ((regime_index(D, p, kind) == 3) != (pass == 1)) return;
    set_w({p.x(), p.y(), p.z()});
    g_sh->regime = regime_index(D, p, kind);
    const size_t n = C.size();
    const size_t idx = grid.get_cell_index(p);
    std::string reg = g_poskind[kind];
    if (near_upper_wall(D, p)) reg = g_poskind[3];
    g_st.inc(fam + "_locates");
    g_st.inc(fam + "_locates_" + reg);
    if (idx >= n) {
      C16_VIOL((fam + "/locate/index-out-of-range@" + reg).c_str(), caseid, "position (%.17g,%.17g,%.17g) [%a,%a,%a] inside the half-open box is located in cell %zu of %zu",
              p.x(), p.y(), p.z(), p.x(), p.y(), p.z(), idx, n);
      return;
    }
    double tol[3];
    for (int a = 0; a < 3; ++a) tol[a] = 8. * EPS * std::fmax(std::fabs(D.lo[a]), std::fabs(D.hi[a]));
    const ScanResult s = scan_cells(C, p, tol, idx);
    if (!s.located_loose) {
      C16_VIOL((fam + "/locate/cell-does-not-contain@" + reg).c_str(), caseid,
              "position (%.17g,%.17g,%.17g) located in cell %zu = [%.17g,%.17g]x[%.17g,%.17g]x[%.17g,%.17g] (tolerance %.3g)", p.x(), p.y(), p.z(), idx,
              C.lo[0][idx], C.hi[0][idx], C.lo[1][idx], C.hi[1][idx], C.lo[2][idx], C.hi[2][idx], tol[0]);
    }
    if (s.nloose == 0) C16_VIOL((fam + "/locate/in-no-cell@" + reg).c_str(), caseid, "position (%.17g,%.17g,%.17g) lies in no cell box", p.x(), p.y(), p.z());
    if (s.nstrict > 1) C16_VIOL((fam + "/locate/in-several-cells@" + reg).c_str(), caseid, "position (%.17g,%.17g,%.17g) lies strictly inside %zu cell boxes", p.x(), p.y(), p.z(), s.nstrict);
    if (s.nstrict == 1 && s.first_strict != idx)
      C16_VIOL((fam + "/locate/wrong-cell@" + reg).c_str(), caseid, "position (%.17g,%.17g,%.17g) is strictly inside cell %zu but located in %zu", p.x(), p.y(), p.z(), s.first_strict, idx);
    if (s.nstrict == 1 && s.nloose == 1) g_st.inc(fam + "_locates_unique_strict");
    if (s.nloose > 1) g_st.inc(fam + "_locates_on_shared_boundary");
  });
}

// the traversal clause for grids with box cells
struct RayPlan {
  CV o, d;
  std::string regime;
  int kind; // start kind: 0 interior, 1 cell face/edge/corner, 2 lower box wall
};
static RayPlan plan_box_ray(vh::Rng &r, const Domain &D, const BoxCells &C) {
  RayPlan P;
  const int sk = r.below(100);
  const int dk = r.below(100);
  if (sk < 62) {
    P.o = box_position(r, D, C, 0);
    P.regime = "interior";
    P.kind = 0;
    if (dk < 70) {
      P.d = random_direction(r);
    } else if (dk < 85) { // axis aligned: one or two zero components
      CV d = random_direction(r);
      const int z1 = r.below(3);
      d[z1] = r.chance(0.2) ? -0. : 0.;
      if (r.chance(0.5)) d[(z1 + 1 + r.below(2)) % 3] = 0.;
      P.d = normalized(d);
      P.regime = "interior+axis-aligned";
    } else { // grazing: one tiny component
      CV d = random_direction(r);
      d[r.below(3)] = (r.chance(0.5) ? 1. : -1.) * r.loguniform(1e-8, 1e-5);
      P.d = normalized(d);
      P.regime = "interior+grazing";
    }
  } else if (sk < 88) {
    P.o = box_position(r, D, C, 1);
    P.d = random_direction(r);
    P.regime = "cell-face";
    P.kind = 1;
    if (dk < 15) { // along the cell diagonal: through successive corners
      const size_t c = r.below(C.size());
      CV d;
      for (int i = 0; i < 3; ++i) {
        d[i] = (C.hi[i][c] - C.lo[i][c]) * (r.chance(0.5) ? 1. : -1.);
        P.o[i] = C.lo[i][c];
      }
      if (!D.inside(P.o)) P.o = box_position(r, D, C, 1);
      P.d = normalized(d);
      P.regime = "corner+diagonal";
    }
  } else {
    P.o = box_position(r, D, C, 2);
    P.d = random_direction(r);
    P.regime = "lower-wall";
    P.kind = 2;
  }
  // start positions within a few ulp of the upper wall belong to the location clause only
  for (int i = 0; i < 3; ++i)
    if (P.o[i] >= D.hi[i] - 8. * EPS * std::fmax(std::fabs(D.lo[i]), std::fabs(D.hi[i]))) P.o[i] = D.lo[i] + D.side[i] * r.uniform(0.05, 0.95);
  return P;
}

static void ray_battery(const std::string &fam, uint64_t caseid, DensityGrid &grid, const Domain &D, const BoxCells &C, const Opacity &O, vh::Rng rbase,
                        int64_t nrays, bool with_integrate) {
  double mincell = DBL_MAX;
  for (size_t c = 0; c < C.size(); ++c)
    for (int i = 0; i < 3; ++i) mincell = std::fmin(mincell, C.hi[i][c] - C.lo[i][c]);
  const bool anyper = D.per[0] || D.per[1] || D.per[2];
  double kmax = 0.;
  for (double kv : O.kappa) kmax = std::fmax(kmax, kv);
  run_batch(fam, PH_RAY, caseid, nrays, 0., [&](int64_t i) {
    vh::Rng r = rbase.fork(i);
    RayPlan P = plan_box_ray(r, D, C);
    RayOracle R;
    double tau_target;
    if (anyper) {
      tau_target = O.kmean * D.L * r.loguniform(1e-3, 2.5);
      box_ray_oracle(D, C, P.o, P.d, 1.1 * tau_target / O.kmin + 2. * mincell, R);
    } else {
      box_ray_oracle(D, C, P.o, P.d, DBL_MAX, R);
      double tt = 0.;
      for (const Interval &I : R.iv) tt += O.kappa[I.c] * (I.t1 - I.t0);
      const int tk = r.below(100);
      if (tt <= 0.) tau_target = r.loguniform(1e-6, 10.);
      else if (tk < 45) tau_target = tt * r.loguniform(1e-6, 1.);
      else if (tk < 80) tau_target = tt * r.loguniform(1., 10.);
      else if (tk < 88) tau_target = tt * (1. + r.uniform(-1., 1.) * r.loguniform(1e-15, 1e-8));
      else if (tk < 92) tau_target = tt;
      else tau_target = tt * r.loguniform(1e-14, 1e-6);
    }
    double dmin = 1.;
    for (int a = 0; a < 3; ++a)
      if (P.d[a] != 0.) dmin = std::fmin(dmin, std::fabs(P.d[a]));
    set_w({P.o.x(), P.o.y(), P.o.z(), P.d.x(), P.d.y(), P.d.z(), tau_target});
    // the start position must be locatable (a failure here belongs to the location clause)
    g_sh->regime = P.kind;
    g_sh->phase = PH_LOCATE;
    const size_t idx0 = grid.get_cell_index(P.o);
    g_sh->phase = PH_RAY;
    g_sh->regime = anyper ? 5 : 4;
    bool start_ok = idx0 < C.size();
    for (int a = 0; a < 3 && start_ok; ++a) {
      const double tl = 8. * EPS * std::fmax(std::fabs(D.lo[a]), std::fabs(D.hi[a]));
      if (!(P.o[a] >= C.lo[a][idx0] - tl && P.o[a] <= C.hi[a][idx0] + tl)) start_ok = false;
    }
    if (!start_ok) { // a failure of the location clause (reported there); tracing from a wrong cell proves nothing new
      g_st.inc(fam + "_rays_skipped_start_mislocated");
      return;
    }
    Photon ph = make_photon(O, P.o, P.d);
    DensityGrid::iterator it = grid.interact(ph, tau_target);
    RayObs obs;
    obs.escaped = (it == grid.end());
    obs.last = it.get_index();
    obs.end = ph.get_position();
    harvest(grid, O, obs);
    if (g_debug_ray == i) {
      auto pb = [&](const char *what, size_t c) {
        if (c < C.size()) std::printf("DEBUG %s cell %zu box [%.17g,%.17g]x[%.17g,%.17g]x[%.17g,%.17g]\n", what, c, C.lo[0][c], C.hi[0][c], C.lo[1][c], C.hi[1][c], C.lo[2][c], C.hi[2][c]);
      };
      pb("start-located", idx0);
      for (size_t c = 0; c < C.size(); ++c)
        if (obs.pH[c] != 0.) pb("deposit", c);
    }
    RayTol T{EPS * D.P, dmin, 0., 0., 0.};
    check_ray(fam, P.regime + (anyper ? "+periodic" : ""), caseid, i, D, R, O, obs, P.o, P.d, tau_target, T, mincell, !anyper);
    if (with_integrate && !anyper) {
      Photon ph2 = make_photon(O, P.o, P.d);
      const double ti = grid.integrate_optical_depth(ph2);
      double tt = 0., ks = 2. * kmax;
      for (const Interval &I : R.iv) {
        tt += O.kappa[I.c] * (I.t1 - I.t0);
        ks += O.kappa[I.c];
      }
      const double delta = 2. * (8. + 4. * R.iv.size()) * EPS * D.P / dmin + 4. * EPS * D.L;
      if (std::fabs(ti - tt) > 2. * delta * ks + 64. * EPS * tt * (1 + R.iv.size()))
        C16_VIOL((fam + "/ray/integrated-tau@" + P.regime).c_str(), caseid, "ray %" PRId64 ": integrate_optical_depth %.17g, oracle %.17g | start=(%.17g,%.17g,%.17g) dir=(%.17g,%.17g,%.17g)",
                i, ti, tt, P.o.x(), P.o.y(), P.o.z(), P.d.x(), P.d.y(), P.d.z());
      g_st.inc(fam + "_integrated_tau_compared");
    }
  });
}

// ---------------------------------------------------------------------------
// family: cartesian
// ---------------------------------------------------------------------------
static void cartesian_case(uint64_t caseid, vh::Rng r, int64_t nloc, int64_t nrays) {
  const std::string fam = "cartesian";
  Domain D = random_domain(r, true, 8.);
  static const int choices[] = {1, 2, 3, 4, 5, 6, 7, 8, 9, 10, 11, 12, 13, 16, 20};
  int nc[3];
  for (;;) {
    for (int i = 0; i < 3; ++i) nc[i] = choices[r.below(sizeof(choices) / sizeof(int))];
    if ((long)nc[0] * nc[1] * nc[2] <= 2600) break;
  }
  set_phase(PH_CONSTRUCT);
  set_w({D.lo[0], D.lo[1], D.lo[2], D.side[0], D.side[1], D.side[2], (double)nc[0], (double)nc[1], (double)nc[2], (double)D.per[0], (double)D.per[1], (double)D.per[2]});
  CartesianDensityGrid grid(D.box(), CoordinateVector< int_fast32_t >(nc[0], nc[1], nc[2]), CoordinateVector< bool >(D.per[0], D.per[1], D.per[2]), false, nullptr);
  const size_t n = grid.get_number_of_cells();
  if (n != (size_t)nc[0] * nc[1] * nc[2]) C16_VIOL("cartesian/number-of-cells", caseid, "%zu cells for %dx%dx%d", n, nc[0], nc[1], nc[2]);
  if (caseid < 2) {
    std::printf("SAMPLE cartesian case=%" PRIu64 " anchor=(%.6g,%.6g,%.6g) sides=(%.6g,%.6g,%.6g) cells=%dx%dx%d periodic=%d%d%d locates=%" PRId64 " rays=%" PRId64 "\n", caseid,
                D.lo[0], D.lo[1], D.lo[2], D.side[0], D.side[1], D.side[2], nc[0], nc[1], nc[2], D.per[0], D.per[1], D.per[2], nloc, nrays);
  }
  // geometry from the public accessors
  set_phase(PH_STRUCT);
  BoxCells C;
  C.resize(n);
  for (size_t c = 0; c < n; ++c) {
    const Box<> b = grid.get_cell((cellsize_t)c);
    const CV top = b.get_top_anchor();
    const CV mid = grid.get_cell_midpoint(c);
    for (int i = 0; i < 3; ++i) {
      C.lo[i][c] = b.get_anchor()[i];
      C.hi[i][c] = top[i];
      if (std::fabs(mid[i] - 0.5 * (C.lo[i][c] + C.hi[i][c])) > 4. * EPS * D.P)
        C16_VIOL("cartesian/midpoint-not-centre", caseid, "cell %zu axis %d midpoint %.17g box [%.17g,%.17g]", c, i, mid[i], C.lo[i][c], C.hi[i][c]);
    }
  }
  check_volume(fam, caseid, grid, D, 1e-12);
  check_iteration(fam, caseid, grid);
  // neighbours
  set_phase(PH_NEIGHBOURS);
  {
    const double cs[3] = {D.side[0] / nc[0], D.side[1] / nc[1], D.side[2] / nc[2]};
    const double gtol = 16. * EPS * D.P;
    auto find_cell = [&](const CV &q) -> size_t { // brute force: the cell whose midpoint is nearest
      size_t best = (size_t)-1;
      double bd = DBL_MAX;
      for (size_t c = 0; c < n; ++c) {
        double dd = 0.;
        for (int i = 0; i < 3; ++i) {
          const double m = 0.5 * (C.lo[i][c] + C.hi[i][c]);
          dd += (m - q[i]) * (m - q[i]);
        }
        if (dd < bd) {
          bd = dd;
          best = c;
        }
      }
      return best;
    };
    // all cells when small, a sample otherwise
    const size_t ncheck = n <= 400 ? n : 400;
    for (size_t s = 0; s < ncheck; ++s) {
      const size_t c = n <= 400 ? s : r.below(n);
      const CV mid = grid.get_cell_midpoint(c);
      auto ngbs = grid.get_neighbours(c);
      int seen[6] = {0, 0, 0, 0, 0, 0};
      if (ngbs.size() != 6) C16_VIOL("cartesian/neighbours/count", caseid, "cell %zu has %zu neighbour entries", c, ngbs.size());
      for (auto &e : ngbs) {
        DensityGrid::iterator nit = std::get< 0 >(e);
        const CV fm = std::get< 1 >(e), nrm = std::get< 2 >(e), rel = std::get< 4 >(e);
        const double area = std::get< 3 >(e);
        int ax = -1;
        for (int i = 0; i < 3; ++i)
          if (nrm[i] != 0.) ax = (ax == -1) ? i : -2;
        if (ax < 0 || std::fabs(nrm[ax]) != 1.) {
          C16_VIOL("cartesian/neighbours/normal", caseid, "cell %zu normal (%g,%g,%g)", c, nrm.x(), nrm.y(), nrm.z());
          continue;
        }
        const int sgn = nrm[ax] > 0 ? 1 : 0;
        ++seen[2 * ax + sgn];
        const double aexp = cs[(ax + 1) % 3] * cs[(ax + 2) % 3];
        if (std::fabs(area - aexp) > 1e-13 * aexp) C16_VIOL("cartesian/neighbours/area", caseid, "cell %zu axis %d area %.17g expected %.17g", c, ax, area, aexp);
        for (int i = 0; i < 3; ++i) {
          const double fexp = mid[i] + (i == ax ? 0.5 * cs[i] * nrm[i] : 0.);
          const double rexp = (i == ax ? cs[i] * nrm[i] : 0.);
          if (std::fabs(fm[i] - fexp) > gtol) C16_VIOL("cartesian/neighbours/face-midpoint", caseid, "cell %zu axis %d face midpoint[%d] %.17g expected %.17g", c, ax, i, fm[i], fexp);
          if (std::fabs(rel[i] - rexp) > gtol) C16_VIOL("cartesian/neighbours/relative-position", caseid, "cell %zu axis %d rel pos[%d] %.17g expected %.17g", c, ax, i, rel[i], rexp);
        }
        // who is on the other side?
        CV q = mid;
        q[ax] += cs[ax] * nrm[ax];
        bool outside = q[ax] < D.lo[ax] || q[ax] > D.hi[ax];
        if (outside && D.per[ax]) {
          q[ax] -= nrm[ax] * D.side[ax];
          outside = false;
        }
        if (outside) {
          if (nit != grid.end()) C16_VIOL("cartesian/neighbours/wall", caseid, "cell %zu axis %d sign %d: non-periodic wall but neighbour %zu", c, ax, sgn, (size_t)nit.get_index());
          g_st.inc("cartesian_wall_neighbours");
          continue;
        }
        const size_t expn = find_cell(q);
        if (nit == grid.end() || nit.get_index() != expn) {
          C16_VIOL("cartesian/neighbours/wrong-cell", caseid, "cell %zu axis %d sign %d: neighbour %zu, brute force %zu", c, ax, sgn, (size_t)nit.get_index(), expn);
          continue;
        }
        // mutual
        bool mutual = false;
        for (auto &e2 : grid.get_neighbours(expn)) {
          DensityGrid::iterator n2 = std::get< 0 >(e2);
          const CV nrm2 = std::get< 2 >(e2);
          if (n2 != grid.end() && n2.get_index() == c && nrm2[ax] == -nrm[ax] && std::fabs(std::get< 3 >(e2) - area) <= 1e-13 * area) mutual = true;
        }
        if (!mutual) C16_VIOL("cartesian/neighbours/not-mutual", caseid, "cell %zu lists %zu (axis %d sign %d) but not vice versa", c, expn, ax, sgn);
        g_st.inc("cartesian_neighbour_pairs_checked");
      }
      for (int k = 0; k < 6; ++k)
        if (seen[k] != 1) C16_VIOL("cartesian/neighbours/faces-not-once", caseid, "cell %zu: face %d listed %d times", c, k, seen[k]);
    }
  }
  locate_battery(fam, caseid, grid, D, C, r.fork(101), nloc);
  const bool anyper = D.per[0] || D.per[1] || D.per[2];
  Opacity O = random_opacity(r, n, D.L, anyper);
  apply_opacity(grid, O);
  ray_battery(fam, caseid, grid, D, C, O, r.fork(202), nrays, true);
  g_st.inc("cartesian_grids");
  g_st.inc(std::string("cartesian_grids_") + (anyper ? "periodic" : "open"));
  if ((nc[0] % 2 && nc[0] > 1) || (nc[1] % 2 && nc[1] > 1) || (nc[2] % 2 && nc[2] > 1)) g_st.inc("cartesian_grids_with_odd_cell_count");
}

// ---------------------------------------------------------------------------
// integer shadow model of an AMR hierarchy (independent of AMRGrid / AMRGridCell)
// ---------------------------------------------------------------------------
struct SNode {
  int level;
  uint32_t ix[3]; // integer coordinates on its own level, over the whole grid
  int parent;
  int child[8]; // -1: none (leaf has all -1)
  bool leaf;
  uint64_t id;
};
struct Shadow {
  uint32_t nb[3];
  std::vector< SNode > nodes;
  std::vector< int > blocks; // nb[0]*nb[1]*nb[2] roots, z fastest
  void init(const uint32_t n[3]) {
    for (int i = 0; i < 3; ++i) nb[i] = n[i];
    nodes.clear();
    blocks.clear();
    for (uint32_t x = 0; x < nb[0]; ++x)
      for (uint32_t y = 0; y < nb[1]; ++y)
        for (uint32_t z = 0; z < nb[2]; ++z) {
          SNode s{0, {x, y, z}, -1, {-1, -1, -1, -1, -1, -1, -1, -1}, true, 0};
          blocks.push_back((int)nodes.size());
          nodes.push_back(s);
        }
  }
  int root_of(uint32_t bx, uint32_t by, uint32_t bz) const { return blocks[(bx * nb[1] + by) * nb[2] + bz]; }
  void split(int n) {
    nodes[n].leaf = false;
    for (int c = 0; c < 8; ++c) {
      SNode s{nodes[n].level + 1, {2 * nodes[n].ix[0] + ((c >> 2) & 1u), 2 * nodes[n].ix[1] + ((c >> 1) & 1u), 2 * nodes[n].ix[2] + (c & 1u)}, n,
              {-1, -1, -1, -1, -1, -1, -1, -1}, true, 0};
      nodes[n].child[c] = (int)nodes.size();
      nodes.push_back(s);
    }
  }
  void split_to_level(int n, int level) {
    if (nodes[n].level >= level) return;
    split(n);
    for (int c = 0; c < 8; ++c) split_to_level(nodes[n].child[c], level);
  }
  // documented key layout: block indices in 3 x 10 bits above bit 32; below: 3 bits per level (coarsest level in the lowest
  // bits, child index 4x+2y+z) and a marker bit above the deepest level
  uint64_t key(int n) const {
    const SNode &s = nodes[n];
    const int l = s.level;
    const uint64_t bx = s.ix[0] >> l, by = s.ix[1] >> l, bz = s.ix[2] >> l;
    uint64_t cell = 0;
    for (int j = 1; j <= l; ++j) {
      const uint64_t c = 4 * ((s.ix[0] >> (l - j)) & 1u) + 2 * ((s.ix[1] >> (l - j)) & 1u) + ((s.ix[2] >> (l - j)) & 1u);
      cell |= c << (3 * (j - 1));
    }
    cell |= 1ull << (3 * l);
    return (((bx << 20) | (by << 10) | bz) << 32) + cell;
  }
  void dfs_leaves(int n, std::vector< int > &out) const {
    if (nodes[n].leaf) {
      out.push_back(n);
      return;
    }
    for (int c = 0; c < 8; ++c) dfs_leaves(nodes[n].child[c], out);
  }
  std::vector< int > leaves_in_order() const {
    std::vector< int > out;
    for (int b : blocks) dfs_leaves(b, out);
    return out;
  }
  // deepest existing node of level <= maxlevel covering integer coordinates t (given on level `level`)
  int cover(const uint32_t t[3], int level, int maxlevel) const {
    int n = root_of(t[0] >> level, t[1] >> level, t[2] >> level);
    while (!nodes[n].leaf && nodes[n].level < maxlevel) {
      const int l = nodes[n].level + 1;
      const int c = 4 * ((t[0] >> (level - l)) & 1u) + 2 * ((t[1] >> (level - l)) & 1u) + ((t[2] >> (level - l)) & 1u);
      n = nodes[n].child[c];
    }
    return n;
  }
  void box_of(int n, const Domain &D, double lo[3], double hi[3]) const {
    const SNode &s = nodes[n];
    for (int i = 0; i < 3; ++i) {
      const double cnt = (double)nb[i] * (double)(1u << s.level);
      lo[i] = D.lo[i] + D.side[i] * ((double)s.ix[i] / cnt);
      hi[i] = D.lo[i] + D.side[i] * ((double)(s.ix[i] + 1) / cnt);
    }
  }
};

static void pick_blocks(vh::Rng &r, uint32_t nb[3], uint32_t maxtotal) {
  static const uint32_t choices[] = {1, 1, 2, 3, 3, 4, 5, 5, 6, 6, 7, 9, 10, 12};
  for (;;) {
    for (int i = 0; i < 3; ++i) nb[i] = choices[r.below(sizeof(choices) / sizeof(uint32_t))];
    if (nb[0] * nb[1] * nb[2] <= maxtotal) break;
  }
}

// ---------------------------------------------------------------------------
// family: amrgrid (AMRGrid / AMRGridCell directly)
// ---------------------------------------------------------------------------
static void amrgrid_case(uint64_t caseid, vh::Rng r, int64_t nloc) {
  const std::string fam = "amrgrid";
  Domain D = random_domain(r, true, 6.);
  uint32_t nb[3];
  pick_blocks(r, nb, 60);
  const int L0 = (nb[0] * nb[1] * nb[2] <= 8) ? (int)r.below(3) : (int)r.below(2);
  set_phase(PH_CONSTRUCT);
  set_w({D.lo[0], D.lo[1], D.lo[2], D.side[0], D.side[1], D.side[2], (double)nb[0], (double)nb[1], (double)nb[2], (double)L0});
  AMRGrid< uint64_t > *gp = new AMRGrid< uint64_t >(D.box(), CoordinateVector< uint_fast32_t >(nb[0], nb[1], nb[2]));
  AMRGrid< uint64_t > &grid = *gp;
  grid.create_all_cells(L0);
  Shadow S;
  S.init(nb);
  for (int b : std::vector< int >(S.blocks)) S.split_to_level(b, L0);
  // random refinement history up to depth 8
  set_phase(PH_REFINE);
  const int nref = 20 + (int)r.below(140);
  int last = -1, maxdepth = L0;
  std::vector< int > leaves = S.leaves_in_order();
  for (int k = 0; k < nref; ++k) {
    int n;
    if (last >= 0 && r.chance(0.6)) n = S.nodes[last].child[r.below(8)];
    else n = leaves[r.below(leaves.size())];
    if (!S.nodes[n].leaf || S.nodes[n].level >= 8) {
      last = -1;
      continue;
    }
    const uint64_t key = S.key(n);
    set_w({(double)(key >> 32), (double)(key & 0xffffffffu), (double)S.nodes[n].level});
    const uint64_t ret = grid.refine_cell(key);
    S.split(n);
    const uint64_t expret = S.key(S.nodes[n].child[0]);
    if (ret != expret) C16_VIOL("amrgrid/refine/returned-key", caseid, "refine_cell(0x%" PRIx64 ") returned 0x%" PRIx64 ", first child key by the documented layout 0x%" PRIx64, key, ret, expret);
    for (int c = 0; c < 8; ++c) leaves.push_back(S.nodes[n].child[c]);
    maxdepth = std::max(maxdepth, S.nodes[n].level + 1);
    last = n;
    g_st.inc("amrgrid_refinements");
  }
  leaves = S.leaves_in_order();
  const size_t nleaf = leaves.size();
  if (caseid < 2)
    std::printf("SAMPLE amrgrid case=%" PRIu64 " anchor=(%.6g,%.6g,%.6g) sides=(%.6g,%.6g,%.6g) blocks=%ux%ux%u base-level=%d refinements=%d leaves=%zu max-depth=%d periodic=%d%d%d\n", caseid, D.lo[0],
                D.lo[1], D.lo[2], D.side[0], D.side[1], D.side[2], nb[0], nb[1], nb[2], L0, nref, nleaf, maxdepth, D.per[0], D.per[1], D.per[2]);
  g_st.inc("amrgrid_grids");
  std::printf("INFO amrgrid case=%" PRIu64 " blocks=%ux%ux%u anchor=(%.17g,%.17g,%.17g) sides=(%.17g,%.17g,%.17g)\n", caseid, nb[0], nb[1], nb[2], D.lo[0], D.lo[1], D.lo[2], D.side[0], D.side[1], D.side[2]);
  g_st.inc("amrgrid_grids_depth_" + std::to_string(maxdepth));
  if ((nb[0] > 1 && nb[0] % 2) || (nb[1] > 1 && nb[1] % 2) || (nb[2] > 1 && nb[2] % 2)) g_st.inc("amrgrid_grids_odd_block_count");
  // enumeration: first key / next key against the DFS of the shadow
  set_phase(PH_ENUM);
  {
    if (grid.get_number_of_cells() != nleaf) C16_VIOL("amrgrid/number-of-cells", caseid, "get_number_of_cells %zu, shadow %zu", (size_t)grid.get_number_of_cells(), nleaf);
    std::vector< uint64_t > got;
    uint64_t key = grid.get_first_key();
    while (key != grid.get_max_key() && got.size() <= nleaf + 8) {
      got.push_back(key);
      set_w({(double)(key >> 32), (double)(key & 0xffffffffu)});
      key = grid.get_next_key(key);
    }
    bool same = got.size() == nleaf;
    for (size_t i = 0; same && i < nleaf; ++i) same = got[i] == S.key(leaves[i]);
    if (!same) {
      std::vector< uint64_t > a(got), b;
      for (int n : leaves) b.push_back(S.key(n));
      std::sort(a.begin(), a.end());
      std::sort(b.begin(), b.end());
      if (a == b) C16_VIOL("amrgrid/enumeration/order", caseid, "first/next key visit the right %zu keys but not in depth-first (Morton) order", nleaf);
      else C16_VIOL("amrgrid/enumeration/not-exactly-once", caseid, "first/next key enumerate %zu keys, independent DFS finds %zu leaves (sets differ)", got.size(), nleaf);
    }
    g_st.inc("amrgrid_keys_enumerated", got.size());
  }
  // geometry, level and contents of every leaf
  set_phase(PH_STRUCT);
  BoxCells C;
  C.resize(nleaf);
  {
    long double vsum = 0.;
    const double gtol = 16. * EPS * D.P;
    for (size_t i = 0; i < nleaf; ++i) {
      const int n = leaves[i];
      const uint64_t key = S.key(n);
      set_w({(double)(key >> 32), (double)(key & 0xffffffffu)});
      AMRGridCell< uint64_t > &cell = grid[key];
      if (!cell.is_single_cell()) {
        C16_VIOL("amrgrid/leaf-not-single", caseid, "key 0x%" PRIx64 " is a leaf of the shadow but not a single cell", key);
        continue;
      }
      cell.value() = i + 1;
      S.nodes[n].id = i + 1;
      if ((int)cell.get_level() != S.nodes[n].level) C16_VIOL("amrgrid/level", caseid, "key 0x%" PRIx64 " level %d expected %d", key, (int)cell.get_level(), S.nodes[n].level);
      double lo[3], hi[3];
      S.box_of(n, D, lo, hi);
      const Box<> g = cell.get_geometry();
      const CV top = g.get_top_anchor(), mid = cell.get_midpoint();
      double vol = 1.;
      for (int a = 0; a < 3; ++a) {
        C.lo[a][i] = g.get_anchor()[a];
        C.hi[a][i] = top[a];
        vol *= D.side[a] / ((double)nb[a] * (double)(1u << S.nodes[n].level));
        if (std::fabs(C.lo[a][i] - lo[a]) > gtol || std::fabs(C.hi[a][i] - hi[a]) > gtol || std::fabs(mid[a] - 0.5 * (lo[a] + hi[a])) > gtol)
          C16_VIOL("amrgrid/geometry", caseid, "key 0x%" PRIx64 " axis %d: box [%.17g,%.17g] midpoint %.17g, expected [%.17g,%.17g]", key, a, C.lo[a][i], C.hi[a][i], mid[a], lo[a], hi[a]);
      }
      if (std::fabs(cell.get_volume() - vol) > 1e-13 * vol) C16_VIOL("amrgrid/cell-volume", caseid, "key 0x%" PRIx64 " volume %.17g expected %.17g", key, cell.get_volume(), vol);
      vsum += cell.get_volume();
    }
    const double vbox = D.side[0] * D.side[1] * D.side[2];
    const double rel = std::fabs((double)vsum - vbox) / vbox;
    g_st.maxd("amrgrid_max_rel_volume_error", rel);
    if (!(rel <= 1e-12)) C16_VIOL("amrgrid/volume-sum", caseid, "sum of leaf volumes %.17g box %.17g (rel %.3g)", (double)vsum, vbox, rel);
    g_st.inc("amrgrid_volume_sums");
  }
  // neighbour pointers of all nodes
  set_phase(PH_NEIGHBOURS);
  {
    grid.set_ngbs(CoordinateVector< bool >(D.per[0], D.per[1], D.per[2]));
    static const AMRNgbPosition pos[6] = {AMRNGBPOSITION_LEFT, AMRNGBPOSITION_RIGHT, AMRNGBPOSITION_FRONT, AMRNGBPOSITION_BACK, AMRNGBPOSITION_BOTTOM, AMRNGBPOSITION_TOP};
    for (size_t n = 0; n < S.nodes.size(); ++n) {
      const SNode &s = S.nodes[n];
      AMRGridCell< uint64_t > &cell = grid[S.key((int)n)];
      for (int f = 0; f < 6; ++f) {
        const int a = f / 2, sg = (f % 2) ? 1 : -1;
        const uint32_t cnt = nb[a] << s.level;
        int64_t t = (int64_t)s.ix[a] + sg;
        bool wall = false;
        if (t < 0 || t >= (int64_t)cnt) {
          if (D.per[a]) t = (t + cnt) % cnt;
          else wall = true;
        }
        AMRGridCell< uint64_t > *got = cell.get_ngb(pos[f]);
        if (wall) {
          if (got != nullptr) C16_VIOL("amrgrid/neighbours/wall", caseid, "node 0x%" PRIx64 " face %d: expected no neighbour at a non-periodic wall", S.key((int)n), f);
          g_st.inc("amrgrid_wall_neighbours");
          continue;
        }
        uint32_t tt[3] = {s.ix[0], s.ix[1], s.ix[2]};
        tt[a] = (uint32_t)t;
        const int e = S.cover(tt, s.level, s.level);
        AMRGridCell< uint64_t > *exp = &grid[S.key(e)];
        if (got != exp) {
          C16_VIOL("amrgrid/neighbours/wrong-cell", caseid, "node 0x%" PRIx64 " (level %d) face %d: neighbour is %s, expected node 0x%" PRIx64 " (level %d)", S.key((int)n), s.level, f,
                  got ? "another cell" : "null", S.key(e), S.nodes[e].level);
          continue;
        }
        // mutual: the neighbour's opposite pointer is this node or an ancestor of it
        AMRGridCell< uint64_t > *back = got->get_ngb(pos[f ^ 1]);
        bool ok = false;
        for (int anc = (int)n; anc >= 0; anc = S.nodes[anc].parent)
          if (back == &grid[S.key(anc)]) ok = true;
        if (!ok) C16_VIOL("amrgrid/neighbours/not-mutual", caseid, "node 0x%" PRIx64 " face %d: the neighbour's opposite pointer is neither this node nor one of its ancestors", S.key((int)n), f);
        g_st.inc("amrgrid_neighbour_pointers_checked");
        if (S.nodes[e].level < s.level) g_st.inc("amrgrid_neighbours_coarser");
      }
    }
  }
  // location: get_key(position), get_cell(position), get_key(level, position)
  for (int pass = 0; pass < 2; ++pass)
  run_batch(fam, PH_LOCATE, caseid, nloc, 0., [&](int64_t i) {
    vh::Rng rr = r.fork(1000 + i);
    const int kr = rr.below(100);
    const int kind = kr < 50 ? 0 : (kr < 85 ? 1 : (kr < 93 ? 2 : 3));
    const CV p = box_position(rr, D, C, kind);
    if ((regime_index(D, p, kind) == 3) != (pass == 1)) return;
    set_w({p.x(), p.y(), p.z()});
    g_sh->regime = regime_index(D, p, kind);
    std::string reg = g_poskind[kind];
    if (near_upper_wall(D, p)) reg = g_poskind[3];
    g_st.inc("amrgrid_locates");
    g_st.inc("amrgrid_locates_" + reg);
    double tol[3];
    for (int a = 0; a < 3; ++a) tol[a] = 8. * EPS * std::fmax(std::fabs(D.lo[a]), std::fabs(D.hi[a]));
    const uint64_t id = grid.get_cell(p);
    size_t idx = (id >= 1 && id <= nleaf) ? (size_t)(id - 1) : (size_t)-1;
    if (idx == (size_t)-1) {
      C16_VIOL((fam + "/locate/not-a-leaf@" + reg).c_str(), caseid, "get_cell(%.17g,%.17g,%.17g) returns contents %" PRIu64 " which is no leaf (1..%zu)", p.x(), p.y(), p.z(), id, nleaf);
      return;
    }
    const ScanResult s = scan_cells(C, p, tol, idx);
    if (!s.located_loose)
      C16_VIOL((fam + "/locate/cell-does-not-contain@" + reg).c_str(), caseid, "position (%.17g,%.17g,%.17g) located in leaf [%.17g,%.17g]x[%.17g,%.17g]x[%.17g,%.17g]", p.x(), p.y(), p.z(), C.lo[0][idx],
              C.hi[0][idx], C.lo[1][idx], C.hi[1][idx], C.lo[2][idx], C.hi[2][idx]);
    if (s.nloose == 0) C16_VIOL((fam + "/locate/in-no-cell@" + reg).c_str(), caseid, "position (%.17g,%.17g,%.17g) lies in no leaf box", p.x(), p.y(), p.z());
    if (s.nstrict > 1) C16_VIOL((fam + "/locate/in-several-cells@" + reg).c_str(), caseid, "position (%.17g,%.17g,%.17g) lies strictly inside %zu leaves", p.x(), p.y(), p.z(), s.nstrict);
    if (s.nstrict == 1 && s.first_strict != idx) C16_VIOL((fam + "/locate/wrong-cell@" + reg).c_str(), caseid, "position (%.17g,%.17g,%.17g) strictly inside leaf %zu, located in %zu", p.x(), p.y(), p.z(), s.first_strict, idx);
    if (s.nstrict == 1 && s.nloose == 1) g_st.inc("amrgrid_locates_unique_strict");
    // key of the deepest cell: must be a leaf whose box contains p
    const uint64_t k = grid.get_key(p);
    bool found = false;
    for (size_t j = 0; j < nleaf && !found; ++j)
      if (S.key(leaves[j]) == k) {
        found = true;
        const ScanResult s2 = scan_cells(C, p, tol, j);
        if (!s2.located_loose) C16_VIOL((fam + "/get_key/cell-does-not-contain@" + reg).c_str(), caseid, "get_key(%.17g,%.17g,%.17g) = 0x%" PRIx64 " whose box does not contain it", p.x(), p.y(), p.z(), k);
      }
    if (!found) C16_VIOL((fam + "/get_key/not-a-leaf@" + reg).c_str(), caseid, "get_key(%.17g,%.17g,%.17g) = 0x%" PRIx64 " is not the key of a leaf", p.x(), p.y(), p.z(), k);
    // key on a given (coarser or equal) level: an ancestor-or-self of a containing leaf on that level
    if (s.nstrict == 1 && s.nloose == 1) {
      const int n = leaves[s.first_strict];
      const int lev = (int)rr.below(S.nodes[n].level + 1);
      int anc = n;
      while (S.nodes[anc].level > lev) anc = S.nodes[anc].parent;
      const uint64_t kl = grid.get_key((uint_fast8_t)lev, p);
      if (kl != S.key(anc)) C16_VIOL((fam + "/get_key/level-key@" + reg).c_str(), caseid, "get_key(level %d, (%.17g,%.17g,%.17g)) = 0x%" PRIx64 ", expected 0x%" PRIx64, lev, p.x(), p.y(), p.z(), kl, S.key(anc));
      g_st.inc("amrgrid_level_keys_checked");
    }
  });
}

// ---------------------------------------------------------------------------
// family: amr (AMRDensityGrid with random refinement histories)
// ---------------------------------------------------------------------------
static inline uint64_t mix64(uint64_t z) {
  z = (z ^ (z >> 30)) * 0xBF58476D1CE4E5B9ull;
  z = (z ^ (z >> 27)) * 0x94D049BB133111EBull;
  return z ^ (z >> 31);
}
// refinement decisions are a pure function of (epoch, level, integer coordinates): the real grid (through the
// AMRRefinementScheme callback) and the shadow model take them independently
struct AMRPlan {
  uint64_t salt;
  int maxdepth;
  int nfocus;
  uint32_t focus[4][3]; // integer coordinates on level 8
  int depthcap[6];      // per epoch
  double prand[6];
  uint32_t nb[3];
  bool decide(int epoch, int level, const uint32_t ix[3]) const {
    if (level >= maxdepth || level >= depthcap[epoch]) return false;
    for (int f = 0; f < nfocus; ++f)
      if ((focus[f][0] >> (8 - level)) == ix[0] && (focus[f][1] >> (8 - level)) == ix[1] && (focus[f][2] >> (8 - level)) == ix[2]) return true;
    if (level >= 3) return false;
    const uint64_t h = mix64(salt ^ mix64(((uint64_t)epoch << 56) ^ ((uint64_t)level << 48) ^ ((uint64_t)ix[0] << 32) ^ ((uint64_t)ix[1] << 16) ^ ix[2]));
    return (h >> 11) * (1.0 / 9007199254740992.0) < prand[epoch] / (1 + 3 * level);
  }
};
static int g_amr_epoch = 0;
static const AMRPlan *g_amr_plan = nullptr;
static const Domain *g_amr_dom = nullptr;
static uint64_t g_amr_case = 0;

class HarnessRefinementScheme : public AMRRefinementScheme {
public:
  virtual bool refine(uint_fast8_t level, DensityGrid::iterator &cell) const {
    const AMRPlan &P = *g_amr_plan;
    const Domain &D = *g_amr_dom;
    const CV mid = cell.get_cell_midpoint();
    uint32_t ix[3];
    double vexp = 1.;
    for (int a = 0; a < 3; ++a) {
      const double cnt = (double)P.nb[a] * (double)(1u << level);
      const double q = (mid[a] - D.lo[a]) / D.side[a] * cnt - 0.5;
      ix[a] = (uint32_t)std::llround(q);
      vexp *= D.side[a] / cnt;
      if (std::fabs(q - std::round(q)) > 1e-6)
        C16_VIOL("amr/refine/midpoint-not-on-level-lattice", g_amr_case, "refine(level %d) called with a cell whose midpoint[%d]=%.17g is not a level-%d cell centre", (int)level, a, mid[a], (int)level);
    }
    if (std::fabs(cell.get_volume() - vexp) > 1e-12 * vexp)
      C16_VIOL("amr/refine/level-volume-mismatch", g_amr_case, "refine(level %d): cell volume %.17g, a level-%d cell has %.17g", (int)level, cell.get_volume(), (int)level, vexp);
    g_st.inc("amr_refine_callbacks");
    return P.decide(g_amr_epoch, level, ix);
  }
};
class UnitDensityFunction : public DensityFunction {
public:
  virtual DensityValues operator()(const Cell &cell) {
    DensityValues v;
    v.set_number_density(1.);
    v.set_temperature(8000.);
    v.set_ionic_fraction(ION_H_n, 0.5);
    v.set_ionic_fraction(ION_He_n, 0.5);
    return v;
  }
};

static void shadow_refine(Shadow &S, const AMRPlan &P, int epoch, int n) {
  if (!P.decide(epoch, S.nodes[n].level, S.nodes[n].ix)) return;
  S.split(n);
  for (int c = 0; c < 8; ++c) shadow_refine(S, P, epoch, S.nodes[n].child[c]);
}

static void amr_case(uint64_t caseid, vh::Rng r, int64_t nloc, int64_t nrays) {
  const std::string fam = "amr";
  Domain D = random_domain(r, true, 6.);
  AMRPlan P;
  pick_blocks(r, P.nb, 40);
  // at least one odd block count so that the constructor's reduction keeps these as the top level blocks
  if (P.nb[0] % 2 == 0 && P.nb[1] % 2 == 0 && P.nb[2] % 2 == 0) P.nb[r.below(3)] += 1;
  const int L0 = (P.nb[0] * P.nb[1] * P.nb[2] <= 6) ? (int)r.below(3) : (int)r.below(2);
  const uint32_t ncell[3] = {P.nb[0] << L0, P.nb[1] << L0, P.nb[2] << L0};
  P.salt = r.next();
  P.maxdepth = 8;
  P.nfocus = 1 + (int)r.below(3);
  for (int f = 0; f < P.nfocus; ++f)
    for (int a = 0; a < 3; ++a) P.focus[f][a] = (uint32_t)r.below((uint64_t)P.nb[a] << 8);
  const int nepoch = 2 + (int)r.below(3); // initialize() + reset_grid() calls
  for (int e = 0; e < 6; ++e) {
    P.depthcap[e] = std::min(8, L0 + 2 + 2 * e + (int)r.below(2));
    P.prand[e] = r.uniform(0.02, 0.12);
  }
  P.depthcap[nepoch - 1] = 8;
  g_amr_plan = &P;
  g_amr_dom = &D;
  g_amr_case = caseid;
  set_phase(PH_CONSTRUCT);
  set_w({D.lo[0], D.lo[1], D.lo[2], D.side[0], D.side[1], D.side[2], (double)ncell[0], (double)ncell[1], (double)ncell[2], (double)D.per[0], (double)D.per[1], (double)D.per[2]});
  AMRDensityGrid grid(D.box(), CoordinateVector< uint_fast32_t >(ncell[0], ncell[1], ncell[2]), new HarnessRefinementScheme(), 1, CoordinateVector< bool >(D.per[0], D.per[1], D.per[2]), false, nullptr);
  Shadow S;
  S.init(P.nb);
  for (int b : std::vector< int >(S.blocks)) S.split_to_level(b, L0);
  if (grid.get_number_of_cells() != (size_t)ncell[0] * ncell[1] * ncell[2])
    C16_VIOL("amr/number-of-cells", caseid, "%zu cells after construction with %ux%ux%u", (size_t)grid.get_number_of_cells(), ncell[0], ncell[1], ncell[2]);
  UnitDensityFunction df;
  df.initialize();
  set_phase(PH_REFINE);
  for (int e = 0; e < nepoch; ++e) {
    g_amr_epoch = e;
    set_w({(double)e});
    const std::vector< int > before = S.leaves_in_order();
    for (int n : before) shadow_refine(S, P, e, n);
    if (e == 0) {
      std::pair< cellsize_t, cellsize_t > block = std::make_pair((cellsize_t)0, (cellsize_t)grid.get_number_of_cells());
      grid.initialize(block, df);
    } else {
      grid.reset_grid(df);
    }
    g_st.inc("amr_refinement_epochs");
  }
  const std::vector< int > leaves = S.leaves_in_order();
  const size_t nleaf = leaves.size();
  int maxdepth = 0;
  for (int n : leaves) maxdepth = std::max(maxdepth, S.nodes[n].level);
  if (caseid < 2)
    std::printf("SAMPLE amr case=%" PRIu64 " anchor=(%.6g,%.6g,%.6g) sides=(%.6g,%.6g,%.6g) unrefined-cells=%ux%ux%u (blocks %ux%ux%u) epochs=%d leaves=%zu max-depth=%d periodic=%d%d%d locates=%" PRId64 " rays=%" PRId64 "\n",
                caseid, D.lo[0], D.lo[1], D.lo[2], D.side[0], D.side[1], D.side[2], ncell[0], ncell[1], ncell[2], P.nb[0], P.nb[1], P.nb[2], nepoch, nleaf, maxdepth, D.per[0], D.per[1], D.per[2], nloc, nrays);
  g_st.inc("amr_grids");
  std::printf("INFO amr case=%" PRIu64 " anchor=(%.17g,%.17g,%.17g) sides=(%.17g,%.17g,%.17g) unrefined-cells=%ux%ux%u blocks=%ux%ux%u epochs=%d leaves=%zu periodic=%d%d%d\n", caseid, D.lo[0], D.lo[1], D.lo[2],
              D.side[0], D.side[1], D.side[2], ncell[0], ncell[1], ncell[2], P.nb[0], P.nb[1], P.nb[2], nepoch, nleaf, D.per[0], D.per[1], D.per[2]);
  g_st.inc("amr_grids_depth_" + std::to_string(maxdepth));
  g_st.inc("amr_grids_odd_block_count");
  // clause 3: every shadow leaf is one cell index, and vice versa
  set_phase(PH_ENUM);
  const size_t n = grid.get_number_of_cells();
  if (n != nleaf) C16_VIOL("amr/enumeration/number-of-cells", caseid, "grid has %zu cells, the independent refinement model %zu leaves", n, nleaf);
  check_iteration(fam, caseid, grid);
  set_phase(PH_STRUCT);
  BoxCells C;
  C.resize(n);
  {
    std::unordered_map< uint64_t, int > byid; // (level, ix) -> shadow node
    auto pack = [](int level, const uint32_t ix[3]) { return ((uint64_t)level << 60) ^ ((uint64_t)ix[0] << 40) ^ ((uint64_t)ix[1] << 20) ^ (uint64_t)ix[2]; };
    for (int nd : leaves) byid[pack(S.nodes[nd].level, S.nodes[nd].ix)] = nd;
    std::vector< uint8_t > hit(S.nodes.size(), 0);
    const double vblock = (D.side[0] / P.nb[0]) * (D.side[1] / P.nb[1]) * (D.side[2] / P.nb[2]);
    size_t bad = 0;
    for (size_t c = 0; c < n; ++c) {
      const CV mid = grid.get_cell_midpoint(c);
      const double vol = grid.get_cell_volume(c);
      const double lv = std::log2(vblock / vol) / 3.;
      const int level = (int)std::llround(lv);
      uint32_t ix[3];
      bool ok = std::fabs(lv - level) < 1e-6 && level >= 0 && level <= 8;
      for (int a = 0; a < 3 && ok; ++a) {
        const double cnt = (double)P.nb[a] * (double)(1u << level);
        const double h = 0.5 * D.side[a] / cnt;
        C.lo[a][c] = mid[a] - h;
        C.hi[a][c] = mid[a] + h;
        const double q = (mid[a] - D.lo[a]) / D.side[a] * cnt - 0.5;
        ix[a] = (uint32_t)std::llround(q);
        if (std::fabs(q - std::round(q)) > 1e-6 || q < -0.5 || q > cnt) ok = false;
      }
      if (!ok) {
        if (++bad <= 3) C16_VIOL("amr/enumeration/cell-not-on-lattice", caseid, "cell %zu: midpoint (%.17g,%.17g,%.17g) volume %.17g is not a cell of any level", c, mid.x(), mid.y(), mid.z(), vol);
        for (int a = 0; a < 3; ++a) C.lo[a][c] = C.hi[a][c] = D.lo[a];
        continue;
      }
      auto itf = byid.find(pack(level, ix));
      if (itf == byid.end()) {
        if (++bad <= 3) C16_VIOL("amr/enumeration/unexpected-cell", caseid, "cell %zu (level %d at %u,%u,%u) is not a leaf of the independent refinement model", c, level, ix[0], ix[1], ix[2]);
        continue;
      }
      if (++hit[itf->second] > 1 && ++bad <= 3) C16_VIOL("amr/enumeration/cell-twice", caseid, "leaf (level %d at %u,%u,%u) appears under two cell indices", level, ix[0], ix[1], ix[2]);
    }
    for (int nd : leaves)
      if (!hit[nd] && ++bad <= 6) C16_VIOL("amr/enumeration/missing-cell", caseid, "leaf (level %d at %u,%u,%u) of the independent refinement model is no cell of the grid", S.nodes[nd].level, S.nodes[nd].ix[0], S.nodes[nd].ix[1], S.nodes[nd].ix[2]);
    g_st.inc("amr_leaves_matched", n);
  }
  check_volume(fam, caseid, grid, D, 1e-12);
  locate_battery(fam, caseid, grid, D, C, r.fork(101), nloc);
  const bool anyper = D.per[0] || D.per[1] || D.per[2];
  Opacity O = random_opacity(r, n, D.L, anyper);
  apply_opacity(grid, O);
  ray_battery(fam, caseid, grid, D, C, O, r.fork(202), nrays, false);
  g_st.inc(std::string("amr_grids_") + (anyper ? "periodic" : "open"));
}

// ---------------------------------------------------------------------------
// family: voronoi (VoronoiDensityGrid, old and new construction)
// ---------------------------------------------------------------------------
class ListGeneratorDistribution : public VoronoiGeneratorDistribution {
  std::vector< CV > _p;
  size_t _next;

public:
  ListGeneratorDistribution(const std::vector< CV > &p) : _p(p), _next(0) {}
  virtual generatornumber_t get_number_of_positions() const { return _p.size(); }
  virtual CoordinateVector<> get_position() { return _p[_next++ % _p.size()]; }
};

// ray against all bisector planes: interval of the ray inside the Voronoi cell of generator i
static void voronoi_ray_oracle(const Domain &D, const std::vector< CV > &g, const CV &o, const CV &d, RayOracle &R) {
  R.iv.clear();
  double texit = DBL_MAX;
  for (int i = 0; i < 3; ++i) {
    if (d[i] == 0.) continue;
    texit = std::fmin(texit, ((d[i] > 0. ? D.hi[i] : D.lo[i]) - o[i]) / d[i]);
  }
  R.t_exit = texit;
  R.finite_exit = true;
  const size_t n = g.size();
  for (size_t i = 0; i < n; ++i) {
    double a = 0., b = texit, ca = 1., cb = 1.;
    for (size_t j = 0; j < n && b > a; ++j) {
      if (j == i) continue;
      const CV nrm = g[j] - g[i];
      const CV m = 0.5 * (g[i] + g[j]);
      const double f0 = dot(o - m, nrm), dn = dot(d, nrm);
      if (dn > 0.) {
        const double t = -f0 / dn;
        if (t < b) {
          b = t;
          cb = dn / nrm.norm();
        }
      } else if (dn < 0.) {
        const double t = -f0 / dn;
        if (t > a) {
          a = t;
          ca = -dn / nrm.norm();
        }
      } else if (f0 > 0.) {
        b = -1.;
      }
    }
    if (b > a) R.iv.push_back(Interval{a, b, (uint32_t)i, std::fmin(ca, cb)});
  }
  std::sort(R.iv.begin(), R.iv.end(), [](const Interval &x, const Interval &y) { return x.t0 < y.t0 || (x.t0 == y.t0 && x.t1 < y.t1); });
}

static void voronoi_case(uint64_t caseid, vh::Rng r, int64_t nloc, int64_t nrays) {
  const std::string fam = "voronoi";
  Domain D = random_domain(r, false, 4.);
  // moderate anchors only: the constructions work in box units
  const bool newgrid = r.chance(0.5);
  const std::string type = newgrid ? "New" : "Old";
  const int gk = r.below(4);
  size_t n = gk == 3 ? 0 : (size_t)(2 + r.below(r.chance(0.3) ? 12 : 250));
  std::vector< CV > gen;
  auto inside_margin = [&](const CV &p) {
    for (int i = 0; i < 3; ++i)
      if (!(p[i] > D.lo[i] + 1e-6 * D.side[i] && p[i] < D.hi[i] - 1e-6 * D.side[i])) return false;
    return true;
  };
  if (gk == 0 || gk == 1) { // uniform / clustered
    std::vector< CV > centres;
    for (int c = 0; c < 3; ++c) centres.push_back(CV(D.lo[0] + D.side[0] * r.uniform(0.2, 0.8), D.lo[1] + D.side[1] * r.uniform(0.2, 0.8), D.lo[2] + D.side[2] * r.uniform(0.2, 0.8)));
    const double sigma = r.loguniform(1e-2, 0.2);
    while (gen.size() < n) {
      CV p;
      if (gk == 0 || r.chance(0.3)) {
        for (int i = 0; i < 3; ++i) p[i] = D.lo[i] + D.side[i] * r.uniform();
      } else {
        const CV &c = centres[r.below(3)];
        for (int i = 0; i < 3; ++i) {
          const double u1 = r.uniform(1e-12, 1.), u2 = r.uniform();
          p[i] = c[i] + sigma * D.side[i] * std::sqrt(-2. * std::log(u1)) * std::cos(2. * M_PI * u2);
        }
      }
      if (inside_margin(p)) gen.push_back(p);
    }
  } else { // perturbed lattice (gk==2) or larger uniform set (gk==3)
    if (gk == 2) {
      const int m[3] = {2 + (int)r.below(5), 2 + (int)r.below(5), 2 + (int)r.below(5)};
      const double pert = r.loguniform(1e-3, 0.3);
      for (int x = 0; x < m[0]; ++x)
        for (int y = 0; y < m[1]; ++y)
          for (int z = 0; z < m[2]; ++z) {
            const int q[3] = {x, y, z};
            CV p;
            for (int i = 0; i < 3; ++i) p[i] = D.lo[i] + D.side[i] * (q[i] + 0.5 + pert * r.uniform(-0.5, 0.5)) / m[i];
            gen.push_back(p);
          }
    } else {
      n = 300 + r.below(500);
      while (gen.size() < n) {
        CV p;
        for (int i = 0; i < 3; ++i) p[i] = D.lo[i] + D.side[i] * r.uniform();
        if (inside_margin(p)) gen.push_back(p);
      }
    }
  }
  n = gen.size();
  static const char *gkn[] = {"uniform", "clustered", "perturbed-lattice", "uniform-large"};
  set_phase(PH_CONSTRUCT);
  set_w({D.lo[0], D.lo[1], D.lo[2], D.side[0], D.side[1], D.side[2], (double)n, (double)newgrid, (double)gk});
  std::printf("INFO voronoi case=%" PRIu64 " type=%s generators=%zu (%s) anchor=(%.17g,%.17g,%.17g) sides=(%.17g,%.17g,%.17g)\n", caseid, type.c_str(), n, gkn[gk], D.lo[0], D.lo[1], D.lo[2], D.side[0],
              D.side[1], D.side[2]);
  std::fflush(stdout);
  // Lloyd relaxation (DensityGrid: number of Lloyd iterations): every fourth grid is regularised by 1 or 2 iterations.  The
  // generators then are whatever the grid reports afterwards (get_cell_midpoint); all geometric clauses below are stated
  // in terms of those reported generators, so they must belong to the faces, volumes and neighbour lists the grid holds.
  const int lloyd = (caseid % 4 == 3) ? 1 + (int)((caseid / 4) % 2) : 0;
  VoronoiDensityGrid grid(new ListGeneratorDistribution(gen), D.box(), type, (uint_fast8_t)lloyd, CoordinateVector< bool >(false), false, false, nullptr);
  UnitDensityFunction df;
  df.initialize();
  {
    std::pair< cellsize_t, cellsize_t > block = std::make_pair((cellsize_t)0, (cellsize_t)n);
    grid.initialize(block, df);
  }
  if (lloyd) {
    g_st.inc("voronoi_grids_with_lloyd_iterations");
    size_t moved = 0;
    for (size_t c = 0; c < n && c < (size_t)grid.get_number_of_cells(); ++c) {
      const CV m = grid.get_cell_midpoint(c);
      if (absmax3(m - gen[c]) > 0.) ++moved;
      gen[c] = m;
      for (int i = 0; i < 3; ++i)
        if (!(m[i] >= D.lo[i] && m[i] <= D.hi[i])) C16_VIOL("voronoi/lloyd/generator-outside-box", caseid, "cell %zu generator[%d]=%.17g after %d Lloyd iterations", c, i, m[i], lloyd);
    }
    g_st.inc("voronoi_generators_moved_by_lloyd", moved);
  }
  if (caseid < 2)
    std::printf("SAMPLE voronoi case=%" PRIu64 " type=%s generators=%zu (%s) anchor=(%.6g,%.6g,%.6g) sides=(%.6g,%.6g,%.6g) locates=%" PRId64 " rays=%" PRId64 "\n", caseid, type.c_str(), n, gkn[gk], D.lo[0], D.lo[1],
                D.lo[2], D.side[0], D.side[1], D.side[2], nloc, nrays);
  g_st.inc("voronoi_grids");
  g_st.inc("voronoi_grids_" + type);
  g_st.inc(std::string("voronoi_grids_") + gkn[gk]);
  set_phase(PH_STRUCT);
  if (grid.get_number_of_cells() != n) C16_VIOL("voronoi/number-of-cells", caseid, "%zu cells for %zu generators", (size_t)grid.get_number_of_cells(), n);
  for (size_t c = 0; c < n; ++c) {
    const CV m = grid.get_cell_midpoint(c);
    if (absmax3(m - gen[c]) > 0.) {
      C16_VIOL("voronoi/generator-moved", caseid, "cell %zu generator (%.17g,%.17g,%.17g) reported as (%.17g,%.17g,%.17g)", c, gen[c].x(), gen[c].y(), gen[c].z(), m.x(), m.y(), m.z());
      break;
    }
  }
  check_volume(fam, caseid, grid, D, 1e-8);
  check_iteration(fam, caseid, grid);
  // neighbours
  set_phase(PH_NEIGHBOURS);
  const double area_floor = 1e-10 * D.L * D.L;
  // positional accuracy of faces: the old construction treats vertices within 2e-10 |sides|^2 / |normal| of a cutting plane as on
  // it (OLDVORONOI_TOLERANCE), i.e. ~1e-9 |sides| for cells a tenth of the box; the geometry itself is C15's subject
  const double gtol = 1e-8 * CV(D.side[0], D.side[1], D.side[2]).norm();
  {
    std::vector< std::vector< std::tuple< DensityGrid::iterator, CV, CV, double, CV > > > all(n);
    for (size_t c = 0; c < n; ++c) all[c] = grid.get_neighbours(c);
    for (size_t c = 0; c < n; ++c) {
      for (auto &e : all[c]) {
        DensityGrid::iterator nit = std::get< 0 >(e);
        const double area = std::get< 3 >(e);
        if (area < area_floor) {
          g_st.inc("voronoi_negligible_faces_skipped");
          continue;
        }
        const CV fm = std::get< 1 >(e), nrm = std::get< 2 >(e);
        if (nit == grid.end()) { // wall face: midpoint on a wall, normal axis aligned outward
          int ax = -1;
          for (int i = 0; i < 3; ++i)
            if (nrm[i] != 0.) ax = (ax == -1) ? i : -2;
          if (ax < 0) {
            C16_VIOL("voronoi/neighbours/wall-normal", caseid, "cell %zu wall normal (%g,%g,%g)", c, nrm.x(), nrm.y(), nrm.z());
            continue;
          }
          const double wall = nrm[ax] > 0. ? D.hi[ax] : D.lo[ax];
          if (std::fabs(fm[ax] - wall) > gtol) C16_VIOL("voronoi/neighbours/wall-face-not-on-wall", caseid, "cell %zu wall face midpoint[%d]=%.17g wall %.17g", c, ax, fm[ax], wall);
          g_st.inc("voronoi_wall_faces");
          continue;
        }
        const size_t j = nit.get_index();
        if (j >= n || j == c) {
          C16_VIOL("voronoi/neighbours/index", caseid, "cell %zu lists neighbour %zu", c, j);
          continue;
        }
        // the face lies on the bisector plane, the normal points to the neighbour
        const CV gd = gen[j] - gen[c];
        const double gl = gd.norm();
        const double off = dot(fm - 0.5 * (gen[c] + gen[j]), gd) / gl;
        // old construction: a vertex counts as "on" a cutting plane if |v.p - p.p| <= OLDVORONOI_TOLERANCE |S|^2 (p = half separation
        // of the two generators), i.e. it may be 2e-10 |S|^2 / (|p|) off the plane; for close generator pairs (clustered sets) this
        // documented tolerance exceeds the fixed 1e-8 |S| (observed 4.5e-7 for |S| = 35, separation ~1: exactly 2e-10 |S|^2/|p|);
        // a factor 16 covers the conditioning of the vertex position (three planes), as in the C15 derivation
        const double S2 = D.side[0] * D.side[0] + D.side[1] * D.side[1] + D.side[2] * D.side[2];
        const double ftol = gtol + (newgrid ? 0. : 16. * 2.e-10 * S2 / (0.5 * gl));
        if (std::fabs(off) > ftol) C16_VIOL("voronoi/neighbours/face-off-bisector", caseid, "cells %zu,%zu: face midpoint %.3g off the bisector plane (allowed %.3g)", c, j, off, ftol);
        const CV rel = std::get< 4 >(e);
        if (absmax3(rel - gd) > gtol)
          C16_VIOL("voronoi/neighbours/relative-position", caseid,
                  "cells %zu,%zu in a non-periodic box: relative position reported (%.17g,%.17g,%.17g), generators differ by (%.17g,%.17g,%.17g); box sides (%.17g,%.17g,%.17g)", c, j, rel.x(),
                  rel.y(), rel.z(), gd.x(), gd.y(), gd.z(), D.side[0], D.side[1], D.side[2]);
        else if (absmax3(nrm - CV(gd.x() / gl, gd.y() / gl, gd.z() / gl)) > 1e-9)
          C16_VIOL("voronoi/neighbours/normal", caseid, "cells %zu,%zu: normal does not point to the neighbour", c, j);
        bool mutual = false;
        for (auto &e2 : all[j]) {
          DensityGrid::iterator n2 = std::get< 0 >(e2);
          if (n2 != grid.end() && n2.get_index() == c) {
            mutual = true;
            const double a2 = std::get< 3 >(e2);
            if (std::fabs(a2 - area) > 1e-6 * std::fmax(area, a2) + 1e-6 * D.L * D.L)
              C16_VIOL("voronoi/neighbours/face-area-differs", caseid, "cells %zu,%zu: the shared face has area %.17g seen from one side and %.17g from the other", c, j, area, a2);
          }
        }
        if (!mutual) C16_VIOL("voronoi/neighbours/not-mutual", caseid, "cell %zu lists %zu over a face of area %.6g (box side^2 %.6g) but %zu does not list %zu", c, j, area, D.L * D.L, j, c);
        g_st.inc("voronoi_neighbour_faces_checked");
      }
    }
  }
  // location: nearest generator; the cell's faces contain the position
  const double dtol = 16. * EPS * D.P;
  for (int pass = 0; pass < 1; ++pass)
    run_batch(fam, PH_LOCATE, caseid, nloc, 0., [&](int64_t i) {
      vh::Rng rr = r.fork(1000 + i);
      const int kr = rr.below(100);
      CV p;
      std::string reg;
      if (kr < 60) {
        for (int a = 0; a < 3; ++a) p[a] = D.lo[a] + D.side[a] * rr.uniform();
        reg = "interior";
        g_sh->regime = 0;
      } else if (kr < 85) { // exactly (to round-off) on a face / close to an edge: midpoint of two generators, or a face midpoint
        const size_t c = rr.below(n);
        auto ng = grid.get_neighbours(c);
        const size_t k = rr.below(ng.size());
        p = std::get< 1 >(ng[k]);
        if (std::get< 0 >(ng[k]) != grid.end() && rr.chance(0.5)) p = 0.5 * (gen[c] + gen[std::get< 0 >(ng[k]).get_index()]);
        reg = "cell-face";
        g_sh->regime = 1;
      } else if (kr < 93) {
        const int forced = rr.below(3);
        for (int a = 0; a < 3; ++a) p[a] = (a == forced || rr.chance(0.3)) ? D.lo[a] : D.lo[a] + D.side[a] * rr.uniform();
        reg = "lower-wall";
        g_sh->regime = 2;
      } else { // a generator itself
        p = gen[rr.below(n)];
        reg = "generator";
        g_sh->regime = 0;
      }
      if (!D.inside(p) || near_upper_wall(D, p)) {
        for (int a = 0; a < 3; ++a)
          if (!(p[a] >= D.lo[a] && p[a] < D.hi[a] - 8. * EPS * D.P)) p[a] = D.lo[a] + D.side[a] * rr.uniform(0.01, 0.99);
      }
      set_w({p.x(), p.y(), p.z()});
      const size_t idx = grid.get_cell_index(p);
      g_st.inc("voronoi_locates");
      g_st.inc("voronoi_locates_" + reg);
      if (idx >= n) {
        C16_VIOL((fam + "/locate/index-out-of-range@" + reg).c_str(), caseid, "position (%.17g,%.17g,%.17g) located in cell %zu of %zu", p.x(), p.y(), p.z(), idx, n);
        return;
      }
      double dmin = DBL_MAX;
      size_t imin = 0, nnear = 0;
      for (size_t c = 0; c < n; ++c) {
        const double dd = (gen[c] - p).norm();
        if (dd < dmin) {
          dmin = dd;
          imin = c;
        }
      }
      for (size_t c = 0; c < n; ++c)
        if ((gen[c] - p).norm() <= dmin + dtol) ++nnear;
      const double dl = (gen[idx] - p).norm();
      if (dl > dmin + dtol)
        C16_VIOL((fam + "/locate/not-nearest-generator@" + reg).c_str(), caseid, "position (%.17g,%.17g,%.17g) located in cell %zu at distance %.17g, generator %zu is at %.17g", p.x(), p.y(), p.z(), idx, dl, imin, dmin);
      if (nnear == 1) g_st.inc("voronoi_locates_unique");
      else g_st.inc("voronoi_locates_equidistant");
      // the faces of the located cell contain the position
      if (rr.chance(0.2)) {
        for (auto &e : grid.get_neighbours(idx)) {
          if (std::get< 3 >(e) < area_floor) continue;
          // outward direction from the generators (the reported normal is judged by the neighbour clause)
          CV outw = std::get< 2 >(e);
          if (std::get< 0 >(e) != grid.end()) outw = normalized(gen[std::get< 0 >(e).get_index()] - gen[idx]);
          const double sd = dot(p - std::get< 1 >(e), outw);
          if (sd > gtol) C16_VIOL((fam + "/locate/outside-a-face@" + reg).c_str(), caseid, "position (%.17g,%.17g,%.17g) located in cell %zu but %.3g outside one of its faces", p.x(), p.y(), p.z(), idx, sd);
        }
        g_st.inc("voronoi_locates_face_checked");
      }
    });
  // traversal
  Opacity O = random_opacity(r, n, D.L, false);
  apply_opacity(grid, O);
  const double nudge_eps = 1e-12 * CV(D.side[0], D.side[1], D.side[2]).norm();
  double mincell = DBL_MAX;
  for (size_t c = 0; c < n; ++c) mincell = std::fmin(mincell, std::cbrt(grid.get_cell_volume(c)));
  run_batch(fam, PH_RAY, caseid, nrays, 0., [&](int64_t i) {
    vh::Rng rr = r.fork(500000 + i);
    const int sk = rr.below(100);
    CV o, d = random_direction(rr);
    std::string reg = "interior";
    for (int a = 0; a < 3; ++a) o[a] = D.lo[a] + D.side[a] * rr.uniform(1e-6, 1. - 1e-6);
    if (sk >= 70 && sk < 85) { // on a face between two cells (as produced by a previous absorption at a boundary) or on a generator
      const size_t c = rr.below(n);
      auto ng = grid.get_neighbours(c);
      const size_t k = rr.below(ng.size());
      if (std::get< 0 >(ng[k]) != grid.end()) {
        o = std::get< 1 >(ng[k]);
        reg = "cell-face";
      }
    } else if (sk >= 85 && sk < 90) {
      o = gen[rr.below(n)];
      reg = "generator";
    } else if (sk >= 90) { // on a lower wall, pointing inward
      const int a = rr.below(3);
      o[a] = D.lo[a];
      if (d[a] < 0.) d[a] = -d[a];
      reg = "lower-wall";
    }
    const int dk = rr.below(100);
    if (dk >= 85 && reg == "interior") {
      const int z1 = rr.below(3);
      d[z1] = 0.;
      if (dk >= 93) d[(z1 + 1) % 3] = 0.;
      d = normalized(d);
      reg = "interior+axis-aligned";
    }
    RayOracle R;
    voronoi_ray_oracle(D, gen, o, d, R);
    double tt = 0.;
    for (const Interval &I : R.iv) tt += O.kappa[I.c] * (I.t1 - I.t0);
    const int tk = rr.below(100);
    double tau_target;
    if (tt <= 0.) tau_target = rr.loguniform(1e-6, 10.);
    else if (tk < 45) tau_target = tt * rr.loguniform(1e-6, 1.);
    else if (tk < 85) tau_target = tt * rr.loguniform(1., 10.);
    else if (tk < 95) tau_target = tt * (1. + rr.uniform(-1., 1.) * rr.loguniform(1e-13, 1e-8));
    else tau_target = tt * rr.loguniform(1e-10, 1e-6);
    set_w({o.x(), o.y(), o.z(), d.x(), d.y(), d.z(), tau_target});
    g_sh->regime = 4;
    Photon ph = make_photon(O, o, d);
    DensityGrid::iterator it = grid.interact(ph, tau_target);
    RayObs obs;
    obs.escaped = (it == grid.end());
    obs.last = it.get_index();
    obs.end = ph.get_position();
    harvest(grid, O, obs);
    // tolerances: positions are pushed forward by 1e-12 |sides| without a deposit (documented in interact), the
    // crossing parameters are conditioned by the incidence cosine of the crossed faces
    RayTol T{8. * EPS * D.P, 1., 1000. * nudge_eps, 4. * nudge_eps, gtol};
    check_ray(fam, reg, caseid, i, D, R, O, obs, o, d, tau_target, T, mincell, true);
  });
}

// ---------------------------------------------------------------------------
// family: search (Octree, PointLocations, MortonKeyGenerator)
// ---------------------------------------------------------------------------
static void make_points(vh::Rng &r, const Domain &D, int kind, size_t n, std::vector< CV > &pts) {
  pts.clear();
  if (kind == 0) { // uniform
    for (size_t i = 0; i < n; ++i) pts.push_back(CV(D.lo[0] + D.side[0] * r.uniform(), D.lo[1] + D.side[1] * r.uniform(), D.lo[2] + D.side[2] * r.uniform()));
  } else if (kind == 1) { // clustered
    CV c[3];
    for (int k = 0; k < 3; ++k) c[k] = CV(D.lo[0] + D.side[0] * r.uniform(0.1, 0.9), D.lo[1] + D.side[1] * r.uniform(0.1, 0.9), D.lo[2] + D.side[2] * r.uniform(0.1, 0.9));
    const double sigma = r.loguniform(1e-4, 0.1);
    while (pts.size() < n) {
      CV p;
      const CV &cc = c[r.below(3)];
      for (int i = 0; i < 3; ++i) {
        const double u1 = r.uniform(1e-12, 1.), u2 = r.uniform();
        p[i] = cc[i] + sigma * D.side[i] * std::sqrt(-2. * std::log(u1)) * std::cos(2. * M_PI * u2);
      }
      if (D.inside(p)) pts.push_back(p);
    }
  } else if (kind == 2) { // dyadic lattice: points exactly on octant / bucket boundaries, many exact ties
    const int m = 1 << (1 + r.below(3));
    for (int x = 0; x < m; ++x)
      for (int y = 0; y < m; ++y)
        for (int z = 0; z < m; ++z) pts.push_back(CV(D.lo[0] + D.side[0] * x / m, D.lo[1] + D.side[1] * y / m, D.lo[2] + D.side[2] * z / m));
    for (size_t i = pts.size(); i > 1; --i) std::swap(pts[i - 1], pts[r.below(i)]);
  } else { // points on the lower walls / planes plus uniform
    for (size_t i = 0; i < n; ++i) {
      CV p(D.lo[0] + D.side[0] * r.uniform(), D.lo[1] + D.side[1] * r.uniform(), D.lo[2] + D.side[2] * r.uniform());
      if (r.chance(0.3)) {
        const int a = r.below(3);
        p[a] = D.lo[a];
      }
      if (r.chance(0.2)) {
        const int a = r.below(3);
        p[a] = D.lo[a] + D.side[a] * 0.5; // on the mid plane
      }
      if (!D.inside(p)) p = CV(D.lo[0] + D.side[0] * r.uniform(), D.lo[1] + D.side[1] * r.uniform(), D.lo[2] + D.side[2] * r.uniform());
      pts.push_back(p);
    }
  }
}
static double pdist(const Domain &D, bool periodic, const CV &a, const CV &b) {
  double s = 0.;
  for (int i = 0; i < 3; ++i) {
    double dd = std::fabs(a[i] - b[i]);
    if (periodic && dd > 0.5 * D.side[i]) dd = std::fabs(D.side[i] - dd);
    s += dd * dd;
  }
  return std::sqrt(s);
}

static void search_case(uint64_t caseid, vh::Rng r, int64_t nq) {
  const std::string fam = "search";
  Domain D = random_domain(r, false, 4.);
  const int pk = r.below(5) % 4 == 2 || r.chance(0.15) ? 2 : (int)r.below(4);
  const size_t n = 2 + r.below(r.chance(0.3) ? 30 : 1500);
  std::vector< CV > pts;
  make_points(r, D, pk, n, pts);
  {
    std::vector< CV > uniq;
    std::sort(pts.begin(), pts.end(), [](const CV &a, const CV &b) { return a.x() < b.x() || (a.x() == b.x() && (a.y() < b.y() || (a.y() == b.y() && a.z() < b.z()))); });
    for (const CV &p : pts)
      if (uniq.empty() || absmax3(uniq.back() - p) != 0.) uniq.push_back(p);
    for (size_t i = uniq.size(); i > 1; --i) std::swap(uniq[i - 1], uniq[r.below(i)]);
    pts.swap(uniq);
    if (pts.size() < 2) pts.push_back(CV(D.lo[0] + 0.3 * D.side[0], D.lo[1] + 0.6 * D.side[1], D.lo[2] + 0.1 * D.side[2]));
  }
  const size_t np = pts.size();
  static const char *pkn[] = {"uniform", "clustered", "dyadic-lattice", "walls-and-midplanes"};
  const bool periodic = r.chance(0.4);
  std::printf("INFO search case=%" PRIu64 " points=%zu (%s) octree-periodic=%d anchor=(%.17g,%.17g,%.17g) sides=(%.17g,%.17g,%.17g)\n", caseid, np, pkn[pk], periodic, D.lo[0], D.lo[1], D.lo[2], D.side[0], D.side[1],
              D.side[2]);
  if (caseid < 2)
    std::printf("SAMPLE search case=%" PRIu64 " points=%zu (%s) octree-periodic=%d anchor=(%.6g,%.6g,%.6g) sides=(%.6g,%.6g,%.6g) queries=%" PRId64 "\n", caseid, np, pkn[pk], periodic, D.lo[0], D.lo[1], D.lo[2], D.side[0],
                D.side[1], D.side[2], nq);
  g_st.inc("search_point_sets");
  g_st.inc(std::string("search_point_sets_") + pkn[pk]);
  auto query_point = [&](vh::Rng &rr) {
    CV c(D.lo[0] + D.side[0] * rr.uniform(), D.lo[1] + D.side[1] * rr.uniform(), D.lo[2] + D.side[2] * rr.uniform());
    const int k = rr.below(10);
    if (k == 0) c = pts[rr.below(np)];                                  // on a point
    if (k == 1) c = 0.5 * (pts[rr.below(np)] + pts[rr.below(np)]);      // equidistant from two points
    if (k == 2) c[rr.below(3)] = D.lo[0 + rr.below(1)];                 // may leave the box: repaired below
    if (k == 3) {
      const int a = rr.below(3);
      c[a] = D.lo[a] + 0.5 * D.side[a];
    }
    if (!D.inside(c) || near_upper_wall(D, c))
      for (int a = 0; a < 3; ++a)
        if (!(c[a] >= D.lo[a] && c[a] < D.hi[a] - 8. * EPS * D.P)) c[a] = D.lo[a] + D.side[a] * rr.uniform(0.01, 0.99);
    return c;
  };
  // ---- Octree
  run_batch(fam, PH_OCTREE_BUILD, caseid, 1, 5., [&](int64_t) {
    set_phase(PH_OCTREE_BUILD);
    set_w({(double)np, (double)pk, (double)periodic});
    std::vector< CV > tp(pts); // the tree may move exact duplicates; we have none
    Octree tree(tp, D.box(), periodic);
    std::vector< double > h(np);
    const double hs = D.L * r.loguniform(0.01, 0.5) / std::cbrt((double)np);
    for (size_t i = 0; i < np; ++i) h[i] = hs * r.loguniform(0.3, 3.);
    // a few smoothing lengths exactly equal to the distance to a later query point are set inside the battery
    tree.set_auxiliaries(h, Octree::max< double >);
    for (size_t i = 0; i < np; ++i)
      if (absmax3(tp[i] - pts[i]) != 0.) C16_VIOL("search/octree/moved-a-point", caseid, "point %zu was moved by the tree", i);
    // lattice sets: in addition every point queries itself (a point lost from the tree shows up at once)
    run_batch(fam, PH_OCTREE_QUERY, caseid, nq + (pk == 2 ? (int64_t)np : 0), 0., [&](int64_t i) {
      vh::Rng rr = r.fork(7000 + i);
      const CV c = i < nq ? query_point(rr) : pts[i - nq];
      set_w({c.x(), c.y(), c.z(), 1.});
      // nearest neighbour
      const uint_fast32_t got = tree.get_closest_ngb(c);
      double dmin = DBL_MAX;
      size_t imin = 0;
      for (size_t k = 0; k < np; ++k) {
        const double dd = pdist(D, periodic, pts[k], c);
        if (dd < dmin) {
          dmin = dd;
          imin = k;
        }
      }
      if (got >= np || pdist(D, periodic, pts[got], c) != dmin)
        C16_VIOL("search/octree/closest", caseid, "query (%.17g,%.17g,%.17g): tree answers point %zu at distance %.17g, brute force point %zu at %.17g", c.x(),
                c.y(), c.z(), (size_t)got, got < np ? pdist(D, periodic, pts[got], c) : -1., imin, dmin);
      g_st.inc("search_octree_closest");
      g_st.inc(periodic ? "search_octree_queries_periodic" : "search_octree_queries_open");
      // smoothing-length overlap: all i with |p_i - c| <= h_i
      std::vector< uint_fast32_t > ng = tree.get_ngbs(c);
      std::sort(ng.begin(), ng.end());
      std::vector< uint_fast32_t > bf;
      for (size_t k = 0; k < np; ++k)
        if (pdist(D, periodic, pts[k], c) <= h[k]) bf.push_back(k);
      if (ng != bf)
        C16_VIOL("search/octree/ngbs", caseid, "get_ngbs(%.17g,%.17g,%.17g): tree finds %zu smoothing spheres containing it, brute force %zu", c.x(), c.y(), c.z(), ng.size(),
                bf.size());
      g_st.inc("search_octree_ngbs");
      if (!bf.empty()) g_st.inc("search_octree_ngbs_nonempty");
      // sphere overlap
      const double rad = hs * rr.loguniform(0.1, 5.);
      set_w({c.x(), c.y(), c.z(), 2., rad});
      std::vector< uint_fast32_t > ns = tree.get_ngbs_sphere(c, rad);
      std::sort(ns.begin(), ns.end());
      bf.clear();
      for (size_t k = 0; k < np; ++k)
        if (pdist(D, periodic, pts[k], c) <= h[k] + rad) bf.push_back(k);
      if (ns != bf)
        C16_VIOL("search/octree/ngbs", caseid, "get_ngbs_sphere(%.17g,%.17g,%.17g; radius %.17g): tree %zu, brute force %zu", c.x(), c.y(), c.z(), rad, ns.size(),
                bf.size());
      g_st.inc("search_octree_sphere");
      // list of centres
      if (rr.chance(0.3)) {
        std::vector< CV > cl;
        const size_t m = 1 + rr.below(5);
        for (size_t k = 0; k < m; ++k) cl.push_back(query_point(rr));
        set_w({cl[0].x(), cl[0].y(), cl[0].z(), 3., (double)m});
        std::vector< uint_fast32_t > nl = tree.get_ngbs_list(cl);
        std::sort(nl.begin(), nl.end());
        bf.clear();
        for (size_t k = 0; k < np; ++k) {
          bool in = false;
          for (const CV &cc : cl)
            if (pdist(D, periodic, pts[k], cc) <= h[k]) in = true;
          if (in) bf.push_back(k);
        }
        if (nl != bf) C16_VIOL("search/octree/ngbs", caseid, "get_ngbs_list of %zu centres starting at (%.17g,%.17g,%.17g): tree %zu, brute force %zu", m, cl[0].x(),
                              cl[0].y(), cl[0].z(), nl.size(), bf.size());
        g_st.inc("search_octree_list");
      }
    });
  });
  // ---- PointLocations
  run_batch(fam, PH_PL_BUILD, caseid, 1, 5., [&](int64_t) {
    set_phase(PH_PL_BUILD);
    bool with_box = r.chance(0.6);
    { // the automatic bounding box (only used by unit tests; every caller in the code passes a box) needs a non-degenerate range
      CV a = pts[0], b = pts[0];
      for (const CV &p : pts) {
        a = CV::min(a, p);
        b = CV::max(b, p);
      }
      if (!(b.x() > a.x() && b.y() > a.y() && b.z() > a.z())) with_box = true;
    }
    const uint_fast32_t per_cell = 1 + r.below(r.chance(0.5) ? 10 : 100);
    set_w({(double)np, (double)per_cell, (double)with_box});
    PointLocations *plp = with_box ? new PointLocations(pts, per_cell, D.box()) : new PointLocations(pts, per_cell);
    PointLocations &pl = *plp;
    g_st.inc(with_box ? "search_pointlocations_with_box" : "search_pointlocations_auto_box");
    CV qlo(D.lo[0], D.lo[1], D.lo[2]), qhi(D.hi[0], D.hi[1], D.hi[2]);
    if (!with_box) { // queries must lie inside the automatic bounding box: the range of the points
      qlo = pts[0];
      qhi = pts[0];
      for (const CV &p : pts) {
        qlo = CV::min(qlo, p);
        qhi = CV::max(qhi, p);
      }
    }
    run_batch(fam, PH_PL_QUERY, caseid, nq, 0., [&](int64_t i) {
      vh::Rng rr = r.fork(9000 + i);
      CV c = query_point(rr);
      if (!with_box)
        for (int a = 0; a < 3; ++a) c[a] = std::fmin(std::fmax(c[a], qlo[a]), qhi[a]);
      set_w({c.x(), c.y(), c.z(), 4.});
      const uint_fast32_t got = pl.get_closest_neighbour(c);
      double dmin = DBL_MAX;
      size_t imin = 0;
      for (size_t k = 0; k < np; ++k) {
        const double dd = (pts[k] - c).norm2();
        if (dd < dmin) {
          dmin = dd;
          imin = k;
        }
      }
      if (got >= np || (pts[got] - c).norm2() != dmin)
        C16_VIOL("search/pointlocations/closest", caseid, "query (%.17g,%.17g,%.17g): answer point %zu at squared distance %.17g, brute force point %zu at %.17g", c.x(), c.y(), c.z(), (size_t)got,
                got < np ? (pts[got] - c).norm2() : -1., imin, dmin);
      g_st.inc("search_pointlocations_closest");
      // the neighbour iterator of a point: after each step, every point closer than sqrt(max_radius2) has been delivered
      if (rr.chance(0.25)) {
        const size_t idx = rr.below(np);
        set_w({(double)idx, 5.});
        auto it = pl.get_neighbours(idx);
        std::vector< uint8_t > delivered(np, 0);
        size_t steps = 0, ndel = 0;
        bool more = true;
        for (uint_least32_t k : it.get_neighbours()) {
          if (k < np && !delivered[k]) ++ndel;
          if (k < np) ++delivered[k];
        }
        while (more) {
          more = it.increase_range();
          if (!more) break;
          const double r2 = it.get_max_radius2();
          for (size_t k = 0; k < np; ++k)
            if (!delivered[k] && (pts[k] - pts[idx]).norm2() < r2 * (1. - 1e-12)) {
              C16_VIOL("search/pointlocations/iterator-missed-a-closer-point", caseid, "point %zu: after %zu range increases all points within %.17g should have been delivered, point %zu at %.17g was not", idx, steps,
                      std::sqrt(r2), k, (pts[k] - pts[idx]).norm());
              more = false;
              break;
            }
          for (uint_least32_t k : it.get_neighbours()) {
            if (k < np && !delivered[k]) ++ndel;
            if (k < np) ++delivered[k];
          }
          if (++steps > 100000) {
            C16_VIOL("search/pointlocations/iterator-does-not-end", caseid, "point %zu: more than %zu range increases", idx, steps);
            break;
          }
        }
        if (more == false && steps <= 100000) {
          size_t twice = 0;
          for (size_t k = 0; k < np; ++k)
            if (delivered[k] > 1) ++twice;
          if (ndel != np && !vh::g_nviol) C16_VIOL("search/pointlocations/iterator-not-all-points", caseid, "point %zu: the exhausted iterator delivered %zu of %zu points", idx, ndel, np);
          if (twice) C16_VIOL("search/pointlocations/iterator-point-twice", caseid, "point %zu: %zu points were delivered more than once", idx, twice);
        }
        g_st.inc("search_pointlocations_iterators");
        g_st.inc("search_pointlocations_iterator_steps", steps);
      }
    });
  });
  // ---- MortonKeyGenerator: decode the key (de-interleave) and compare with the position; order is monotone
  {
    set_phase(PH_OTHER);
    MortonKeyGenerator mk(D.box());
    uint64_t prevkey = 0;
    CV prevp;
    for (int q = 0; q < 200; ++q) {
      vh::Rng rr = r.fork(20000 + q);
      CV c = query_point(rr);
      const uint64_t key = mk.get_key(c);
      uint32_t b[3] = {0, 0, 0};
      for (int lev = 0; lev < 21; ++lev)
        for (int a = 0; a < 3; ++a) b[a] |= (uint32_t)((key >> (3 * lev + (2 - a))) & 1u) << lev;
      for (int a = 0; a < 3; ++a) {
        const double f = (c[a] - D.lo[a]) / D.side[a] * 2097151.;
        if (!(b[a] <= f + 1e-6 && f < b[a] + 1. + 1e-6) || key >> 63)
          C16_VIOL("search/morton/key-does-not-encode-position", caseid, "position (%.17g,%.17g,%.17g): key 0x%" PRIx64 " decodes to %u on axis %d, scaled coordinate %.9f", c.x(), c.y(), c.z(), key, b[a], a, f);
      }
      if (q) { // componentwise smaller-or-equal position => smaller-or-equal key
        CV lo = CV::min(c, prevp);
        const uint64_t klo = mk.get_key(lo);
        if (klo > key || klo > prevkey) C16_VIOL("search/morton/not-monotone", caseid, "key of the componentwise minimum 0x%" PRIx64 " exceeds 0x%" PRIx64 " / 0x%" PRIx64, klo, key, prevkey);
      }
      prevkey = key;
      prevp = c;
      g_st.inc("search_morton_keys");
    }
  }
}

// FAMILY-INSERT

static void run_family_case(const std::string &family, uint64_t id, vh::Rng r, int argc, char **argv) {
  const int64_t nloc = (int64_t)vh::arg_u64(argc, argv, "--locates", 2000);
  const int64_t nrays = (int64_t)vh::arg_u64(argc, argv, "--rays", 300);
  if (family == "cartesian") run_case(family, id, 900., [&]() { cartesian_case(id, r, nloc, nrays); });
  if (family == "amrgrid") run_case(family, id, 900., [&]() { amrgrid_case(id, r, nloc); });
  if (family == "amr") run_case(family, id, 900., [&]() { amr_case(id, r, nloc, nrays); });
  if (family == "voronoi") run_case(family, id, 900., [&]() { voronoi_case(id, r, nloc, nrays); });
  if (family == "search") run_case(family, id, 900., [&]() { search_case(id, r, (int64_t)vh::arg_u64(argc, argv, "--queries", 300)); });
  // DISPATCH-INSERT
}

// ==== MAIN ====
int main(int argc, char **argv) {
  const uint64_t seed = vh::arg_u64(argc, argv, "--seed", 1);
  const std::string family = vh::arg_str(argc, argv, "--family", "cartesian");
  const uint64_t ncases = vh::arg_u64(argc, argv, "--cases", 4);
  const int64_t only = (int64_t)vh::arg_u64(argc, argv, "--only", (uint64_t)-1);
  g_nofork = vh::arg_flag(argc, argv, "--nofork");
  g_keep_stderr = vh::arg_flag(argc, argv, "--stderr");
  g_tscale = vh::arg_f(argc, argv, "--tscale", 1.);
  g_debug_ray = (int64_t)vh::arg_u64(argc, argv, "--debugray", (uint64_t)-1);
  g_inject = vh::arg_f(argc, argv, "--inject", 0.);
#ifdef _OPENMP
  omp_set_num_threads(1);
#endif
  g_sh = (Shared *)mmap(nullptr, sizeof(Shared), PROT_READ | PROT_WRITE, MAP_SHARED | MAP_ANONYMOUS, -1, 0);
  if (g_sh == MAP_FAILED) return 3;
  g_sh->nviol = 0;
  g_key_print_limit = (uint32_t)vh::arg_u64(argc, argv, "--perkey", 1);
  if (only >= 0) g_key_print_limit = 1000;
  uint64_t famtag = 0;
  for (char ch : family) famtag = famtag * 131 + (unsigned char)ch;
  vh::Rng master(seed * 1000003ull + 16 + famtag * 7919ull);
  for (uint64_t id = 0; id < ncases; ++id) {
    vh::Rng r = master.fork(id);
    if (only >= 0 && (int64_t)id != only) continue;
    run_family_case(family, id, r, argc, argv);
  }
  g_st.print();
  const uint64_t total = vh::g_nviol + g_sh->nviol;
  std::printf("DONE violations=%" PRIu64 "\n", total);
  return total ? 1 : 0;
}
