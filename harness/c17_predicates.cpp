// C17: evaluate the real orientation / in-sphere predicates of ExactGeometricTests
// (floating point filter + exact integer versions) on generated point tuples and on
// every permutation of each tuple; log inputs (hex floats) and results.  The verdict
// is NOT taken here: the offline oracle /verif/oracle/c17_exact.py recomputes the sign
// of the determinant with arbitrary precision integers.
//
// One output line per tuple:
//   T case=<n> kind=<O|I> cls=<r|d|n|ref> sub=<generator> pts=<hexfloat,...> ad=<...> ex=<...>
// kind O: 4 points (orient3d), kind I: 5 points (insphere).  `ad`/`ex` hold one character
// ('-','0','+') per permutation of the points, permutations in lexicographic order of the
// index vector (first = identity), for the *_adaptive and *_exact function respectively.
//
// All coordinates are 1 + m*2^-52 with an integer mantissa m in [0,2^52): the normalised
// range [1,2) in which NewVoronoiGrid hands generator positions to the predicates.
#include "ExactGeometricTests.hpp"
#include "vh.hpp"
#include <algorithm>
#include <string>
#include <vector>

typedef int64_t i64;
static const i64 M = (i64)1 << 52;

struct P3 {
  i64 c[3];
};

static inline double to_double(i64 m) {
  return vh::from_bits(0x3FF0000000000000ull | (uint64_t)m);
}
static inline bool inrange(const P3 &p) {
  for (int i = 0; i < 3; ++i)
    if (p.c[i] < 0 || p.c[i] >= M) return false;
  return true;
}
static inline i64 rint64(vh::Rng &r, i64 lo, i64 hi) { return r.range(lo, hi); }
static inline i64 rsym(vh::Rng &r, i64 a) { return r.range(-a, a); }
static P3 uniform_point(vh::Rng &r) {
  P3 p;
  for (int i = 0; i < 3; ++i) p.c[i] = (i64)(r.next() >> 12);
  return p;
}
static P3 add(const P3 &a, const P3 &b) { return P3{{a.c[0] + b.c[0], a.c[1] + b.c[1], a.c[2] + b.c[2]}}; }
static P3 mul(i64 s, const P3 &a) { return P3{{s * a.c[0], s * a.c[1], s * a.c[2]}}; }
static P3 cross(const P3 &a, const P3 &b) {
  return P3{{a.c[1] * b.c[2] - a.c[2] * b.c[1], a.c[2] * b.c[0] - a.c[0] * b.c[2], a.c[0] * b.c[1] - a.c[1] * b.c[0]}};
}
static i64 maxabs(const P3 &a) {
  i64 m = 0;
  for (int i = 0; i < 3; ++i) m = std::max(m, (i64)std::llabs(a.c[i]));
  return m;
}
static P3 small_vec(vh::Rng &r, int k) {
  const i64 a = (i64)1 << k;
  return P3{{rsym(r, a), rsym(r, a), rsym(r, a)}};
}
// origin such that origin + offsets of magnitude <= reach stay in range
static bool origin_for(vh::Rng &r, i64 reach, P3 &o) {
  if (2 * reach >= M - 2) return false;
  for (int i = 0; i < 3; ++i) o.c[i] = rint64(r, reach, M - 1 - reach);
  return true;
}
static i64 gcd64(i64 a, i64 b) {
  while (b) {
    i64 t = a % b;
    a = b;
    b = t;
  }
  return a < 0 ? -a : a;
}

// ---------------------------------------------------------------- random classes
static bool gen_random(vh::Rng &r, int n, std::vector<P3> &pts, std::string &sub) {
  const int k = r.below(4);
  pts.resize(n);
  if (k <= 1) { // uniform in the whole cube
    sub = "uniform";
    for (int i = 0; i < n; ++i) pts[i] = uniform_point(r);
  } else if (k == 2) { // cluster of size 2^b ulp, b in 1..51
    sub = "cluster";
    const int b = 1 + r.below(51);
    P3 o;
    if (!origin_for(r, (i64)1 << b, o)) {
      const i64 reach = ((i64)1 << b) / 2;
      for (int i = 0; i < 3; ++i) o.c[i] = M / 2;
      for (int i = 0; i < n; ++i) pts[i] = add(o, P3{{rsym(r, reach - 1), rsym(r, reach - 1), rsym(r, reach - 1)}});
    } else
      for (int i = 0; i < n; ++i) pts[i] = add(o, small_vec(r, b));
  } else { // extremes of the range: largest possible differences (bit width of the integer types)
    sub = "extreme";
    for (int i = 0; i < n; ++i)
      for (int c = 0; c < 3; ++c) {
        const int w = r.below(5);
        pts[i].c[c] = w == 0 ? 0 : w == 1 ? M - 1 : w == 2 ? (i64)r.below(1024) : w == 3 ? M - 1 - (i64)r.below(1024) : (i64)(r.next() >> 12);
      }
  }
  for (int i = 0; i < n; ++i)
    if (!inrange(pts[i])) return false;
  return true;
}

// ------------------------------------------------- exactly coplanar 4-tuples (orient3d == 0)
static bool gen_coplanar(vh::Rng &r, int n, std::vector<P3> &pts, std::string &sub, int force = -1) {
  const int k = force >= 0 ? force : (int)r.below(5);
  pts.resize(n);
  if (k <= 1) { // affine image of the integer lattice Z^2: o + s u + t v
    sub = "lattice-plane";
    const int b = r.below(47);
    const P3 u = small_vec(r, b), v = small_vec(r, b);
    P3 o;
    if (!origin_for(r, (i64)16 << b, o)) return false;
    for (int i = 0; i < n; ++i) pts[i] = add(o, add(mul(rsym(r, 8), u), mul(rsym(r, 8), v)));
  } else if (k == 2) { // plane of constant x, y or z
    sub = "axis-plane";
    const int ax = r.below(3);
    const i64 val = (i64)(r.next() >> 12);
    for (int i = 0; i < n; ++i) {
      pts[i] = uniform_point(r);
      pts[i].c[ax] = val;
    }
  } else if (k == 3) { // two identical points
    sub = "duplicate";
    for (int i = 0; i < n; ++i) pts[i] = uniform_point(r);
    const int i = r.below(n);
    int j = r.below(n - 1);
    if (j >= i) ++j;
    pts[j] = pts[i];
  } else { // three collinear points + free ones
    sub = "collinear";
    const int b = r.below(48);
    const P3 u = small_vec(r, b);
    P3 o;
    if (!origin_for(r, (i64)8 << b, o)) return false;
    for (int i = 0; i < 3; ++i) pts[i] = add(o, mul(rsym(r, 8), u));
    for (int i = 3; i < n; ++i) pts[i] = uniform_point(r);
    if (n == 5) { // for the in-sphere determinant all five must be coplanar: put them in a plane through the line
      const P3 v = small_vec(r, b);
      for (int i = 3; i < n; ++i) pts[i] = add(o, add(mul(rsym(r, 4), u), mul(rsym(r, 4), v)));
    }
  }
  for (int i = 0; i < n; ++i)
    if (!inrange(pts[i])) return false;
  return true;
}

// ------------------------------------------------- exactly cospherical 5-tuples (insphere == 0)
static P3 signed_perm(vh::Rng &r, const P3 &w) {
  int idx[3] = {0, 1, 2};
  for (int i = 2; i > 0; --i) std::swap(idx[i], idx[r.below(i + 1)]);
  P3 o;
  for (int i = 0; i < 3; ++i) o.c[i] = (r.next() & 1) ? w.c[idx[i]] : -w.c[idx[i]];
  return o;
}
static bool gen_cospherical(vh::Rng &r, std::vector<P3> &pts, std::string &sub) {
  const int k = r.below(7);
  pts.resize(5);
  if (k == 0) { // signed permutations of one integer vector around an integer centre
    sub = "signed-perm";
    const int b = 1 + r.below(50);
    const P3 w = small_vec(r, b);
    P3 o;
    if (!origin_for(r, maxabs(w), o)) return false;
    for (int i = 0; i < 5; ++i) pts[i] = add(o, signed_perm(r, w));
  } else if (k <= 2) { // rational points of a sphere (stereographic parametrisation), scaled to integers
    sub = "stereographic";
    i64 u[5], v[5], den[5], L = 1;
    for (int i = 0; i < 5; ++i) {
      u[i] = rsym(r, 4);
      v[i] = rsym(r, 4);
      den[i] = u[i] * u[i] + v[i] * v[i] + 1;
      L = L / gcd64(L, den[i]) * den[i];
    }
    const i64 gmax = ((i64)1 << 50) / L;
    if (gmax < 1) return false;
    const i64 g = std::max<i64>(1, (i64)r.loguniform(1., (double)gmax));
    const i64 R = g * L;
    P3 o;
    if (!origin_for(r, R, o)) return false;
    // one common signed permutation keeps the five offsets on the sphere and moves the pole around
    const uint64_t spseed = r.next();
    for (int i = 0; i < 5; ++i) {
      const i64 f = R / den[i];
      const P3 w{{f * 2 * u[i], f * 2 * v[i], f * (u[i] * u[i] + v[i] * v[i] - 1)}};
      vh::Rng r2(spseed);
      pts[i] = add(o, signed_perm(r2, w));
    }
  } else if (k == 3) { // corners of an axis aligned box (centre has half-integer coordinates)
    sub = "box-corners";
    P3 o = uniform_point(r), s;
    for (int c = 0; c < 3; ++c) {
      if (M - 1 - o.c[c] < 1) return false;
      s.c[c] = rint64(r, 1, M - 1 - o.c[c]);
      if (r.chance(0.3)) s.c[c] = std::min<i64>(s.c[c], 1 + (i64)r.below(1000));
    }
    int corner[8] = {0, 1, 2, 3, 4, 5, 6, 7};
    for (int i = 7; i > 0; --i) std::swap(corner[i], corner[r.below(i + 1)]);
    for (int i = 0; i < 5; ++i)
      for (int c = 0; c < 3; ++c) pts[i].c[c] = o.c[c] + (((corner[i] >> c) & 1) ? s.c[c] : 0);
  } else if (k == 4) { // four concyclic points (lattice rectangle in a tilted plane) + an arbitrary fifth
    sub = "rectangle+free";
    const int b = 1 + r.below(24);
    const P3 u = small_vec(r, b), w = small_vec(r, b);
    const P3 v = cross(u, w); // integer, orthogonal to u
    P3 o;
    if (!origin_for(r, (i64)1 << 50, o)) return false;
    pts[0] = o;
    pts[1] = add(o, u);
    pts[2] = add(o, add(u, v));
    pts[3] = add(o, v);
    pts[4] = uniform_point(r);
  } else if (k == 5) { // five coplanar points
    std::vector<P3> q;
    if (!gen_coplanar(r, 5, q, sub, r.chance(0.5) ? 0 : 4)) return false;
    sub = "coplanar5/" + sub;
    pts = q;
  } else { // duplicate point
    sub = "duplicate";
    for (int i = 0; i < 5; ++i) pts[i] = uniform_point(r);
    const int i = r.below(5);
    int j = r.below(4);
    if (j >= i) ++j;
    pts[j] = pts[i];
  }
  for (int i = 0; i < 5; ++i)
    if (!inrange(pts[i])) return false;
  return true;
}

// perturb an exactly degenerate configuration by 1..1000 units in the last place
static bool perturb(vh::Rng &r, std::vector<P3> &pts, std::string &sub) {
  const int n = (int)pts.size();
  const int ncoord = r.chance(0.75) ? 1 : 2 + (int)r.below(2);
  const int pi = r.below(n);
  sub += ncoord == 1 ? "+1coord" : "+multi";
  for (int q = 0; q < ncoord; ++q) {
    const int c = ncoord == 1 ? (int)r.below(3) : q;
    i64 d = rint64(r, 1, r.chance(0.3) ? 3 : 1000);
    if (r.next() & 1) d = -d;
    i64 nv = pts[pi].c[c] + d;
    if (nv < 0 || nv >= M) nv = pts[pi].c[c] - d;
    if (nv < 0 || nv >= M) return false;
    pts[pi].c[c] = nv;
  }
  return true;
}

static char sc(int v) { return v == -1 ? '-' : v == 0 ? '0' : v == 1 ? '+' : '?'; }

int main(int argc, char **argv) {
  const uint64_t seed = vh::arg_u64(argc, argv, "--seed", 1);
  const uint64_t ntup = vh::arg_u64(argc, argv, "--tuples", 1000);
  const int64_t only = (int64_t)vh::arg_u64(argc, argv, "--only", (uint64_t)-1);
  static char obuf[1 << 20];
  std::setvbuf(stdout, obuf, _IOFBF, sizeof obuf);
  vh::Stats st;
  vh::Rng master(seed * 1000003ull + 17);
  const uint64_t NREF = 4;

  for (uint64_t h = 0; h < ntup; ++h) {
    if (only >= 0 && (int64_t)h != only) continue;
    vh::Rng r = master.fork(h);
    std::vector<P3> pts;
    std::string sub, cls;
    int n;
    if (h < NREF) {
      // reference configurations with a geometrically obvious answer (sign convention):
      // the translated example of the documentation of orient3d (+1), its mirror image, and
      // an interior / far exterior point for the in-sphere test
      const i64 H = M / 2, Q = M / 8;
      cls = "ref";
      const P3 a{{0, 0, 0}}, b{{0, 0, H}}, c{{0, H, 0}}, d{{H, 0, 0}};
      if (h == 0) { n = 4; sub = "doc-example"; pts = {a, b, c, d}; }
      else if (h == 1) { n = 4; sub = "doc-example-mirrored"; pts = {a, b, d, c}; }
      else if (h == 2) { n = 5; sub = "interior-point"; pts = {a, b, d, c, P3{{Q, Q, Q}}}; }
      else { n = 5; sub = "exterior-point"; pts = {a, b, d, c, P3{{M - 1, M - 1, M - 1}}}; }
    } else {
      n = (r.next() & 1) ? 4 : 5;
      const double u = r.uniform();
      cls = u < 0.3 ? "r" : u < 0.6 ? "d" : "n";
      bool ok = false;
      for (int attempt = 0; attempt < 200 && !ok; ++attempt) {
        if (cls == "r") ok = gen_random(r, n, pts, sub);
        else {
          ok = n == 4 ? gen_coplanar(r, 4, pts, sub) : gen_cospherical(r, pts, sub);
          if (ok && cls == "n") ok = perturb(r, pts, sub);
        }
      }
      if (!ok) {
        st.inc("gen_fallback_to_uniform");
        cls = "r";
        sub = "uniform";
        pts.resize(n);
        for (int i = 0; i < n; ++i) pts[i] = uniform_point(r);
      }
      // the special point must not always sit in the same argument slot
      for (int i = n - 1; i > 0; --i) std::swap(pts[i], pts[r.below(i + 1)]);
    }

    // the way the repository calls the predicates: CoordinateVector<double> in [1,2)
    CoordinateVector<> p[5];
    for (int i = 0; i < n; ++i) p[i] = CoordinateVector<>(to_double(pts[i].c[0]), to_double(pts[i].c[1]), to_double(pts[i].c[2]));

    std::string ad, ex;
    int idx[5] = {0, 1, 2, 3, 4};
    do {
      int ra, re;
      if (n == 4) {
        ra = ExactGeometricTests::orient3d_adaptive(p[idx[0]], p[idx[1]], p[idx[2]], p[idx[3]]);
        re = ExactGeometricTests::orient3d_exact(p[idx[0]], p[idx[1]], p[idx[2]], p[idx[3]]);
      } else {
        ra = ExactGeometricTests::insphere_adaptive(p[idx[0]], p[idx[1]], p[idx[2]], p[idx[3]], p[idx[4]]);
        re = ExactGeometricTests::insphere_exact(p[idx[0]], p[idx[1]], p[idx[2]], p[idx[3]], p[idx[4]]);
      }
      ad.push_back(sc(ra));
      ex.push_back(sc(re));
    } while (std::next_permutation(idx, idx + n));

    std::printf("T case=%" PRIu64 " kind=%c cls=%s sub=%s pts=", h, n == 4 ? 'O' : 'I', cls.c_str(), sub.c_str());
    for (int i = 0; i < n; ++i)
      for (int c = 0; c < 3; ++c) std::printf("%s%a", (i || c) ? "," : "", p[i][c]);
    std::printf(" ad=%s ex=%s\n", ad.c_str(), ex.c_str());

    st.inc("tuples");
    st.inc(n == 4 ? "tuples_orient" : "tuples_insphere");
    st.inc(std::string("cls_") + cls + (n == 4 ? "_orient" : "_insphere"));
    st.inc("predicate_calls", 2 * ad.size());
    if (ad[0] == '0') st.inc("adaptive_returned_zero");
    if (ex[0] == '0') st.inc("exact_returned_zero");
  }
  st.print();
  std::printf("DONE violations=%" PRIu64 "\n", vh::g_nviol);
  return 0;
}
