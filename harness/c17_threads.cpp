// C17 (thread invariance): the predicates are called concurrently by all worker threads of the Voronoi grid
// construction (NewVoronoiGrid::compute_grid -> NewVoronoiCellConstructor on every thread), so "always return the exact
// sign" includes "whatever the other threads are evaluating at the same moment".  Every thread owns a set of
// near-degenerate point tuples (the ones that reach the exact arithmetic: coplanar / cospherical lattice points and
// few-ulp perturbations of them), evaluates them once alone (reference; the sequential exactness itself is decided by
// c17_predicates + oracle/c17_exact.py) and then concurrently with the other threads, every test repeated a few times in
// a row, and the two passes must agree.  Built for the hooks and for the TSan variant (a shared mutable cache inside a
// predicate is a data race whether or not it produced a wrong sign in this run).
#include "ExactGeometricTests.hpp"
#include "vh.hpp"
#include <atomic>
#include <thread>
#include <vector>

struct Tuple {
  CoordinateVector<> p[5];
};

// coordinates in [1,2[ on the 2^-52 grid: 1 + m 2^-52
static double grid(uint64_t m) { return 1. + std::ldexp((double)m, -52); }

static void make_tuples(vh::Rng &r, std::vector< Tuple > &out, size_t n) {
  out.resize(n);
  for (size_t i = 0; i < n; ++i) {
    // lattice: origin o, spacing s (mantissa units), points o + s*(integer vectors)
    const uint64_t s = 1ull << r.range(20, 44);
    const uint64_t o[3] = {r.below(1ull << 50), r.below(1ull << 50), r.below(1ull << 50)};
    int v[5][3];
    const int kind = (int)r.below(4);
    if (kind == 0) { // four coplanar points (z' = 0 plane of the lattice) + one more: orientation exactly 0
      for (int k = 0; k < 5; ++k) { v[k][0] = (int)r.below(8); v[k][1] = (int)r.below(8); v[k][2] = k < 4 ? 3 : (int)r.below(8); }
    } else if (kind == 1) { // corners of a lattice cube: cospherical, in-sphere exactly 0
      static const int c[8][3] = {{0, 0, 0}, {1, 0, 0}, {0, 1, 0}, {0, 0, 1}, {1, 1, 0}, {1, 0, 1}, {0, 1, 1}, {1, 1, 1}};
      int perm[8] = {0, 1, 2, 3, 4, 5, 6, 7};
      for (int k = 7; k > 0; --k) std::swap(perm[k], perm[r.below(k + 1)]);
      const int e = 1 + (int)r.below(4);
      for (int k = 0; k < 5; ++k) for (int d = 0; d < 3; ++d) v[k][d] = e * c[perm[k]][d];
    } else { // generic lattice points (mostly decided by the filter) -- keeps the threads out of step
      for (int k = 0; k < 5; ++k) for (int d = 0; d < 3; ++d) v[k][d] = (int)r.below(8);
    }
    for (int k = 0; k < 5; ++k) {
      uint64_t m[3];
      for (int d = 0; d < 3; ++d) {
        m[d] = o[d] + s * (uint64_t)v[k][d];
        // few-ulp perturbation of one coordinate in half of the tuples: sign of second order, exact path still taken
        if (kind != 2 && r.chance(0.15)) m[d] += r.below(4);
        m[d] &= (1ull << 52) - 1;
      }
      out[i].p[k] = CoordinateVector<>(grid(m[0]), grid(m[1]), grid(m[2]));
    }
  }
}

int main(int argc, char **argv) {
  const uint64_t seed = vh::arg_u64(argc, argv, "--seed", 1);
  const uint64_t K = vh::arg_u64(argc, argv, "--tuples", 20000);
  const int T = (int)vh::arg_u64(argc, argv, "--threads", 8);
  const int repeats = (int)vh::arg_u64(argc, argv, "--repeats", 3);
  vh::Stats st;
  std::vector< std::vector< Tuple > > tuples(T);
  for (int t = 0; t < T; ++t) {
    vh::Rng r(seed * 7919 + t);
    make_tuples(r, tuples[t], K);
  }
  // 4 results per tuple and repeat: orient exact/adaptive, insphere exact/adaptive
  auto worker = [&](int t, std::vector< signed char > &out, std::atomic< int > *gate) {
    if (gate) { gate->fetch_sub(1); while (gate->load() > 0) std::this_thread::yield(); }
    out.resize(4 * K * repeats);
    size_t j = 0;
    for (uint64_t k = 0; k < K; ++k) {
      const Tuple &q = tuples[t][k];
      for (int rep = 0; rep < repeats; ++rep) {
        out[j++] = ExactGeometricTests::orient3d_exact(q.p[0], q.p[1], q.p[2], q.p[3]);
        out[j++] = ExactGeometricTests::orient3d_adaptive(q.p[0], q.p[1], q.p[2], q.p[3]);
        out[j++] = ExactGeometricTests::insphere_exact(q.p[0], q.p[1], q.p[2], q.p[3], q.p[4]);
        out[j++] = ExactGeometricTests::insphere_adaptive(q.p[0], q.p[1], q.p[2], q.p[3], q.p[4]);
      }
    }
  };
  std::vector< std::vector< signed char > > ref(T), conc(T);
  for (int t = 0; t < T; ++t) worker(t, ref[t], nullptr);
  std::atomic< int > gate(T);
  std::vector< std::thread > th;
  for (int t = 0; t < T; ++t) th.emplace_back(worker, t, std::ref(conc[t]), &gate);
  for (auto &x : th) x.join();
  static const char *name[4] = {"orient3d_exact", "orient3d_adaptive", "insphere_exact", "insphere_adaptive"};
  uint64_t differ = 0, zeros = 0, repeat_differs = 0;
  for (int t = 0; t < T; ++t)
    for (size_t j = 0; j < ref[t].size(); ++j) {
      if (ref[t][j] == 0) ++zeros;
      // the sequential pass must also be independent of what the same thread evaluated just before
      const size_t rep = (j / 4) % repeats;
      if (rep > 0 && ref[t][j] != ref[t][j - 4]) {
        if (repeat_differs < 3)
          VH_VIOL((std::string("threads/repeat-differs/") + name[j % 4]).c_str(), t * K + j / (4 * repeats),
                  "thread %d alone, tuple %zu: %s returned %d and then %d for the same points", t, j / (4 * repeats), name[j % 4], ref[t][j - 4], ref[t][j]);
        ++repeat_differs;
      }
      if (ref[t][j] != conc[t][j]) {
        if (differ < 5)
          VH_VIOL((std::string("threads/sign-differs/") + name[j % 4]).c_str(), t * K + j / (4 * repeats),
                  "thread %d tuple %zu repeat %zu: %s returned %d alone and %d while %d other threads were evaluating their own points", t,
                  j / (4 * repeats), rep, name[j % 4], ref[t][j], conc[t][j], T - 1);
        ++differ;
      }
    }
  st.inc("threads_evaluations_compared", (uint64_t)T * 4 * K * repeats);
  st.inc("threads_exact_zero_results", zeros);
  st.inc("threads_sign_differs", differ);
  st.inc("threads_used", T);
  st.print();
  std::printf("DONE violations=%" PRIu64 "\n", vh::g_nviol);
  return vh::g_nviol ? 1 : 0;
}
