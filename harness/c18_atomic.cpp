// C18: evaluate the REAL atomic-data classes and spectrum samplers of CMacIonize at
// chosen inputs and dump the answers as hex floats.  No oracle lives here: every
// judgement is made by the independent Python oracles in /verif/oracle/c18_*.py.
//
//   --mode consts                 physical constants used for unit conversion, ion names
//   --mode xsec   --out F [--edges F2]   Verner + fixed-value cross sections
//   --mode rates  --out F               recombination and charge transfer rates
//   --mode sampler --out F --tmp DIR    nu(u) of every spectrum, u injected through a
//                                       RandomGenerator restored from crafted bytes
//   --only <spec>   replay a single point:  xsec  ion:hexnu      rates  ion:hexT
//                                           sampler  specid:hexu
//
// Output lines (all doubles as C99 hex floats):
//   X <ion> <nu> <sigma>            F <ion> <nu> <sigma>  (fixed-value class)
//   R <ion> <T> <alpha>             CT <reaction> <ion> <T> <T4> <rate>
//   SPEC <id> key=value ...         S <id> <u> <nu>
#include "ChargeTransferRates.hpp"
#include "ElementNames.hpp"
#include "FixedValueCrossSections.hpp"
#include "HeliumLymanContinuumSpectrum.hpp"
#include "HeliumTwoPhotonContinuumSpectrum.hpp"
#include "HydrogenLymanContinuumSpectrum.hpp"
#include "MaskedPhotonSourceSpectrum.hpp"
#include "MonochromaticPhotonSourceSpectrum.hpp"
#include "PhotonSourceSpectrumMask.hpp"
#include "LinearPhotonSourceSpectrumMask.hpp"
#include "PhysicalConstants.hpp"
#include "PlanckPhotonSourceSpectrum.hpp"
#include "RandomGenerator.hpp"
#include "RestartReader.hpp"
#include "UniformPhotonSourceSpectrum.hpp"
#include "VernerCrossSections.hpp"
#include "VernerRecombinationRates.hpp"
#include "vh.hpp"
#include <algorithm>
#include <string>
#include <unistd.h>
#include <vector>

static const double NU_H = 3.288465385e15; // 13.6 eV in Hz (value used throughout the code base)

static FILE *g_out = nullptr;

// ---------------------------------------------------------------------------
// grids
// ---------------------------------------------------------------------------
static void add_with_neighbours(std::vector<double> &v, double x, int maxulp) {
  v.push_back(x);
  for (int k = 1; k <= maxulp; k *= 2) {
    v.push_back(vh::nextup(x, k));
    v.push_back(vh::nextdown(x, k));
  }
}

static std::vector<double> sorted_unique(std::vector<double> v) {
  std::sort(v.begin(), v.end());
  v.erase(std::unique(v.begin(), v.end()), v.end());
  return v;
}

// ---------------------------------------------------------------------------
// cross sections
// ---------------------------------------------------------------------------
static int run_xsec(int argc, char **argv, uint64_t seed, vh::Stats &st) {
  const uint64_t ngrid = vh::arg_u64(argc, argv, "--ngrid", 4000);
  const uint64_t nrand = vh::arg_u64(argc, argv, "--nrand", 500);
  const char *edges = vh::arg_str(argc, argv, "--edges", "");
  const char *only = vh::arg_str(argc, argv, "--only", "");
  VernerCrossSections xs;
  if (*only) {
    int ion; char buf[128];
    if (std::sscanf(only, "%d:%127s", &ion, buf) != 2) return 3;
    const double nu = std::strtod(buf, nullptr);
    const double s = xs.get_cross_section(ion, nu);
    std::fprintf(g_out, "X %d %a %a\n", ion, nu, s);
    std::printf("SAMPLE replay ion=%s nu=%a (%.17g Hz) sigma=%a (%.17g m^2)\n", get_ion_name(ion).c_str(), nu, nu, s, s);
    return 0;
  }
  std::vector<double> nus;
  const double lo = 0.5 * NU_H, hi = 100. * NU_H;
  for (uint64_t i = 0; i < ngrid; ++i)
    nus.push_back(lo * std::pow(hi / lo, (double)i / (double)(ngrid - 1)));
  nus.back() = hi;
  vh::Rng r(seed * 7919ull + 18);
  for (uint64_t i = 0; i < nrand; ++i) nus.push_back(r.loguniform(lo, hi));
  // half of the random points in the range the code's own spectra can produce
  for (uint64_t i = 0; i < nrand; ++i) nus.push_back(r.uniform(0.95 * NU_H, 4.05 * NU_H));
  uint64_t nedge = 0;
  if (*edges) {
    FILE *f = std::fopen(edges, "r");
    if (!f) { std::fprintf(stderr, "cannot open edges file %s\n", edges); return 3; }
    char buf[256];
    while (std::fgets(buf, sizeof buf, f)) {
      if (buf[0] == '#' || buf[0] == '\n') continue;
      const double e = std::strtod(buf, nullptr);
      if (e > 0) { add_with_neighbours(nus, e, 64); ++nedge; }
    }
    std::fclose(f);
  }
  nus = sorted_unique(nus);
  for (int ion = 0; ion < NUMBER_OF_IONNAMES; ++ion) {
    for (double nu : nus) {
      const double s = xs.get_cross_section(ion, nu);
      std::fprintf(g_out, "X %d %a %a\n", ion, nu, s);
      st.inc("xsec_evaluations");
    }
  }
  st.inc("xsec_frequencies", nus.size());
  st.inc("xsec_edges_probed", nedge);
  // fixed-value cross sections: 14 distinct values, must come back per ion for any frequency
  double fv[14];
  for (int i = 0; i < 14; ++i) fv[i] = r.loguniform(1e-24, 1e-20);
  FixedValueCrossSections fx(fv[0], fv[1], fv[2], fv[3], fv[4], fv[5], fv[6], fv[7], fv[8], fv[9], fv[10], fv[11], fv[12], fv[13]);
  for (int i = 0; i < 14; ++i) std::fprintf(g_out, "FV %d %a\n", i, fv[i]);
  for (int ion = 0; ion < NUMBER_OF_IONNAMES; ++ion)
    for (int k = 0; k < 20; ++k) {
      const double nu = nus[r.below(nus.size())];
      std::fprintf(g_out, "F %d %a %a\n", ion, nu, fx.get_cross_section(ion, nu));
      st.inc("fixed_evaluations");
    }
  return 0;
}

// ---------------------------------------------------------------------------
// rates
// ---------------------------------------------------------------------------
static int run_rates(int argc, char **argv, uint64_t seed, vh::Stats &st) {
  const uint64_t ngrid = vh::arg_u64(argc, argv, "--ngrid", 2000);
  const uint64_t nrand = vh::arg_u64(argc, argv, "--nrand", 500);
  const char *only = vh::arg_str(argc, argv, "--only", "");
  VernerRecombinationRates rr;
  ChargeTransferRates ct;
  // the reactions IonizationStateCalculator::compute_ionization_states_metals uses
  const int ctrH[] = {ION_C_p2, ION_N_n, ION_N_p1, ION_N_p2, ION_O_n, ION_O_p1, ION_Ne_p1, ION_S_p1, ION_S_p2, ION_S_p3};
  const int ctrHe[] = {ION_C_p2, ION_N_p1, ION_N_p2, ION_O_p1, ION_Ne_p1, ION_S_p2, ION_S_p3};
  const int ctiH[] = {ION_N_n, ION_O_n};
  std::vector<double> Ts;
  if (*only) {
    int ion; char buf[128];
    if (std::sscanf(only, "%d:%127s", &ion, buf) != 2) return 3;
    Ts.push_back(std::strtod(buf, nullptr));
    std::printf("SAMPLE replay ion=%s T=%.17g alpha=%.17g m^3/s\n", get_ion_name(ion).c_str(), Ts[0], rr.get_recombination_rate(ion, Ts[0]));
  } else {
    const double lo = 10., hi = 1.e9;
    for (uint64_t i = 0; i < ngrid; ++i)
      add_with_neighbours(Ts, lo * std::pow(hi / lo, (double)i / (double)(ngrid - 1)), 1);
    vh::Rng r(seed * 104729ull + 18);
    for (uint64_t i = 0; i < nrand; ++i) add_with_neighbours(Ts, r.loguniform(lo, hi), 1);
    // clamp points of the charge transfer fits and round temperatures
    const double special[] = {10., 100., 1.e3, 5.e3, 6.e3, 1.e4, 3.e4, 5.e4, 1.e5, 1.e6, 1.e7, 1.e8, 1.e9};
    for (double s : special) add_with_neighbours(Ts, s, 2);
    Ts = sorted_unique(Ts);
    // stay inside the quantifier's closed range
    Ts.erase(std::remove_if(Ts.begin(), Ts.end(), [&](double t) { return t < lo || t > hi; }), Ts.end());
  }
  for (int ion = 0; ion < NUMBER_OF_IONNAMES; ++ion)
    for (double T : Ts) {
      std::fprintf(g_out, "R %d %a %a\n", ion, T, rr.get_recombination_rate(ion, T));
      st.inc("rec_evaluations");
    }
  for (double T : Ts) {
    const double T4 = T * 1.e-4; // exactly what the caller passes
    for (int ion : ctrH) { std::fprintf(g_out, "CT recH %d %a %a %a\n", ion, T, T4, ct.get_charge_transfer_recombination_rate_H(ion, T4)); st.inc("ct_evaluations"); }
    for (int ion : ctrHe) { std::fprintf(g_out, "CT recHe %d %a %a %a\n", ion, T, T4, ct.get_charge_transfer_recombination_rate_He(ion, T4)); st.inc("ct_evaluations"); }
    for (int ion : ctiH) { std::fprintf(g_out, "CT ionH %d %a %a %a\n", ion, T, T4, ct.get_charge_transfer_ionization_rate_H(ion, T4)); st.inc("ct_evaluations"); }
  }
  st.inc("rate_temperatures", Ts.size());
  return 0;
}

// ---------------------------------------------------------------------------
// samplers
// ---------------------------------------------------------------------------

// A RandomGenerator state whose next 11 draws are exactly d[0..10]:
// get_uniform_random_double() does  _ir=(_ir+1)%12; if(_ir==_ir_old) increment_state(); return _xdbl[_ir];
// with _ir=_ir_old=0 the draws are _xdbl[1],...,_xdbl[11] and only the 12th call advances the state.
struct CraftedState {
  double xdbl[12];
  double carry;
  uint_fast32_t ir, jr, ir_old, pr;
};

static void write_state(FILE *f, const double *d /*11*/) {
  CraftedState s;
  s.xdbl[0] = 0.5;
  for (int i = 0; i < 11; ++i) s.xdbl[i + 1] = d[i];
  s.carry = 0.;
  s.ir = 0; s.jr = 8; s.ir_old = 0; s.pr = 397;
  // field by field: exactly the sequence RandomGenerator(RestartReader&) reads
  std::fwrite(s.xdbl, sizeof(double), 12, f);
  std::fwrite(&s.carry, sizeof(double), 1, f);
  std::fwrite(&s.ir, sizeof(uint_fast32_t), 1, f);
  std::fwrite(&s.jr, sizeof(uint_fast32_t), 1, f);
  std::fwrite(&s.ir_old, sizeof(uint_fast32_t), 1, f);
  std::fwrite(&s.pr, sizeof(uint_fast32_t), 1, f);
}

// the generator's outputs are multiples of 2^-48 in [0,1): keep injected inputs on that lattice
static double snap48(double u) {
  const double s = 281474976710656.0;
  double k = std::floor(u * s);
  if (k < 28148.0) k = 28148.0;      // 28148 * 2^-48 is the smallest lattice value >= 1e-10
  if (k > s - 1.) k = s - 1.;
  return k / s;
}

static std::vector<double> make_us(vh::Rng &r, uint64_t nu) {
  std::vector<double> us;
  const uint64_t q = nu / 5;
  for (uint64_t i = 0; i < q; ++i) us.push_back(std::pow(10., -10. + 10. * (i + 0.5) / q)); // log grid down to the 1e-10 floor
  for (uint64_t i = 0; i < q; ++i) us.push_back((i + 0.5) / q);                                // linear grid
  for (uint64_t i = 0; i < q / 2; ++i) us.push_back(1. - std::pow(10., -14.4 * (i + 0.5) / (q / 2))); // approaching 1
  while (us.size() < nu) us.push_back(r.chance(0.7) ? r.uniform() : r.loguniform(1e-10, 1.));
  us.push_back(1e-10); us.push_back(1. - 1. / 281474976710656.0); us.push_back(0.5);
  for (double &u : us) u = snap48(u);
  return sorted_unique(us);
}

struct StepMask : public PhotonSourceSpectrumMask {
  double a, b, f;
  StepMask(double a_, double b_, double f_) : a(a_), b(b_), f(f_) {}
  virtual double get_bin_fraction(double frequency) const { return (frequency >= a && frequency < b) ? f : 1.; }
};

// the repo's uniform spectrum aborts in get_total_flux(); the masked spectrum asks for it
struct UniformWithFlux : public UniformPhotonSourceSpectrum {
  virtual double get_total_flux() const { return 1.; }
};

struct Spec {
  std::string id, meta;
  const PhotonSourceSpectrum *s;
  double T; // temperature argument passed to get_random_frequency
  int draws; // random numbers one sample must consume (monochromatic: none)
};

static uint64_t g_harness_errors = 0;

static void sample_spec(const Spec &sp, const std::vector<double> &us, const std::string &tmp, vh::Stats &st) {
  char fn[600];
  std::snprintf(fn, sizeof fn, "%s/c18_rng_%d_%s.state", tmp.c_str(), (int)getpid(), sp.id.c_str());
  FILE *f = std::fopen(fn, "wb");
  if (!f) { std::fprintf(stderr, "cannot write %s\n", fn); ++g_harness_errors; return; }
  const size_t nb = (us.size() + 9) / 10;
  std::vector<double> batch(11 * nb);
  for (size_t b = 0; b < nb; ++b) {
    for (int j = 0; j < 10; ++j) batch[11 * b + j] = us[std::min(us.size() - 1, 10 * b + j)];
    batch[11 * b + 10] = 0.123456789012345 + 1e-3 * (b % 700); // sentinel: must still be the next draw after 10 samples
    write_state(f, &batch[11 * b]); // verification copy
    write_state(f, &batch[11 * b]); // working copy
  }
  std::fclose(f);
  {
    RestartReader rd(fn);
    for (size_t b = 0; b < nb; ++b) {
      RandomGenerator check(rd);
      for (int j = 0; j < 11; ++j) {
        const double d = check.get_uniform_random_double();
        if (vh::bits(d) != vh::bits(batch[11 * b + j])) {
          std::fprintf(stderr, "HARNESS-ERROR crafted generator returned %a instead of %a (spec %s batch %zu draw %d)\n", d, batch[11 * b + j], sp.id.c_str(), b, j);
          ++g_harness_errors;
        }
        st.inc("crafted_draws_verified");
      }
      RandomGenerator work(rd);
      for (int j = 0; j < 10; ++j) {
        if (10 * b + j >= us.size()) break;
        const double nu = sp.s->get_random_frequency(work, sp.T);
        std::fprintf(g_out, "S %s %a %a\n", sp.id.c_str(), batch[11 * b + j], nu);
        st.inc("sampler_evaluations");
      }
      if (10 * b + 10 <= us.size()) {
        const double d = work.get_uniform_random_double();
        if (vh::bits(d) != vh::bits(batch[11 * b + (sp.draws ? 10 : 0)])) {
          // the sampler consumed a different number of random numbers than one per photon: the u -> nu pairing is void
          std::fprintf(stderr, "HARNESS-ERROR spec %s consumed != 1 draw per sample (sentinel %a, got %a)\n", sp.id.c_str(), batch[11 * b + 10], d);
          ++g_harness_errors;
        }
      }
    }
  }
  unlink(fn);
}

static int run_sampler(int argc, char **argv, uint64_t seed, vh::Stats &st) {
  const uint64_t nu = vh::arg_u64(argc, argv, "--nu", 6000);
  const uint64_t nmask = vh::arg_u64(argc, argv, "--nmask", 10000000);
  const std::string tmp = vh::arg_str(argc, argv, "--tmp", "/tmp");
  const char *only = vh::arg_str(argc, argv, "--only", "");
  const char *group = vh::arg_str(argc, argv, "--group", "all");
  const uint64_t nrandT = vh::arg_u64(argc, argv, "--nrandT", 2); // seed-random temperatures per family
  vh::Rng r(seed * 15485863ull + 18);
  std::vector<Spec> specs;
  char meta[512];
  const bool all = !std::strcmp(group, "all");

  VernerCrossSections xs;
  // --- Planck ---------------------------------------------------------------
  std::vector<double> planckT = {5.e3, 1.e4, 2.e4, 4.e4, 1.e5, 2.e5, /* beyond the usual stellar range */ 3.e3, 1.e6};
  for (uint64_t i = 0; i < nrandT; ++i) planckT.push_back(std::floor(r.loguniform(5.e3, 2.e5)));
  if (all || !std::strcmp(group, "planck"))
    for (size_t i = 0; i < planckT.size(); ++i) {
      std::snprintf(meta, sizeof meta, "kind=planck T=%a", planckT[i]);
      char id[32]; std::snprintf(id, sizeof id, "planck%zu", i);
      specs.push_back({id, meta, new PlanckPhotonSourceSpectrum(planckT[i]), 0., 1});
    }
  // --- monochromatic / uniform ---------------------------------------------
  const double mono_nu = r.uniform(1., 4.) * NU_H;
  if (all || !std::strcmp(group, "simple")) {
    std::snprintf(meta, sizeof meta, "kind=mono nu=%a", mono_nu);
    specs.push_back({"mono", meta, new MonochromaticPhotonSourceSpectrum(mono_nu), 0., 0});
    specs.push_back({"uniform", "kind=uniform", new UniformPhotonSourceSpectrum(), 0., 1});
    specs.push_back({"he2ph", "kind=he2ph", new HeliumTwoPhotonContinuumSpectrum(), 0., 1});
  }
  // --- recombination continua: gas temperatures inside and outside the table --
  if (all || !std::strcmp(group, "lyc")) {
    HydrogenLymanContinuumSpectrum *hl = new HydrogenLymanContinuumSpectrum(xs);
    HeliumLymanContinuumSpectrum *hel = new HeliumLymanContinuumSpectrum(xs);
    std::vector<double> Tg = {1567.5, 1600., 4000., 8000., 1.e4, 14932.5};
    for (uint64_t i = 0; i < nrandT; ++i) Tg.push_back(std::floor(r.uniform(1600., 14900.)));
    // outside the tabulated range [1567.5, 14932.5] K ("extrapolation is safe"); the temperature
    // calculation hands over anything between 500 K and 30,000 K
    for (double t : {500., 1000., 1500., 15000., 2.e4, 3.e4}) Tg.push_back(t);
    for (size_t i = 0; i < Tg.size(); ++i) {
      char id[32];
      std::snprintf(meta, sizeof meta, "kind=hlyc Tgas=%a", Tg[i]);
      std::snprintf(id, sizeof id, "hlyc%zu", i);
      specs.push_back({id, meta, hl, Tg[i], 1});
      std::snprintf(meta, sizeof meta, "kind=helyc Tgas=%a", Tg[i]);
      std::snprintf(id, sizeof id, "helyc%zu", i);
      specs.push_back({id, meta, hel, Tg[i], 1});
    }
  }
  // --- masked ---------------------------------------------------------------
  if (all || !std::strcmp(group, "masked")) {
    const double Tm = 4.e4;
    std::snprintf(meta, sizeof meta, "kind=masked base=planck T=%a mask=linear nbins=1000 nsamples=%" PRIu64, Tm, nmask);
    specs.push_back({"masked_lin", meta, new MaskedPhotonSourceSpectrum(new PlanckPhotonSourceSpectrum(Tm), new LinearPhotonSourceSpectrumMask(), 1000, nmask), 0., 1});
    // a band that is removed completely; edges on a seed-dependent place, 300 bins (coarser table)
    // (band edges in the middle of table bins, so that the verdict does not depend on how an edge falls in a bin)
    const double hstep = 3. * 3.289e15 / 299.;
    const uint64_t ia = 30 + r.below(70), ib = ia + 30 + r.below(60);
    const double a = 3.289e15 + (ia + 0.5) * hstep, b = 3.289e15 + (ib + 0.5) * hstep;
    std::snprintf(meta, sizeof meta, "kind=masked base=planck T=%a mask=step a=%a b=%a f=0x0p+0 nbins=300 nsamples=%" PRIu64, Tm, a, b, nmask);
    specs.push_back({"masked_step", meta, new MaskedPhotonSourceSpectrum(new PlanckPhotonSourceSpectrum(Tm), new StepMask(a, b, 0.), 300, nmask), 0., 1});
    // uniform base, no masking at all (fraction 1 everywhere): must reproduce the uniform spectrum
    std::snprintf(meta, sizeof meta, "kind=masked base=uniform mask=step a=0x0p+0 b=0x0p+0 f=0x1p+0 nbins=1000 nsamples=%" PRIu64, nmask);
    specs.push_back({"masked_id", meta, new MaskedPhotonSourceSpectrum(new UniformWithFlux(), new StepMask(0., 0., 1.), 1000, nmask), 0., 1});
  }

  if (*only) {
    char id[64], buf[128];
    if (std::sscanf(only, "%63[^:]:%127s", id, buf) != 2) return 3;
    const double u = std::strtod(buf, nullptr);
    for (auto &sp : specs)
      if (sp.id == id) {
        std::fprintf(g_out, "SPEC %s %s\n", sp.id.c_str(), sp.meta.c_str());
        std::vector<double> us(1, u);
        sample_spec(sp, us, tmp, st);
        std::printf("SAMPLE replay spec=%s (%s) u=%a\n", id, sp.meta.c_str(), u);
      }
    return g_harness_errors ? 3 : 0;
  }
  for (auto &sp : specs) {
    std::fprintf(g_out, "SPEC %s %s\n", sp.id.c_str(), sp.meta.c_str());
    uint64_t hh = 1469598103934665603ull; for (char c : sp.id) hh = (hh ^ (unsigned char)c) * 1099511628211ull;
    vh::Rng ru = r.fork(hh & 0xffffff);
    std::vector<double> us = make_us(ru, nu);
    sample_spec(sp, us, tmp, st);
    st.inc("spectra");
  }
  return g_harness_errors ? 3 : 0;
}

int main(int argc, char **argv) {
  const uint64_t seed = vh::arg_u64(argc, argv, "--seed", 1);
  const std::string mode = vh::arg_str(argc, argv, "--mode", "consts");
  const char *out = vh::arg_str(argc, argv, "--out", "");
  g_out = *out ? std::fopen(out, "w") : stdout;
  if (!g_out) { std::fprintf(stderr, "cannot open %s\n", out); return 3; }
  vh::Stats st;
  int rc = 0;
  std::fprintf(g_out, "CONST planck %a\nCONST boltzmann %a\nCONST electronvolt %a\n",
               PhysicalConstants::get_physical_constant(PHYSICALCONSTANT_PLANCK),
               PhysicalConstants::get_physical_constant(PHYSICALCONSTANT_BOLTZMANN),
               PhysicalConstants::get_physical_constant(PHYSICALCONSTANT_ELECTRONVOLT));
  for (int ion = 0; ion < NUMBER_OF_IONNAMES; ++ion) std::fprintf(g_out, "ION %d %s\n", ion, get_ion_name(ion).c_str());
  if (mode == "xsec") rc = run_xsec(argc, argv, seed, st);
  else if (mode == "rates") rc = run_rates(argc, argv, seed, st);
  else if (mode == "sampler") rc = run_sampler(argc, argv, seed, st);
  if (g_out != stdout) std::fclose(g_out);
  st.print();
  if (rc) { std::printf("HARNESS-ERROR rc=%d\n", rc); return 3; }
  std::printf("DONE violations=0\n");
  return 0;
}
