// C18 (thread invariance): spectra, cross sections and rate tables are shared const objects used by all worker threads.
// Each thread replays its own (seeded) sequence of draws twice -- once alone, once concurrently with the other threads
// on the SAME objects -- and the two passes must agree bit for bit, and every frequency must lie in the ionizing range.
#include "HeliumLymanContinuumSpectrum.hpp"
#include "HeliumTwoPhotonContinuumSpectrum.hpp"
#include "HydrogenLymanContinuumSpectrum.hpp"
#include "PlanckPhotonSourceSpectrum.hpp"
#include "RandomGenerator.hpp"
#include "VernerCrossSections.hpp"
#include "VernerRecombinationRates.hpp"
#include "vh.hpp"
#include <thread>
#include <vector>

struct Spec {
  const char *name;
  const PhotonSourceSpectrum *s;
  double numin, numax;
  bool uses_temperature;
};

int main(int argc, char **argv) {
  const uint64_t seed = vh::arg_u64(argc, argv, "--seed", 1);
  const uint64_t K = vh::arg_u64(argc, argv, "--draws", 200000);
  const int T = (int)vh::arg_u64(argc, argv, "--threads", 8);
  vh::Stats st;
  VernerCrossSections xs;
  VernerRecombinationRates rr;
  const double nuH = 3.289e15;
  std::vector< Spec > specs;
  specs.push_back({"hlyc", new HydrogenLymanContinuumSpectrum(xs), 0.999 * nuH, 4.001 * nuH, true});
  specs.push_back({"helyc", new HeliumLymanContinuumSpectrum(xs), 1.8 * nuH, 4.001 * nuH, true});
  specs.push_back({"he2ph", new HeliumTwoPhotonContinuumSpectrum(), 0.999 * nuH, 4.001 * nuH, false});
  specs.push_back({"planck", new PlanckPhotonSourceSpectrum(4.e4), 0.999 * nuH, 4.001 * nuH, false});
  for (auto &sp : specs) {
    std::vector< std::vector< double > > ref(T), conc(T);
    auto worker = [&](int t, std::vector< double > &out) {
      RandomGenerator rg((int_fast32_t)(seed * 131 + t + 1));
      vh::Rng r(seed * 977 + t);
      out.resize(3 * K);
      for (uint64_t k = 0; k < K; ++k) {
        // every thread works on cells of a different temperature, changing every few draws
        const double temp = (k % 7 == 0) ? r.loguniform(500., 3.e4) : 1500. + 1000. * ((t * 37 + k / 7) % 14);
        out[3 * k] = sp.s->get_random_frequency(rg, temp);
        out[3 * k + 1] = xs.get_cross_section(ION_H_n + (int)(k % NUMBER_OF_IONNAMES), out[3 * k]);
        out[3 * k + 2] = rr.get_recombination_rate(ION_H_n + (int)(k % NUMBER_OF_IONNAMES), temp);
      }
    };
    for (int t = 0; t < T; ++t) worker(t, ref[t]);
    std::vector< std::thread > th;
    for (int t = 0; t < T; ++t) th.emplace_back(worker, t, std::ref(conc[t]));
    for (auto &x : th) x.join();
    uint64_t differ = 0, below = 0;
    for (int t = 0; t < T; ++t)
      for (uint64_t k = 0; k < 3 * K; ++k) {
        if (vh::bits(ref[t][k]) != vh::bits(conc[t][k])) {
          if (differ < 3)
            VH_VIOL((std::string("threads/result-differs/") + sp.name).c_str(), t * K + k / 3,
                    "thread %d draw %" PRIu64 " (%s): alone %a, concurrently %a", t, k / 3, k % 3 == 0 ? "frequency" : (k % 3 == 1 ? "cross section" : "recombination rate"), ref[t][k], conc[t][k]);
          ++differ;
        }
        if (k % 3 == 0 && !(conc[t][k] >= sp.numin && conc[t][k] <= sp.numax)) {
          if (below < 3) VH_VIOL((std::string("threads/out-of-range/") + sp.name).c_str(), t * K + k / 3, "concurrent draw returned %a Hz outside [%a, %a]", conc[t][k], sp.numin, sp.numax);
          ++below;
        }
      }
    st.inc(std::string("draws_") + sp.name, (uint64_t)T * K);
    st.inc("values_compared", (uint64_t)T * K * 3);
    st.inc("values_differing", differ);
  }
  st.inc("threads", T);
  st.print();
  std::printf("SAMPLE %d threads x %" PRIu64 " draws per spectrum, 4 spectra, alone vs concurrent\n", T, K);
  std::printf("DONE violations=%" PRIu64 "\n", vh::g_nviol);
  return vh::g_nviol ? 1 : 0;
}
