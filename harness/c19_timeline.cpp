// C19: drive the real TimeLine with generated request histories and check every
// answer against an exact integer shadow model.
#include "TimeLine.hpp"
#include "vh.hpp"
#include <unistd.h>
#include <vector>

static const uint64_t TWO63 = 0x8000000000000000ull;

struct Config {
  double start, end, tmin, tmax;
};

// largest power of two 2^k (k<=63) with A*2^k <= x ; 0 if none
static uint64_t pow2_floor(double A, double x) {
  uint64_t s = TWO63;
  while (s > 0 && std::ldexp(A, 0) * (double)s > x) s >>= 1;
  return s;
}

int main(int argc, char **argv) {
  const uint64_t seed = vh::arg_u64(argc, argv, "--seed", 1);
  const uint64_t nhist = vh::arg_u64(argc, argv, "--histories", 1000);
  const uint64_t maxsteps = vh::arg_u64(argc, argv, "--maxsteps", 10000);
  const int64_t only = (int64_t)vh::arg_u64(argc, argv, "--only", (uint64_t)-1);
  const std::string tmp = vh::arg_str(argc, argv, "--tmp", "/tmp");
  vh::Stats st;
  vh::Rng master(seed * 1000003ull + 19);

  for (uint64_t h = 0; h < nhist; ++h) {
    vh::Rng r = master.fork(h);
    if (only >= 0 && (int64_t)h != only) continue;
    Config c;
    // start/end over 30 decades, start zero / positive / negative
    const int skind = r.below(4);
    const double total = r.loguniform(1e-12, 1e18);
    if (skind == 0) c.start = 0.;
    else if (skind == 1) c.start = r.loguniform(1e-15, 1e15);
    else if (skind == 2) c.start = -r.loguniform(1e-15, 1e15);
    else c.start = total * r.uniform(-3, 3);
    c.end = c.start + total;
    if (!(c.end > c.start)) { st.inc("degenerate_interval_skipped"); continue; }
    const double T = c.end - c.start;
    const double A = T / (double)TWO63;
    const int mkind = r.below(5);
    c.tmin = 0.; c.tmax = 0.;
    if (mkind == 1) c.tmax = T * r.loguniform(1e-6, 2.);
    else if (mkind == 2) c.tmin = T * r.loguniform(1e-12, 1e-2);
    else if (mkind == 3) { c.tmin = T * r.loguniform(1e-12, 1e-3); c.tmax = c.tmin * r.loguniform(1., 1e6); }
    else if (mkind == 4) { c.tmin = T * r.loguniform(1e-9, 1e-2); c.tmax = c.tmin; }
    // model of the configured limits (documented: rounded down to a power of two fraction)
    uint64_t imin = c.tmin > 0 ? pow2_floor(A, c.tmin) : 1; if (imin < 1) imin = 1;
    uint64_t imax = c.tmax > 0 ? pow2_floor(A, c.tmax) : TWO63; if (imax < imin) imax = imin;

    TimeLine tl(c.start, c.end, c.tmin, c.tmax);
    TimeLine *twin = nullptr;
    const uint64_t restore_at = r.chance(0.5) ? r.below(40) : (uint64_t)-1;

    // request history kinds
    const int hk = r.below(7);
    const double base = T * std::ldexp(r.uniform(0.5, 1.0), -(int)r.below(13));
    uint64_t cur = 0;
    double prev_t = c.start;
    bool finished = false, stopped = false;
    const double tend_eff = c.start + T;
    uint64_t step = 0;
    for (; step < maxsteps; ++step) {
      double req;
      switch (hk) {
      case 0: req = base; break;
      case 1: req = base * (1. + 0.01 * step); break;                 // growing
      case 2: req = base / (1. + 0.05 * step); break;                 // shrinking
      case 3: req = base * ((step & 1) ? 1e-3 : 1.); break;           // alternating
      case 4: req = base * r.loguniform(1e-5, 1e5); break;            // wild
      case 5: req = (r.chance(0.02) && c.tmin > 0) ? c.tmin * r.uniform(0.1, 0.999) : base * r.uniform(0.3, 3); break; // sometimes below minimum
      default: req = std::ldexp(A, (int)r.below(64)) * (r.chance(0.5) ? 1. : (r.chance(0.5) ? 1.0000000000000002 : 0.9999999999999999)); break; // adjacent to exact powers
      }
      if (!(req > 0)) req = base;
      if (step == restore_at) {
        char fn[512];
        std::snprintf(fn, sizeof fn, "%s/c19_tl_%d_%llu.dump", tmp.c_str(), (int)getpid(), (unsigned long long)h);
        { RestartWriter w(fn); tl.write_restart_file(w); }
        { RestartReader rd(fn); twin = new TimeLine(rd); }
        // second generation must be byte-identical
        char fn2[520]; std::snprintf(fn2, sizeof fn2, "%s.2", fn);
        { RestartWriter w(fn2); twin->write_restart_file(w); }
        FILE *a = fopen(fn, "rb"), *b = fopen(fn2, "rb");
        char ba[256], bb[256]; size_t na = fread(ba, 1, 256, a), nb = fread(bb, 1, 256, b);
        fclose(a); fclose(b); unlink(fn); unlink(fn2);
        if (na != nb || memcmp(ba, bb, na) || na != 40) VH_VIOL("restore/bytes", h, "dump %zu bytes vs re-dump %zu bytes differ", na, nb);
        st.inc("restores");
      }
      double actual = -1., t = -1.;
      const bool more = tl.advance(req, actual, t);
      st.inc("advance_calls");
      if (twin) {
        double a2 = -1., t2 = -1.;
        const bool m2 = twin->advance(req, a2, t2);
        if (m2 != more || vh::bits(a2) != vh::bits(actual) || vh::bits(t2) != vh::bits(t))
          VH_VIOL("restore/diverge", h, "step %" PRIu64 " restored twin answers (%d,%a,%a) original (%d,%a,%a)", step, m2, a2, t2, more, actual, t);
        st.inc("twin_compared");
      }
      // model: is a stop expected?
      uint64_t sreq = pow2_floor(A, req); if (sreq > imax) sreq = imax;
      const bool expect_stop = sreq < imin;
      // recover integer step from the physical answer
      int e = 0; const double m = std::frexp(actual / A, &e);
      const bool is_pow2 = (actual > 0) && m == 0.5 && e >= 1 && e <= 64 && std::ldexp(A, e - 1) == actual;
      if (expect_stop) {
        st.inc("stops_expected");
        if (more) VH_VIOL("min/not-stopped", h, "request %a below minimum %a did not stop the run", req, c.tmin);
        if (!more && vh::bits(t) != vh::bits(prev_t)) VH_VIOL("min/time-moved", h, "stop moved time from %a to %a", prev_t, t);
        stopped = true; break;
      }
      if (!is_pow2) { VH_VIOL("step/not-power-of-two", h, "step %" PRIu64 ": actual %a is not total*2^-k (A=%a) req=%a more=%d", step, actual, A, req, more); break; }
      const uint64_t is = 1ull << (e - 1);
      if (actual > req) VH_VIOL("step/exceeds-request", h, "actual %a > requested %a", actual, req);
      if (c.tmax > 0 && is > imax) VH_VIOL("step/exceeds-max", h, "actual %a > maximum %a (integer %" PRIu64 " > %" PRIu64 ")", actual, c.tmax, is, imax);
      if (is < imin) VH_VIOL("step/below-min", h, "actual integer step %" PRIu64 " < min %" PRIu64, is, imin);
      const uint64_t left = TWO63 - cur;
      if (is > left) { VH_VIOL("step/overshoot", h, "integer step %" PRIu64 " > time left %" PRIu64, is, left); break; }
      if (left % is) VH_VIOL("step/not-dividing", h, "integer step %" PRIu64 " does not divide time left %" PRIu64, is, left);
      if (is == sreq || (left % sreq && is < sreq)) st.inc("steps_checked"); 
      cur += is;
      if (t < prev_t) VH_VIOL("time/decreasing", h, "time %a after %a", t, prev_t);
      if (!(t > prev_t) && actual > 8 * std::fmax(std::fabs(c.start), std::fabs(tend_eff)) * 2.3e-16) VH_VIOL("time/not-increasing", h, "time %a did not increase from %a with step %a", t, prev_t, actual);
      if (t > tend_eff) VH_VIOL("time/beyond-end", h, "time %a > end %a", t, tend_eff);
      if (more != (cur < TWO63)) VH_VIOL("hasnext/wrong", h, "has-next=%d but integer time %" PRIu64 " of 2^63", more, cur);
      prev_t = t;
      st.inc("steps");
      if (is < sreq) st.inc("steps_reduced_to_divide");
      if (!more || cur >= TWO63) {
        finished = true;
        if (cur != TWO63) VH_VIOL("end/sum", h, "run ended with integer sum %" PRIu64, cur);
        if (vh::bits(t) != vh::bits(tend_eff)) VH_VIOL("end/not-exact", h, "final time %a != end %a", t, tend_eff);
        break;
      }
    }
    delete twin;
    st.inc("histories");
    if (finished) st.inc("histories_finished");
    if (stopped) st.inc("histories_stopped_below_min");
    if (!finished && !stopped) st.inc("histories_capped");
    if (h < 3) std::printf("SAMPLE history=%" PRIu64 " start=%a end=%a min=%a max=%a kind=%d base=%a steps=%" PRIu64 " finished=%d stopped=%d\n", h, c.start, c.end, c.tmin, c.tmax, hk, base, step, finished, stopped);
  }
  st.print();
  std::printf("DONE violations=%" PRIu64 "\n", vh::g_nviol);
  return vh::g_nviol ? 1 : 0;
}
