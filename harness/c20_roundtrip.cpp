// C20 (parts a and b): parameter trees and unit conversions round-trip.
//
// part "trees": generated parameter trees are written as YAML text by this harness,
//   parsed by the real YAMLDictionary / ParameterFile, printed with the real
//   print_contents, parsed again, and compared with the generator's own flat map
//   (the oracle never looks at the parser/printer algorithm; it also reads the
//   printed text with its own strict reader).  The used-values dump is re-parsed
//   and every value is compared to the 6 printed significant digits.
// part "units": every quantity x unit string; to_unit(to_SI(x)) == x, compound
//   unit == product of the single-unit factors (long double), table relations.
#include <algorithm>
#include <csetjmp>
#include <csignal>
#include <fstream>
#include <iostream>
#include <map>
#include <set>
#include <sstream>
#include <string>
#include <unistd.h>
#include <vector>

#include "CoordinateVector.hpp"
#include "ParameterFile.hpp"
#include "PhysicalConstants.hpp"
#include "UnitConverter.hpp"
#include "YAMLDictionary.hpp"
#include "vh.hpp"

static unsigned long long g_info_dup_headers = 0;  // repeated group headers seen in prints (informational)

// ---------------------------------------------------------------------------
// abort guard: cmac_error() calls abort(); turn that into a reportable event
// ---------------------------------------------------------------------------
static sigjmp_buf g_jb;
static volatile sig_atomic_t g_guard = 0;
static void on_abort(int) {
  if (g_guard) {
    g_guard = 0;
    siglongjmp(g_jb, 1);
  }
  signal(SIGABRT, SIG_DFL);
  raise(SIGABRT);
}
template <class F> static bool guarded(F f) {
  if (sigsetjmp(g_jb, 1) == 0) {
    g_guard = 1;
    f();
    g_guard = 0;
    return true;
  }
  return false;
}

// ---------------------------------------------------------------------------
// units known to this harness (names enumerated from UnitConverter::get_single_unit;
// the check script compares this list with the source).  Dimensions are physics,
// not copied values: (length, time, mass, temperature, angle).
// ---------------------------------------------------------------------------
struct UDef {
  const char *name;
  int d[5];
};
static const UDef UNITS[] = {
    {"m", {1, 0, 0, 0, 0}},       {"cm", {1, 0, 0, 0, 0}},      {"pc", {1, 0, 0, 0, 0}},
    {"kpc", {1, 0, 0, 0, 0}},     {"angstrom", {1, 0, 0, 0, 0}}, {"km", {1, 0, 0, 0, 0}},
    {"au", {1, 0, 0, 0, 0}},      {"s", {0, 1, 0, 0, 0}},       {"Gyr", {0, 1, 0, 0, 0}},
    {"Myr", {0, 1, 0, 0, 0}},     {"yr", {0, 1, 0, 0, 0}},      {"h", {0, 1, 0, 0, 0}},
    {"kg", {0, 0, 1, 0, 0}},      {"g", {0, 0, 1, 0, 0}},       {"Msol", {0, 0, 1, 0, 0}},
    {"K", {0, 0, 0, 1, 0}},       {"radians", {0, 0, 0, 0, 1}}, {"degrees", {0, 0, 0, 0, 1}},
    {"Hz", {0, -1, 0, 0, 0}},     {"J", {2, -2, 1, 0, 0}},      {"erg", {2, -2, 1, 0, 0}},
    {"eV", {2, -2, 1, 0, 0}},     {"Pa", {-1, -2, 1, 0, 0}},    {"bar", {-1, -2, 1, 0, 0}}};
static const int NUNIT = sizeof(UNITS) / sizeof(UNITS[0]);
static double g_single[NUNIT]; // SI value of each single unit, measured from the real code

static int unit_index(const std::string &n) {
  for (int i = 0; i < NUNIT; ++i)
    if (n == UNITS[i].name) return i;
  return -1;
}
static bool same_dims(const int *a, const int *b) {
  for (int i = 0; i < 5; ++i)
    if (a[i] != b[i]) return false;
  return true;
}
static bool is_base(int u) {
  int n = 0, s = 0;
  for (int i = 0; i < 5; ++i) {
    n += UNITS[u].d[i] != 0;
    s += UNITS[u].d[i];
  }
  return n == 1 && s == 1;
}

struct Factor {
  int unit, exp;
};
typedef std::vector<Factor> UStr;

static void dims_of(const UStr &u, int *d) {
  for (int i = 0; i < 5; ++i) d[i] = 0;
  for (auto &f : u)
    for (int i = 0; i < 5; ++i) d[i] += UNITS[f.unit].d[i] * f.exp;
}
// expected SI factor: product of the measured single-unit factors, long double;
// ok=false when a partial product (evaluated like a left-to-right product) leaves
// the safe double range
static long double expected_factor(const UStr &u, bool &ok) {
  long double F = 1.L;
  ok = true;
  for (auto &f : u) {
    long double p = 1.L;
    for (int i = 0; i < std::abs(f.exp); ++i) p *= (long double)g_single[f.unit];
    if (f.exp < 0) p = 1.L / p;
    if (fabsl(p) > 1e280L || fabsl(p) < 1e-280L) ok = false;
    F *= p;
    if (fabsl(F) > 1e280L || fabsl(F) < 1e-280L) ok = false;
  }
  return F;
}
static std::string format_unit(const UStr &u, vh::Rng &r, bool plain) {
  std::string s;
  if (!plain && r.chance(0.1)) s += " ";
  bool prev_pow = false;
  for (size_t i = 0; i < u.size(); ++i) {
    if (i > 0) {
      if (!plain && prev_pow && r.chance(0.1)) {
        // documented as valid: "s^-1m"
      } else {
        s += " ";
        if (!plain && r.chance(0.1)) s += " ";
      }
    }
    s += UNITS[u[i].unit].name;
    const int e = u[i].exp;
    prev_pow = false;
    if (e == 1) {
      if (!plain && r.chance(0.1)) {
        s += "^1";
        prev_pow = true;
      }
    } else {
      s += "^";
      if (e > 0 && !plain && r.chance(0.15)) s += "+";
      s += std::to_string(e);
      prev_pow = true;
    }
  }
  if (!plain && r.chance(0.1)) s += " ";
  return s;
}
// my own reader of an SI unit name such as "kg m^-3"
static bool parse_si_name(const std::string &name, UStr &out) {
  out.clear();
  std::istringstream is(name);
  std::string tok;
  while (is >> tok) {
    Factor f;
    f.exp = 1;
    size_t c = tok.find('^');
    std::string n = tok.substr(0, c);
    if (c != std::string::npos) f.exp = std::atoi(tok.c_str() + c + 1);
    f.unit = unit_index(n);
    if (f.unit < 0) return false;
    out.push_back(f);
  }
  return !out.empty();
}

// ---------------------------------------------------------------------------
// run-time quantity -> template dispatch
// ---------------------------------------------------------------------------
#define QLIST(X)                                                                                   \
  X(QUANTITY_ACCELERATION) X(QUANTITY_ANGLE) X(QUANTITY_DENSITY) X(QUANTITY_ENERGY)                \
  X(QUANTITY_ENERGY_CHANGE_RATE) X(QUANTITY_ENERGY_RATE) X(QUANTITY_FLUX)                          \
  X(QUANTITY_FORCING_POWER) X(QUANTITY_FREQUENCY) X(QUANTITY_FREQUENCY_PER_MASS)                   \
  X(QUANTITY_INVERSE_LENGTH) X(QUANTITY_INVERSE_SURFACE_AREA) X(QUANTITY_LENGTH)                   \
  X(QUANTITY_MASS) X(QUANTITY_MASS_RATE) X(QUANTITY_MOMENTUM) X(QUANTITY_NUMBER_DENSITY)           \
  X(QUANTITY_OPACITY) X(QUANTITY_PRESSURE) X(QUANTITY_REACTION_RATE) X(QUANTITY_SURFACE_AREA)      \
  X(QUANTITY_SURFACE_DENSITY) X(QUANTITY_TEMPERATURE) X(QUANTITY_TIME) X(QUANTITY_VELOCITY)        \
  X(QUANTITY_VOLUME)
static_assert(NUMBER_OF_QUANTITIES == 26, "Quantity enum changed: update QLIST");
static const char *QNAMES[] = {
#define X(Q) #Q,
    QLIST(X)
#undef X
};

static double q_to_SI(int q, double v, const std::string &u) {
  switch (q) {
#define X(Q)                                                                                       \
  case Q:                                                                                          \
    return UnitConverter::to_SI<Q>(v, u);
    QLIST(X)
#undef X
  }
  return NAN;
}
static double q_to_unit(int q, double v, const std::string &u) {
  switch (q) {
#define X(Q)                                                                                       \
  case Q:                                                                                          \
    return UnitConverter::to_unit<Q>(v, u);
    QLIST(X)
#undef X
  }
  return NAN;
}
template <class P> static double q_phys(P &p, int q, const std::string &key) {
  switch (q) {
#define X(Q)                                                                                       \
  case Q:                                                                                          \
    return p.template get_physical_value<Q>(key);
    QLIST(X)
#undef X
  }
  return NAN;
}
template <class P>
static double q_phys_def(P &p, int q, const std::string &key, const std::string &def) {
  switch (q) {
#define X(Q)                                                                                       \
  case Q:                                                                                          \
    return p.template get_physical_value<Q>(key, def);
    QLIST(X)
#undef X
  }
  return NAN;
}
template <class P> static CoordinateVector<> q_physvec(P &p, int q, const std::string &key) {
  switch (q) {
#define X(Q)                                                                                       \
  case Q:                                                                                          \
    return p.template get_physical_vector<Q>(key);
    QLIST(X)
#undef X
  }
  return CoordinateVector<>();
}
template <class P>
static CoordinateVector<> q_physvec_def(P &p, int q, const std::string &key,
                                        const std::string &def) {
  switch (q) {
#define X(Q)                                                                                       \
  case Q:                                                                                          \
    return p.template get_physical_vector<Q>(key, def);
    QLIST(X)
#undef X
  }
  return CoordinateVector<>();
}

// SI unit of every quantity, read with my own reader from get_SI_unit_name()
static UStr g_si[NUMBER_OF_QUANTITIES];
static int g_qdims[NUMBER_OF_QUANTITIES][5];

// all unit strings obtained by replacing every factor of the SI name by a unit of the
// same dimensions
static void enumerate_subst(int q, std::vector<UStr> &out) {
  const UStr &si = g_si[q];
  std::vector<std::vector<int>> alts(si.size());
  for (size_t i = 0; i < si.size(); ++i)
    for (int u = 0; u < NUNIT; ++u)
      if (same_dims(UNITS[u].d, UNITS[si[i].unit].d)) alts[i].push_back(u);
  std::vector<size_t> idx(si.size(), 0);
  while (true) {
    UStr u;
    for (size_t i = 0; i < si.size(); ++i) u.push_back(Factor{alts[i][idx[i]], si[i].exp});
    out.push_back(u);
    size_t k = 0;
    while (k < idx.size() && ++idx[k] == alts[k].size()) idx[k++] = 0;
    if (k == idx.size()) break;
  }
}
// all unit strings built from base units only
static void enumerate_base(const int *d, std::vector<UStr> &out) {
  std::vector<std::vector<int>> alts;
  std::vector<int> exps;
  for (int k = 0; k < 5; ++k) {
    if (d[k] == 0) continue;
    std::vector<int> a;
    for (int u = 0; u < NUNIT; ++u)
      if (is_base(u) && UNITS[u].d[k] == 1) a.push_back(u);
    alts.push_back(a);
    exps.push_back(d[k]);
  }
  if (alts.empty()) return;
  std::vector<size_t> idx(alts.size(), 0);
  while (true) {
    UStr u;
    for (size_t i = 0; i < alts.size(); ++i) u.push_back(Factor{alts[i][idx[i]], exps[i]});
    out.push_back(u);
    size_t k = 0;
    while (k < idx.size() && ++idx[k] == alts[k].size()) idx[k++] = 0;
    if (k == idx.size()) break;
  }
}
// random compound: 1..3 arbitrary factors with exponents in -3..3 (non-zero), the rest of
// the dimensions filled with base units, every exponent within -3..3
static UStr random_compound(const int *d, vh::Rng &r) {
  UStr u;
  const int nf = 1 + (int)r.below(3);
  for (int i = 0; i < nf; ++i) {
    int e = (int)r.range(1, 3);
    if (r.chance(0.5)) e = -e;
    u.push_back(Factor{(int)r.below(NUNIT), e});
  }
  int have[5];
  dims_of(u, have);
  for (int k = 0; k < 5; ++k) {
    int rem = d[k] - have[k];
    while (rem != 0) {
      int e = rem > 0 ? std::min(rem, 3) : std::max(rem, -3);
      if (std::abs(e) > 1 && r.chance(0.3)) e = e > 0 ? 1 : -1;
      std::vector<int> a;
      for (int x = 0; x < NUNIT; ++x)
        if (is_base(x) && UNITS[x].d[k] == 1) a.push_back(x);
      u.push_back(Factor{a[r.below(a.size())], e});
      rem -= e;
    }
  }
  // shuffle
  for (size_t i = u.size(); i > 1; --i) std::swap(u[i - 1], u[r.below(i)]);
  return u;
}

static bool init_units() {
  for (int i = 0; i < NUNIT; ++i) {
    double v = NAN;
    bool ok = guarded([&] { v = UnitConverter::get_single_unit(UNITS[i].name) * 1.0; });
    if (!ok) return false;
    g_single[i] = v;
  }
  for (int q = 0; q < NUMBER_OF_QUANTITIES; ++q) {
    if (!parse_si_name(UnitConverter::get_SI_unit_name(q), g_si[q])) return false;
    dims_of(g_si[q], g_qdims[q]);
  }
  return true;
}
static bool rel_close(double a, long double b, double tol) {
  if (!std::isfinite(a)) return false;
  return fabsl((long double)a - b) <= (long double)tol * fabsl(b);
}

// ===========================================================================
// part "units"
// ===========================================================================
struct TableRel {
  const char *a, *b;
  double ratio; // 1 a == ratio b
};
static const double PI_ = 3.14159265358979323846;
static const TableRel TABLE[] = {
    {"kpc", "pc", 1e3},           {"Myr", "yr", 1e6},          {"Gyr", "Myr", 1e3},
    {"Gyr", "yr", 1e9},           {"km", "m", 1e3},            {"m", "cm", 1e2},
    {"km", "cm", 1e5},            {"kg", "g", 1e3},            {"J", "erg", 1e7},
    {"bar", "Pa", 1e5},           {"m", "angstrom", 1e10},     {"cm^-3", "m^-3", 1e6},
    {"g cm^-3", "kg m^-3", 1e3},  {"km s^-1", "m s^-1", 1e3},  {"km s^-1", "cm s^-1", 1e5},
    {"h", "s", 3600.},            {"Hz", "s^-1", 1.},          {"J", "kg m^2 s^-2", 1.},
    {"erg", "g cm^2 s^-2", 1.},   {"Pa", "kg m^-1 s^-2", 1.},  {"Pa", "J m^-3", 1.},
    {"bar", "g cm^-1 s^-2", 1e6}, {"kpc^3", "pc^3", 1e9},      {"Myr^-1", "yr^-1", 1e-6},
    {"g cm^-2", "kg m^-2", 10.},  {"cm^2", "m^2", 1e-4},       {"cm^3 s^-1", "m^3 s^-1", 1e-6},
    {"erg cm^-3 s^-1", "J m^-3 s^-1", 0.1}, {"erg s^-1", "J s^-1", 1e-7},
    {"cm^-2 s^-1", "m^-2 s^-1", 1e4},       {"degrees", "radians", PI_ / 180.},
    {"cm s^-2", "m s^-2", 1e-2},  {"Hz g^-1", "Hz kg^-1", 1e3}, {"g s^-1", "kg s^-1", 1e-3},
    {"g cm s^-1", "kg m s^-1", 1e-5}, {"cm^-1", "m^-1", 1e2}};

static int run_units(uint64_t seed, uint64_t nrandom, int64_t only, vh::Stats &st) {
  const double TOL = 1e-13;
  vh::Rng master(seed * 1000003ull + 2020);
  uint64_t caseid = 0;
  // --- table self-consistency (exact decimal prefix relations) -------------
  for (size_t i = 0; i < sizeof(TABLE) / sizeof(TABLE[0]); ++i, ++caseid) {
    if (only >= 0 && (int64_t)caseid != only) continue;
    const TableRel &t = TABLE[i];
    double c1 = NAN, c2 = NAN;
    bool ok = guarded([&] {
      c1 = UnitConverter::convert(1., t.a, t.b);
      c2 = UnitConverter::convert(1., t.b, t.a);
    });
    st.inc("units_table_relations");
    if (!ok) {
      VH_VIOL("units/abort", caseid, "convert(1,\"%s\",\"%s\") aborted", t.a, t.b);
      continue;
    }
    if (!rel_close(c1, t.ratio, TOL) || !rel_close(c2, 1.L / t.ratio, TOL))
      VH_VIOL("units/table", caseid, "1 %s = %.17g %s (expected %.17g); inverse %.17g", t.a, c1,
              t.b, t.ratio, c2);
    if (i < 3) std::printf("SAMPLE units table: 1 %s = %.17g %s\n", t.a, c1, t.b);
  }
  // informational: relations that only hold to the 4 printed digits of the table
  st.maxd("info_pc_vs_au_def_reldiff",
          std::fabs(g_single[unit_index("pc")] / (g_single[unit_index("au")] * 648000. / PI_) - 1.));
  st.maxd("info_yr_vs_julian_reldiff", std::fabs(g_single[unit_index("yr")] / (365.25 * 86400.) - 1.));
  st.maxd("info_eV_vs_codata_reldiff", std::fabs(g_single[unit_index("eV")] / 1.602176634e-19 - 1.));

  // --- dims table of this harness agrees with the code ---------------------
  for (int u = 0; u < NUNIT; ++u, ++caseid) {
    if (only >= 0 && (int64_t)caseid != only) continue;
    const int *d = UNITS[u].d;
    Unit ref(1., d[0], d[1], d[2], d[3], 0, d[4]);
    if (!UnitConverter::get_single_unit(UNITS[u].name).is_same_quantity(ref))
      VH_VIOL("units/dims", caseid, "unit %s does not have dimensions L%d T%d M%d K%d angle%d",
              UNITS[u].name, d[0], d[1], d[2], d[3], d[4]);
    st.inc("units_single_units");
  }
  // --- SI names: value exactly 1, identity conversion ----------------------
  for (int q = 0; q < NUMBER_OF_QUANTITIES; ++q, ++caseid) {
    if (only >= 0 && (int64_t)caseid != only) continue;
    const std::string si = UnitConverter::get_SI_unit_name(q);
    const double x = 0.1 + q;
    double y = NAN, z = NAN;
    bool ok = guarded([&] {
      y = q_to_SI(q, x, si);
      z = q_to_unit(q, x, si);
    });
    if (!ok) {
      VH_VIOL("units/abort", caseid, "%s: SI unit name \"%s\" aborted", QNAMES[q], si.c_str());
      continue;
    }
    if (y != x || z != x)
      VH_VIOL("units/si-identity", caseid, "%s: to_SI(%.17g,\"%s\")=%.17g to_unit=%.17g", QNAMES[q],
              x, si.c_str(), y, z);
    st.inc("units_quantities");
  }
  // --- power zero ----------------------------------------------------------
  for (int u = 0; u < NUNIT; ++u, ++caseid) {
    if (only >= 0 && (int64_t)caseid != only) continue;
    // "<SI unit of length> <u>^0" must be a length unit with factor 1
    const std::string s = std::string("m ") + UNITS[u].name + "^0";
    double y = NAN;
    bool ok = guarded([&] { y = UnitConverter::to_SI<QUANTITY_LENGTH>(1., s); });
    st.inc("units_power_zero");
    if (!ok)
      VH_VIOL("units/abort", caseid, "to_SI<LENGTH>(1,\"%s\") aborted", s.c_str());
    else if (!rel_close(y, 1.L, TOL))
      VH_VIOL("units/power-zero", caseid, "to_SI<LENGTH>(1,\"%s\") = %.17g, expected 1 (x^0 == 1)",
              s.c_str(), y);
  }
  // --- every quantity x every unit string ----------------------------------
  for (int q = 0; q < NUMBER_OF_QUANTITIES; ++q) {
    std::vector<UStr> cands;
    enumerate_subst(q, cands);
    const size_t nsub = cands.size();
    enumerate_base(g_qdims[q], cands);
    const size_t nenum = cands.size();
    vh::Rng rq = master.fork(1000 + q);
    for (uint64_t i = 0; i < nrandom; ++i) cands.push_back(random_compound(g_qdims[q], rq));
    for (size_t c = 0; c < cands.size(); ++c, ++caseid) {
      if (only >= 0 && (int64_t)caseid != only) continue;
      vh::Rng r = master.fork(caseid * 7 + 1);
      const UStr &u = cands[c];
      int d[5];
      dims_of(u, d);
      if (!same_dims(d, g_qdims[q])) { // generator self-check
        std::printf("VIOL key=harness/generator case=%" PRIu64 " dims mismatch\n", caseid);
        ++vh::g_nviol;
        continue;
      }
      bool inrange;
      const long double F = expected_factor(u, inrange);
      if (!inrange) {
        st.inc("units_skipped_range");
        continue;
      }
      const std::string s = format_unit(u, r, c < nenum && r.chance(0.5));
      const double xs[3] = {1., r.loguniform(1e-6, 1e6), -r.loguniform(1e-3, 1e3)};
      for (int k = 0; k < 3; ++k) {
        const double x = xs[k];
        double y = NAN, xb = NAN, cv = NAN;
        bool ok = guarded([&] {
          y = q_to_SI(q, x, s);
          xb = q_to_unit(q, y, s);
          cv = UnitConverter::convert(x, s, UnitConverter::get_SI_unit_name(q));
        });
        st.inc("units_conversions");
        if (!ok) {
          VH_VIOL("units/abort", caseid, "%s unit \"%s\" aborted", QNAMES[q], s.c_str());
          break;
        }
        if (!rel_close(xb, x, TOL))
          VH_VIOL("units/roundtrip", caseid, "%s: to_unit(to_SI(%.17g,\"%s\")=%.17g) = %.17g",
                  QNAMES[q], x, s.c_str(), y, xb);
        if (!rel_close(y, (long double)x * F, TOL) || !rel_close(cv, (long double)x * F, TOL))
          VH_VIOL("units/compound-product", caseid,
                  "%s: to_SI(%.17g,\"%s\") = %.17g, convert = %.17g, product of parts = %.17Lg",
                  QNAMES[q], x, s.c_str(), y, cv, (long double)x * F);
        st.maxd("units_max_rel_err_compound", (double)fabsl(((long double)y - x * F) / (x * F)));
        st.maxd("units_max_rel_err_roundtrip", std::fabs((xb - x) / x));
      }
      if (c < nsub) st.inc("units_strings_substitution");
      else if (c < nenum) st.inc("units_strings_base");
      else st.inc("units_strings_random_compound");
      if (c >= nenum && c < nenum + 1 && q % 9 == 0)
        std::printf("SAMPLE units %s \"%s\": to_SI(1) = %.17g (product of parts %.17Lg)\n", QNAMES[q],
                    s.c_str(), q_to_SI(q, 1., s), F);
      // convert between two candidate strings of the same quantity
      if (c > 0) {
        const UStr &u2 = cands[r.below(c)];
        bool in2;
        const long double F2 = expected_factor(u2, in2);
        if (in2 && fabsl(F / F2) < 1e280L && fabsl(F / F2) > 1e-280L) {
          vh::Rng r2 = r.fork(3);
          const std::string s2 = format_unit(u2, r2, true);
          double cv = NAN;
          bool ok = guarded([&] { cv = UnitConverter::convert(xs[1], s, s2); });
          st.inc("units_pair_conversions");
          if (!ok)
            VH_VIOL("units/abort", caseid, "convert(\"%s\",\"%s\") aborted", s.c_str(), s2.c_str());
          else if (!rel_close(cv, (long double)xs[1] * F / F2, TOL))
            VH_VIOL("units/compound-product", caseid, "convert(%.17g,\"%s\",\"%s\") = %.17g expected %.17Lg",
                    xs[1], s.c_str(), s2.c_str(), cv, (long double)xs[1] * F / F2);
        }
      }
    }
  }
  // --- cross-quantity conversions (photon energy / wavelength <-> frequency)
  {
    const double hP = PhysicalConstants::get_physical_constant(PHYSICALCONSTANT_PLANCK);
    const double cL = PhysicalConstants::get_physical_constant(PHYSICALCONSTANT_LIGHTSPEED);
    std::vector<UStr> en, le, fr;
    enumerate_subst(QUANTITY_ENERGY, en);
    enumerate_base(g_qdims[QUANTITY_ENERGY], en);
    enumerate_subst(QUANTITY_LENGTH, le);
    enumerate_subst(QUANTITY_FREQUENCY, fr);
    enumerate_base(g_qdims[QUANTITY_FREQUENCY], fr);
    struct Cross {
      int q;
      std::vector<UStr> *units;
      int kind; // 0: nu = E/h, 1: nu = c/lambda, 2: E = h nu, 3: lambda = c/nu
    } cross[4] = {{QUANTITY_FREQUENCY, &en, 0},
                  {QUANTITY_FREQUENCY, &le, 1},
                  {QUANTITY_ENERGY, &fr, 2},
                  {QUANTITY_LENGTH, &fr, 3}};
    for (int k = 0; k < 4; ++k)
      for (size_t c = 0; c < cross[k].units->size(); ++c, ++caseid) {
        if (only >= 0 && (int64_t)caseid != only) continue;
        vh::Rng r = master.fork(caseid * 7 + 5);
        const UStr &u = (*cross[k].units)[c];
        bool inr;
        const long double F = expected_factor(u, inr);
        if (!inr) continue;
        const std::string s = format_unit(u, r, true);
        const double x = r.loguniform(1e-3, 1e3);
        double y = NAN, xb = NAN;
        bool ok = guarded([&] {
          y = q_to_SI(cross[k].q, x, s);
          xb = q_to_unit(cross[k].q, y, s);
        });
        st.inc("units_cross_quantity");
        if (!ok) {
          VH_VIOL("units/abort", caseid, "%s from \"%s\" aborted", QNAMES[cross[k].q], s.c_str());
          continue;
        }
        long double e;
        const long double xsi = (long double)x * F;
        if (cross[k].kind == 0) e = xsi / hP;
        else if (cross[k].kind == 1) e = cL / xsi;
        else if (cross[k].kind == 2) e = xsi * hP;
        else e = cL / xsi;
        if (!rel_close(xb, x, TOL))
          VH_VIOL("units/roundtrip", caseid, "%s: to_unit(to_SI(%.17g,\"%s\")=%.17g) = %.17g",
                  QNAMES[cross[k].q], x, s.c_str(), y, xb);
        if (!rel_close(y, e, TOL))
          VH_VIOL("units/cross-quantity", caseid, "%s: to_SI(%.17g,\"%s\") = %.17g expected %.17Lg",
                  QNAMES[cross[k].q], x, s.c_str(), y, e);
      }
  }
  st.inc("units_cases", caseid);
  return 0;
}

// ===========================================================================
// part "trees"
// ===========================================================================
enum VType { V_DOUBLE, V_INT, V_UINT8, V_ULONG, V_BOOL, V_STRING, V_VEC, V_IVEC, V_BVEC, V_PHYS, V_PHYSVEC, V_NTYPES };
static const char *VTNAMES[] = {"double", "int", "uint8", "ulong", "bool", "string", "vec", "ivec", "bvec", "phys", "physvec"};

struct Leaf {
  std::string key;  // full key "group:sub:name"
  std::string text; // value text as written (trimmed)
  int type, q;
  double want[3]; // value the text denotes (SI for physical values); ints/bools as doubles
  std::string wants;
};
struct Res {
  double v[3];
  std::string s;
};
struct Node {
  std::string name;
  std::vector<int> kids; // groups
  std::vector<int> leaves;
  std::set<std::string> names;
};
struct Tree {
  std::vector<Node> nodes;
  std::vector<Leaf> leaves;
  std::set<std::string> leafkeys, grouppaths;
};

static const char NAMECHARS[] = "abcdefghijklmnopqrstuvwxyzABCDEFGHIJKLMNOPQRSTUVWXYZ0123456789 _-./()";
static std::string gen_name(vh::Rng &r, bool confusable) {
  static const char *pool[] = {"a", "a b", "a.b", "ab", "a-", "a_", "A", "b", "z", "0", "a0", "a z",
                               "x", "y", "k", "number of cells", "type", "sides", "a/b", "(a)"};
  if (confusable || r.chance(0.3)) return pool[r.below(sizeof(pool) / sizeof(pool[0]))];
  const int len = 1 + (int)r.below(10);
  std::string s;
  for (int i = 0; i < len; ++i) s += NAMECHARS[r.below(sizeof(NAMECHARS) - 1)];
  if (s[0] == ' ') s[0] = 'q';
  if (s[len - 1] == ' ') s[len - 1] = 'Q';
  return s;
}
static std::string fmt_double(double v, vh::Rng &r) {
  char b[64];
  static const char *fm[] = {"%g", "%.3g", "%e", "%.10g", "%.17g", "%.2f", "%G"};
  int k = (int)r.below(7);
  if (k == 5 && (std::fabs(v) > 1e9 || std::fabs(v) < 1e-2)) k = 0;
  std::snprintf(b, sizeof b, fm[k], v);
  std::string s(b);
  if (s.find_first_of(".eEn") == std::string::npos && r.chance(0.5)) s += "."; // "3."
  return s;
}
static double gen_real(vh::Rng &r) {
  const int k = (int)r.below(6);
  double v;
  if (k == 0) v = (double)r.range(-20, 20);
  else if (k == 1) v = r.uniform(-1, 1);
  else if (k == 2) v = r.loguniform(1e-20, 1e20);
  else if (k == 3) v = -r.loguniform(1e-6, 1e6);
  else if (k == 4) v = 0.;
  else v = r.loguniform(0.1, 1e4);
  return v;
}
// unit string for quantity q (always dimensionally right for q)
static std::string gen_unit_string(int q, vh::Rng &r, long double &F) {
  for (int tries = 0; tries < 50; ++tries) {
    UStr u;
    const int k = (int)r.below(4);
    if (k == 0) u = g_si[q];
    else if (k == 1 || k == 2) {
      std::vector<UStr> c;
      if (k == 1) enumerate_subst(q, c);
      else enumerate_base(g_qdims[q], c);
      if (c.empty()) continue;
      u = c[r.below(c.size())];
    } else u = random_compound(g_qdims[q], r);
    bool ok;
    F = expected_factor(u, ok);
    if (!ok || fabsl(F) > 1e60L || fabsl(F) < 1e-60L) continue;
    return format_unit(u, r, r.chance(0.5));
  }
  F = 1.L;
  vh::Rng r2(1);
  return format_unit(g_si[q], r2, true);
}
static std::string trim(const std::string &s);
static void gen_value_raw(Leaf &l, vh::Rng &r);
static void gen_value(Leaf &l, vh::Rng &r) {
  gen_value_raw(l, r);
  l.text = trim(l.text);
}
static void gen_value_raw(Leaf &l, vh::Rng &r) {
  l.type = (int)r.below(V_NTYPES);
  l.q = 0;
  l.want[0] = l.want[1] = l.want[2] = 0.;
  char b[256];
  switch (l.type) {
  case V_DOUBLE: {
    l.text = fmt_double(gen_real(r), r);
    l.want[0] = std::strtod(l.text.c_str(), nullptr);
    break;
  }
  case V_INT: {
    long iv = r.chance(0.5) ? r.range(-1000000, 1000000) : r.range(-50, 50);
    const int f = (int)r.below(10);
    if (f == 0 && iv >= 0) std::snprintf(b, sizeof b, "0x%lX", iv);
    else if (f == 1) {
      iv = r.range(-9, 9);
      const int e = (int)r.below(7);
      std::snprintf(b, sizeof b, "%lde%d", iv, e);
      for (int i = 0; i < e; ++i) iv *= 10;
    } else std::snprintf(b, sizeof b, "%ld", iv);
    l.text = b;
    l.want[0] = (double)iv;
    break;
  }
  case V_UINT8: {
    const long iv = r.range(0, 255);
    l.text = std::to_string(iv);
    l.want[0] = (double)iv;
    break;
  }
  case V_ULONG: {
    const long iv = r.chance(0.5) ? r.range(0, 4000000000L) : r.range(0, 100);
    l.text = std::to_string(iv);
    l.want[0] = (double)iv;
    break;
  }
  case V_BOOL: {
    static const char *t[] = {"true", "yes", "on", "y", "True", "YES", "oN"};
    static const char *f[] = {"false", "no", "off", "n", "False", "NO", "oFf"};
    const bool v = r.chance(0.5);
    l.text = v ? t[r.below(7)] : f[r.below(7)];
    l.want[0] = v;
    break;
  }
  case V_STRING: {
    const int len = 1 + (int)r.below(14);
    std::string s;
    for (int i = 0; i < len; ++i) s += NAMECHARS[r.below(sizeof(NAMECHARS) - 1)];
    if (s[0] == ' ') s[0] = 'q';
    if (s[len - 1] == ' ') s[len - 1] = 'Q';
    if (r.chance(0.3)) {
      static const char *names[] = {"Cartesian", "TaskBased", "snapshot", "./output/", "WMBasic", "data/file_001.hdf5"};
      s = names[r.below(6)];
    }
    l.text = s;
    l.wants = s;
    break;
  }
  case V_VEC: {
    std::string s = "[";
    for (int i = 0; i < 3; ++i) {
      const std::string c = fmt_double(gen_real(r), r);
      l.want[i] = std::strtod(c.c_str(), nullptr);
      s += c;
      if (i < 2) s += r.chance(0.7) ? ", " : ",";
    }
    l.text = s + "]";
    break;
  }
  case V_IVEC: {
    std::string s = "[";
    for (int i = 0; i < 3; ++i) {
      const long iv = r.range(-100, 4096);
      l.want[i] = (double)iv;
      s += std::to_string(iv);
      if (i < 2) s += r.chance(0.7) ? ", " : ",";
    }
    l.text = s + "]";
    break;
  }
  case V_BVEC: {
    static const char *t[] = {"true", "yes", "on", "y"};
    static const char *f[] = {"false", "no", "off", "n"};
    std::string s = "[";
    for (int i = 0; i < 3; ++i) {
      const bool v = r.chance(0.5);
      l.want[i] = v;
      s += v ? t[r.below(4)] : f[r.below(4)];
      if (i < 2) s += r.chance(0.7) ? ", " : ",";
    }
    l.text = s + "]";
    break;
  }
  case V_PHYS: {
    l.q = (int)r.below(NUMBER_OF_QUANTITIES);
    long double F;
    const std::string u = gen_unit_string(l.q, r, F);
    double v = gen_real(r);
    if (std::fabs(v) > 1e12 || (v != 0. && std::fabs(v) < 1e-12)) v = r.uniform(0.5, 50.);
    const std::string c = fmt_double(v, r);
    l.want[0] = (double)((long double)std::strtod(c.c_str(), nullptr) * F);
    // no separating space only when the unit cannot be taken for an exponent
    l.text = c + ((u[0] != 'e' && u[0] != ' ' && r.chance(0.15)) ? "" : " ") + u;
    break;
  }
  default: {
    l.type = V_PHYSVEC;
    l.q = (int)r.below(NUMBER_OF_QUANTITIES);
    std::string s = "[";
    for (int i = 0; i < 3; ++i) {
      long double F;
      const std::string u = gen_unit_string(l.q, r, F);
      double v = gen_real(r);
      if (std::fabs(v) > 1e12 || (v != 0. && std::fabs(v) < 1e-12)) v = r.uniform(0.5, 50.);
      const std::string c = fmt_double(v, r);
      l.want[i] = (double)((long double)std::strtod(c.c_str(), nullptr) * F);
      s += c + " " + u;
      if (i < 2) s += r.chance(0.7) ? ", " : ",";
    }
    l.text = s + "]";
  }
  }
}

static std::string path_of(const Tree &t, const std::vector<int> &chain) {
  std::string p;
  for (size_t i = 1; i < chain.size(); ++i) p += t.nodes[chain[i]].name + ":";
  return p;
}
// add a leaf at a random place; returns false if no fresh name was found
static bool add_leaf(Tree &t, vh::Rng &r, int D, double pdesc, bool top_ok, bool confusable,
                     bool only_new_groups) {
  std::vector<int> chain(1, 0);
  int cur = 0;
  for (int level = 0; level < D; ++level) {
    if (!(level == 0 && !top_ok) && !r.chance(pdesc)) break;
    Node &n = t.nodes[cur];
    int next = -1;
    if (!only_new_groups && !n.kids.empty() && r.chance(0.55)) next = n.kids[r.below(n.kids.size())];
    else {
      std::string nm;
      bool ok = false;
      for (int tries = 0; tries < 20 && !ok; ++tries) {
        nm = gen_name(r, confusable);
        ok = !n.names.count(nm);
      }
      if (!ok) {
        if (n.kids.empty()) return false;
        next = n.kids[r.below(n.kids.size())];
      } else {
        n.names.insert(nm);
        Node nn;
        nn.name = nm;
        t.nodes.push_back(nn);
        next = (int)t.nodes.size() - 1;
        t.nodes[cur].kids.push_back(next);
      }
    }
    cur = next;
    chain.push_back(cur);
  }
  Node &n = t.nodes[cur];
  std::string nm;
  bool ok = false;
  for (int tries = 0; tries < 20 && !ok; ++tries) {
    nm = gen_name(r, confusable);
    ok = !n.names.count(nm);
  }
  // a group left without any leaf would never show up in the flat map; give it a
  // leaf with a fallback name
  if (!ok) {
    nm = "leaf" + std::to_string(t.leaves.size());
    if (n.names.count(nm)) return false;
  }
  n.names.insert(nm);
  Leaf l;
  l.key = path_of(t, chain) + nm;
  gen_value(l, r);
  t.leaves.push_back(l);
  t.nodes[cur].leaves.push_back((int)t.leaves.size() - 1);
  return true;
}
// groups that ended up without any leaf below them are given one
static void fill_empty_groups(Tree &t, vh::Rng &r, int node, const std::string &path) {
  Node &n = t.nodes[node];
  for (size_t i = 0; i < n.kids.size(); ++i)
    fill_empty_groups(t, r, t.nodes[node].kids[i], path + t.nodes[t.nodes[node].kids[i]].name + ":");
  if (node != 0 && t.nodes[node].kids.empty() && t.nodes[node].leaves.empty()) {
    Leaf l;
    l.key = path + "k";
    gen_value(l, r);
    t.nodes[node].names.insert("k");
    t.leaves.push_back(l);
    t.nodes[node].leaves.push_back((int)t.leaves.size() - 1);
  }
}
static void emit(const Tree &t, vh::Rng &r, int node, int indent, bool noise, std::string &out) {
  const Node &n = t.nodes[node];
  std::vector<std::pair<int, int>> items; // (0 leaf / 1 group, index)
  for (int l : n.leaves) items.push_back(std::make_pair(0, l));
  for (int k : n.kids) items.push_back(std::make_pair(1, k));
  for (size_t i = items.size(); i > 1; --i) std::swap(items[i - 1], items[r.below(i)]);
  const std::string ind(indent, ' ');
  for (auto &it : items) {
    if (noise && r.chance(0.08)) out += std::string(r.below(6), ' ') + "# a comment line: with colon\n";
    if (noise && r.chance(0.08)) out += r.chance(0.5) ? "\n" : "   \n";
    if (it.first == 0) {
      const Leaf &l = t.leaves[it.second];
      const std::string nm = l.key.substr(l.key.rfind(':') == std::string::npos ? 0 : l.key.rfind(':') + 1);
      out += ind + nm + (noise && r.chance(0.1) ? " " : "") + ":" + std::string(1 + (noise ? r.below(3) : 0), ' ') + l.text;
      if (noise && r.chance(0.1)) out += std::string(r.below(3), ' ');
      if (noise && r.chance(0.12)) out += "  # trailing: comment";
      out += "\n";
    } else {
      out += ind + t.nodes[it.second].name + ":" + (noise && r.chance(0.1) ? "   # group" : "") + "\n";
      const int w = noise ? (int)(1 + r.below(4)) : 2;
      emit(t, r, it.second, indent + w, noise, out);
    }
  }
}

// --- the harness' own reader of the printed text (strict YAML subset) -------
struct MiniFlags {
  int dup_group, dup_key, bad_indent, conflict, noline;
  std::string first_dup;
};
static std::string trim(const std::string &s) {
  const size_t a = s.find_first_not_of(" \t");
  if (a == std::string::npos) return "";
  const size_t b = s.find_last_not_of(" \t");
  return s.substr(a, b - a + 1);
}
static void mini_parse(const std::string &text, std::map<std::string, std::string> &out, MiniFlags &fl) {
  fl = MiniFlags();
  struct Open {
    int indent; // indentation of the header line
    int child;  // indentation of the children (-1 unknown)
    std::string path;
  };
  std::vector<Open> stack;
  stack.push_back(Open{-1, 0, ""});
  std::set<std::string> groups;
  std::istringstream is(text);
  std::string line;
  while (std::getline(is, line)) {
    const size_t h = line.find('#');
    if (h != std::string::npos) line = line.substr(0, h);
    if (trim(line).empty()) continue;
    const int indent = (int)line.find_first_not_of(' ');
    const size_t c = line.find(':');
    if (c == std::string::npos) {
      ++fl.noline;
      continue;
    }
    const std::string name = trim(line.substr(0, c)), value = trim(line.substr(c + 1));
    while (stack.size() > 1 && stack.back().indent >= indent) stack.pop_back();
    Open &p = stack.back();
    if (p.child < 0) {
      if (indent <= p.indent) ++fl.bad_indent;
      p.child = indent;
    } else if (p.child != indent) ++fl.bad_indent;
    const std::string full = p.path + name;
    if (value.empty()) {
      if (out.count(full)) ++fl.conflict;
      if (!groups.insert(full + ":").second) {
        if (!fl.dup_group) fl.first_dup = full;
        ++fl.dup_group;
      }
      stack.push_back(Open{indent, -1, full + ":"});
    } else {
      if (groups.count(full + ":")) ++fl.conflict;
      if (out.count(full)) ++fl.dup_key;
      out[full] = value;
    }
  }
}

// --- typed queries through the real API -------------------------------------
// mode 0: getter without default; 1: getter with a default (wrong on purpose when the key
// exists; the leaf's own value when the key is missing)
template <class P> static Res query(P &p, const Leaf &l, int mode, bool missing) {
  Res o;
  o.v[0] = o.v[1] = o.v[2] = 0.;
  const double *w = l.want;
  const double off = missing ? 0. : 1.; // defaults differ from the file value when it exists
  switch (l.type) {
  case V_DOUBLE:
    o.v[0] = mode ? p.template get_value<double>(l.key, w[0] + off) : p.template get_value<double>(l.key);
    break;
  case V_INT:
    o.v[0] = mode ? p.template get_value<int>(l.key, (int)(w[0] + off)) : p.template get_value<int>(l.key);
    break;
  case V_UINT8:
    o.v[0] = mode ? p.template get_value<unsigned char>(l.key, (unsigned char)(missing ? w[0] : 7))
                  : p.template get_value<unsigned char>(l.key);
    break;
  case V_ULONG:
    o.v[0] = mode ? p.template get_value<unsigned long>(l.key, (unsigned long)(w[0] + off))
                  : p.template get_value<unsigned long>(l.key);
    break;
  case V_BOOL:
    o.v[0] = mode ? p.template get_value<bool>(l.key, missing ? (w[0] != 0.) : !(w[0] != 0.))
                  : p.template get_value<bool>(l.key);
    break;
  case V_STRING:
    o.s = mode ? p.template get_value<std::string>(l.key, missing ? l.wants : std::string("other"))
               : p.template get_value<std::string>(l.key);
    break;
  case V_VEC: {
    CoordinateVector<> d(w[0] + off, w[1] + off, w[2] + off);
    CoordinateVector<> v = mode ? p.template get_value<CoordinateVector<>>(l.key, d)
                                : p.template get_value<CoordinateVector<>>(l.key);
    for (int i = 0; i < 3; ++i) o.v[i] = v[i];
    break;
  }
  case V_IVEC: {
    CoordinateVector<long> d((long)(w[0] + off), (long)(w[1] + off), (long)(w[2] + off));
    CoordinateVector<long> v = mode ? p.template get_value<CoordinateVector<long>>(l.key, d)
                                    : p.template get_value<CoordinateVector<long>>(l.key);
    for (int i = 0; i < 3; ++i) o.v[i] = (double)v[i];
    break;
  }
  case V_BVEC: {
    CoordinateVector<bool> d(w[0] != 0., w[1] != 0., w[2] != 0.);
    if (!missing) d = CoordinateVector<bool>(!d[0], !d[1], !d[2]);
    CoordinateVector<bool> v = mode ? p.template get_value<CoordinateVector<bool>>(l.key, d)
                                    : p.template get_value<CoordinateVector<bool>>(l.key);
    for (int i = 0; i < 3; ++i) o.v[i] = v[i];
    break;
  }
  case V_PHYS: {
    const std::string d = missing ? l.text : "123. " + UnitConverter::get_SI_unit_name(l.q);
    o.v[0] = mode ? q_phys_def(p, l.q, l.key, d) : q_phys(p, l.q, l.key);
    break;
  }
  default: {
    const std::string u = UnitConverter::get_SI_unit_name(l.q);
    const std::string d = missing ? l.text : "[1. " + u + ", 2. " + u + ", 3. " + u + "]";
    CoordinateVector<> v = mode ? q_physvec_def(p, l.q, l.key, d) : q_physvec(p, l.q, l.key);
    for (int i = 0; i < 3; ++i) o.v[i] = v[i];
  }
  }
  return o;
}
static bool is_real_type(int t) { return t == V_DOUBLE || t == V_VEC || t == V_PHYS || t == V_PHYSVEC; }
// a and b equal to `tol` relative (reals) / exactly (everything else)
static bool same_res(const Leaf &l, const Res &a, const Res &b, double tol, double *worst) {
  if (l.type == V_STRING) return a.s == b.s;
  for (int i = 0; i < 3; ++i) {
    if (is_real_type(l.type)) {
      const double e = std::fabs(a.v[i] - b.v[i]);
      const double m = std::fabs(b.v[i]);
      if (worst && m > 0) *worst = std::max(*worst, e / m);
      if (!(e <= tol * m)) return false;
    } else if (a.v[i] != b.v[i]) return false;
  }
  return true;
}

// adapters: the same test runs on a bare YAMLDictionary (string streams) and on a
// ParameterFile (files on disk)
struct YamlAdapter {
  YAMLDictionary *d;
  YamlAdapter() : d(nullptr) {}
  ~YamlAdapter() { delete d; }
  bool load(const std::string &text, const std::string &) {
    return guarded([&] {
      std::istringstream is(text);
      d = new YAMLDictionary(is);
    });
  }
  std::string dump_used() {
    std::ostringstream os;
    d->print_contents(os, true);
    return os.str();
  }
  bool has(const std::string &k) { return d->has_value(k); }
  YAMLDictionary &api() { return *d; }
};
struct FileAdapter {
  ParameterFile *d;
  FileAdapter() : d(nullptr) {}
  ~FileAdapter() { delete d; }
  bool load(const std::string &text, const std::string &fn) {
    {
      std::ofstream f(fn);
      f << text;
    }
    const bool ok = guarded([&] { d = new ParameterFile(fn); });
    unlink(fn.c_str());
    return ok;
  }
  std::string dump_used() {
    std::ostringstream os;
    d->print_contents(os);
    return os.str();
  }
  bool has(const std::string &k) { return d->has_value(k); }
  ParameterFile &api() { return *d; }
};

static std::string keys_summary(const Tree &t, size_t maxlen = 700) {
  std::vector<std::string> k;
  for (auto &l : t.leaves) k.push_back(l.key);
  std::sort(k.begin(), k.end());
  std::string s;
  for (auto &x : k) {
    if (s.size() + x.size() > maxlen) {
      s += " | ...";
      break;
    }
    s += (s.empty() ? "" : " | ") + x;
  }
  return s;
}
// nesting changes between consecutive sorted keys: closed = levels left, opened = levels entered
static void jump_stats(const std::vector<std::string> &sorted, vh::Stats &st, bool &big_drop_up, bool &big_drop_down) {
  std::vector<std::string> prev;
  for (auto &k : sorted) {
    std::vector<std::string> g;
    size_t s = 0, p;
    while ((p = k.find(':', s)) != std::string::npos) {
      g.push_back(k.substr(s, p - s));
      s = p + 1;
    }
    size_t c = 0;
    while (c < g.size() && c < prev.size() && g[c] == prev[c]) ++c;
    const size_t closed = prev.size() - c, opened = g.size() - c;
    if (closed >= 2) {
      st.inc("trees_transitions_closing_ge2_levels");
      if (g.size() > prev.size()) {
        st.inc("trees_transitions_closing_ge2_then_deeper");
        big_drop_up = true;
      } else {
        st.inc("trees_transitions_closing_ge2_then_not_deeper");
        big_drop_down = true;
      }
    }
    if (opened >= 2) st.inc("trees_transitions_opening_ge2_levels");
    if (closed + opened > 0 && closed < 2 && opened < 2) st.inc("trees_transitions_small");
    prev = g;
  }
}

template <class A>
static void used_values_test(const Tree &t, const std::vector<Leaf> &extra, const std::string &F,
                             uint64_t caseid, vh::Rng &r, const std::string &tmp, vh::Stats &st,
                             bool dump) {
  const double TOL6 = 5.0001e-6; // 6 printed significant digits: half a unit of the 6th digit
  A a;
  if (!a.load(F, tmp + "/c20_" + std::to_string(getpid()) + "_a.param")) {
    VH_VIOL("tree/parse-abort", caseid, "parser aborted on the generated file; keys: %s", keys_summary(t).c_str());
    return;
  }
  std::vector<Leaf> all(t.leaves);
  std::vector<int> modes;
  std::vector<Res> first;
  for (auto &l : t.leaves) modes.push_back(r.chance(0.3) ? 1 : 0);
  for (auto &l : extra) {
    all.push_back(l);
    modes.push_back(1);
  }
  // query in random order
  std::vector<size_t> order(all.size());
  for (size_t i = 0; i < order.size(); ++i) order[i] = i;
  for (size_t i = order.size(); i > 1; --i) std::swap(order[i - 1], order[r.below(i)]);
  first.resize(all.size());
  size_t bad = (size_t)-1;
  bool ok = guarded([&] {
    for (size_t i : order) {
      bad = i;
      first[i] = query(a.api(), all[i], modes[i], i >= t.leaves.size());
      if (i >= t.leaves.size() && r.chance(0.3)) first[i] = query(a.api(), all[i], 1, true); // asked twice
    }
  });
  if (!ok) {
    VH_VIOL("tree/query-abort", caseid, "query of key \"%s\" (%s, text \"%s\") aborted", all[bad].key.c_str(),
            VTNAMES[all[bad].type], all[bad].text.c_str());
    return;
  }
  for (size_t i = 0; i < all.size(); ++i) {
    Res w;
    for (int k = 0; k < 3; ++k) w.v[k] = all[i].want[k];
    w.s = all[i].wants;
    st.inc("trees_values_queried");
    st.inc(std::string("trees_values_") + VTNAMES[all[i].type]);
    if (i >= t.leaves.size()) st.inc("trees_values_from_defaults");
    if (!same_res(all[i], first[i], w, 1e-13, nullptr))
      VH_VIOL("tree/value", caseid, "key \"%s\" (%s) text \"%s\": got %.17g %.17g %.17g \"%s\" want %.17g %.17g %.17g",
              all[i].key.c_str(), VTNAMES[all[i].type], all[i].text.c_str(), first[i].v[0], first[i].v[1],
              first[i].v[2], first[i].s.c_str(), w.v[0], w.v[1], w.v[2]);
  }
  const std::string U = a.dump_used();
  if (dump) std::printf("---- used values dump ----\n%s", U.c_str());
  // own reading of the dump
  std::map<std::string, std::string> mu;
  MiniFlags fl;
  mini_parse(U, mu, fl);
  // NOTE: a group header that is printed more than once (stale group stack in print_contents) is NOT a
  // violation of C20: the repository's own parser merges re-opened groups, so keys and values survive the
  // round trip (which is what the property states).  It is only counted.
  if (fl.dup_group) g_info_dup_headers += fl.dup_group;
  if (fl.bad_indent || fl.conflict || fl.dup_key || fl.noline || mu.size() != all.size())
    VH_VIOL("used/print-structure", caseid, "used-values dump is not a consistent tree: bad_indent=%d conflict=%d dup_key=%d noline=%d entries=%zu expected=%zu",
            fl.bad_indent, fl.conflict, fl.dup_key, fl.noline, mu.size(), all.size());
  // feed the dump back
  A b;
  if (!b.load(U, tmp + "/c20_" + std::to_string(getpid()) + "_b.param")) {
    VH_VIOL("used/reparse-abort", caseid, "the used-values dump cannot be parsed again; keys: %s", keys_summary(t).c_str());
    return;
  }
  for (size_t i = 0; i < all.size(); ++i) {
    if (!b.has(all[i].key)) {
      VH_VIOL("used/missing-key", caseid, "key \"%s\" is missing after re-parsing the used-values dump; keys: %s",
              all[i].key.c_str(), keys_summary(t).c_str());
      continue;
    }
    Res second;
    bool ok2 = guarded([&] { second = query(b.api(), all[i], 0, false); });
    if (!ok2) {
      VH_VIOL("used/requery-abort", caseid, "key \"%s\" (%s): value \"%s\" of the dump cannot be read back",
              all[i].key.c_str(), VTNAMES[all[i].type], mu.count(all[i].key) ? mu[all[i].key].c_str() : "?");
      continue;
    }
    double worst = 0.;
    st.inc("trees_used_values_compared");
    if (!same_res(all[i], second, first[i], TOL6, &worst))
      VH_VIOL("used/value", caseid, "key \"%s\" (%s): first run %.17g %.17g %.17g \"%s\", from dump %.17g %.17g %.17g \"%s\" (dump text \"%s\")",
              all[i].key.c_str(), VTNAMES[all[i].type], first[i].v[0], first[i].v[1], first[i].v[2], first[i].s.c_str(),
              second.v[0], second.v[1], second.v[2], second.s.c_str(), mu.count(all[i].key) ? mu[all[i].key].c_str() : "?");
    st.maxd("trees_used_max_rel_diff", worst);
  }
  // the dump of the second run must be the dump of the first run again (values are
  // already rounded to the printed digits), apart from the "(original)" comments
  const std::string U2 = b.dump_used();
  std::map<std::string, std::string> mu2;
  MiniFlags fl2;
  mini_parse(U2, mu2, fl2);
  if (mu2 != mu) {
    std::string k;
    for (auto &kv : mu)
      if (!mu2.count(kv.first) || mu2[kv.first] != kv.second) {
        k = kv.first;
        break;
      }
    VH_VIOL("used/not-fixed-point", caseid, "dump of the re-run differs from the dump it was started from, e.g. key \"%s\": \"%s\" -> \"%s\"",
            k.c_str(), mu[k].c_str(), mu2.count(k) ? mu2[k].c_str() : "(missing)");
  }
}

// fixed witness trees (flat keys), aimed at nesting that changes by >= 2 levels
static const char *WITNESS[][8] = {
    {"a:b:c:k", "a:x:y:z:k", "a:x:y:z:k2", nullptr},            // close 2, open 3, then stay
    {"a:b:c:d:k", "e:k", nullptr},                              // close 4 to the top level
    {"a:b:c:d:k1", "a:e:k2", "a:e:k3", nullptr},                // close 3, open 1
    {"a:b:c:k", "a:d:e:f:k", "a:d:e:f:l", "a:g:k", "top", nullptr},
    {"g:a:b:k", "g:c:d:e:k1", "g:c:d:e:k2", "g:c:d:f:k", "g:h", nullptr},
    {"a b:c:d:k", "a:x:y:z:k", "a:x:y:z:w:k", "a:x:y:z:w:l", nullptr}};
static const int NWITNESS = sizeof(WITNESS) / sizeof(WITNESS[0]);

static Tree tree_from_keys(const char *const *keys, vh::Rng &r) {
  Tree t;
  t.nodes.push_back(Node());
  for (int i = 0; keys[i]; ++i) {
    const std::string k = keys[i];
    int cur = 0;
    size_t s = 0, p;
    while ((p = k.find(':', s)) != std::string::npos) {
      const std::string g = k.substr(s, p - s);
      int next = -1;
      for (int c : t.nodes[cur].kids)
        if (t.nodes[c].name == g) next = c;
      if (next < 0) {
        Node n;
        n.name = g;
        t.nodes.push_back(n);
        next = (int)t.nodes.size() - 1;
        t.nodes[cur].kids.push_back(next);
        t.nodes[cur].names.insert(g);
      }
      cur = next;
      s = p + 1;
    }
    Leaf l;
    l.key = k;
    l.type = V_INT;
    l.q = 0;
    l.text = std::to_string(i + 1);
    l.want[0] = i + 1;
    l.want[1] = l.want[2] = 0;
    t.nodes[cur].names.insert(k.substr(s));
    t.leaves.push_back(l);
    t.nodes[cur].leaves.push_back((int)t.leaves.size() - 1);
  }
  (void)r;
  return t;
}

static int run_trees(uint64_t seed, uint64_t ncases, int64_t only, const std::string &tmp, bool dump,
                     vh::Stats &st) {
  vh::Rng master(seed * 1000003ull + 20);
  for (uint64_t c = 0; c < ncases; ++c) {
    if (only >= 0 && (int64_t)c != only) continue;
    vh::Rng r = master.fork(c);
    Tree t;
    int D = 0;
    bool noise = true;
    if (c < (uint64_t)NWITNESS) {
      t = tree_from_keys(WITNESS[c], r);
      noise = false;
      st.inc("trees_fixed_witness_trees");
    } else {
      t.nodes.push_back(Node());
      D = 1 + (int)r.below(4);
      const int N = 1 + (int)r.below(40);
      static const double pd[] = {0.5, 0.7, 0.9, 0.97};
      const double pdesc = pd[r.below(4)];
      const bool top_ok = r.chance(0.5), confusable = r.chance(0.25), chains = r.chance(0.3);
      for (int i = 0, tries = 0; i < N && tries < 4 * N; ++tries)
        if (add_leaf(t, r, D, pdesc, top_ok, confusable, chains && r.chance(0.6))) ++i;
      fill_empty_groups(t, r, 0, "");
      if (t.leaves.empty()) {
        st.inc("trees_empty_skipped");
        continue;
      }
      st.inc("trees_random_trees");
      st.inc("trees_depth_" + std::to_string(D));
    }
    for (auto &l : t.leaves) t.leafkeys.insert(l.key);
    for (auto &l : t.leaves) {
      size_t p = 0;
      while ((p = l.key.find(':', p)) != std::string::npos) t.grouppaths.insert(l.key.substr(0, ++p));
    }
    std::string F;
    emit(t, r, 0, 0, noise, F);
    std::map<std::string, std::string> M;
    for (auto &l : t.leaves) M[l.key] = l.text;
    std::vector<std::string> sorted;
    for (auto &kv : M) sorted.push_back(kv.first);
    bool up = false, down = false;
    jump_stats(sorted, st, up, down);
    if (up) st.inc("trees_with_close_ge2_then_deeper");
    if (down) st.inc("trees_with_close_ge2_then_not_deeper");
    st.inc("trees_keys", M.size());
    if (dump) std::printf("---- generated file ----\n%s", F.c_str());

    // (1) parse
    YamlAdapter d1;
    if (!d1.load(F, "")) {
      VH_VIOL("tree/parse-abort", c, "parser aborted on the generated file; keys: %s", keys_summary(t).c_str());
      continue;
    }
    bool okmap = true;
    for (auto &kv : M)
      if (!d1.d->has_value(kv.first) || d1.d->get_value<std::string>(kv.first) != kv.second) {
        VH_VIOL("tree/parse-map", c, "after parsing the generated file key \"%s\" is %s (expected \"%s\")", kv.first.c_str(),
                d1.d->has_value(kv.first) ? ("\"" + d1.d->get_value<std::string>(kv.first) + "\"").c_str() : "missing",
                kv.second.c_str());
        okmap = false;
        break;
      }
    if (!okmap) continue;
    // (2) print, read the print with the harness' own reader
    std::ostringstream os;
    {
      // a fresh dictionary: get_value<string> above only touched the used values
      std::istringstream is(F);
      YAMLDictionary fresh(is);
      fresh.print_contents(os, false);
    }
    const std::string P1 = os.str();
    if (dump) std::printf("---- print_contents ----\n%s", P1.c_str());
    std::map<std::string, std::string> Mp;
    MiniFlags fl;
    mini_parse(P1, Mp, fl);
    st.inc("trees_prints_checked");
    if (fl.dup_group) g_info_dup_headers += fl.dup_group;  // informational only, see above
    if (Mp != M || fl.bad_indent || fl.conflict || fl.dup_key || fl.noline) {
      std::string k;
      for (auto &kv : M)
        if (!Mp.count(kv.first) || Mp[kv.first] != kv.second) {
          k = kv.first;
          break;
        }
      VH_VIOL("tree/print-map", c, "printed text read as a tree differs from the input: %zu vs %zu entries, first differing key \"%s\", bad_indent=%d conflict=%d dup_key=%d; keys: %s",
              Mp.size(), M.size(), k.c_str(), fl.bad_indent, fl.conflict, fl.dup_key, keys_summary(t).c_str());
    }
    // (3) parse the print with the real parser and compare with the generator's map
    YamlAdapter d2;
    if (!d2.load(P1, "")) {
      VH_VIOL("tree/reparse-abort", c, "the printed file cannot be parsed again; keys: %s", keys_summary(t).c_str());
      continue;
    }
    for (auto &kv : M)
      if (!d2.d->has_value(kv.first) || d2.d->get_value<std::string>(kv.first) != kv.second) {
        VH_VIOL("tree/reparse-map", c, "parse(print(parse(F))): key \"%s\" is %s, expected \"%s\"; keys: %s", kv.first.c_str(),
                d2.d->has_value(kv.first) ? ("\"" + d2.d->get_value<std::string>(kv.first) + "\"").c_str() : "missing",
                kv.second.c_str(), keys_summary(t).c_str());
        break;
      }
    {
      // extra keys would show up as extra lines of the second print
      std::istringstream is(P1);
      YAMLDictionary again(is);
      std::ostringstream os2;
      again.print_contents(os2, false);
      if (os2.str() != P1)
        VH_VIOL("tree/reparse-map", c, "print(parse(print)) differs from print: the re-parsed dictionary has other contents; keys: %s",
                keys_summary(t).c_str());
    }
    st.inc("trees_reparsed");
    if (c < 2 || (c >= (uint64_t)NWITNESS && c < (uint64_t)NWITNESS + 1))
      std::printf("SAMPLE tree case %" PRIu64 ": %zu keys, depth %d, repeated group headers in print: %d; keys: %s\n", c,
                  M.size(), D, fl.dup_group, keys_summary(t, 200).c_str());

    // (4) used values, with defaults for keys that are not in the file
    std::vector<Leaf> extra;
    const int nextra = (int)r.below(6);
    for (int i = 0; i < nextra; ++i) {
      for (int tries = 0; tries < 20; ++tries) {
        std::string path;
        const int k = (int)r.below(3);
        if (k == 0 && !t.grouppaths.empty()) { // an existing group
          auto it = t.grouppaths.begin();
          std::advance(it, r.below(t.grouppaths.size()));
          path = *it;
        } else if (k == 1) { // a new chain of groups, possibly below an existing one
          if (!t.grouppaths.empty() && r.chance(0.5)) {
            auto it = t.grouppaths.begin();
            std::advance(it, r.below(t.grouppaths.size()));
            path = *it;
          }
          int depth = (int)std::count(path.begin(), path.end(), ':');
          const int add = 1 + (int)r.below(3);
          for (int j = 0; j < add && depth < 4; ++j, ++depth) path += gen_name(r, false) + ":";
        }
        Leaf l;
        l.key = path + gen_name(r, false);
        // no clash with existing leaves/groups, nor a group path through an existing leaf
        bool clash = t.leafkeys.count(l.key) || t.grouppaths.count(l.key + ":");
        size_t p = 0;
        while (!clash && (p = l.key.find(':', p)) != std::string::npos) {
          clash = t.leafkeys.count(l.key.substr(0, p));
          ++p;
        }
        for (auto &e : extra) {
          clash = clash || e.key == l.key || e.key.compare(0, l.key.size() + 1, l.key + ":") == 0 ||
                  l.key.compare(0, e.key.size() + 1, e.key + ":") == 0;
        }
        if (clash) continue;
        gen_value(l, r);
        extra.push_back(l);
        break;
      }
    }
    if (c % 4 == 3) {
      used_values_test<FileAdapter>(t, extra, F, c, r, tmp, st, dump);
      st.inc("trees_used_via_ParameterFile");
    } else {
      used_values_test<YamlAdapter>(t, extra, F, c, r, tmp, st, dump);
      st.inc("trees_used_via_YAMLDictionary");
    }
  }
  return 0;
}

int main(int argc, char **argv) {
  const uint64_t seed = vh::arg_u64(argc, argv, "--seed", 1);
  const std::string part = vh::arg_str(argc, argv, "--part", "trees");
  const uint64_t ncases = vh::arg_u64(argc, argv, "--cases", 1000);
  const int64_t only = (int64_t)vh::arg_u64(argc, argv, "--only", (uint64_t)-1);
  const std::string tmp = vh::arg_str(argc, argv, "--tmp", "/tmp");
  const bool dump = vh::arg_flag(argc, argv, "--dump");
  vh::g_viol_print_limit = vh::arg_u64(argc, argv, "--viol-limit", 60);
  struct sigaction sa;
  std::memset(&sa, 0, sizeof sa);
  sa.sa_handler = on_abort;
  sa.sa_flags = SA_NODEFER;
  sigaction(SIGABRT, &sa, nullptr);
  vh::Stats st;
  if (!init_units()) {
    std::printf("VIOL key=units/abort case=0 a unit of the harness list or an SI unit name is not accepted by the code\n");
    std::printf("DONE violations=1\n");
    return 1;
  }
  if (vh::arg_flag(argc, argv, "--list")) {
    std::printf("UNITLIST");
    for (int i = 0; i < NUNIT; ++i) std::printf(" %s", UNITS[i].name);
    std::printf("\nQUANTITYLIST");
    for (int q = 0; q < NUMBER_OF_QUANTITIES; ++q) std::printf(" %s", QNAMES[q]);
    std::printf("\n");
    return 0;
  }
  if (part == "units") run_units(seed, ncases, only, st);
  else run_trees(seed, ncases, only, tmp, dump, st);
  st.inc("info_duplicate_group_headers_printed", g_info_dup_headers);
  st.print();
  std::printf("DONE violations=%" PRIu64 "\n", vh::g_nviol);
  return vh::g_nviol ? 1 : 0;
}
