// C20 (part c): a snapshot written from a grid and read back as initial condition on the
// same geometry reproduces every cell's density, temperature and neutral fractions to
// the stored precision.
//
// Oracle: the field values are a pure function f(seed, field, ix, iy, iz) of the cell
// indices, defined in this file.  The real grid classes are filled from f, written by the
// real GadgetDensityGridWriter, read by the real (Buffered)CMacIonizeSnapshotDensityFunction,
// and every cell is compared with f again.  The stored precision is read from the file
// with the plain HDF5 C API.
#include <csetjmp>
#include <csignal>
#include <fstream>
#include <sstream>
#include <string>
#include <unistd.h>
#include <vector>

#include "BufferedCMacIonizeSnapshotDensityFunction.hpp"
#include "CMacIonizeSnapshotDensityFunction.hpp"
#include "CartesianDensityGrid.hpp"
#include "DensitySubGrid.hpp"
#include "DensitySubGridCreator.hpp"
#include "GadgetDensityGridWriter.hpp"
#include "ParameterFile.hpp"
#include "SimulationBox.hpp"
#include "vh.hpp"
#include <hdf5.h>

static sigjmp_buf g_jb;
static volatile sig_atomic_t g_guard = 0;
static void on_abort(int) {
  if (g_guard) {
    g_guard = 0;
    siglongjmp(g_jb, 1);
  }
  signal(SIGABRT, SIG_DFL);
  raise(SIGABRT);
}
template <class F> static bool guarded(F f) {
  if (sigsetjmp(g_jb, 1) == 0) {
    g_guard = 1;
    f();
    g_guard = 0;
    return true;
  }
  return false;
}

static uint64_t mix(uint64_t a, uint64_t b) {
  vh::Rng r(a * 0x9E3779B97F4A7C15ull + b);
  r.next();
  return r.next();
}
// field: 0 number density, 1 temperature, 2+ion neutral fraction
static double field_value(uint64_t salt, int field, int ix, int iy, int iz) {
  vh::Rng r(mix(mix(salt, field), ((uint64_t)ix << 40) ^ ((uint64_t)iy << 20) ^ (uint64_t)iz));
  const int k = (int)r.below(20);
  if (field == 0) {
    if (k == 0) return 0.;
    if (k == 1) return 1.;
    if (k == 2) return r.loguniform(1e-30, 1e30);
    return r.loguniform(1e-3, 1e14);
  } else if (field == 1) {
    if (k == 0) return 0.;
    if (k == 1) return 8000.;
    return r.loguniform(1., 1e9);
  } else {
    if (k == 0) return 0.;
    if (k == 1) return 1.;
    if (k == 2) return r.loguniform(1e-300, 1e-10);
    return r.uniform();
  }
}

struct Geometry {
  double anchor[3], sides[3];
  int n[3], nsub[3];
  void index_of(const CoordinateVector<> &p, int *i) const {
    for (int d = 0; d < 3; ++d) {
      i[d] = (int)std::floor((p[d] - anchor[d]) / sides[d] * n[d]);
      if (i[d] < 0) i[d] = 0;
      if (i[d] >= n[d]) i[d] = n[d] - 1;
    }
  }
  CoordinateVector<> midpoint(int ix, int iy, int iz) const {
    return CoordinateVector<>(anchor[0] + (ix + 0.5) * sides[0] / n[0], anchor[1] + (iy + 0.5) * sides[1] / n[1],
                              anchor[2] + (iz + 0.5) * sides[2] / n[2]);
  }
};

class FieldFunction : public DensityFunction {
public:
  Geometry g;
  uint64_t salt;
  virtual DensityValues operator()(const Cell &cell) {
    int i[3];
    g.index_of(cell.get_cell_midpoint(), i);
    DensityValues v;
    v.set_number_density(field_value(salt, 0, i[0], i[1], i[2]));
    v.set_temperature(field_value(salt, 1, i[0], i[1], i[2]));
    for (int ion = 0; ion < NUMBER_OF_IONNAMES; ++ion)
      v.set_ionic_fraction(ion, field_value(salt, 2 + ion, i[0], i[1], i[2]));
    return v;
  }
};

// stored precision of a dataset, straight from the file
static bool stored_precision(const std::string &fn, const char *dset, size_t &bytes, int &mantissa_bits) {
  hid_t f = H5Fopen(fn.c_str(), H5F_ACC_RDONLY, H5P_DEFAULT);
  if (f < 0) return false;
  hid_t d = H5Dopen2(f, dset, H5P_DEFAULT);
  bool ok = false;
  if (d >= 0) {
    hid_t t = H5Dget_type(d);
    if (H5Tget_class(t) == H5T_FLOAT) {
      bytes = H5Tget_size(t);
      size_t spos, epos, esize, mpos, msize;
      if (H5Tget_fields(t, &spos, &epos, &esize, &mpos, &msize) >= 0) {
        mantissa_bits = (int)msize;
        ok = true;
      }
    }
    H5Tclose(t);
    H5Dclose(d);
  }
  H5Fclose(f);
  return ok;
}

// short decimal (<= 5 significant digits): survives the 6 digit print of the used values
static std::string nice_number(vh::Rng &r, double lo, double hi, bool allow_neg, bool allow_zero) {
  if (allow_zero && r.chance(0.25)) return "0";
  const double v = r.loguniform(lo, hi);
  char b[64];
  std::snprintf(b, sizeof b, "%.*g", 1 + (int)r.below(5), v);
  std::string s(b);
  if (allow_neg && r.chance(0.5)) s = "-" + s;
  return s;
}

struct Cmp {
  uint64_t cells, values, exact;
  double maxrel;
};
static bool compare_cell(const DensityValues &v, uint64_t salt, int ix, int iy, int iz, uint32_t mask,
                         double missing_fraction, double tol, Cmp &c, char *msg, size_t msglen) {
  ++c.cells;
  for (int field = 0; field < 2 + NUMBER_OF_IONNAMES; ++field) {
    const double got = field == 0 ? v.get_number_density() : field == 1 ? v.get_temperature() : v.get_ionic_fraction(field - 2);
    double want = field_value(salt, field, ix, iy, iz);
    if (field >= 2 && !((mask >> (field - 2)) & 1)) want = missing_fraction; // not in the file
    ++c.values;
    if (vh::bits(got) == vh::bits(want)) {
      ++c.exact;
      continue;
    }
    const double e = std::fabs(got - want), m = std::fabs(want);
    if (m > 0) c.maxrel = std::max(c.maxrel, e / m);
    if (!(e <= tol * m)) {
      std::snprintf(msg, msglen, "cell (%d,%d,%d) %s: read back %.17g, written %.17g", ix, iy, iz,
                    field == 0 ? "number density" : field == 1 ? "temperature" : ("neutral fraction " + get_ion_name(field - 2)).c_str(),
                    got, want);
      return false;
    }
  }
  return true;
}

int main(int argc, char **argv) {
  const uint64_t seed = vh::arg_u64(argc, argv, "--seed", 1);
  const uint64_t ncases = vh::arg_u64(argc, argv, "--cases", 20);
  const int64_t only = (int64_t)vh::arg_u64(argc, argv, "--only", (uint64_t)-1);
  const std::string tmp = vh::arg_str(argc, argv, "--tmp", "/tmp");
  struct sigaction sa;
  std::memset(&sa, 0, sizeof sa);
  sa.sa_handler = on_abort;
  sa.sa_flags = SA_NODEFER;
  sigaction(SIGABRT, &sa, nullptr);
  vh::Stats st;
  vh::Rng master(seed * 1000003ull + 2021);
  const std::string base = tmp + "/c20snap_" + std::to_string(getpid());
  static const int NS[] = {4, 6, 8, 12, 16};

  for (uint64_t c = 0; c < ncases; ++c) {
    if (only >= 0 && (int64_t)c != only) continue;
    vh::Rng r = master.fork(c);
    Geometry g;
    const bool taskbased = (c % 3) != 2;
    const bool cubic = taskbased ? r.chance(0.7) : r.chance(0.4);
    // geometry
    std::string atxt[3], stxt[3];
    for (int d = 0; d < 3; ++d) {
      if (d > 0 && cubic) {
        g.n[d] = g.n[0];
        stxt[d] = stxt[0];
      } else {
        g.n[d] = NS[r.below(5)];
        stxt[d] = d == 0 ? nice_number(r, 1e-3, 1e19, false, false)
                         : nice_number(r, g.sides[0] / 4., g.sides[0] * 4., false, false);
      }
      g.sides[d] = std::strtod(stxt[d].c_str(), nullptr);
      atxt[d] = nice_number(r, g.sides[d] / 100., g.sides[d] * 20., true, true);
      g.anchor[d] = std::strtod(atxt[d].c_str(), nullptr);
      std::vector<int> divs;
      for (int s = 1; s <= 4; ++s)
        if (g.n[d] % s == 0 && g.n[d] / s >= 2) divs.push_back(s);
      g.nsub[d] = divs[r.below(divs.size())];
    }
    if (taskbased && c % 9 == 4) {
      // subgrids with more than 10000 cells: the task-based writer splits those into blocks of 10000 cells
      const int big = 22 + 2 * (int)r.below(3);
      const int split = (int)r.below(2);  // 0: one subgrid, 1: two subgrids along x (still > 10000 cells for 26^3 only)
      for (int d = 0; d < 3; ++d) {
        g.n[d] = big;
        g.nsub[d] = 1;
      }
      if (split && big == 26) g.nsub[0] = 1;
      st.inc("snapshot_cases_subgrid_above_10000_cells");
    }
    const uint64_t salt = mix(seed, c);
    // which neutral fractions are written: H only, H and He, all ions
    uint32_t mask;
    {
      const int k = (int)r.below(3);
      mask = k == 0 ? 1u : (k == 1 && NUMBER_OF_IONNAMES > 1) ? 3u : (uint32_t)((1ull << NUMBER_OF_IONNAMES) - 1);
    }
    const bool compress = r.chance(0.3);
    const double init_frac = r.chance(0.5) ? 1.e-6 : 0.25;

    // parameter file, as a user would write it
    const std::string pfn = base + ".param";
    {
      std::ofstream pf(pfn);
      pf << "SimulationBox:\n  anchor: [" << atxt[0] << " m, " << atxt[1] << " m, " << atxt[2] << " m]\n";
      pf << "  sides: [" << stxt[0] << " m, " << stxt[1] << " m, " << stxt[2] << " m]\n";
      pf << "  periodicity: [false, false, false]\n";
      pf << "DensityGrid:\n  number of cells: [" << g.n[0] << ", " << g.n[1] << ", " << g.n[2] << "]\n";
      if (!taskbased) pf << "  type: Cartesian\n";
      if (taskbased)
        pf << "DensitySubGridCreator:\n  number of subgrids: [" << g.nsub[0] << ", " << g.nsub[1] << ", " << g.nsub[2] << "]\n";
    }
    char desc[512];
    std::snprintf(desc, sizeof desc, "%s grid %dx%dx%d subgrids %dx%dx%d anchor [%s,%s,%s] sides [%s,%s,%s] ionmask 0x%x compress %d",
                  taskbased ? "task-based" : "Cartesian", g.n[0], g.n[1], g.n[2], g.nsub[0], g.nsub[1], g.nsub[2], atxt[0].c_str(),
                  atxt[1].c_str(), atxt[2].c_str(), stxt[0].c_str(), stxt[1].c_str(), stxt[2].c_str(), mask, (int)compress);

    ParameterFile params(pfn);
    SimulationBox simbox(params);
    const Box<> box = simbox.get_box();
    bool geom_ok = true;
    for (int d = 0; d < 3; ++d)
      geom_ok = geom_ok && box.get_anchor()[d] == g.anchor[d] && box.get_sides()[d] == g.sides[d];
    if (!geom_ok) {
      VH_VIOL("snap/box-parse", c, "SimulationBox read from the parameter file differs from the decimal text: %s", desc);
      continue;
    }
    FieldFunction fn;
    fn.g = g;
    fn.salt = salt;
    uint_fast32_t flags[DENSITYGRIDFIELD_NUMBER];
    for (int p = 0; p < DENSITYGRIDFIELD_NUMBER; ++p) flags[p] = 0;
    flags[DENSITYGRIDFIELD_COORDINATES] = 1;
    flags[DENSITYGRIDFIELD_NUMBER_DENSITY] = 1;
    flags[DENSITYGRIDFIELD_TEMPERATURE] = 1;
    flags[DENSITYGRIDFIELD_NEUTRAL_FRACTION] = mask;
    const std::string prefix = "c20snap_" + std::to_string(getpid()) + "_";
    const std::string snapfn = tmp + "/" + prefix + "000.hdf5";
    unlink(snapfn.c_str());

    DensitySubGridCreator<DensitySubGrid> *creator = nullptr;
    CartesianDensityGrid *cgrid = nullptr;
    {
      GadgetDensityGridWriter writer(prefix, tmp, false, DensityGridWriterFields(flags), nullptr, 3, compress);
      if (taskbased) {
        creator = new DensitySubGridCreator<DensitySubGrid>(box, params);
        creator->initialize(fn);
        writer.write(*creator, 0, params, 0.);
        st.inc("snap_files_taskbased");
      } else {
        params.get_value<std::string>("DensityGrid:type", "Cartesian");
        cgrid = new CartesianDensityGrid(simbox, params);
        std::pair<cellsize_t, cellsize_t> block = std::make_pair(0, cgrid->get_number_of_cells());
        cgrid->initialize(block, fn);
        writer.write(*cgrid, 0, params);
        st.inc("snap_files_cartesian");
      }
    }
    // the grid itself holds what the oracle says (so a mismatch later is the file's)
    {
      uint64_t bad = 0, cnt = 0;
      int i[3];
      if (taskbased) {
        for (auto git = creator->begin(); git != creator->original_end(); ++git)
          for (auto it = (*git).begin(); it != (*git).end(); ++it, ++cnt) {
            g.index_of(it.get_cell_midpoint(), i);
            bad += it.get_ionization_variables().get_number_density() != field_value(salt, 0, i[0], i[1], i[2]);
          }
      } else {
        for (auto it = cgrid->begin(); it != cgrid->end(); ++it, ++cnt) {
          g.index_of(it.get_cell_midpoint(), i);
          bad += it.get_ionization_variables().get_number_density() != field_value(salt, 0, i[0], i[1], i[2]);
        }
      }
      if (bad || cnt != (uint64_t)g.n[0] * g.n[1] * g.n[2]) {
        std::printf("VIOL key=harness/grid-fill case=%" PRIu64 " %" PRIu64 " of %" PRIu64 " cells differ from the oracle before writing: %s\n", c, bad, cnt, desc);
        ++vh::g_nviol;
        continue;
      }
    }
    // stored precision -> tolerance
    size_t bytes = 0;
    int mbits = 0;
    static const char *DS[] = {"/PartType0/NumberDensity", "/PartType0/Temperature", "/PartType0/NeutralFractionH"};
    double tol = 0.;
    bool pok = true;
    for (int k = 0; k < 3; ++k) {
      pok = pok && stored_precision(snapfn, DS[k], bytes, mbits);
      // 4 units in the last stored place: rounding to the stored type plus the reader's
      // unit factors (1/U_L^3 with three divisions)
      tol = std::max(tol, 4. * std::ldexp(1., -(mbits + 1)));
    }
    if (!pok) {
      VH_VIOL("snap/file-layout", c, "dataset NumberDensity/Temperature/NeutralFractionH missing or not floating point: %s", desc);
      continue;
    }
    st.inc(bytes == 8 ? "snap_files_stored_as_double" : "snap_files_stored_as_float");
    st.maxd("snap_tolerance_used", tol);

    Cmp cmp = {0, 0, 0, 0.};
    char msg[512];
    // --- reader 1: CMacIonizeSnapshotDensityFunction, cell by cell
    {
      CMacIonizeSnapshotDensityFunction *snap = nullptr;
      bool ok = guarded([&] {
        snap = new CMacIonizeSnapshotDensityFunction(snapfn, false, false, init_frac, nullptr);
        snap->initialize();
      });
      if (!ok) {
        VH_VIOL("snap/read-abort", c, "CMacIonizeSnapshotDensityFunction aborted on a snapshot written on the same geometry: %s", desc);
      } else {
        bool fine = true;
        for (int ix = 0; ix < g.n[0] && fine; ++ix)
          for (int iy = 0; iy < g.n[1] && fine; ++iy)
            for (int iz = 0; iz < g.n[2] && fine; ++iz) {
              const CoordinateVector<> p = g.midpoint(ix, iy, iz);
              const DummyCell cell(p.x(), p.y(), p.z());
              const DensityValues v = (*snap)(cell);
              fine = compare_cell(v, salt, ix, iy, iz, mask, init_frac, tol, cmp, msg, sizeof msg);
            }
        if (!fine) VH_VIOL("snap/cell-value", c, "CMacIonizeSnapshotDensityFunction: %s; %s", msg, desc);
        st.inc("snap_reads_unbuffered");
        // as initial condition of a second grid of the same geometry
        if (fine) {
          int i[3];
          if (taskbased) {
            DensitySubGridCreator<DensitySubGrid> second(box, CoordinateVector<int_fast32_t>(g.n[0], g.n[1], g.n[2]),
                                                         CoordinateVector<int_fast32_t>(g.nsub[0], g.nsub[1], g.nsub[2]),
                                                         CoordinateVector<bool>(false));
            second.initialize(*snap);
            for (auto git = second.begin(); git != second.original_end() && fine; ++git)
              for (auto it = (*git).begin(); it != (*git).end() && fine; ++it) {
                g.index_of(it.get_cell_midpoint(), i);
                DensityValues v;
                v.set_number_density(it.get_ionization_variables().get_number_density());
                v.set_temperature(it.get_ionization_variables().get_temperature());
                for (int ion = 0; ion < NUMBER_OF_IONNAMES; ++ion)
                  v.set_ionic_fraction(ion, it.get_ionization_variables().get_ionic_fraction(ion));
                fine = compare_cell(v, salt, i[0], i[1], i[2], mask, init_frac, tol, cmp, msg, sizeof msg);
              }
          } else {
            CartesianDensityGrid second(box, CoordinateVector<int_fast32_t>(g.n[0], g.n[1], g.n[2]));
            std::pair<cellsize_t, cellsize_t> block = std::make_pair(0, second.get_number_of_cells());
            second.initialize(block, *snap);
            for (auto it = second.begin(); it != second.end() && fine; ++it) {
              g.index_of(it.get_cell_midpoint(), i);
              DensityValues v;
              v.set_number_density(it.get_ionization_variables().get_number_density());
              v.set_temperature(it.get_ionization_variables().get_temperature());
              for (int ion = 0; ion < NUMBER_OF_IONNAMES; ++ion)
                v.set_ionic_fraction(ion, it.get_ionization_variables().get_ionic_fraction(ion));
              fine = compare_cell(v, salt, i[0], i[1], i[2], mask, init_frac, tol, cmp, msg, sizeof msg);
            }
          }
          if (!fine) VH_VIOL("snap/cell-value", c, "second grid initialised from the snapshot: %s; %s", msg, desc);
          st.inc("snap_second_grids");
        }
        snap->free();
        delete snap;
      }
    }
    // --- reader 2: the buffered variant (task-based snapshots, cubic boxes and cells only)
    if (taskbased && cubic) {
      const uint_fast32_t nsubtot = g.nsub[0] * g.nsub[1] * g.nsub[2];
      const uint_fast32_t bufsize = 1 + r.below(std::min<uint64_t>(nsubtot, 4));
      BufferedCMacIonizeSnapshotDensityFunction *snap = nullptr;
      bool ok = guarded([&] {
        snap = new BufferedCMacIonizeSnapshotDensityFunction(snapfn, bufsize, box, CoordinateVector<uint_fast32_t>(g.n[0], g.n[1], g.n[2]), nullptr);
        snap->initialize();
      });
      if (!ok) {
        // diagnosis aid: the reader tests (new_top - old_anchor) < new_sides with old box == new box
        int rd = -1;
        for (int d = 0; d < 3; ++d)
          if ((g.anchor[d] + g.sides[d]) - g.anchor[d] < g.sides[d]) rd = d;
        VH_VIOL("snap/buffered-abort", c, "BufferedCMacIonizeSnapshotDensityFunction aborted on a snapshot written on the same geometry (fl(fl(anchor+side)-anchor) < side in dimension %d; -1 = none): %s", rd, desc);
      } else {
        bool fine = true;
        // two sweeps in different orders: buffer eviction and re-reading
        for (int sweep = 0; sweep < 2 && fine; ++sweep)
          for (int a = 0; a < g.n[0] && fine; ++a)
            for (int b = 0; b < g.n[1] && fine; ++b)
              for (int d = 0; d < g.n[2] && fine; ++d) {
                const int ix = sweep ? d : a, iy = b, iz = sweep ? a : d;
                const CoordinateVector<> p = g.midpoint(ix, iy, iz);
                const DummyCell cell(p.x(), p.y(), p.z());
                DensityValues v;
                bool ok2 = guarded([&] { v = (*snap)(cell); });
                if (!ok2) {
                  std::snprintf(msg, sizeof msg, "abort while reading cell (%d,%d,%d)", ix, iy, iz);
                  fine = false;
                } else
                  fine = compare_cell(v, salt, ix, iy, iz, mask, 1.e-6, tol, cmp, msg, sizeof msg);
              }
        if (!fine) VH_VIOL("snap/cell-value-buffered", c, "BufferedCMacIonizeSnapshotDensityFunction (buffer %u of %u subgrids): %s; %s",
                           (unsigned)bufsize, (unsigned)nsubtot, msg, desc);
        st.inc("snap_reads_buffered");
        snap->free();
        delete snap;
      }
    }
    st.inc("snap_cells_compared", cmp.cells);
    st.inc("snap_values_compared", cmp.values);
    st.inc("snap_values_bit_exact", cmp.exact);
    st.maxd("snap_max_rel_err", cmp.maxrel);
    st.inc("snap_grids");
    st.inc(std::string("snap_ionmask_") + (mask == 1 ? "H" : mask == 3 ? "HHe" : "all"));
    if (compress) st.inc("snap_compressed");
    if (g.nsub[0] * g.nsub[1] * g.nsub[2] > 1 && taskbased) st.inc("snap_multi_subgrid_layouts");
    if (c < 2) std::printf("SAMPLE snapshot case %" PRIu64 ": %s; stored %zu bytes/value, %" PRIu64 " values compared, %" PRIu64 " bit-exact\n", c, desc, bytes, cmp.values, cmp.exact);
    delete creator;
    delete cgrid;
    unlink(snapfn.c_str());
    unlink(pfn.c_str());
  }
  st.print();
  std::printf("DONE violations=%" PRIu64 "\n", vh::g_nviol);
  return vh::g_nviol ? 1 : 0;
}
