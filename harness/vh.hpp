// Shared helpers for the in-process verification harnesses (not part of CMacIonize).
#ifndef VERIF_VH_HPP
#define VERIF_VH_HPP
#include <cinttypes>
#include <cmath>
#include <cstdint>
#include <cstdio>
#include <cstdlib>
#include <cstring>
#include <map>
#include <string>

namespace vh {

struct Rng {
  uint64_t s;
  explicit Rng(uint64_t seed) : s(seed) {}
  uint64_t next() {
    s += 0x9E3779B97F4A7C15ull;
    uint64_t z = s;
    z = (z ^ (z >> 30)) * 0xBF58476D1CE4E5B9ull;
    z = (z ^ (z >> 27)) * 0x94D049BB133111EBull;
    return z ^ (z >> 31);
  }
  double uniform() { return (next() >> 11) * (1.0 / 9007199254740992.0); }
  double uniform(double a, double b) { return a + (b - a) * uniform(); }
  uint64_t below(uint64_t n) { return next() % n; }
  int64_t range(int64_t a, int64_t b) { return a + (int64_t)(next() % (uint64_t)(b - a + 1)); }
  bool chance(double p) { return uniform() < p; }
  double loguniform(double a, double b) { return std::exp(uniform(std::log(a), std::log(b))); }
  Rng fork(uint64_t tag) {
    Rng r(s ^ (tag * 0xD6E8FEB86659FD93ull));
    r.next();
    return Rng(r.next());
  }
};

// counters printed as "STAT name=value" at the end
struct Stats {
  std::map<std::string, uint64_t> c;
  std::map<std::string, double> mx;
  void inc(const std::string &k, uint64_t n = 1) { c[k] += n; }
  void maxd(const std::string &k, double v) {
    auto it = mx.find(k);
    if (it == mx.end() || v > it->second) mx[k] = v;
  }
  void print() const {
    for (auto &kv : c) std::printf("STAT %s=%" PRIu64 "\n", kv.first.c_str(), kv.second);
    for (auto &kv : mx) std::printf("STATD %s=%.17g\n", kv.first.c_str(), kv.second);
  }
};

static uint64_t g_nviol = 0;
static uint64_t g_viol_print_limit = 50;

// VIOL key=<key> case=<id> <free text>
#define VH_VIOL(key, caseid, ...)                                              \
  do {                                                                         \
    ++vh::g_nviol;                                                             \
    if (vh::g_nviol <= vh::g_viol_print_limit) {                               \
      std::printf("VIOL key=%s case=%" PRIu64 " ", key, (uint64_t)(caseid));   \
      std::printf(__VA_ARGS__);                                                \
      std::printf("\n");                                                       \
      std::fflush(stdout);                                                     \
    }                                                                          \
  } while (0)

inline uint64_t bits(double x) {
  uint64_t b;
  std::memcpy(&b, &x, 8);
  return b;
}
inline double from_bits(uint64_t b) {
  double x;
  std::memcpy(&x, &b, 8);
  return x;
}
inline double nextup(double x, int n = 1) {
  for (int i = 0; i < n; ++i) x = std::nextafter(x, INFINITY);
  return x;
}
inline double nextdown(double x, int n = 1) {
  for (int i = 0; i < n; ++i) x = std::nextafter(x, -INFINITY);
  return x;
}

inline uint64_t arg_u64(int argc, char **argv, const char *name, uint64_t def) {
  for (int i = 1; i + 1 < argc; ++i)
    if (!std::strcmp(argv[i], name)) return std::strtoull(argv[i + 1], nullptr, 10);
  return def;
}
inline const char *arg_str(int argc, char **argv, const char *name, const char *def) {
  for (int i = 1; i + 1 < argc; ++i)
    if (!std::strcmp(argv[i], name)) return argv[i + 1];
  return def;
}
inline double arg_f(int argc, char **argv, const char *name, double def) {
  for (int i = 1; i + 1 < argc; ++i)
    if (!std::strcmp(argv[i], name)) return std::strtod(argv[i + 1], nullptr);
  return def;
}
inline bool arg_flag(int argc, char **argv, const char *name) {
  for (int i = 1; i < argc; ++i)
    if (!std::strcmp(argv[i], name)) return true;
  return false;
}

} // namespace vh
#endif
