"""Running the real CMacIonize binary of a variant build inside a private run directory."""
import os
import shutil

import common


def binary(variant, repo=None):
    return os.path.join(common.vbuild(variant, repo=repo), "rundir", "CMacIonize")


def run_cmi(exe, rundir, args, env=None, timeout=300, threads=1):
    """Runs `CMacIonize <args> --threads N --dirty` with cwd=rundir; returns common.RunResult.
    A watchdog timeout is retried once by the caller if it wants to; here rc None == timed out."""
    os.makedirs(rundir, exist_ok=True)
    cmd = [exe] + list(args) + ["--threads", str(threads), "--dirty"]
    e = {"OMP_NUM_THREADS": str(threads)}
    if env:
        e.update(env)
    r = common.run(cmd, timeout=timeout, env=e, cwd=rundir)
    with open(os.path.join(rundir, "stdout.log"), "w") as f:
        f.write(r.out or "")
    with open(os.path.join(rundir, "stderr.log"), "w") as f:
        f.write(r.err or "")
    return r


def cleanup(rundir):
    shutil.rmtree(rundir, ignore_errors=True)
