"""Common machinery for the CMacIonize runtime-monitoring checks.

Everything a check needs that is not specific to its property: seeds, tiers,
variant builds of the repository (rebuilt from the current working tree),
harness compilation, watchdogged child processes, known findings, verdicts and
evidence files.
"""
import fcntl
import hashlib
import json
import os
import shlex
import shutil
import signal
import subprocess
import sys
import time

VERIF = os.path.dirname(os.path.dirname(os.path.abspath(__file__)))
REPO = os.environ.get("CMI_REPO", "/repo")
GUARD = "CMACIONIZE_VERIF"
NCPU = os.cpu_count() or 4

EXIT_OK, EXIT_VIOLATION, EXIT_INCONCLUSIVE = 0, 1, 2


def seed():
    try:
        return int(os.environ.get("VERIF_SEED", "1"))
    except ValueError:
        return 1


def tier(argv=None):
    t = os.environ.get("VERIF_TIER", "")
    argv = sys.argv if argv is None else argv
    if "--tier" in argv:
        t = argv[argv.index("--tier") + 1]
    return "thorough" if t == "thorough" else "quick"


class SplitMix64:
    """Deterministic PRNG used for every random choice (derived from VERIF_SEED)."""

    M = (1 << 64) - 1

    def __init__(self, s):
        self.s = s & self.M

    def next(self):
        self.s = (self.s + 0x9E3779B97F4A7C15) & self.M
        z = self.s
        z = ((z ^ (z >> 30)) * 0xBF58476D1CE4E5B9) & self.M
        z = ((z ^ (z >> 27)) * 0x94D049BB133111EB) & self.M
        return z ^ (z >> 31)

    def uniform(self, a=0.0, b=1.0):
        return a + (b - a) * ((self.next() >> 11) / float(1 << 53))

    def randint(self, a, b):  # inclusive
        return a + self.next() % (b - a + 1)

    def choice(self, seq):
        return seq[self.next() % len(seq)]

    def chance(self, p):
        return self.uniform() < p

    def loguniform(self, a, b):
        import math
        return math.exp(self.uniform(math.log(a), math.log(b)))

    def shuffle(self, lst):
        for i in range(len(lst) - 1, 0, -1):
            j = self.next() % (i + 1)
            lst[i], lst[j] = lst[j], lst[i]

    def fork(self, tag):
        h = hashlib.sha256(("%d/%s" % (self.s, tag)).encode()).digest()
        return SplitMix64(int.from_bytes(h[:8], "little"))


# --------------------------------------------------------------------------
# builds
# --------------------------------------------------------------------------

COMMON_W = "-Wno-error -Wno-cpp"
VARIANTS = {
    # name: (CXX, CC, flags, extra cmake args)
    "hooks": ("g++", "gcc", "-O2 -g -D%s %s" % (GUARD, COMMON_W), []),
    "asan": ("g++", "gcc",
             "-O1 -g -fno-omit-frame-pointer -fsanitize=address,undefined "
             "-fno-sanitize-recover=all -D%s %s" % (GUARD, COMMON_W), []),
    "tsan": ("clang++-14", "clang-14",
             "-O1 -g -fno-inline -fno-omit-frame-pointer -fsanitize=thread -D%s %s "
             "-Wno-unknown-warning-option -Wno-unused-command-line-argument"
             % (GUARD, COMMON_W), []),
    # the project's own configuration, guard OFF (baseline)
    "plain": ("g++", "gcc", "-O2 -g -DNDEBUG %s" % COMMON_W, []),
}


def _hash_tree(repo):
    """Per-file content hashes of everything that goes into a build."""
    files = {}
    roots = ["src", "test", "data", "c", "timing", "benchmarks"]
    for r in roots:
        for dp, dn, fn in os.walk(os.path.join(repo, r)):
            dn.sort()
            for f in sorted(fn):
                p = os.path.join(dp, f)
                try:
                    with open(p, "rb") as fh:
                        files[os.path.relpath(p, repo)] = hashlib.sha256(fh.read()).hexdigest()
                except OSError:
                    pass
    for f in ["CMakeLists.txt", "write_compiler_info.cmake"]:
        p = os.path.join(repo, f)
        if os.path.exists(p):
            files[f] = hashlib.sha256(open(p, "rb").read()).hexdigest()
    return files


def tree_hash(repo=None):
    files = _hash_tree(repo or REPO)
    h = hashlib.sha256()
    for k in sorted(files):
        h.update(k.encode()); h.update(files[k].encode())
    return h.hexdigest()[:16]


def build_root():
    return os.environ.get("CMI_BUILD_ROOT", os.path.join(VERIF, ".build"))


def build_dir(variant, repo=None):
    repo = os.path.realpath(repo or REPO)
    tag = hashlib.sha256(repo.encode()).hexdigest()[:8]
    return os.path.join(build_root(), "%s-%s" % (variant, tag))


class BuildError(Exception):
    pass


def _run_logged(cmd, cwd, log, env=None, timeout=3600):
    with open(log, "ab") as lf:
        lf.write(("\n$ " + " ".join(shlex.quote(c) for c in cmd) + "\n").encode())
        lf.flush()
        p = subprocess.run(cmd, cwd=cwd, stdout=lf, stderr=subprocess.STDOUT, env=env, timeout=timeout)
    return p.returncode


def vbuild(variant, targets=("CMacIonize",), repo=None, quiet=False):
    """Configure+build `targets` of the repository working tree in `variant`.

    Rebuilds whenever the working tree content differs from what the build
    directory was last built from (content hashes, not only mtimes)."""
    repo = os.path.realpath(repo or REPO)
    cxx, cc, flags, extra = VARIANTS[variant]
    bdir = build_dir(variant, repo)
    os.makedirs(bdir, exist_ok=True)
    lockf = open(os.path.join(bdir, ".lock"), "w")
    fcntl.flock(lockf, fcntl.LOCK_EX)
    try:
        stamp = os.path.join(bdir, ".verif_stamp.json")
        log = os.path.join(bdir, "verif_build.log")
        files = _hash_tree(repo)
        old = {}
        if os.path.exists(stamp):
            try:
                old = json.load(open(stamp))
            except Exception:
                old = {}
        key = {"flags": flags, "cxx": cxx, "repo": repo}
        have_targets = set(old.get("targets", []))
        if (old.get("files") == files and old.get("key") == key
                and set(targets) <= have_targets):
            return bdir
        t0 = time.time()
        wipe = old.get("key") != key
        if not wipe and old.get("files"):
            st = old.get("time", 0)
            for f, h in files.items():
                if old["files"].get(f) != h:
                    try:
                        if os.path.getmtime(os.path.join(repo, f)) < st - 1:
                            wipe = True  # content changed but mtime is old: ninja would miss it
                    except OSError:
                        pass
            for f in old["files"]:
                if f not in files:
                    wipe = True
        if wipe or not os.path.exists(os.path.join(bdir, "build.ninja")):
            for e in os.listdir(bdir):
                if e in (".lock",):
                    continue
                p = os.path.join(bdir, e)
                shutil.rmtree(p) if os.path.isdir(p) and not os.path.islink(p) else os.remove(p)
            cm = ["cmake", "-G", "Ninja", "-S", repo, "-B", bdir,
                  "-DCMAKE_BUILD_TYPE=Verif",
                  "-DCMAKE_CXX_FLAGS_VERIF=" + flags,
                  "-DCMAKE_C_FLAGS_VERIF=" + flags.replace("-Wno-cpp", ""),
                  "-DCMAKE_CXX_COMPILER=" + cxx, "-DCMAKE_C_COMPILER=" + cc,
                  "-DCMAKE_EXPORT_COMPILE_COMMANDS=ON"] + list(extra)
            if _run_logged(cm, bdir, log) != 0:
                raise BuildError("cmake configure failed for %s, see %s" % (variant, log))
        if not quiet:
            print("[vbuild] building %s (%s) in %s" % (variant, ",".join(targets), bdir), flush=True)
        rc = _run_logged(["ninja", "-C", bdir, "-j", str(NCPU)] + list(targets), bdir, log)
        if rc != 0:
            raise BuildError("build failed for %s, see %s" % (variant, log))
        if old.get("files") == files and old.get("key") == key:
            targets = sorted(have_targets | set(targets))
        json.dump({"files": files, "key": key, "time": t0, "targets": list(targets),
                   "tree": tree_hash(repo)}, open(stamp, "w"))
        if not quiet:
            print("[vbuild] %s done in %.0f s" % (variant, time.time() - t0), flush=True)
        return bdir
    finally:
        fcntl.flock(lockf, fcntl.LOCK_UN)
        lockf.close()


def _compile_flags(bdir):
    """Compile flags and link libraries CMake uses for the CMacIonize target."""
    cc = json.load(open(os.path.join(bdir, "compile_commands.json")))
    entry = [e for e in cc if e["file"].endswith("/src/CMacIonize.cpp")][0]
    toks = shlex.split(entry["command"])
    cxx = toks[0]
    flags, skip = [], False
    for t in toks[1:]:
        if skip:
            skip = False
            continue
        if t in ("-o", "-c", "-MF", "-MT"):
            skip = True
            continue
        if t == "-MD":
            continue
        flags.append(t)
    libs = []
    with open(os.path.join(bdir, "build.ninja")) as f:
        inblock = False
        for line in f:
            if line.startswith("build rundir/CMacIonize:"):
                inblock = True
            elif inblock and line.strip().startswith("LINK_LIBRARIES"):
                libs = shlex.split(line.split("=", 1)[1])
                break
            elif inblock and not line.strip():
                inblock = False
    libs = [os.path.join(bdir, l) if l.startswith("lib/") else l for l in libs]
    return cxx, flags, libs


def build_harness(name, variant="hooks", extra_flags=(), repo=None, link_libs=True, std=None):
    """Compile harness/<name>.cpp against the variant build of the repo."""
    repo = os.path.realpath(repo or REPO)
    bdir = vbuild(variant, repo=repo)
    src = os.path.join(VERIF, "harness", name + ".cpp")
    cxx, flags, libs = _compile_flags(bdir)
    if std:
        flags = [f for f in flags if not f.startswith("-std=")] + ["-std=" + std]
    h = hashlib.sha256()
    h.update(open(src, "rb").read())
    for inc in sorted(os.listdir(os.path.join(VERIF, "harness"))):
        if inc.endswith(".hpp"):
            h.update(open(os.path.join(VERIF, "harness", inc), "rb").read())
    h.update(json.load(open(os.path.join(bdir, ".verif_stamp.json")))["tree"].encode())
    h.update(" ".join(list(extra_flags) + flags).encode())
    outd = os.path.join(bdir, "harness")
    os.makedirs(outd, exist_ok=True)
    exe = os.path.join(outd, "%s-%s" % (name, h.hexdigest()[:12]))
    if os.path.exists(exe):
        return exe
    for old in os.listdir(outd):
        if old.startswith(name + "-"):
            try:
                os.remove(os.path.join(outd, old))
            except OSError:
                pass
    cmd = [cxx] + flags + ["-I" + os.path.join(VERIF, "harness")] + list(extra_flags) + [src, "-o", exe + ".tmp"]
    if link_libs:
        cmd += libs + libs  # static libs twice: circular references
    cmd += ["-lpthread", "-ldl"]
    log = os.path.join(outd, name + ".log")
    open(log, "w").close()
    if _run_logged(cmd, outd, log) != 0:
        raise BuildError("harness %s failed to compile (%s), see %s\n%s" % (name, variant, log, open(log).read()[-3000:]))
    os.rename(exe + ".tmp", exe)
    return exe


# --------------------------------------------------------------------------
# child processes with a watchdog
# --------------------------------------------------------------------------

class RunResult:
    def __init__(self, rc, out, err, wall, timed_out):
        self.rc, self.out, self.err, self.wall, self.timed_out = rc, out, err, wall, timed_out

    @property
    def signal(self):
        return -self.rc if self.rc is not None and self.rc < 0 else 0


def run(cmd, timeout=600, env=None, cwd=None, stdin=None, text=True):
    """Run a child; on timeout kill the whole process group. rc None == timed out."""
    e = dict(os.environ)
    if env:
        e.update(env)
    t0 = time.time()
    p = subprocess.Popen(cmd, cwd=cwd, env=e, stdin=subprocess.PIPE if stdin is not None else subprocess.DEVNULL,
                         stdout=subprocess.PIPE, stderr=subprocess.PIPE, text=text, start_new_session=True)
    try:
        out, err = p.communicate(stdin, timeout=timeout)
        return RunResult(p.returncode, out, err, time.time() - t0, False)
    except subprocess.TimeoutExpired:
        try:
            os.killpg(p.pid, signal.SIGKILL)
        except OSError:
            pass
        out, err = p.communicate()
        return RunResult(None, out, err, time.time() - t0, True)


def run_dir(prop):
    d = os.path.join(os.environ.get("CMI_RUN_ROOT", os.path.join(VERIF, ".run")),
                     "%s-%d-%d" % (prop, os.getpid(), int(time.time())))
    os.makedirs(d, exist_ok=True)
    return d


# --------------------------------------------------------------------------
# known findings, verdicts, evidence
# --------------------------------------------------------------------------

def load_known(prop):
    """Open findings of a property: key -> record.  'fixed' records suppress nothing."""
    path = os.path.join(VERIF, "known_findings.jsonl")
    known = {}
    if os.path.exists(path):
        for line in open(path):
            line = line.strip()
            if not line or line.startswith("#"):
                continue
            r = json.loads(line)
            if r.get("property") == prop and r.get("status") == "open":
                known[r["key"]] = r
    return known


class Check:
    """Collects violations/evidence of one check run and produces the verdict."""

    def __init__(self, prop, level="exploration"):
        self.prop = prop
        self.level = level
        self.t0 = time.time()
        self.tier = tier()
        self.seed = seed()
        self.violations = []   # (key, what, replay dict)
        self.inconclusive = []
        self.coverage = {"evaluations": 0, "distinct_nontrivial": 0, "rule": "", "samples": []}
        self.assumptions = []
        self.known = load_known(prop)
        self._rundir = None

    def rundir(self):
        if self._rundir is None:
            self._rundir = run_dir(self.prop)
        return self._rundir

    def violation(self, key, what, replay=None):
        """key: oracle clause / regime signature used for known-finding matching."""
        if len(self.violations) < 200:
            self.violations.append((key, what, replay or {}))
        else:
            self.violations.append((key, what, None))

    def inconclusive_because(self, why):
        self.inconclusive.append(why)

    def require_nonzero(self, **counters):
        for k, v in counters.items():
            if not v:
                self.inconclusive_because("coverage counter %s is zero" % k)

    def add_sample(self, s, maxn=5):
        if len(self.coverage["samples"]) < maxn:
            self.coverage["samples"].append(s)

    def finish(self):
        fresh, reported_known = [], {}
        for key, what, rp in self.violations:
            if key in self.known:
                reported_known.setdefault(key, what)
            else:
                fresh.append((key, what, rp))
        for key, what in reported_known.items():
            print("KNOWN-FINDING: property=%s %s: %s" % (self.prop, key, self.known[key].get("what", what)))
        rc = EXIT_OK
        if fresh:
            rc = EXIT_VIOLATION
            vd = os.path.join(VERIF, ".run", "violations")
            os.makedirs(vd, exist_ok=True)
            seen = set()
            for i, (key, what, rp) in enumerate(fresh):
                if key in seen and i >= 10:
                    continue
                seen.add(key)
                path = os.path.join(vd, "%s-%s-seed%d-%d.json" % (self.prop, self.tier, self.seed, i))
                json.dump({"property": self.prop, "key": key, "what": what, "seed": self.seed,
                           "tier": self.tier, "replay": rp}, open(path, "w"), indent=1, default=str)
                print("VIOLATION property=%s replay=%s" % (self.prop, path))
                print("  key=%s  %s" % (key, what))
        elif self.inconclusive:
            rc = EXIT_INCONCLUSIVE
            for w in self.inconclusive:
                print("INCONCLUSIVE property=%s: %s" % (self.prop, w))
        ev = {
            "property_id": self.prop, "tier": self.tier, "seed": self.seed, "level": self.level,
            "coverage": self.coverage, "assumptions": self.assumptions,
            "wall_s": round(time.time() - self.t0, 2), "violations": len(fresh),
        }
        ev["coverage"]["known_findings_reported"] = sorted(reported_known)
        ev["coverage"]["inconclusive"] = self.inconclusive
        ev["coverage"]["repo_tree"] = tree_hash()
        # mutation/seeded runs (tools/seed_eval.py) redirect their evidence so that evidence/ always describes /repo itself
        evdir = os.environ.get("CMI_EVIDENCE_DIR", os.path.join(VERIF, "evidence"))
        os.makedirs(evdir, exist_ok=True)
        tmp = os.path.join(evdir, self.prop + ".json.tmp")
        json.dump(ev, open(tmp, "w"), indent=1, default=str)
        os.replace(tmp, os.path.join(evdir, self.prop + ".json"))
        if rc == EXIT_OK and self._rundir and not os.environ.get("CMI_KEEP_RUN"):
            shutil.rmtree(self._rundir, ignore_errors=True)
        print("[%s] tier=%s seed=%d evaluations=%d distinct=%d violations=%d known=%d wall=%.1fs -> exit %d" % (
            self.prop, self.tier, self.seed, self.coverage.get("evaluations", 0),
            self.coverage.get("distinct_nontrivial", 0), len(fresh), len(reported_known),
            time.time() - self.t0, rc))
        sys.exit(rc)


def parse_kv_lines(text, prefix):
    """Parse 'PREFIX k=v k=v ...' lines emitted by harnesses."""
    out = []
    for line in text.splitlines():
        if line.startswith(prefix + " "):
            d = {}
            for tok in shlex.split(line[len(prefix) + 1:]):
                if "=" in tok:
                    k, v = tok.split("=", 1)
                    d[k] = v
            out.append(d)
    return out
