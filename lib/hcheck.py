"""Generic driver for in-process harness checks.

A harness prints
  VIOL key=<k> case=<n> free text      one line per violation (oracle clause = key)
  STAT name=<int> / STATD name=<float> monitor counters
  SAMPLE free text                     written-out cases
  DONE violations=<n>
and exits 0/1.  Anything else (signal, timeout, no DONE line) is a harness
failure unless the check declares the abort itself a violation.
"""
import concurrent.futures as cf
import os
import re
import shlex

import common


def parse(out):
    viols, stats, statd, samples, done = [], {}, {}, [], False
    for line in out.splitlines():
        if line.startswith("VIOL "):
            m = re.match(r"VIOL key=(\S+) case=(\S+) ?(.*)", line)
            if m:
                viols.append((m.group(1), m.group(2), m.group(3)))
        elif line.startswith("STAT "):
            k, v = line[5:].split("=", 1)
            stats[k] = stats.get(k, 0) + int(v)
        elif line.startswith("STATD "):
            k, v = line[6:].split("=", 1)
            statd[k] = max(statd.get(k, float("-inf")), float(v))
        elif line.startswith("SAMPLE "):
            samples.append(line[7:])
        elif line.startswith("DONE"):
            done = True
    return viols, stats, statd, samples, done


def run_shards(chk, exe, base_args, shards, timeout, env=None, seed_arg="--seed", abort_key=None,
               prefix_cmd=(), hang_key=None, max_workers=None, deadlock_key=None):
    """Run `shards` copies of the harness with derived seeds; merge results into chk.

    Returns (stats, statd).  abort_key: if set, a child that dies on a signal is a
    violation with that key (the property forbids aborting); otherwise a harness failure.
    hang_key: if set, a shard that exceeds the watchdog twice is a violation with that key.  Only for harnesses whose
    work per case is bounded and whose watchdog is set far (>= 20x) above the measured run time, so that exceeding it
    twice means the code under test stopped terminating (bounded-progress restatement of "always terminates").
    deadlock_key: if set, exit status 97 (raised by the hook detectors inside the code under test) is a violation."""
    stats, statd = {}, {}
    jobs = []
    for i in range(shards):
        s = chk.seed * 100003 + i
        jobs.append((i, s, list(prefix_cmd) + [exe] + list(base_args) + [seed_arg, str(s)]))

    def one(job):
        i, s, cmd = job
        r = common.run(cmd, timeout=timeout, env=env)
        if r.timed_out:  # watchdog: inconclusive; retry once
            r = common.run(cmd, timeout=timeout, env=env)
        return job, r

    # max_workers: harnesses that start many busy-waiting threads themselves must not be oversubscribed (a spinning
    # thread whose partner is descheduled makes the run time unpredictable and the watchdog meaningless)
    with cf.ThreadPoolExecutor(max_workers=max_workers or min(common.NCPU, max(1, shards))) as ex:
        for (i, s, cmd), r in ex.map(one, jobs):
            viols, st, sd, samples, done = parse(r.out)
            for k, v in st.items():
                stats[k] = stats.get(k, 0) + v
            for k, v in sd.items():
                statd[k] = max(statd.get(k, float("-inf")), v)
            for smp in samples:
                chk.add_sample(smp)
            cmdline = " ".join(shlex.quote(c) for c in cmd)
            for key, case, text in viols:
                chk.violation(key, text, {"cmd": cmdline + " --only " + case, "case": case, "shard_seed": s})
            if r.timed_out and hang_key:
                chk.violation(hang_key, "no termination: watchdog (%ds, normal run time is a small fraction of it) fired twice for: %s" % (timeout, cmdline),
                              {"cmd": cmdline})
            elif r.timed_out:
                chk.inconclusive_because("watchdog (%ds) fired twice for: %s" % (timeout, cmdline))
            elif r.rc == 97 and deadlock_key:
                # the hooks' own logical detectors (a blocking lock that was not obtained in CMI_VERIF_LOCK_SPINS
                # consecutive attempts, or a permanent no-progress state) end the process with status 97
                chk.violation(deadlock_key, "the code under test stopped making progress: %s | %s" % ((r.err or "").strip()[-300:], cmdline),
                              {"cmd": cmdline})
            elif r.rc not in (0, 1) or not done:
                tail = (r.err or "")[-1500:]
                if abort_key and r.rc is not None and r.rc < 0:
                    chk.violation(abort_key, "harness process died with signal %d: %s" % (-r.rc, tail[-400:]),
                                  {"cmd": cmdline})
                else:
                    chk.inconclusive_because("harness failure rc=%s: %s\n%s" % (r.rc, cmdline, tail))
            elif r.rc == 1 and not viols:
                chk.inconclusive_because("harness exit 1 without VIOL line: %s" % cmdline)
    return stats, statd
